(* C19 — Paginators yield every item exactly once, in order.
   Property theorems only: each is closed by [exact] of a lemma of Proofs.v and followed by Print Assumptions.
   Model: GU.C19.Model (mirrors pagination.go / stream.go), tied to the code by the correspondence runs of harness/cmd/c19. *)
From Coq Require Import List ZArith Bool Lia.
Import ListNotations.
From GU Require Import C19.Model C19.IR C19.Gen C19.Interp C19.Proofs C19.ProofsTimed C19.ProofsGen.

(* Refinement: for every state of a static/dynamic paginator and EVERY sequence of HasNext/GetNext/Stop/Close calls,
   the observable outputs are those of a cursor into "the items of the current iterator followed by the items of all
   pages up to the first page that cannot be fetched" — which is [concat pages] when no fetch fails. *)
Theorem paginator_refines_cursor : forall e s ops,
  fst (run false e s ops) = spec_run (remaining s, cancelled s) ops.
Proof. exact paginator_refines_cursor_l. Qed.
Print Assumptions paginator_refines_cursor.

(* The canonical loop  for HasNext { GetNext }  yields exactly the concatenation of the pages, in order,
   and terminates, for every partition into pages (empty pages anywhere, empty collection). *)
Theorem drain_yields_concat : forall e items r futs s fuel,
  all_good r = true -> init (Page items :: r) futs = Some s ->
  length (concat_pages (Page items :: r)) < fuel ->
  drain false e fuel s = (concat_pages (Page items :: r), true).
Proof.
  intros e items r futs s fuel Hg Hi Hf. simpl in Hi. inversion Hi; subst s; clear Hi.
  rewrite drain_plain; simpl; unfold remaining; simpl; rewrite ?good_items_all_good by assumption; auto.
Qed.
Print Assumptions drain_yields_concat.

(* Whatever the mix of calls, the items yielded so far are the first j items of the collection, j = number of
   successful GetNext; with a failing page fetch: of the pages before it (fetch_failure_stops). *)
Theorem any_call_mix_is_prefix : forall e s ops,
  let ys := items_of (fst (run false e s ops)) in
  ys = firstn (length ys) (remaining s).
Proof. intros e s ops. cbv zeta. rewrite paginator_refines_cursor_l. exact (spec_items_prefix ops _ _). Qed.
Print Assumptions any_call_mix_is_prefix.

(* After Stop / Close (cancellation) nothing more is yielded: every later answer is false / cancelled. *)
Theorem after_stop_nothing : forall e s before after,
  let outs := fst (run false e s (before ++ [Stop] ++ after)) in
  Forall (fun o => o = OBool false \/ o = OErr ECancelled \/ o = OUnit)
         (skipn (length before + 1) outs).
Proof.
  intros e s before after. cbv zeta. rewrite paginator_refines_cursor_l.
  rewrite spec_run_app. rewrite skipn_app.
  assert (L : forall q ops, length (spec_run q ops) = length ops).
  { intros q ops; revert q; induction ops as [|o os IH]; intros q; simpl; [reflexivity|].
    destruct (spec_step q o); simpl; now rewrite IH. }
  rewrite L. rewrite skipn_all2 by (rewrite L; auto with arith). simpl.
  replace (length before + 1 - length before) with 1 by (clear; induction (length before); simpl; auto).
  destruct (spec_state (remaining s, cancelled s) before) as [l c]. simpl.
  apply spec_cancelled_yields_nothing.
Qed.
Print Assumptions after_stop_nothing.

(* Streams: as long as the stream has not been told to dry up (or the grace period has not elapsed), the paginator
   is a cursor over the current AND all future pages: items of future pages keep coming. *)
Theorem stream_keeps_going : forall e s ops,
  cancelled s = false -> dry s = false -> good_futures (futures s) = true ->
  (e = false \/ no_dryup ops = true) ->
  fst (run true e s ops) = spec_run (sremaining s, false) ops.
Proof.
  intros e s ops Hc Hd Hg Ho. apply srun_refines; [|exact Ho].
  split; simpl; [exact Hc|]. intros _. rewrite Hd. auto.
Qed.
Print Assumptions stream_keeps_going.

(* ... and once it is dry and the grace period has elapsed, future pages are no longer waited for. *)
Theorem stream_stops_when_dry : forall s,
  dry s = true -> cancelled s = false -> stream_has_next true s = abs_has_next s.
Proof. exact stream_dry_elapsed_is_plain. Qed.
Print Assumptions stream_stops_when_dry.

(* The grace period, with time made explicit (timed model Model.tloop: one clock reading per polling iteration, DryUp
   possibly arriving while HasNext is blocked in its loop).  The stream paginator gives up waiting for future pages ONLY
   at a reading taken after DryUp whose clock is at least timeOut later than the last poll made while the stream was
   still live ([last_live]: the grace period is counted from the drying-up notice, not from the last item yielded) ... *)
Theorem stream_grace_counts_from_last_live_poll : forall futs T reach i r env s',
  tloop T reach i r futs env = (TExpired, s') ->
  exists pre now post, env = pre ++ (now, true) :: post /\ t_env s' = post /\
                       t_reach s' = last_live reach pre /\ (T <= now - last_live reach pre)%Z.
Proof. exact tloop_expired. Qed.
Print Assumptions stream_grace_counts_from_last_live_poll.

(* ... and as long as every reading after DryUp is within that period, the timed loop IS the untimed loop with
   "grace not elapsed" (to which stream_keeps_going applies): items of future pages keep coming. *)
Theorem stream_within_grace_keeps_going : forall futs T reach i r env d0,
  within_grace T reach env -> (length futs < length env)%nat ->
  let '(t, s') := tloop T reach i r futs env in
  let '(b, (i', r', f')) := stream_loop false d0 false i r futs in
  tres_bool t = b /\ t <> TExpired /\ t <> TEnvExhausted /\ t_it s' = i' /\ t_rest s' = r' /\ t_futs s' = f'.
Proof. exact tloop_within_grace. Qed.
Print Assumptions stream_within_grace_keeps_going.

(* ---- The code AS TRANSLATED FROM THE SOURCE on this run (coq/C19/Gen.v: the bodies of AbstractPaginator.HasNext,
   fetchNextPage, setCurrentPage, SetCurrentPage, GetNext and of the loop of AbstractStreamPaginator.HasNext as statement
   lists of the IR of C19/IR.v, interpreted by C19/Interp.v).  An edit of those functions changes the generated lists (or
   makes the translator fail), so these theorems are re-proved against what the code says now.
   First: interpreted with enough fuel (one unit per page reachable through next links, resp. per future segment, plus
   one — the recursion `return a.HasNext()` and the loop terminate), the generated bodies ARE the model's functions. *)
Theorem generated_code_is_the_model : forall e s,
  gen_abs_has_next (abs_fuel s) s = abs_has_next s /\
  gen_abs_get_next s = get_next false e s /\
  gen_stream_has_next (stream_fuel s) e s = stream_has_next e s.
Proof.
  intros e s. split; [apply gen_abs_has_next_is_model'|]. split; [apply gen_abs_get_next_is_model|].
  apply gen_stream_has_next_is_model'.
Qed.
Print Assumptions generated_code_is_the_model.

(* ... hence the refinement to the cursor specification holds of the generated code: for EVERY state and EVERY sequence of
   HasNext / GetNext / Stop / Close calls the paginator assembled from the translated bodies behaves as a cursor into the
   items of the pages. *)
Theorem generated_paginator_refines_cursor : forall s ops,
  fst (gen_run_plain s ops) = spec_run (remaining s, cancelled s) ops.
Proof. intros s ops. rewrite (gen_run_plain_is_model false). apply paginator_refines_cursor_l. Qed.
Print Assumptions generated_paginator_refines_cursor.

(* ... and the generated stream HasNext keeps following future pages while the stream is not dry / within its grace
   period: it finds the next item wherever it is (current page, next chain, any future segment). *)
Theorem generated_stream_has_next_finds_future_items : forall e s b s',
  cancelled s = false -> dry s && e = false -> good_futures (futures s) = true ->
  gen_stream_has_next (stream_fuel s) e s = (b, s') ->
  sremaining s' = sremaining s /\ (if b then exists x xs, it s' = Some (x :: xs) else sremaining s = []).
Proof.
  intros e s b s' Hc Hd Hg H. rewrite gen_stream_has_next_is_model' in H.
  destruct (stream_has_next_spec e s b s' Hc Hd Hg H) as (_ & _ & _ & H4 & H5). auto.
Qed.
Print Assumptions generated_stream_has_next_finds_future_items.

(* Constructor failures are reported as errors (model side; the implementation side is the harness oracle,
   which found the static paginator returning (nil, nil) before the fix). *)
Theorem constructor_reports_failure : forall pages futs,
  match pages with Page _ :: _ => False | _ => True end -> init pages futs = None.
Proof. exact init_reports_failure. Qed.
Print Assumptions constructor_reports_failure.

(* Non-vacuity: a concrete collection with empty pages and a mixed call sequence. *)
Example c19_nonvacuous :
  exists s, init [Page [1;2]; Page []; Page [3]]%Z [] = Some s /\
            drain false false 10 s = ([1;2;3]%Z, true) /\
            items_of (fst (run false false s [GetNext; HasNext; HasNext; GetNext; GetNext; GetNext])) = [1;2;3]%Z.
Proof. eexists; split; [reflexivity|]; split; reflexivity. Qed.
Example c19_stream_nonvacuous :
  exists s, init [Page [1]]%Z [[Page [2]; Page [3]]; [Page []; Page [4]]]%Z = Some s /\
            good_futures (futures s) = true /\
            drain true false 10 s = ([1;2;3;4]%Z, true).
Proof. eexists; split; [reflexivity|]; split; reflexivity. Qed.

(* Non-vacuity of the timed theorems: idle (polling) for 900 ms with a 600 ms grace period, DryUp at 900, an item in a
   future page at 1000: it is yielded; the same item at 2800 is not (the loop expires at the first reading >= 1500). *)
Example c19_timed_nonvacuous :
  let env := map (fun k => (Z.of_nat k * 100, (9 <=? Z.of_nat k)))%Z (seq 0 40) in
  within_grace 600 0 (firstn 12 env) /\
  fst (tloop 600 0 (Some []) [] (repeat [Page []] 10 ++ [[Page [7]]])%Z (firstn 12 env)) = TTrue /\
  fst (tloop 600 0 (Some []) [] (repeat [Page []] 28 ++ [[Page [7]]])%Z env) = TExpired.
Proof.
  cbv zeta. split; [|split; vm_compute; reflexivity].
  intros pre now post He.
  assert (Hl : (length pre < 12)%nat).
  { apply (f_equal (@length _)) in He. rewrite app_length in He. simpl in He.
    lia. }
  do 12 (destruct pre as [|? pre]; [vm_compute in He; inversion He; subst; vm_compute; reflexivity|]).
  simpl in Hl. lia.
Qed.
