(* C02 — the model instantiated with the facts regenerated from the source (Gen.v): the correspondence check runs on it. *)
From Coq Require Import List Bool.
From GU Require Import C02.Path C02.Model C02.Gen.

Definition check_case (c : case) : bool := check_case_f generated c.
