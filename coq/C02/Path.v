(* C02 — component-level model of Go's path/filepath on POSIX ('/' is the only separator; volume names are empty).
   Definitions only (lemmas are in PathLemmas.v).  Every function is compared with the Go standard library on every run
   (correspondence cases [CPath], harness/cmd/c02).
   Byte strings are lists of Z (0..255), as printed by the harness. *)
From Coq Require Import List ZArith Bool.
Import ListNotations.
Local Open Scope Z_scope.

Definition bytes := list Z.
Definition slash : Z := 47.
Definition dot : Z := 46.
Definition dotdot : bytes := [dot; dot].

Fixpoint beqb (a b : bytes) : bool :=
  match a, b with
  | [], [] => true
  | x :: a', y :: b' => (x =? y) && beqb a' b'
  | _, _ => false
  end.

Fixpoint has_prefix (pre s : bytes) : bool :=     (* strings.HasPrefix(s, pre) *)
  match pre, s with
  | [], _ => true
  | x :: pre', y :: s' => (x =? y) && has_prefix pre' s'
  | _ :: _, [] => false
  end.

Fixpoint cut_prefix (pre s : bytes) : option bytes :=   (* strings.CutPrefix(s, pre) *)
  match pre, s with
  | [], _ => Some s
  | x :: pre', y :: s' => if x =? y then cut_prefix pre' s' else None
  | _ :: _, [] => None
  end.

Fixpoint contains (sub s : bytes) : bool :=       (* strings.Contains(s, sub) *)
  has_prefix sub s || match s with [] => false | _ :: s' => contains sub s' end.

Fixpoint mem (p : bytes) (l : list bytes) : bool :=
  match l with [] => false | q :: l' => beqb p q || mem p l' end.

(* strings.Split(s, "/"): never empty *)
Fixpoint split (s : bytes) : list bytes :=
  match s with
  | [] => [[]]
  | c :: s' =>
      if c =? slash then [] :: split s'
      else match split s' with
           | [] => [[c]]
           | w :: ws => (c :: w) :: ws
           end
  end.

Fixpoint join_slash (cs : list bytes) : bytes :=  (* strings.Join(cs, "/") *)
  match cs with
  | [] => []
  | [c] => c
  | c :: cs' => c ++ slash :: join_slash cs'
  end.

Definition rooted (s : bytes) : bool := match s with c :: _ => c =? slash | [] => false end.

Definition skip (c : bytes) : bool := beqb c [] || beqb c [dot].       (* "" and "." elements vanish *)
Definition is_dotdot (c : bytes) : bool := beqb c dotdot.

(* One element of the lexical processing of filepath.Clean (path.go Clean, the loop over r): the stack is kept
   reversed (head = last element written).  ".." backtracks over an ordinary element, is dropped at the root and is
   kept when the output is empty or ends with ".." (the "dotdot" marker of Clean) in a relative path. *)
Definition step (rt : bool) (stk : list bytes) (c : bytes) : list bytes :=
  if skip c then stk
  else if is_dotdot c then
    match stk with
    | top :: stk' => if is_dotdot top then c :: stk else stk'
    | [] => if rt then [] else [c]
    end
  else c :: stk.

Definition run (rt : bool) (stk : list bytes) (cs : list bytes) : list bytes := fold_left (step rt) cs stk.
Definition norm (rt : bool) (cs : list bytes) : list bytes := rev (run rt [] cs).

(* lexical resolution of a path: the elements that remain (a rooted path never keeps "..") *)
Definition resolve (s : bytes) : list bytes := norm (rooted s) (split s).

(* filepath.Clean *)
Definition clean (s : bytes) : bytes :=
  match s with
  | [] => [dot]
  | _ => let n := resolve s in
         if rooted s then slash :: join_slash n
         else match n with [] => [dot] | _ => join_slash n end
  end.

(* filepath.Join(a, b) (path_unix.go join: the first non-empty element onwards is joined with "/" and cleaned) *)
Definition join2 (a b : bytes) : bytes :=
  match a, b with
  | [], [] => []
  | [], _ => clean b
  | _, _ => clean (a ++ slash :: b)
  end.

(* the prefix of s up to and including its last '/' (filepath.Split's dir) *)
Fixpoint dir_raw (s : bytes) : bytes :=
  match s with
  | [] => []
  | c :: s' => let r := dir_raw s' in
               if c =? slash then c :: r else match r with [] => [] | _ => c :: r end
  end.

(* filepath.Dir *)
Definition dir (s : bytes) : bytes := clean (dir_raw s).

Fixpoint strip_trailing_slashes_rev (r : bytes) : bytes :=
  match r with c :: r' => if c =? slash then strip_trailing_slashes_rev r' else r | [] => [] end.

(* filepath.Base *)
Definition base (s : bytes) : bytes :=
  match s with
  | [] => [dot]
  | _ => let t := rev (strip_trailing_slashes_rev (rev s)) in
         match t with
         | [] => [slash]
         | _ => last (split t) []
         end
  end.

(* suffix of the last element starting at its last '.', "" if none (filepath.Ext scans back to the last '/') *)
Fixpoint ext_of_elem (e : bytes) : bytes :=
  match e with
  | [] => []
  | c :: e' => match ext_of_elem e' with
               | [] => if c =? dot then e else []
               | x => x
               end
  end.

Definition ext (s : bytes) : bytes := ext_of_elem (last (split s) []).

(* strings.TrimSuffix(s, suf) *)
Definition trim_suffix (s suf : bytes) : bytes :=
  if beqb (skipn (length s - length suf) s) suf && (length suf <=? length s)%nat
  then firstn (length s - length suf) s else s.

(* filesystem.FilepathStem: strings.TrimSuffix(filepath.Base(fp), filepath.Ext(fp)) *)
Definition stem (s : bytes) : bytes := trim_suffix (base s) (ext s).

Definition to_lower_byte (c : Z) : Z := if (65 <=? c) && (c <=? 90) then c + 32 else c.
Definition to_lower (s : bytes) : bytes := map to_lower_byte s.

(* ---- containment, stated on the lexical resolution ---- *)

(* [within d p]: p resolves to d or to something below d: same rootedness, the elements of d followed by elements none
   of which is "..". *)
Definition within (d p : bytes) : Prop :=
  rooted p = rooted d /\
  exists rest, resolve p = resolve d ++ rest /\ Forall (fun c => c <> dotdot) rest.

(* [above d q]: q resolves to d or to an ancestor of d *)
Definition above (d q : bytes) : Prop :=
  rooted q = rooted d /\ exists rest, resolve d = resolve q ++ rest.

(* executable versions, used by examples and by the correspondence *)
Fixpoint list_prefix_rest (a b : list bytes) : option (list bytes) :=  (* b = a ++ rest *)
  match a, b with
  | [], _ => Some b
  | x :: a', y :: b' => if beqb x y then list_prefix_rest a' b' else None
  | _ :: _, [] => None
  end.

Definition withinb (d p : bytes) : bool :=
  Bool.eqb (rooted p) (rooted d) &&
  match list_prefix_rest (resolve d) (resolve p) with
  | Some rest => forallb (fun c => negb (is_dotdot c)) rest
  | None => false
  end.

Definition aboveb (d q : bytes) : bool :=
  Bool.eqb (rooted q) (rooted d) &&
  match list_prefix_rest (resolve q) (resolve d) with Some _ => true | None => false end.
