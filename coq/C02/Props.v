(* C02 — Unzip never writes outside the destination (zip-slip).
   Property theorems only; each is closed by a lemma of Proofs.v and followed by Print Assumptions.
   Model: GU.C02.Model (mirrors utils/filesystem/zip.go), GU.C02.Path (POSIX model of path/filepath), tied to the code
   by the correspondence runs of harness/cmd/c02. *)
From Coq Require Import List ZArith Bool String.
Import ListNotations.
From GU Require Import C02.Path C02.PathLemmas C02.Model C02.Proofs.
Local Open Scope Z_scope.

(* Whatever the destination (absolute, relative, trailing separators, root, ".") and whatever the entry name (any bytes:
   ".." anywhere, absolute, doubled separators, backslashes, control and non-UTF-8 bytes), a path accepted by
   sanitiseZipExtractPath resolves to the cleaned destination or below it, element-wise: the elements of the destination
   followed by elements none of which is "..".  Both shapes of the ".." test (substring, cv=false; element, cv=true). *)
Theorem sanitise_sound : forall cv dest name p,
  sanitise cv (clean dest) name = Some p -> within (clean dest) p.
Proof. exact sanitise_sound_lemma. Qed.
Print Assumptions sanitise_sound.

(* Second sentence of the property: an entry whose joined path does not stay within the destination is refused with
   the 'suspected malicious intent' kind (None). *)
Theorem sanitise_rejects_escape : forall cv dest name,
  ~ within (clean dest) (join2 (clean dest) name) -> sanitise cv (clean dest) name = None.
Proof. exact sanitise_rejects_escape_lemma. Qed.
Print Assumptions sanitise_rejects_escape.

(* The same with the escape notion stated on the RAW entry: destination, '/', entry name, resolved lexically with its
   ".." steps (no reference to filepath.Clean / Join in the hypothesis). *)
Theorem sanitise_rejects_raw_escape : forall cv dest name,
  ~ within (clean dest) (clean dest ++ slash :: name) -> sanitise cv (clean dest) name = None.
Proof. exact sanitise_rejects_raw_escape_lemma. Qed.
Print Assumptions sanitise_rejects_raw_escape.

(* Destination of a nested archive (recursive mode): derived from an accepted entry path other than the destination
   itself, it stays within the destination — for Join(Dir p, Stem p) under the substring test (cv=false: the stem cannot be
   ".." because p has no ".." substring) and for the re-sanitised form under the element test (cv=true). *)
Theorem nested_dest_within : forall cv d name p nd,
  clean d = d -> sanitise cv d name = Some p -> p <> d -> nested_dest cv p = Some nd ->
  within d nd /\ clean nd = nd.
Proof. exact nested_dest_within. Qed.
Print Assumptions nested_dest_within.

(* Whole extraction: for EVERY archive (any entries, kinds, order, names over all bytes, nesting to any depth —
   structural induction over the nested-archive tree), every destination, every initial file-system state, both shapes of
   the ".." test, recursive or not, either back end, and EVERY behaviour of the path transcoding (transcode is universally
   quantified: after the C02 fix the converted path is sanitised again, so no hypothesis on chardet / x-text is needed):
   every mutating operation the extraction adds has a path within the cleaned destination, except that MkdirAll may
   also name the destination's own ancestors (which exist once MkdirAll(destination) has succeeded); and every path in the
   returned file list is within the destination. *)
Theorem unzip_confined : forall transcode cv recursive membackend dest a s0 s fl r,
  unzip transcode cv recursive membackend dest a s0 = (s, fl, r) ->
  (exists new, ops s = new ++ ops s0 /\ Forall (allowed (clean dest)) new) /\ Forall (within (clean dest)) fl.
Proof. exact unzip_confined_lemma. Qed.
Print Assumptions unzip_confined.

(* Lexical containment of a relative path is preserved when both are anchored at any absolute working directory
   (component-wise resolution on a tree without symbolic links: ".." pops, at the root it stays) — so [within] on the
   relative names the library passes to the back end means containment of the physical locations.
   ASSUMPTION: the destination tree is LINK-FREE, before and during the extraction.  The model creates regular files and
   directories only (zip.go restores every entry kind - symlink, fifo, socket, device, setuid bits - as a regular file or a
   directory), so an archive cannot introduce a link; a change that restored symlink-kind entries as links would make
   lexical containment ([within], unzip_confined) say nothing about the physical location of later entries below such a
   link.  That side is checked by the harness, not by a theorem: archives carry every kind the mode bits can express with
   entries below them in both orders, and every mutating back-end call's path is resolved element by element through the
   actual OS file system at the time of the call (signature outside-physical:os), next to the snapshot of everything outside
   the destination (kinds, link targets, hashes, mtimes). *)
Theorem within_physical : forall cwd d p,
  rooted cwd = true -> rooted d = false -> within d p ->
  within (cwd ++ slash :: d) (cwd ++ slash :: p).
Proof. exact within_physical_lemma. Qed.
Print Assumptions within_physical.

(* filepath.Clean keeps the lexical resolution (ties [within] on cleaned paths to the raw paths) *)
Theorem clean_preserves_resolution : forall s, rooted (clean s) = rooted s /\ resolve (clean s) = resolve s.
Proof. exact resolve_clean. Qed.
Print Assumptions clean_preserves_resolution.

(* ---- non-vacuity and documented corner cases (evaluated, not property theorems) ---- *)

Example accept_plain : sanitise false (clean (bs "/d/")) (bs "a//b/./c") = Some (bs "/d/a/b/c").
Proof. vm_compute. reflexivity. Qed.
Example reject_parent : sanitise false (clean (bs "/d")) (bs "a/../../evil") = None /\ sanitise true (clean (bs "/d")) (bs "../evil") = None.
Proof. vm_compute. split; reflexivity. Qed.
Example within_dec_examples :
  withinb (bs "/d") (bs "/d/x/../y") = true /\ withinb (bs "/d") (bs "/d/../x") = false /\ withinb (bs "rel") (bs "rel/../../x") = false.
Proof. vm_compute. repeat split; reflexivity. Qed.

(* the defect repaired by fixes/C02-resanitise-converted-path.patch: the entry ".ESC(B./.ESC(B./evil\xff" is accepted
   (no ".." anywhere), its conversion to UTF-8 is "<dest>/../../evil?" ; the re-sanitisation refuses it *)
Example converted_path_refused :
  let d := bs "/s/a/dest" in
  let name := [46; 27; 40; 66; 46; 47; 46; 27; 40; 66; 46; 47; 101; 118; 105; 108; 255] in
  exists p, sanitise false d name = Some p /\
            resanitise false d p (bs "/s/a/dest/../../evil?") = None /\
            withinb d (bs "/s/a/dest/../../evil?") = false.
Proof.
  exists [47; 115; 47; 97; 47; 100; 101; 115; 116; 47; 46; 27; 40; 66; 46; 47; 46; 27; 40; 66; 46; 47; 101; 118; 105; 108; 255].
  vm_compute. repeat split; reflexivity.
Qed.

(* why the element test (cv=true, C07 fix) must sanitise the nested destination: "...zip" has no ".." element, its
   stem is "..", and Join(Dir p, Stem p) is the parent of the destination; the sanitised form refuses it *)
Example element_test_needs_nested_guard :
  let d := bs "/s/dest" in
  exists p, sanitise true d (bs "...zip") = Some p /\
            withinb d (clean (join2 (dir p) (stem p))) = false /\
            nested_dest true p = None /\ sanitise false d (bs "...zip") = None.
Proof. exists (bs "/s/dest/...zip"). vm_compute. repeat split; reflexivity. Qed.

(* a complete run: directory, file, nested archive with a directory; all 13 operations within the destination *)
Example unzip_run :
  let a := AEntry (bs "d/") KDir (AEntry (bs "d/f.txt") KFile
           (ANested (bs "n.zip") (AEntry (bs "i/") KDir (AEntry (bs "i/j") KFile ANil)) ANil)) in
  let '(s, fl, r) := unzip (fun p => Some p) false true true (bs "/x/dest/") a (mkSt [bs "/x"; bs "/"] [] []) in
  r = RNil /\ List.length (ops s) = 13%nat /\ forallb (fun o => withinb (bs "/x/dest") (op_path o)) (ops s) = true /\
  fl = [bs "/x/dest/d"; bs "/x/dest/d/f.txt"; bs "/x/dest/n/i"; bs "/x/dest/n/i/j"].
Proof. vm_compute. repeat split; reflexivity. Qed.
