(* C02 — Unzip never writes outside the destination (zip-slip).
   Property theorems only; each is closed by a lemma of Proofs.v and followed by Print Assumptions.
   Model: GU.C02.Model (mirrors utils/filesystem/zip.go), GU.C02.Path (POSIX model of path/filepath), tied to the code
   by the correspondence runs of harness/cmd/c02. *)
From Coq Require Import List ZArith Bool String.
Import ListNotations.
From GU Require Import C02.Path C02.PathLemmas C02.Model C02.Proofs C02.Gen.
Local Open Scope Z_scope.

(* The theorems come in pairs: for EVERY record of facts satisfying the condition the proof needs ([san_ok], [nested_ok],
   [unzip_ok]: which tests the sanitiser makes and on what, what unzip applies it to, ...), and for the record [generated]
   that translator-c02 extracts from zip.go / filepath.go on every run, the condition being discharged by computation.
   A change of the source that alters a fact a theorem depends on breaks that theorem's [..._generated] instance. *)

(* Whatever the destination (absolute, relative, trailing separators, root, ".") and whatever the entry name (any bytes:
   ".." anywhere, absolute, doubled separators, backslashes, control and non-UTF-8 bytes), a path accepted by
   sanitiseZipExtractPath resolves to the cleaned destination or below it, element-wise: the elements of the destination
   followed by elements none of which is "..".  Needs: Join(destination, name), no early return for ".", a ".." test
   (substring, element ==, element prefix) on destPath, prefix tests against destination + separator. *)
Theorem sanitise_sound : forall f dest name p, san_ok f = true ->
  sanitise f (clean dest) name = Some p -> within (clean dest) p.
Proof. exact sanitise_sound_lemma. Qed.
Print Assumptions sanitise_sound.

(* Second sentence of the property: an entry whose joined path does not stay within the destination is refused with
   the 'suspected malicious intent' kind (None). *)
Theorem sanitise_rejects_escape : forall f dest name, san_ok f = true ->
  ~ within (clean dest) (join2 (clean dest) name) -> sanitise f (clean dest) name = None.
Proof. exact sanitise_rejects_escape_lemma. Qed.
Print Assumptions sanitise_rejects_escape.

(* The same with the escape notion stated on the RAW entry: destination, '/', entry name, resolved lexically with its
   ".." steps (no reference to filepath.Clean / Join in the hypothesis). *)
Theorem sanitise_rejects_raw_escape : forall f dest name, san_ok f = true ->
  ~ within (clean dest) (clean dest ++ slash :: name) -> sanitise f (clean dest) name = None.
Proof. exact sanitise_rejects_raw_escape_lemma. Qed.
Print Assumptions sanitise_rejects_raw_escape.

(* Destination of a nested archive (recursive mode): derived from an accepted entry path other than the destination
   itself, it stays within the destination — when it goes through the sanitiser, or, for a bare Join(Dir p, Stem p), when
   the ".." test is the substring test (the stem cannot be ".." because p has no ".." substring): [nested_ok]. *)
Theorem nested_dest_within : forall f d name p nd,
  san_ok f = true -> nested_ok f = true -> uz_clean_first f = true ->
  clean d = d -> sanitise f d name = Some p -> p <> d -> nested_dest f p = Some nd ->
  within d nd /\ clean nd = nd.
Proof. exact nested_dest_within. Qed.
Print Assumptions nested_dest_within.

(* Whole extraction: for EVERY archive (any entries, kinds, order, names over all bytes, nesting to any depth —
   structural induction over the nested-archive tree), every destination, every initial file-system state, recursive or
   not, either back end, and EVERY behaviour of the path transcoding (transcode is universally quantified: the converted
   path is sanitised again, so no hypothesis on chardet / x-text is needed): every mutating operation the extraction adds
   has a path within the cleaned destination, except that MkdirAll may also name the destination's own ancestors (which
   exist once MkdirAll(destination) has succeeded); and every path in the returned file list is within the destination.
   Needs [unzip_ok]: a sound sanitiser applied to every entry after cleaning the destination, the path not rewritten,
   MkDir / OpenFile / Chtimes / Rm on the sanitised paths only and after sanitisation, the converted path re-sanitised
   (CutPrefix + sanitiser) before anything touches it, regular files and directories only, a safe nested destination. *)
Theorem unzip_confined : forall f transcode recursive membackend dest a s0 s fl r, unzip_ok f = true ->
  unzip transcode f recursive membackend dest a s0 = (s, fl, r) ->
  (exists new, ops s = new ++ ops s0 /\ Forall (allowed (clean dest)) new) /\ Forall (within (clean dest)) fl.
Proof. intros f transcode recursive membackend dest a s0 s fl r. apply unzip_confined_lemma. Qed.
Print Assumptions unzip_confined.

(* Lexical containment of a relative path is preserved when both are anchored at any absolute working directory
   (component-wise resolution on a tree without symbolic links: ".." pops, at the root it stays) — so [within] on the
   relative names the library passes to the back end means containment of the physical locations.
   ASSUMPTION: the destination tree is LINK-FREE, before and during the extraction.  The model creates regular files and
   directories only (zip.go restores every entry kind - symlink, fifo, socket, device, setuid bits - as a regular file or a
   directory), so an archive cannot introduce a link; a change that restored symlink-kind entries as links would make
   lexical containment ([within], unzip_confined) say nothing about the physical location of later entries below such a
   link.  That side is checked by the harness, not by a theorem: archives carry every kind the mode bits can express with
   entries below them in both orders, and every mutating back-end call's path is resolved element by element through the
   actual OS file system at the time of the call (signature outside-physical:os), next to the snapshot of everything outside
   the destination (kinds, link targets, hashes, mtimes). *)
Theorem within_physical : forall cwd d p,
  rooted cwd = true -> rooted d = false -> within d p ->
  within (cwd ++ slash :: d) (cwd ++ slash :: p).
Proof. exact within_physical_lemma. Qed.
Print Assumptions within_physical.

(* filepath.Clean keeps the lexical resolution (ties [within] on cleaned paths to the raw paths) *)
Theorem clean_preserves_resolution : forall s, rooted (clean s) = rooted s /\ resolve (clean s) = resolve s.
Proof. exact resolve_clean. Qed.
Print Assumptions clean_preserves_resolution.

(* ---- the same theorems for the record regenerated from the source on this run (conditions discharged by computation) ---- *)

Theorem sanitise_sound_generated : forall dest name p,
  sanitise generated (clean dest) name = Some p -> within (clean dest) p.
Proof. intros dest name p. apply sanitise_sound_lemma. vm_compute. reflexivity. Qed.
Print Assumptions sanitise_sound_generated.

Theorem sanitise_rejects_raw_escape_generated : forall dest name,
  ~ within (clean dest) (clean dest ++ slash :: name) -> sanitise generated (clean dest) name = None.
Proof. intros dest name. apply sanitise_rejects_raw_escape_lemma. vm_compute. reflexivity. Qed.
Print Assumptions sanitise_rejects_raw_escape_generated.

Theorem unzip_confined_generated : forall transcode recursive membackend dest a s0 s fl r,
  unzip transcode generated recursive membackend dest a s0 = (s, fl, r) ->
  (exists new, ops s = new ++ ops s0 /\ Forall (allowed (clean dest)) new) /\ Forall (within (clean dest)) fl.
Proof. intros transcode recursive membackend dest a s0 s fl r. apply unzip_confined_lemma. vm_compute. reflexivity. Qed.
Print Assumptions unzip_confined_generated.

(* ---- non-vacuity and documented corner cases (evaluated, not property theorems) ---- *)

(* the tree with the substring test and a bare Join for nested archives; the tree with the element test and a sanitised
   nested destination (what [generated] is today); the hazardous mix: element test with a bare Join *)
Definition facts_substring : zfacts :=
  mkFacts true false true DDSubstring true true true true true true true true true true true true true true true false true true.
Definition facts_element : zfacts :=
  mkFacts true false true DDElemEq true true true true true true true true true true true true true true true true true true.
Definition facts_element_join : zfacts :=
  mkFacts true false true DDElemEq true true true true true true true true true true true true true true true false true true.
Example facts_examples_ok : unzip_ok facts_substring = true /\ unzip_ok facts_element = true /\ unzip_ok facts_element_join = false.
Proof. vm_compute. repeat split; reflexivity. Qed.

Example accept_plain : sanitise facts_substring (clean (bs "/d/")) (bs "a//b/./c") = Some (bs "/d/a/b/c").
Proof. vm_compute. reflexivity. Qed.
Example reject_parent : sanitise facts_substring (clean (bs "/d")) (bs "a/../../evil") = None /\ sanitise facts_element (clean (bs "/d")) (bs "../evil") = None.
Proof. vm_compute. split; reflexivity. Qed.
Example within_dec_examples :
  withinb (bs "/d") (bs "/d/x/../y") = true /\ withinb (bs "/d") (bs "/d/../x") = false /\ withinb (bs "rel") (bs "rel/../../x") = false.
Proof. vm_compute. repeat split; reflexivity. Qed.

(* the defect repaired by fixes/C02-resanitise-converted-path.patch: the entry ".ESC(B./.ESC(B./evil\xff" is accepted
   (no ".." anywhere), its conversion to UTF-8 is "<dest>/../../evil?" ; the re-sanitisation refuses it *)
Example converted_path_refused :
  let d := bs "/s/a/dest" in
  let name := [46; 27; 40; 66; 46; 47; 46; 27; 40; 66; 46; 47; 101; 118; 105; 108; 255] in
  exists p, sanitise facts_substring d name = Some p /\
            resanitise facts_substring d p (bs "/s/a/dest/../../evil?") = None /\
            withinb d (bs "/s/a/dest/../../evil?") = false.
Proof.
  exists [47; 115; 47; 97; 47; 100; 101; 115; 116; 47; 46; 27; 40; 66; 46; 47; 46; 27; 40; 66; 46; 47; 101; 118; 105; 108; 255].
  vm_compute. repeat split; reflexivity.
Qed.

(* why the element test (cv=true, C07 fix) must sanitise the nested destination: "...zip" has no ".." element, its
   stem is "..", and Join(Dir p, Stem p) is the parent of the destination; the sanitised form refuses it *)
Example element_test_needs_nested_guard :
  let d := bs "/s/dest" in
  exists p, sanitise facts_element d (bs "...zip") = Some p /\
            nested_dest facts_element_join p = Some (bs "/s") /\ withinb d (bs "/s") = false /\
            nested_dest facts_element p = None /\ sanitise facts_substring d (bs "...zip") = None.
Proof. exists (bs "/s/dest/...zip"). vm_compute. repeat split; reflexivity. Qed.

(* a complete run: directory, file, nested archive with a directory; all 13 operations within the destination *)
Example unzip_run :
  let a := AEntry (bs "d/") KDir (AEntry (bs "d/f.txt") KFile
           (ANested (bs "n.zip") (AEntry (bs "i/") KDir (AEntry (bs "i/j") KFile ANil)) ANil)) in
  let '(s, fl, r) := unzip (fun p => Some p) facts_substring true true (bs "/x/dest/") a (mkSt [bs "/x"; bs "/"] [] []) in
  r = RNil /\ List.length (ops s) = 13%nat /\ forallb (fun o => withinb (bs "/x/dest") (op_path o)) (ops s) = true /\
  fl = [bs "/x/dest/d"; bs "/x/dest/d/f.txt"; bs "/x/dest/n/i"; bs "/x/dest/n/i/j"].
Proof. vm_compute. repeat split; reflexivity. Qed.
