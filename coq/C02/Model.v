(* C02 — executable model of zip extraction (utils/filesystem/zip.go) as far as paths are concerned.
   Mirrors sanitiseZipExtractPath (zip.go:169-185), unzip (:252-381), unzipNestedZipFiles (:383-395),
   preserveDirectoriesTimestamps (:397-410), unzipZippedFile (:425-492 after the C02 fix: the path converted to UTF-8 is
   sanitised again, sanitiseConvertedZipExtractPath), determineUnzippedFilepath (a Section variable: chardet + x/text
   tables are third-party), FilepathStem (filepath.go:18) and IsZipWithContext (:506-535, extension test).
   Definitions only; proofs are in PathLemmas.v / Proofs.v.

   Entry kinds: archive/zip reports a directory for a trailing '/' or the directory bit of the mode (KDir); every other
   kind the mode bits can carry (symbolic link with its target as content, named pipe, socket, device, setuid/setgid/sticky)
   is extracted by unzipZippedFile through OpenFile/write as a REGULAR file (KFile) - no link is ever created, which is what
   makes the lexical containment theorems meaningful physically (see within_physical in Props.v; the harness checks the
   physical side on the OS back end).

   The model is PARAMETERISED by a record of facts [zfacts] which translator-c02/cmd/zipslip2coq regenerates from
   zip.go / filepath.go on every run (coq/C02/Gen.v, [generated]): the shape of every test of the sanitiser (argument
   order of Join, equality shortcut, early return for ".", kind of ".." test and what it is applied to, prefix tests with
   or without the separator), and in unzip / unzipZippedFile / sanitiseConvertedZipExtractPath / unzipNestedZipFiles: Clean
   first, sanitiser called for every entry, the path not rewritten afterwards, what MkDir / OpenFile / Chtimes / Rm are
   applied to, re-sanitisation of the converted path (CutPrefix + sanitiser) before anything touches it, regular files and
   directories only, nested destination through the sanitiser.  Switches with a modelled alternative change the
   behaviour of the model; the others ("shape facts") are demanded by [unzip_ok].  The theorems are proved for every record
   satisfying the conditions they need ([san_ok], [nested_ok], [unzip_ok]) and instantiated on [generated] in Props.v. *)
From Coq Require Import List ZArith Bool String Ascii.
From GU Require Import C02.Path.
Import ListNotations.
Local Open Scope Z_scope.

Definition bs (s : string) : bytes := map (fun a => Z.of_N (N_of_ascii a)) (list_ascii_of_string s).

Inductive res := RNil | RMalicious | ROther | RCollide.
(* RCollide: the archive makes one path both a file and a directory (or writes below a file); what the back ends do then
   differs (MemMapFs adds children to a file), the model declines to predict and the correspondence skips the case;
   the oracle of the harness still judges it. *)

(* mutating back-end operations with their path, as the recording shim sees them *)
Inductive op := OMkdirAll (p : bytes) | OOpenTrunc (p : bytes) | OChtimes (p : bytes) | ORemove (p : bytes) | OOther (p : bytes).

Definition op_path (o : op) : bytes :=
  match o with OMkdirAll p | OOpenTrunc p | OChtimes p | ORemove p | OOther p => p end.

Inductive ekind := KDir | KFile.

(* an archive: entries in order; [ANested name inner] is a file entry whose content is itself a zip archive [inner]
   (an [inner] without entries is not recognised as a zip by http.DetectContentType and is treated as a plain file) *)
Inductive archive :=
| ANil
| AEntry (name : bytes) (k : ekind) (rest : archive)
| ANested (name : bytes) (inner : archive) (rest : archive).

Definition is_nonempty_archive (a : archive) : bool := match a with ANil => false | _ => true end.

(* ---- facts regenerated from the source (Gen.v) ---- *)
Inductive ddshape :=
| DDSubstring    (* strings.Contains(x, "..") *)
| DDElemEq       (* hasParentDirectoryElement: some element == ".." *)
| DDElemPrefix   (* ... strings.HasPrefix(element, "..") *)
| DDNone.        (* no parent-reference test *)

Record zfacts := mkFacts {
  (* sanitiseZipExtractPath *)
  sa_join_dest_first : bool;   (* destPath = filepath.Join(destination, filePath) *)
  sa_dot_early : bool;         (* an early accepting return when destination == "." *)
  sa_eq_shortcut : bool;       (* if destPath == destination { return } *)
  sa_dd : ddshape;             (* kind of the parent-reference test guarding the prefix tests *)
  sa_dd_on_destpath : bool;    (* applied to destPath (false: to the cleaned entry name) *)
  sa_prefix_sep : bool;        (* every prefix test is HasPrefix(destPath, destination + separator or "/") *)
  (* unzip *)
  uz_clean_first : bool;       (* destination = filepath.Clean(destination) before MkDir and the loop *)
  uz_sanitise_always : bool;   (* filePath comes from the sanitiser for EVERY entry (false: only if the name contains "../") *)
  uz_path_untouched : bool;    (* filePath is assigned by the sanitiser call only *)
  uz_mkdir_after_sanitise : bool;
  uz_dir_mkdir_path : bool;    (* directory entry: MkDir(filePath), directoryInfo[filePath] *)
  uz_file_mkdir_dir : bool;    (* file entry: MkDir(filepath.Dir(filePath)) *)
  uz_zf_args : bool;           (* unzipZippedFile(ctx, destination, filePath, ...) *)
  uz_nested_arg_path : bool;   (* unzipNestedZipFiles(ctx, filePath, ...) *)
  (* unzipZippedFile / sanitiseConvertedZipExtractPath *)
  zf_resanitise : bool;        (* if destinationPath != dest { destinationPath, err = sanitiseConvertedZipExtractPath(...) } *)
  zf_resanitise_first : bool;  (* no file-system call on the converted path before it *)
  zf_regular_only : bool;      (* file-system calls are OpenFile and Chtimes only (no Symlink / Link / ...) *)
  zf_ops_on_converted : bool;  (* OpenFile(destinationPath, ...), Chtimes(destinationPath, ...) *)
  sc_cut_then_sanitise : bool; (* CutPrefix(converted, destination), !found -> malicious, sanitiser on the remainder (false: bare HasPrefix) *)
  (* unzipNestedZipFiles, FilepathStem *)
  nz_dest_sanitised : bool;    (* destination = sanitiser(FilepathStem(p), filepath.Dir(p)) (false: filepath.Join) *)
  nz_rm_nested : bool;         (* fs.Rm(nestedZipFile) after fs.unzip(ctx, nestedZipFile, destination, ...) *)
  fs_stem_base_ext : bool      (* FilepathStem = TrimSuffix(Base(fp), Ext(fp)) *)
}.

(* ---- sanitiseZipExtractPath (zip.go) ---- *)
Definition sep : bytes := [slash].                       (* fs.PathSeparator() on linux, both back ends *)

Definition dd_shape_test (sh : ddshape) (x : bytes) : bool :=
  match sh with
  | DDSubstring => contains dotdot x
  | DDElemEq => existsb is_dotdot (split x)
  | DDElemPrefix => existsb (has_prefix dotdot) (split x)
  | DDNone => false
  end.

Definition dotdot_test (f : zfacts) (p name : bytes) : bool :=
  dd_shape_test (sa_dd f) (if sa_dd_on_destpath f then p else clean name).

Definition prefix_test (f : zfacts) (d p : bytes) : bool :=
  if sa_prefix_sep f then has_prefix (d ++ sep) p || has_prefix (d ++ [slash]) p else has_prefix d p.

Definition sanitise (f : zfacts) (d name : bytes) : option bytes :=     (* None = ErrMalicious *)
  let p := if sa_join_dest_first f then join2 d name else join2 name d in
  if sa_dot_early f && beqb d [dot] then Some p
  else if sa_eq_shortcut f && beqb p d then Some p
  else if negb (dotdot_test f p name) && prefix_test f d p then Some p
  else None.

(* the sanitiser as the loop of unzip applies it to an entry *)
Definition sanitise_entry (f : zfacts) (d name : bytes) : option bytes :=
  if uz_sanitise_always f || contains [dot; dot; slash] name then sanitise f d name else Some (join2 d name).

(* what each theorem needs of the facts *)
Definition dd_present (sh : ddshape) : bool := match sh with DDNone => false | _ => true end.
Definition dd_is_substring (sh : ddshape) : bool := match sh with DDSubstring => true | _ => false end.

Definition san_ok (f : zfacts) : bool :=
  sa_join_dest_first f && negb (sa_dot_early f) && dd_present (sa_dd f) && sa_dd_on_destpath f && sa_prefix_sep f.

Definition nested_ok (f : zfacts) : bool := nz_dest_sanitised f || dd_is_substring (sa_dd f).

Definition unzip_ok (f : zfacts) : bool :=
  san_ok f && nested_ok f && uz_clean_first f && uz_sanitise_always f && uz_path_untouched f && uz_mkdir_after_sanitise f
  && uz_dir_mkdir_path f && uz_file_mkdir_dir f && uz_zf_args f && uz_nested_arg_path f
  && zf_resanitise f && zf_resanitise_first f && zf_regular_only f && zf_ops_on_converted f && sc_cut_then_sanitise f
  && nz_rm_nested f && fs_stem_base_ext f.

(* ZipFileExtensions (zip.go:50); ".tar.gz" can never equal filepath.Ext *)
Definition zip_exts : list bytes :=
  map bs [".zip"; ".zipx"; ".7z"; ".s7z"; ".gz"; ".tar.gz"; ".tgz"; ".xz"; ".lz"; ".lzma"; ".rz"; ".pack"; ".z"; ".jar"]%string.
Definition is_zip_name (p : bytes) : bool := mem (to_lower (ext p)) zip_exts.

(* ---- the file system as far as Exists / MkdirAll / OpenFile need it ---- *)
Record st := mkSt { dirs : list bytes; files : list bytes; ops : list op (* most recent first *) }.

Fixpoint ancestors (fuel : nat) (p : bytes) : list bytes :=
  match fuel with
  | O => []
  | S f => let q := dir p in if beqb q p then [] else q :: ancestors f q
  end.
Definition ancs (p : bytes) : list bytes := ancestors (S (List.length p)) p.

Definition below_file (p : bytes) (s : st) : bool := existsb (fun a => mem a (files s)) (ancs p).

(* VFS.MkDir = MkDirAll (files.go:893-914): nothing reaches the back end when the path exists *)
Definition mkdir (p : bytes) (s : st) : option st :=
  if mem p (dirs s) || mem p (files s) then Some s
  else if below_file p s then None
  else Some (mkSt (p :: ancs p ++ dirs s) (files s) (OMkdirAll p :: ops s)).

Definition add_op (o : op) (s : st) : st := mkSt (dirs s) (files s) (o :: ops s).

Fixpoint remove_path (p : bytes) (l : list bytes) : list bytes :=
  match l with [] => [] | q :: l' => if beqb p q then remove_path p l' else q :: remove_path p l' end.

Definition lres : Type := st * list bytes * list bytes * res.   (* state, fileList, directoryInfo keys, error kind *)

Section Unzip.
  Variable transcode : bytes -> option bytes.   (* determineUnzippedFilepath; None = an error (ErrInvalid / ErrUnexpected) *)
  Variable f : zfacts.                          (* facts regenerated from the source *)
  Variable recursive : bool.                    (* limits.ApplyRecursively() *)
  Variable membackend : bool.                   (* MemMapFs creates missing parents on OpenFile; the OS fails *)

  (* sanitiseConvertedZipExtractPath + the guard [destinationPath != dest] (C02 fix) *)
  Definition resanitise (d p q : bytes) : option bytes :=
    if negb (zf_resanitise f) then Some q
    else if beqb q p then Some q
    else if sc_cut_then_sanitise f then
           match cut_prefix d q with
           | None => None
           | Some rel => sanitise f d rel
           end
         else if has_prefix (d ++ sep) q then Some q else None.

  Definition unzip_dest (dest : bytes) : bytes := if uz_clean_first f then clean dest else dest.   (* unzip :275 *)

  (* destination of a nested archive, unzipNestedZipFiles (:384) then unzip's Clean (:275) *)
  Definition nested_dest (p : bytes) : option bytes :=
    if nz_dest_sanitised f then match sanitise f (dir p) (stem p) with Some nd => Some (unzip_dest nd) | None => None end
    else Some (unzip_dest (join2 (dir p) (stem p))).

  Definition chtimes_all (dl : list bytes) (s : st) : st :=      (* preserveDirectoriesTimestamps; map order: any *)
    fold_left (fun s p => add_op (OChtimes p) s) dl s.

  (* one file entry: zip.go:297-371 with unzipZippedFile.  [run_inner nd s] extracts the entry's own content as an
     archive into nd (only called when the content is a non-empty zip), [cont] continues with the next entry. *)
  Definition file_body (d name : bytes) (is_arch : bool)
             (run_inner : bytes -> st -> lres) (cont : st -> list bytes -> list bytes -> lres)
             (s : st) (fl dl : list bytes) : lres :=
    match sanitise_entry f d name with     (* both calls, :290-300, are the same pure function *)
    | None => (s, fl, dl, RMalicious)
    | Some p =>
      let zipname := recursive && is_zip_name name in
      let fl1 := if zipname then fl else fl ++ [p] in                                  (* :316-319 *)
      match mkdir (dir p) s with                                                       (* :334-338 *)
      | None => (s, fl1, dl, RCollide)
      | Some s1 =>
        match transcode p with                                                         (* :424 *)
        | None => (s1, fl1, dl, ROther)
        | Some q =>
          (* a tree that creates the converted path's directory before re-sanitising it (zf_resanitise_first = false) *)
          match (if zf_resanitise_first f || beqb q p then Some s1 else mkdir (dir q) s1) with
          | None => (s1, fl1, dl, RCollide)
          | Some s1 =>
          match resanitise d p q with
          | None => (s1, fl1, dl, RMalicious)
          | Some q' =>
            let s2 := add_op (OOpenTrunc q') s1 in                                     (* OpenFile O_WRONLY|O_CREATE|O_TRUNC *)
            if mem q' (dirs s1) || below_file q' s1 then (s2, fl1, dl, RCollide)
            else if negb (mem (dir q') (dirs s1)) && negb membackend then (s2, fl1, dl, ROther)
            else
              let s3 := mkSt (if mem (dir q') (dirs s1) then dirs s1 else ancs q' ++ dirs s1)
                             (q' :: files s1) (OChtimes q' :: ops s2) in               (* write, Close, Chtimes *)
              if recursive then                                                        (* :346 *)
                if is_zip_name p && negb (beqb p d) && (if beqb q' p then is_arch else true) then   (* isZipWithContext(filePath) *)
                  if negb (beqb q' p) then
                    (s3, fl1, dl, if mem p (files s3) || mem p (dirs s3) then RCollide else ROther)  (* newZipReader: not found *)
                  else
                    match nested_dest p with
                    | None => (s3, fl1, dl, RMalicious)
                    | Some nd =>
                      match mkdir nd s3 with                                           (* unzip :276 *)
                      | None => (s3, fl1, dl, RCollide)
                      | Some s4 =>
                        let '(s5, nfl, ndl, r) := run_inner nd s4 in
                        match r with
                        | RNil =>
                          let s6 := chtimes_all ndl s5 in                              (* unzip :375 *)
                          let s7 := mkSt (dirs s6) (remove_path p (files s6)) (ORemove p :: ops s6) in   (* Rm :390 *)
                          cont s7 (fl1 ++ nfl) dl
                        | _ => (s5, fl1, dl, r)
                        end
                      end
                    end
                else cont s3 (if is_zip_name name then fl1 ++ [p] else fl1) dl         (* :356-359 *)
              else cont s3 fl1 dl
          end
          end
        end
      end
    end.

  (* the loop of unzip (:283-372) over the entries, destination already cleaned *)
  Fixpoint loop (d : bytes) (a : archive) (s : st) (fl dl : list bytes) {struct a} : lres :=
    match a with
    | ANil => (s, fl, dl, RNil)
    | AEntry name KDir rest =>
        match sanitise_entry f d name with
        | None => (s, fl, dl, RMalicious)
        | Some p =>
          let fl1 := if recursive && is_zip_name name then fl else fl ++ [p] in
          match mkdir p s with                                                         (* :323 *)
          | None => (s, fl1, dl, RCollide)
          | Some s1 => loop d rest s1 fl1 (dl ++ [p])                                  (* :328 *)
          end
        end
    | AEntry name KFile rest =>
        file_body d name false (fun _ s => (s, [], [], RNil)) (fun s fl dl => loop d rest s fl dl) s fl dl
    | ANested name inner rest =>
        file_body d name (is_nonempty_archive inner) (fun nd s => loop nd inner s [] [])
                  (fun s fl dl => loop d rest s fl dl) s fl dl
    end.

  (* VFS.unzip at depth 0 (:252-381) *)
  Definition unzip (dest : bytes) (a : archive) (s0 : st) : st * list bytes * res :=
    let d := unzip_dest dest in                                                        (* :275 *)
    match mkdir d s0 with                                                              (* :276 *)
    | None => (s0, [], RCollide)
    | Some s1 =>
      let '(s2, fl, dl, r) := loop d a s1 [] [] in
      match r with
      | RNil => (chtimes_all dl s2, fl, RNil)                                          (* :375 *)
      | _ => (s2, fl, r)
      end
    end.
End Unzip.

(* ---- correspondence ---- *)

Definition res_eqb (a b : res) : bool :=
  match a, b with RNil, RNil | RMalicious, RMalicious | ROther, ROther | RCollide, RCollide => true | _, _ => false end.

Definition op_eqb (a b : op) : bool :=
  match a, b with
  | OMkdirAll p, OMkdirAll q | OOpenTrunc p, OOpenTrunc q | OChtimes p, OChtimes q | ORemove p, ORemove q | OOther p, OOther q => beqb p q
  | _, _ => false
  end.

Fixpoint list_eqb {A} (eqb : A -> A -> bool) (a b : list A) : bool :=
  match a, b with
  | [], [] => true
  | x :: a', y :: b' => eqb x y && list_eqb eqb a' b'
  | _, _ => false
  end.

Definition subset_ops (a b : list op) : bool := forallb (fun o => existsb (op_eqb o) b) a.

Definition opt_bytes_eqb (a b : option bytes) : bool :=
  match a, b with Some x, Some y => beqb x y | None, None => true | _, _ => false end.

(* transcoding as observed through the hook: identity on ASCII paths, the table otherwise (a missing key is an error) *)
Fixpoint assoc (p : bytes) (t : list (bytes * option bytes)) : option (option bytes) :=
  match t with [] => None | (k, v) :: t' => if beqb p k then Some v else assoc p t' end.
Definition tr_of (t : list (bytes * option bytes)) (p : bytes) : option bytes :=
  if forallb (fun c => c <? 128) p then Some p else match assoc p t with Some v => v | None => None end.

Inductive pathfn := FClean | FJoin | FDir | FBase | FExt | FStem.

Inductive case :=
| CPath (f : pathfn) (a b : bytes) (out : bytes)                       (* Go's filepath.* / FilepathStem on POSIX *)
| CSan (cv : bool) (d name : bytes) (out : option bytes)               (* the hook VerifSanitiseZipExtractPath; d is cleaned by the harness *)
| CUnzip (cv recursive membackend dest_exists : bool) (dest : bytes) (a : archive)
         (tr : list (bytes * option bytes))
         (r : res) (flist : list bytes) (opens : list bytes) (allops : list op).

Definition opens_of (l : list op) : list bytes :=
  flat_map (fun o => match o with OOpenTrunc p => [p] | _ => [] end) l.

Definition check_case_f (f : zfacts) (c : case) : bool :=
  match c with
  | CPath f a b out =>
      beqb out (match f with
                | FClean => clean a | FJoin => join2 a b | FDir => dir a
                | FBase => base a | FExt => ext a | FStem => stem a end)
  | CSan _ d name out => opt_bytes_eqb (sanitise f d name) out
  | CUnzip cv recursive membackend dest_exists dest a tr r flist opens allops =>
      let d := clean dest in
      let s0 := mkSt ((if dest_exists then [d] else []) ++ ancs d) [] [] in
      let '(s, fl, r') := unzip (tr_of tr) f recursive membackend dest a s0 in
      match r' with
      | RCollide => true
      | _ => res_eqb r r' && list_eqb beqb fl flist && list_eqb beqb (opens_of (rev (ops s))) opens
             && subset_ops (ops s) allops && subset_ops allops (ops s)
      end
  end.
