(* C02 — proofs about the extraction model (Model.v). *)
From Coq Require Import List ZArith Bool Lia.
From GU Require Import C02.Path C02.PathLemmas C02.Model.
Import ListNotations.
Local Open Scope Z_scope.

(* ---- sanitiseZipExtractPath ---- *)

Lemma dd_shape_false_split sh d r : dd_present sh = true ->
  dd_shape_test sh (d ++ slash :: r) = false -> Forall (fun c => c <> dotdot) (split r).
Proof.
  intros Hsh H. apply Forall_forall. intros c Hc ->. destruct sh; cbv beta iota delta [dd_shape_test] in H; [| | |discriminate Hsh].
  - destruct (split_In_sub _ _ Hc) as (x & y & ->).
    replace (d ++ slash :: x ++ dotdot ++ y) with ((d ++ slash :: x) ++ dotdot ++ y) in H
      by (rewrite <- app_assoc; reflexivity).
    rewrite contains_app in H. discriminate.
  - rewrite split_app_slash, existsb_app in H. apply orb_false_iff in H as [_ H].
    assert (existsb is_dotdot (split r) = true) as E; [|congruence].
    apply existsb_exists. exists dotdot. split; [assumption | apply beqb_refl].
  - rewrite split_app_slash, existsb_app in H. apply orb_false_iff in H as [_ H].
    assert (existsb (has_prefix dotdot) (split r) = true) as E; [|congruence].
    apply existsb_exists. exists dotdot. split; [assumption | reflexivity].
Qed.

Lemma san_ok_parts f : san_ok f = true ->
  sa_join_dest_first f = true /\ sa_dot_early f = false /\ dd_present (sa_dd f) = true /\ sa_dd_on_destpath f = true /\ sa_prefix_sep f = true.
Proof.
  unfold san_ok. rewrite !andb_true_iff, negb_true_iff. tauto.
Qed.

(* what an accepted path looks like, for every record of facts satisfying [san_ok] *)
Lemma sanitise_shape f d name p : san_ok f = true ->
  sanitise f d name = Some p ->
  p = join2 d name /\ (p = d \/ (safe_under d p /\ dd_shape_test (sa_dd f) p = false)).
Proof.
  intros Hok. destruct (san_ok_parts f Hok) as (F1 & F2 & F3 & F4 & F5).
  unfold sanitise, dotdot_test, prefix_test. rewrite F1, F2, F4, F5. simpl.
  destruct (sa_eq_shortcut f && beqb (join2 d name) d) eqn:E.
  - intros H; inversion H; subst. apply andb_true_iff in E as [_ E]. apply beqb_eq in E. split; [reflexivity | left; exact E].
  - destruct (negb (dd_shape_test (sa_dd f) (join2 d name)) &&
              (has_prefix (d ++ sep) (join2 d name) || has_prefix (d ++ [slash]) (join2 d name))) eqn:T; [|discriminate].
    intros H; inversion H; subst. split; [reflexivity|]. right.
    apply andb_true_iff in T as [T1 T2]. apply negb_true_iff in T1.
    assert (HP : has_prefix (d ++ [slash]) (join2 d name) = true) by (unfold sep in T2; destruct (has_prefix (d ++ [slash]) (join2 d name)); auto).
    apply has_prefix_spec in HP as [r Hr]. rewrite <- app_assoc in Hr. simpl in Hr.
    split; [|assumption].
    exists r. split; [assumption|]. rewrite Hr in T1. eapply dd_shape_false_split; eauto.
Qed.

Lemma sanitise_within f d name p : san_ok f = true -> d <> [] -> sanitise f d name = Some p -> within d p.
Proof.
  intros Hok Hd H. apply sanitise_shape in H as [_ [->|[H _]]]; [apply within_refl | apply safe_under_within; assumption | assumption].
Qed.

Theorem sanitise_sound_lemma f dest name p : san_ok f = true ->
  sanitise f (clean dest) name = Some p -> within (clean dest) p.
Proof. intros Hok. apply sanitise_within; [assumption | apply clean_nonempty]. Qed.

Theorem sanitise_rejects_escape_lemma f dest name : san_ok f = true ->
  ~ within (clean dest) (join2 (clean dest) name) -> sanitise f (clean dest) name = None.
Proof.
  intros Hok H. destruct (sanitise f (clean dest) name) as [p|] eqn:E; [|reflexivity].
  exfalso. apply H. pose proof (sanitise_shape _ _ _ _ Hok E) as [-> _].
  eapply sanitise_sound_lemma; eauto.
Qed.

Lemma sanitise_clean f d name p : san_ok f = true -> d <> [] -> sanitise f d name = Some p -> clean p = p.
Proof. intros Hok Hd H. apply sanitise_shape in H as [-> _]; [apply join2_clean|]; assumption. Qed.

Lemma cleanform_nonempty d : clean d = d -> d <> [].
Proof. intros <-. apply clean_nonempty. Qed.

(* ---- the whole extraction ---- *)

(* an operation is harmless for destination d: its path is d or below, or it is MkdirAll of d or of an ancestor of d *)
Definition allowed (d : bytes) (o : op) : Prop :=
  within d (op_path o) \/ (exists q, o = OMkdirAll q /\ above d q).

Lemma allowed_mono d nd o : within d nd -> allowed nd o -> allowed d o.
Proof.
  intros W [H|(q & -> & H)].
  - left. eapply within_trans; eauto.
  - destruct (within_above_mono _ _ _ W H) as [H'|H']; [left; exact H' | right; exists q; split; [reflexivity | exact H']].
Qed.

Definition ext_st (d : bytes) (s s' : st) : Prop := exists new, ops s' = new ++ ops s /\ Forall (allowed d) new.
Definition ext_l (d : bytes) (l l' : list bytes) : Prop := exists n, l' = l ++ n /\ Forall (within d) n.

Lemma ext_st_refl d s : ext_st d s s.
Proof. exists []. split; [reflexivity | constructor]. Qed.
Lemma ext_st_trans d a b c : ext_st d a b -> ext_st d b c -> ext_st d a c.
Proof.
  intros (n1 & E1 & F1) (n2 & E2 & F2). exists (n2 ++ n1). split; [rewrite E2, E1, app_assoc; reflexivity | apply Forall_app; split; assumption].
Qed.
Lemma ext_l_refl d l : ext_l d l l.
Proof. exists []. split; [rewrite app_nil_r; reflexivity | constructor]. Qed.
Lemma ext_l_trans d a b c : ext_l d a b -> ext_l d b c -> ext_l d a c.
Proof.
  intros (n1 & -> & F1) (n2 & -> & F2). exists (n1 ++ n2). split; [rewrite app_assoc; reflexivity | apply Forall_app; split; assumption].
Qed.
Lemma ext_l_snoc d l p : within d p -> ext_l d l (l ++ [p]).
Proof. intros H. exists [p]. split; [reflexivity | constructor; [assumption | constructor]]. Qed.
Lemma ext_st_mono d nd a b : within d nd -> ext_st nd a b -> ext_st d a b.
Proof.
  intros W (n & E & F). exists n. split; [assumption|]. eapply Forall_impl; [|exact F]. intros o. apply allowed_mono. assumption.
Qed.
Lemma ext_l_mono d nd a b : within d nd -> ext_l nd a b -> ext_l d a b.
Proof.
  intros W (n & E & F). exists n. split; [assumption|]. eapply Forall_impl; [|exact F]. intros o H. eapply within_trans; eauto.
Qed.
Lemma ext_st_add d s o : allowed d o -> ext_st d s (add_op o s).
Proof. intros H. exists [o]. split; [reflexivity | constructor; [assumption | constructor]]. Qed.

Lemma mkdir_ext d q s s1 : allowed d (OMkdirAll q) -> mkdir q s = Some s1 -> ext_st d s s1.
Proof.
  intros Ha. unfold mkdir. destruct (_ || _).
  - intros H; inversion H; subst. apply ext_st_refl.
  - destruct (below_file q s); [discriminate|]. intros H; inversion H; subst.
    exists [OMkdirAll q]. split; [reflexivity | constructor; [assumption | constructor]].
Qed.

Lemma chtimes_all_ext d dl : forall s, Forall (within d) dl -> ext_st d s (chtimes_all dl s).
Proof.
  induction dl as [|p dl IH]; intros s F; [apply ext_st_refl|]. inversion F; subst.
  unfold chtimes_all. simpl. eapply ext_st_trans; [apply (ext_st_add d s (OChtimes p)); left; assumption|].
  apply IH. assumption.
Qed.

Definition ext_ok (d : bytes) (s : st) (fl dl : list bytes) (r : lres) : Prop :=
  match r with (s', fl', dl', _) => ext_st d s s' /\ ext_l d fl fl' /\ ext_l d dl dl' end.

Lemma ext_ok_stop d s fl dl s' fl' r : ext_st d s s' -> ext_l d fl fl' -> ext_ok d s fl dl (s', fl', dl, r).
Proof. intros. simpl. repeat split; try assumption. apply ext_l_refl. Qed.

Lemma ext_ok_cont d s fl dl s' fl' dl' res :
  ext_st d s s' -> ext_l d fl fl' -> ext_l d dl dl' -> ext_ok d s' fl' dl' res -> ext_ok d s fl dl res.
Proof.
  intros A B C. destruct res as [[[s2 fl2] dl2] r]. simpl. intros (A' & B' & C').
  repeat split; [eapply ext_st_trans | eapply ext_l_trans | eapply ext_l_trans]; eauto.
Qed.

Section Confined.
  Variable transcode : bytes -> option bytes.
  Variable f : zfacts.
  Variables recursive membackend : bool.

  Lemma unzip_ok_parts : unzip_ok f = true ->
    san_ok f = true /\ nested_ok f = true /\ uz_clean_first f = true /\ uz_sanitise_always f = true /\
    zf_resanitise f = true /\ zf_resanitise_first f = true /\ sc_cut_then_sanitise f = true.
  Proof. unfold unzip_ok. rewrite !andb_true_iff. tauto. Qed.

  Lemma nested_dest_within d name p nd :
    san_ok f = true -> nested_ok f = true -> uz_clean_first f = true ->
    clean d = d -> sanitise f d name = Some p -> p <> d -> nested_dest f p = Some nd ->
    within d nd /\ clean nd = nd.
  Proof.
    intros Hok Hnok Hcf Hd Hs Hne Hn.
    assert (Hd0 : d <> []) by (apply cleanform_nonempty; assumption).
    assert (Hp : clean p = p) by (eapply sanitise_clean; eauto).
    assert (Wp : within d p) by (eapply sanitise_within; eauto).
    assert (Wd : within d (dir p)) by (apply dir_within; assumption).
    assert (Hdir : dir p <> []) by (apply clean_nonempty).
    unfold nested_dest, unzip_dest in Hn. rewrite Hcf in Hn. destruct (nz_dest_sanitised f) eqn:Ens.
    - destruct (sanitise f (dir p) (stem p)) as [nd0|] eqn:E; [|discriminate]. inversion Hn; subst.
      split; [|apply clean_idem]. apply within_clean. eapply within_trans; [exact Wd|].
      eapply sanitise_within; eauto.
    - inversion Hn; subst. split; [|apply clean_idem].
      apply within_clean. eapply within_trans; [exact Wd|]. apply join2_below; [assumption|].
      unfold nested_ok in Hnok. rewrite Ens in Hnok. simpl in Hnok.
      apply sanitise_shape in Hs as [_ [->|[_ T]]]; [congruence| |assumption].
      destruct (sa_dd f); try discriminate. simpl in T.
      eapply nodotdot_split_of_part; [|exact T]. apply stem_part. apply cleanform_nonempty. assumption.
  Qed.

  Lemma resanitise_within d p q q' :
    san_ok f = true -> zf_resanitise f = true -> sc_cut_then_sanitise f = true ->
    clean d = d -> within d p -> clean p = p -> resanitise f d p q = Some q' -> within d q' /\ clean q' = q'.
  Proof.
    intros Hok Hrs Hcs Hd Wp Hp. unfold resanitise. rewrite Hrs, Hcs. simpl. destruct (beqb q p) eqn:E.
    - apply beqb_eq in E. subst. intros H; inversion H; subst. split; assumption.
    - destruct (cut_prefix d q) as [rel|]; [|discriminate]. intros H.
      assert (d <> []) by (apply cleanform_nonempty; assumption).
      split; [eapply sanitise_within | eapply sanitise_clean]; eauto.
  Qed.

  Lemma file_body_ok d name is_arch run_inner cont s fl dl :
    unzip_ok f = true -> clean d = d ->
    (forall nd s4, clean nd = nd -> within d nd -> ext_ok nd s4 [] [] (run_inner nd s4)) ->
    (forall s' fl' dl', ext_ok d s' fl' dl' (cont s' fl' dl')) ->
    ext_ok d s fl dl (file_body transcode f recursive membackend d name is_arch run_inner cont s fl dl).
  Proof.
    intros Hall Hd Hin Hcont.
    destruct (unzip_ok_parts Hall) as (Hok & Hnok & Hcf & Hsa & Hrs & Hrf & Hcs).
    assert (Hd0 : d <> []) by (apply cleanform_nonempty; assumption).
    unfold file_body, sanitise_entry. rewrite Hsa, Hrf. simpl.
    destruct (sanitise f d name) as [p|] eqn:Es; [|apply ext_ok_stop; [apply ext_st_refl | apply ext_l_refl]].
    assert (Wp : within d p) by (eapply sanitise_within; eauto).
    assert (Hp : clean p = p) by (eapply sanitise_clean; eauto).
    set (fl1 := if recursive && is_zip_name name then fl else fl ++ [p]).
    assert (Efl1 : ext_l d fl fl1).
    { unfold fl1. destruct (recursive && is_zip_name name); [apply ext_l_refl | apply ext_l_snoc; assumption]. }
    destruct (mkdir (dir p) s) as [s1|] eqn:Em; [|apply ext_ok_stop; [apply ext_st_refl | assumption]].
    assert (E1 : ext_st d s s1).
    { eapply mkdir_ext; [|exact Em]. destruct (dir_within_or_above d p Hp Wp) as [H|H]; [left; exact H | right; eexists; split; [reflexivity | exact H]]. }
    destruct (transcode p) as [q|]; [|apply ext_ok_stop; assumption].
    destruct (resanitise f d p q) as [q'|] eqn:Er; [|apply ext_ok_stop; assumption].
    destruct (resanitise_within _ _ _ _ Hok Hrs Hcs Hd Wp Hp Er) as [Wq Hq].
    assert (E2 : ext_st d s (add_op (OOpenTrunc q') s1)).
    { eapply ext_st_trans; [exact E1|]. apply ext_st_add. left. exact Wq. }
    destruct (mem q' (dirs s1) || below_file q' s1); [apply ext_ok_stop; assumption|].
    destruct (negb (mem (dir q') (dirs s1)) && negb membackend); [apply ext_ok_stop; assumption|].
    match goal with |- context [mkSt ?a ?b (OChtimes q' :: ?c)] => set (s3 := mkSt a b (OChtimes q' :: c)) end.
    assert (E3 : ext_st d s s3).
    { destruct E2 as (n & En & Fn). exists (OChtimes q' :: n). split; [unfold s3; simpl; simpl in En; rewrite En; reflexivity|].
      constructor; [left; exact Wq | assumption]. }
    destruct recursive eqn:Erec; [|eapply ext_ok_cont; [exact E3 | exact Efl1 | apply ext_l_refl | apply Hcont]].
    destruct (is_zip_name p && negb (beqb p d) && (if beqb q' p then is_arch else true)) eqn:Ez.
    - apply andb_true_iff in Ez as [Ez _]. apply andb_true_iff in Ez as [_ Ene].
      apply negb_true_iff, beqb_neq in Ene.
      destruct (negb (beqb q' p)); [apply ext_ok_stop; assumption|].
      destruct (nested_dest f p) as [nd|] eqn:En; [|apply ext_ok_stop; assumption].
      destruct (nested_dest_within _ _ _ _ Hok Hnok Hcf Hd Es Ene En) as [Wn Hn].
      destruct (mkdir nd s3) as [s4|] eqn:Em4; [|apply ext_ok_stop; assumption].
      assert (E4 : ext_st d s3 s4) by (eapply mkdir_ext; [left; exact Wn | exact Em4]).
      specialize (Hin nd s4 Hn Wn). destruct (run_inner nd s4) as [[[s5 nfl] ndl] r]. simpl in Hin.
      destruct Hin as (I1 & I2 & I3).
      assert (E5 : ext_st d s s5).
      { eapply ext_st_trans; [exact E3|]. eapply ext_st_trans; [exact E4|]. eapply ext_st_mono; eauto. }
      destruct r; try (apply ext_ok_stop; assumption).
      destruct I2 as (n2 & En2 & F2). destruct I3 as (n3 & En3 & F3). simpl in En2, En3. subst nfl ndl.
      assert (F2' : Forall (within d) n2) by (eapply Forall_impl; [|exact F2]; intros; eapply within_trans; eauto).
      assert (F3' : Forall (within d) n3) by (eapply Forall_impl; [|exact F3]; intros; eapply within_trans; eauto).
      eapply ext_ok_cont; [| | apply ext_l_refl | apply Hcont].
      + eapply ext_st_trans; [exact E5|]. eapply ext_st_trans; [apply chtimes_all_ext; exact F3'|].
        exists [ORemove p]. split; [reflexivity | constructor; [left; exact Wp | constructor]].
      + eapply ext_l_trans; [exact Efl1|]. exists n2. split; [reflexivity | assumption].
    - eapply ext_ok_cont; [exact E3 | | apply ext_l_refl | apply Hcont].
      destruct (is_zip_name name); [|assumption]. eapply ext_l_trans; [exact Efl1 | apply ext_l_snoc; assumption].
  Qed.

  Theorem loop_ok (Hall : unzip_ok f = true) a : forall d s fl dl, clean d = d ->
    ext_ok d s fl dl (loop transcode f recursive membackend d a s fl dl).
  Proof.
    destruct (unzip_ok_parts Hall) as (Hok & Hnok & Hcf & Hsa & Hrs & Hrf & Hcs).
    induction a as [|name k rest IH|name inner IHi rest IHr]; intros d s fl dl Hd.
    - simpl. repeat split; [apply ext_st_refl | apply ext_l_refl | apply ext_l_refl].
    - destruct k.
      + simpl. assert (Hd0 : d <> []) by (apply cleanform_nonempty; assumption).
        unfold sanitise_entry. rewrite Hsa. simpl.
        destruct (sanitise f d name) as [p|] eqn:Es; [|apply ext_ok_stop; [apply ext_st_refl | apply ext_l_refl]].
        assert (Wp : within d p) by (eapply sanitise_within; eauto).
        set (fl1 := if recursive && is_zip_name name then fl else fl ++ [p]).
        assert (Efl1 : ext_l d fl fl1).
        { unfold fl1. destruct (recursive && is_zip_name name); [apply ext_l_refl | apply ext_l_snoc; assumption]. }
        destruct (mkdir p s) as [s1|] eqn:Em; [|apply ext_ok_stop; [apply ext_st_refl | assumption]].
        eapply ext_ok_cont; [eapply mkdir_ext; [left; exact Wp | exact Em] | exact Efl1 | apply ext_l_snoc; exact Wp | apply IH; assumption].
      + simpl. apply file_body_ok; [assumption | assumption | | intros; apply IH; assumption].
        intros nd s4 _ _. simpl. repeat split; [apply ext_st_refl | apply ext_l_refl | apply ext_l_refl].
    - simpl. apply file_body_ok; [assumption | assumption | | intros; apply IHr; assumption].
      intros nd s4 Hn _. apply IHi. assumption.
  Qed.

  Theorem unzip_confined_lemma dest a s0 s fl r : unzip_ok f = true ->
    unzip transcode f recursive membackend dest a s0 = (s, fl, r) ->
    (exists new, ops s = new ++ ops s0 /\ Forall (allowed (clean dest)) new) /\ Forall (within (clean dest)) fl.
  Proof.
    intros Hall. destruct (unzip_ok_parts Hall) as (Hok & Hnok & Hcf & Hsa & Hrs & Hrf & Hcs).
    unfold unzip, unzip_dest. rewrite Hcf. set (d := clean dest). assert (Hd : clean d = d) by apply clean_idem.
    destruct (mkdir d s0) as [s1|] eqn:Em.
    - pose proof (loop_ok Hall a d s1 [] [] Hd) as H.
      destruct (loop transcode f recursive membackend d a s1 [] []) as [[[s2 fl2] dl2] r2]. simpl in H.
      destruct H as (E & (nfl & -> & Ffl) & (ndl & -> & Fdl)).
      assert (E1 : ext_st d s0 s1) by (eapply mkdir_ext; [left; apply within_refl | exact Em]).
      destruct r2; intros H; inversion H; subst; (split; [|exact Ffl]).
      + eapply ext_st_trans; [exact E1|]. eapply ext_st_trans; [exact E|]. apply chtimes_all_ext. exact Fdl.
      + eapply ext_st_trans; eauto.
      + eapply ext_st_trans; eauto.
      + eapply ext_st_trans; eauto.
    - intros H; inversion H; subst. split; [apply ext_st_refl | constructor].
  Qed.
End Confined.

(* ---- the escape notion on the raw entry path ---- *)

Lemma within_of_clean d x : within d (clean x) -> within d x.
Proof.
  intros [R (rest & E & F)]. destruct (resolve_clean x) as [R' E']. split; [congruence|].
  exists rest. rewrite <- E'. split; assumption.
Qed.

(* the destination followed by '/' and the raw entry name, resolved lexically (".." steps included), leaves the
   destination => the entry is refused *)
Theorem sanitise_rejects_raw_escape_lemma f dest name : san_ok f = true ->
  ~ within (clean dest) (clean dest ++ slash :: name) -> sanitise f (clean dest) name = None.
Proof.
  intros Hok H. apply sanitise_rejects_escape_lemma; [assumption|]. intro W. apply H.
  unfold join2 in W. destruct (clean dest) as [|c d'] eqn:E; [exfalso; eapply clean_nonempty; eauto|].
  destruct name; apply within_of_clean; exact W.
Qed.

(* ---- anchoring a relative destination at an absolute working directory (link-free lexical resolution) ---- *)

Lemma step_skip rt X c : skip c = true -> step rt X c = X.
Proof. intros H. unfold step. rewrite H. reflexivity. Qed.
Lemma step_push rt X c : skip c = false -> is_dotdot c = false -> step rt X c = c :: X.
Proof. intros H1 H2. unfold step. rewrite H1, H2. reflexivity. Qed.
Lemma step_dd_nil rt c : skip c = false -> is_dotdot c = true -> step rt [] c = if rt then [] else [c].
Proof. intros H1 H2. unfold step. rewrite H1, H2. reflexivity. Qed.
Lemma step_dd_cons rt top X c : skip c = false -> is_dotdot c = true ->
  step rt (top :: X) c = if is_dotdot top then c :: top :: X else X.
Proof. intros H1 H2. unfold step. rewrite H1, H2. reflexivity. Qed.

Lemma run_true_rel K : Forall (fun c => c <> dotdot) K -> forall cs S,
  okstk false S = true ->
  run true K (rev (run false S cs)) = run true (run true K (rev S)) cs.
Proof.
  intros HK. induction cs as [|c cs IH]; intros S HS; [reflexivity|].
  simpl. change (fold_left (step false) cs (step false S c)) with (run false (step false S c) cs).
  rewrite IH by (apply okstk_step; assumption). f_equal.
  destruct (skip c) eqn:Es; [rewrite !step_skip by assumption; reflexivity|].
  destruct (is_dotdot c) eqn:Ed.
  - destruct S as [|top S0].
    + rewrite step_dd_nil by assumption. reflexivity.
    + rewrite step_dd_cons by assumption. destruct (is_dotdot top) eqn:Et.
      * change (rev (c :: top :: S0)) with (rev (top :: S0) ++ [c]). rewrite run_app. reflexivity.
      * simpl in HS. rewrite Et in HS. apply andb_true_iff in HS as [Hk _].
        unfold keep in Hk. apply negb_true_iff in Hk.
        simpl rev. rewrite run_app. simpl.
        rewrite (step_push true _ top Hk Et). rewrite step_dd_cons by assumption. rewrite Et. reflexivity.
  - rewrite (step_push false) by assumption. simpl rev. rewrite run_app. reflexivity.
Qed.

Lemma resolve_anchor cwd p : rooted cwd = true -> rooted p = false ->
  resolve (cwd ++ slash :: p) = rev (run true (rev (resolve cwd)) (resolve p)).
Proof.
  intros Rc Rp. unfold resolve at 1.
  assert (R : rooted (cwd ++ slash :: p) = true) by (destruct cwd; [discriminate | exact Rc]).
  rewrite R, split_app_slash. unfold norm. rewrite run_app. f_equal.
  unfold resolve. rewrite Rc, Rp. unfold norm. rewrite rev_involutive.
  set (K := run true [] (split cwd)).
  assert (HK : Forall (fun c => c <> dotdot) K).
  { assert (H : okstk true K = true) by (apply okstk_run; reflexivity).
    clear -H. induction K as [|c K IH]; [constructor|]. simpl in H. destruct (is_dotdot c) eqn:E; [discriminate|].
    apply andb_true_iff in H as [_ H]. constructor; [apply beqb_neq; exact E | apply IH; exact H]. }
  rewrite (run_true_rel K HK (split p) []) by reflexivity. reflexivity.
Qed.

Theorem within_physical_lemma cwd d p :
  rooted cwd = true -> rooted d = false -> within d p ->
  within (cwd ++ slash :: d) (cwd ++ slash :: p).
Proof.
  intros Rc Rd [R (rest & E & F)].
  assert (Rp : rooted p = false) by congruence.
  split; [destruct cwd; [discriminate | reflexivity]|].
  rewrite !resolve_anchor by assumption. rewrite E, run_app.
  assert (Hrest : Forall (fun c => keep c = true) rest).
  { pose proof (resolve_keep p) as H. rewrite E in H. apply Forall_app in H. tauto. }
  rewrite run_nodotdot by assumption. exists rest. rewrite rev_app_distr, rev_involutive. split; [|assumption].
  f_equal. clear -Hrest. induction rest as [|c rest IH]; [reflexivity|]. inversion Hrest; subst. simpl. rewrite H1, IH by assumption. reflexivity.
Qed.
