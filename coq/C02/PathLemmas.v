(* C02 — lemmas about the POSIX path model (Path.v). *)
From Coq Require Import List ZArith Bool Lia.
From GU Require Import C02.Path.
Import ListNotations.
Local Open Scope Z_scope.

(* ---- byte strings ---- *)

Lemma beqb_eq a b : beqb a b = true <-> a = b.
Proof.
  revert b; induction a as [|x a IH]; intros [|y b]; simpl; split; intro H; try discriminate; try reflexivity.
  - apply andb_true_iff in H as [H1 H2]. apply Z.eqb_eq in H1. apply IH in H2. congruence.
  - inversion H; subst. rewrite Z.eqb_refl. simpl. apply IH. reflexivity.
Qed.

Lemma beqb_refl a : beqb a a = true.
Proof. apply beqb_eq. reflexivity. Qed.

Lemma beqb_neq a b : beqb a b = false <-> a <> b.
Proof.
  split.
  - intros H E. apply beqb_eq in E. congruence.
  - intro H. destruct (beqb a b) eqn:E; [apply beqb_eq in E; contradiction | reflexivity].
Qed.

Lemma has_prefix_spec pre s : has_prefix pre s = true <-> exists r, s = pre ++ r.
Proof.
  revert s; induction pre as [|x pre IH]; intros s; simpl.
  - split; [intros _; exists s; reflexivity | reflexivity].
  - destruct s as [|y s].
    + split; [discriminate | intros [r Hr]; discriminate].
    + rewrite andb_true_iff, Z.eqb_eq, IH. split.
      * intros [-> [r ->]]. exists r. reflexivity.
      * intros [r Hr]. inversion Hr; subst. split; [reflexivity | exists r; reflexivity].
Qed.

Lemma cut_prefix_spec pre s r : cut_prefix pre s = Some r <-> s = pre ++ r.
Proof.
  revert s; induction pre as [|x pre IH]; intros s; simpl.
  - split; [intros H; inversion H; reflexivity | intros ->; reflexivity].
  - destruct s as [|y s].
    + split; discriminate.
    + destruct (x =? y) eqn:E.
      * apply Z.eqb_eq in E; subst. rewrite IH. split; [intros ->; reflexivity | intros H; inversion H; reflexivity].
      * apply Z.eqb_neq in E. split; [discriminate | intros H; inversion H; congruence].
Qed.

Lemma contains_app sub x y : contains sub (x ++ sub ++ y) = true.
Proof.
  induction x as [|c x IH]; simpl.
  - destruct (sub ++ y) eqn:E; simpl.
    + assert (has_prefix sub [] = true) as -> by (apply has_prefix_spec; exists y; symmetry; exact E). reflexivity.
    + assert (has_prefix sub (z :: l) = true) as -> by (apply has_prefix_spec; exists y; symmetry; exact E). reflexivity.
  - rewrite IH. apply orb_true_r.
Qed.

Lemma mem_In p l : mem p l = true <-> In p l.
Proof.
  induction l as [|q l IH]; simpl; [split; [discriminate | tauto]|].
  rewrite orb_true_iff, beqb_eq, IH. split; intros [H|H]; auto.
Qed.

(* ---- split ---- *)

Lemma split_nonnil s : split s <> [].
Proof.
  destruct s as [|c s]; simpl; [discriminate|].
  destruct (c =? slash); [discriminate|]. destruct (split s); discriminate.
Qed.

Lemma split_app_slash a b : split (a ++ slash :: b) = split a ++ split b.
Proof.
  induction a as [|c a IH]; simpl.
  - reflexivity.
  - destruct (c =? slash) eqn:E.
    + rewrite IH. reflexivity.
    + rewrite IH. destruct (split a) eqn:Ea; [exfalso; eapply split_nonnil; eauto|]. reflexivity.
Qed.

Lemma split_noslash s : Forall (fun c => ~ In slash c) (split s).
Proof.
  induction s as [|c s IH]; simpl.
  - constructor; [tauto | constructor].
  - destruct (c =? slash) eqn:E.
    + constructor; [tauto | exact IH].
    + destruct (split s) as [|w ws]; [constructor; [|constructor]|].
      * intros [H|[]]. subst. discriminate.
      * inversion IH; subst. constructor; [|assumption].
        intros [H|H]; [subst; discriminate | contradiction].
Qed.

(* an element of the split is a contiguous part of the string *)
Lemma split_In_sub s c : In c (split s) -> exists x y, s = x ++ c ++ y.
Proof.
  revert c; induction s as [|a s IH]; simpl; intros c H.
  - destruct H as [<-|[]]. exists [], []. reflexivity.
  - destruct (a =? slash) eqn:E.
    + destruct H as [<-|H].
      * exists [], (a :: s). reflexivity.
      * destruct (IH _ H) as (x & y & ->). exists (a :: x), y. reflexivity.
    + destruct (split s) as [|w ws] eqn:Es; [exfalso; eapply split_nonnil; eauto|].
      destruct H as [<-|H].
      * destruct (IH w (or_introl eq_refl)) as (x & y & Hs).
        (* w is the FIRST element: x must be empty *)
        assert (Hw : exists y', s = w ++ y').
        { clear -Es. revert w ws Es. induction s as [|b s IHs]; simpl; intros w ws Es.
          - inversion Es; subst. exists []. reflexivity.
          - destruct (b =? slash).
            + inversion Es; subst. exists (b :: s). reflexivity.
            + destruct (split s) as [|w' ws'] eqn:E'; [inversion Es; subst; exists s; destruct s; [reflexivity|] |].
              * simpl in E'. destruct (z =? slash); [discriminate|]. destruct (split s); discriminate.
              * inversion Es; subst. destruct (IHs _ _ eq_refl) as [y' ->]. exists y'. reflexivity. }
        destruct Hw as [y' ->]. exists [], y'. reflexivity.
      * destruct (IH c (or_intror H)) as (x & y & ->). exists (a :: x), y. reflexivity.
Qed.

(* ---- the stack machine ---- *)

Definition keep (c : bytes) : bool := negb (skip c).

Lemma run_app rt stk a b : run rt stk (a ++ b) = run rt (run rt stk a) b.
Proof. unfold run. apply fold_left_app. Qed.

(* elements none of which is ".." only push (or vanish) *)
Lemma run_nodotdot rt l : forall stk,
  Forall (fun c => c <> dotdot) l -> run rt stk l = rev (filter keep l) ++ stk.
Proof.
  induction l as [|c l IH]; intros stk H; simpl; [reflexivity|].
  inversion H; subst. unfold run in *. simpl. rewrite IH by assumption.
  unfold step, keep. destruct (skip c) eqn:Es; simpl; [reflexivity|].
  assert (is_dotdot c = false) as -> by (apply beqb_neq; assumption).
  rewrite <- app_assoc. reflexivity.
Qed.

Lemma filter_keep_nodotdot l : Forall (fun c => c <> dotdot) l -> Forall (fun c => c <> dotdot) (filter keep l).
Proof.
  induction 1; simpl; [constructor|]. destruct (keep x); [constructor|]; assumption.
Qed.

(* ---- the sufficient condition both shapes of sanitiseZipExtractPath establish ---- *)

(* p is d followed by '/' and a remainder none of whose elements is ".." *)
Definition safe_under (d p : bytes) : Prop :=
  exists r, p = d ++ slash :: r /\ Forall (fun c => c <> dotdot) (split r).

Lemma rooted_app_nonempty d r : d <> [] -> rooted (d ++ r) = rooted d.
Proof. destruct d; [congruence | reflexivity]. Qed.

Lemma within_refl d : within d d.
Proof. split; [reflexivity|]. exists []. rewrite app_nil_r. split; [reflexivity | constructor]. Qed.

Theorem safe_under_within d p : d <> [] -> safe_under d p -> within d p.
Proof.
  intros Hd (r & -> & Hr). split.
  - apply rooted_app_nonempty. assumption.
  - unfold resolve, norm. rewrite rooted_app_nonempty by assumption.
    rewrite split_app_slash, run_app, run_nodotdot by assumption.
    exists (filter keep (split r)). split.
    + rewrite rev_app_distr, rev_involutive. reflexivity.
    + apply filter_keep_nodotdot. assumption.
Qed.

Lemma within_trans a b c : within a b -> within b c -> within a c.
Proof.
  intros [R1 (r1 & E1 & F1)] [R2 (r2 & E2 & F2)]. split; [congruence|].
  exists (r1 ++ r2). split.
  - rewrite E2, E1, app_assoc. reflexivity.
  - apply Forall_app. split; assumption.
Qed.

Lemma withinb_spec d p : withinb d p = true <-> within d p.
Proof.
  unfold withinb, within. rewrite andb_true_iff, Bool.eqb_true_iff.
  assert (HL : forall a b r, list_prefix_rest a b = Some r <-> b = a ++ r).
  { induction a as [|x a IH]; intros [|y b] r; simpl.
    - split; [intros H; inversion H; reflexivity | intros <-; reflexivity].
    - split; [intros H; inversion H; reflexivity | intros <-; reflexivity].
    - split; discriminate.
    - destruct (beqb x y) eqn:E.
      + apply beqb_eq in E; subst. rewrite IH. split; [intros ->; reflexivity | intros H; inversion H; reflexivity].
      + apply beqb_neq in E. split; [discriminate | intros H; inversion H; congruence]. }
  split.
  - intros [HR H]. split; [assumption|].
    destruct (list_prefix_rest (resolve d) (resolve p)) as [rest|] eqn:E; [|discriminate].
    exists rest. split; [apply HL; assumption|].
    apply Forall_forall. intros c Hc. rewrite forallb_forall in H. specialize (H c Hc).
    intro; subst. discriminate.
  - intros [HR (rest & E & F)]. split; [assumption|].
    apply HL in E. rewrite E. apply forallb_forall. intros c Hc.
    rewrite Forall_forall in F. specialize (F c Hc). apply negb_true_iff, beqb_neq. assumption.
Qed.

(* ---- elements that survive the stack machine ---- *)

Lemma run_Forall (P : bytes -> Prop) rt cs : forall stk,
  Forall P stk -> Forall P cs -> Forall P (run rt stk cs).
Proof.
  induction cs as [|c cs IH]; intros stk Hs Hc; simpl; [assumption|].
  inversion Hc; subst. apply IH; [|assumption].
  unfold step. destruct (skip c); [assumption|]. destruct (is_dotdot c).
  - destruct stk as [|top stk']; [destruct rt; repeat constructor; assumption|].
    destruct (is_dotdot top); [constructor; assumption | inversion Hs; assumption].
  - constructor; assumption.
Qed.

Lemma run_keep rt cs : forall stk,
  Forall (fun c => keep c = true) stk -> Forall (fun c => keep c = true) (run rt stk cs).
Proof.
  induction cs as [|c cs IH]; intros stk Hs; simpl; [assumption|].
  apply IH. unfold step. destruct (skip c) eqn:E; [assumption|]. destruct (is_dotdot c).
  - destruct stk as [|top stk']; [destruct rt; repeat constructor; unfold keep; rewrite E; reflexivity|].
    destruct (is_dotdot top); [constructor; [unfold keep; rewrite E; reflexivity | assumption] | inversion Hs; assumption].
  - constructor; [unfold keep; rewrite E; reflexivity | assumption].
Qed.

Lemma keep_nonempty c : keep c = true -> c <> [].
Proof. intros H ->. discriminate. Qed.

Lemma resolve_keep s : Forall (fun c => keep c = true) (resolve s).
Proof.
  unfold resolve, norm. apply Forall_rev. apply run_keep. constructor.
Qed.

Lemma join_slash_nonempty n : n <> [] -> Forall (fun c => keep c = true) n -> join_slash n <> [].
Proof.
  destruct n as [|c n]; [congruence|]. intros _ H. inversion H; subst.
  apply keep_nonempty in H2. simpl. destruct n; [assumption|]. destruct c; [congruence | discriminate].
Qed.

Lemma clean_nonempty s : clean s <> [].
Proof.
  unfold clean. destruct s as [|c s]; [discriminate|].
  destruct (rooted (c :: s)); [discriminate|].
  destruct (resolve (c :: s)) as [|x n] eqn:E; [discriminate|].
  apply join_slash_nonempty; [discriminate|]. rewrite <- E. apply resolve_keep.
Qed.

(* ---- normal forms of the stack machine ---- *)

(* a reachable stack (head = last element): ordinary elements above a run of ".." that only a relative path can have *)
Fixpoint okstk (rt : bool) (stk : list bytes) : bool :=
  match stk with
  | [] => true
  | c :: stk' => if is_dotdot c then negb rt && forallb is_dotdot stk' else keep c && okstk rt stk'
  end.

Lemma dotdot_not_skip c : is_dotdot c = true -> skip c = false.
Proof. intros H. apply beqb_eq in H. subst. reflexivity. Qed.

Lemma okstk_step rt stk c : okstk rt stk = true -> okstk rt (step rt stk c) = true.
Proof.
  intros H. unfold step. destruct (skip c) eqn:Es; [assumption|].
  destruct (is_dotdot c) eqn:Ed.
  - destruct stk as [|top stk'].
    + destruct rt; simpl; [reflexivity | rewrite Ed; reflexivity].
    + simpl in H. destruct (is_dotdot top) eqn:Et.
      * simpl. rewrite Ed, Et. simpl. assumption.
      * apply andb_true_iff in H as [_ H]. assumption.
  - simpl. rewrite Ed. unfold keep. rewrite Es. simpl. assumption.
Qed.

Lemma okstk_run rt cs : forall stk, okstk rt stk = true -> okstk rt (run rt stk cs) = true.
Proof.
  induction cs as [|c cs IH]; intros stk H; simpl; [assumption|]. apply IH. apply okstk_step. assumption.
Qed.

Lemma okstk_app_r rt a : forall b, okstk rt (a ++ b) = true -> okstk rt b = true.
Proof.
  induction a as [|c a IH]; intros b H; simpl in *; [assumption|].
  destruct (is_dotdot c).
  - apply andb_true_iff in H as [H1 H2]. rewrite forallb_app in H2. apply andb_true_iff in H2 as [_ H2].
    clear IH. destruct b as [|x b]; [reflexivity|]. simpl in *. apply andb_true_iff in H2 as [Hx Hb].
    rewrite Hx, H1, Hb. reflexivity.
  - apply andb_true_iff in H as [_ H]. apply IH. assumption.
Qed.

(* a normal form is a fixed point: every element is pushed *)
Lemma run_fix rt l : forall stk, okstk rt (rev l ++ stk) = true -> run rt stk l = rev l ++ stk.
Proof.
  induction l as [|c l IH]; intros stk H; simpl; [reflexivity|].
  simpl in H. rewrite <- app_assoc in H. simpl in H.
  assert (Hc : okstk rt (c :: stk) = true) by (eapply okstk_app_r; exact H).
  assert (Hs : step rt stk c = c :: stk).
  { unfold step. simpl in Hc. destruct (is_dotdot c) eqn:Ed.
    - rewrite (dotdot_not_skip _ Ed). apply andb_true_iff in Hc as [Hr Hf].
      destruct stk as [|top stk']; [destruct rt; [discriminate | reflexivity]|].
      simpl in Hf. apply andb_true_iff in Hf as [Ht _]. rewrite Ht. reflexivity.
    - apply andb_true_iff in Hc as [Hk _]. unfold keep in Hk. apply negb_true_iff in Hk. rewrite Hk. reflexivity. }
  unfold run in *. simpl. rewrite Hs. rewrite IH by assumption. rewrite <- app_assoc. reflexivity.
Qed.

Lemma norm_fix rt n : okstk rt (rev n) = true -> norm rt n = n.
Proof.
  intros H. unfold norm. rewrite run_fix by (rewrite app_nil_r; assumption). rewrite app_nil_r. apply rev_involutive.
Qed.

Lemma resolve_okstk s : okstk (rooted s) (rev (resolve s)) = true.
Proof. unfold resolve, norm. rewrite rev_involutive. apply okstk_run. reflexivity. Qed.

(* ---- split / join ---- *)

Lemma split_single c : ~ In slash c -> split c = [c].
Proof.
  induction c as [|a c IH]; intros H; simpl; [reflexivity|].
  destruct (a =? slash) eqn:E; [apply Z.eqb_eq in E; subst; exfalso; apply H; left; reflexivity|].
  rewrite IH by (intro; apply H; right; assumption). reflexivity.
Qed.

Lemma split_join cs : cs <> [] -> Forall (fun c => ~ In slash c) cs -> split (join_slash cs) = cs.
Proof.
  induction cs as [|c cs IH]; [congruence|]. intros _ H. inversion H; subst.
  destruct cs as [|c2 cs'].
  - simpl. apply split_single. assumption.
  - change (join_slash (c :: c2 :: cs')) with (c ++ slash :: join_slash (c2 :: cs')).
    rewrite split_app_slash, split_single by assumption. rewrite IH by (assumption || discriminate). reflexivity.
Qed.

Lemma resolve_noslash s : Forall (fun c => ~ In slash c) (resolve s).
Proof. unfold resolve, norm. apply Forall_rev. apply run_Forall; [constructor | apply split_noslash]. Qed.

(* ---- filepath.Clean keeps the lexical resolution ---- *)

Definition cform (rt : bool) (n : list bytes) : bytes :=
  if rt then slash :: join_slash n else match n with [] => [dot] | _ => join_slash n end.

Lemma clean_cform s : clean s = cform (rooted s) (resolve s).
Proof. destruct s; reflexivity. Qed.

Lemma join_slash_first_nonslash x n : keep x = true -> ~ In slash x -> rooted (join_slash (x :: n)) = false.
Proof.
  intros Hk Hs. destruct x as [|a x]; [discriminate|].
  assert (a =? slash = false) by (apply Z.eqb_neq; intro; subst; apply Hs; left; reflexivity).
  destruct n; simpl; assumption.
Qed.

Lemma cform_resolve rt n :
  okstk rt (rev n) = true -> Forall (fun c => ~ In slash c) n -> Forall (fun c => keep c = true) n ->
  rooted (cform rt n) = rt /\ resolve (cform rt n) = n.
Proof.
  intros Hok Hns Hk. destruct rt; unfold cform.
  - split; [reflexivity|]. unfold resolve. destruct n as [|x n'].
    + reflexivity.
    + change (split (slash :: join_slash (x :: n'))) with ([] :: split (join_slash (x :: n'))).
      rewrite split_join by (assumption || discriminate).
      change (rooted (slash :: join_slash (x :: n'))) with true.
      change (norm true ([] :: x :: n')) with (norm true (x :: n')).
      apply norm_fix. assumption.
  - destruct n as [|x n'].
    + split; reflexivity.
    + inversion Hns; subst. inversion Hk; subst.
      assert (R : rooted (join_slash (x :: n')) = false) by (apply join_slash_first_nonslash; assumption).
      split; [assumption|]. unfold resolve. rewrite R. rewrite split_join by (assumption || discriminate).
      apply norm_fix. assumption.
Qed.

Theorem resolve_clean s : rooted (clean s) = rooted s /\ resolve (clean s) = resolve s.
Proof.
  rewrite clean_cform. apply cform_resolve; [apply resolve_okstk | apply resolve_noslash | apply resolve_keep].
Qed.

Lemma clean_idem s : clean (clean s) = clean s.
Proof.
  destruct (resolve_clean s) as [R E]. rewrite (clean_cform (clean s)), R, E. symmetry. apply clean_cform.
Qed.

Lemma clean_determined a b : rooted a = rooted b -> resolve a = resolve b -> clean a = clean b.
Proof. intros R E. rewrite !clean_cform, R, E. reflexivity. Qed.

Lemma within_clean d x : within d x -> within d (clean x).
Proof.
  intros [R (rest & E & F)]. destruct (resolve_clean x) as [R' E']. split; [congruence|].
  exists rest. rewrite E'. split; assumption.
Qed.

Lemma within_clean_l d x : within d x -> within (clean d) x.
Proof.
  intros [R (rest & E & F)]. destruct (resolve_clean d) as [R' E']. split; [congruence|].
  exists rest. rewrite E'. split; assumption.
Qed.

(* ---- filepath.Dir ---- *)

Lemma split_eq_single_nil r : split r = [[]] -> r = [].
Proof.
  destruct r as [|c r]; [reflexivity|]. simpl. destruct (c =? slash).
  - intros H. inversion H. exfalso. eapply split_nonnil; eauto.
  - destruct (split r); discriminate.
Qed.

Lemma dir_raw_split s : split (dir_raw s) = removelast (split s) ++ [[]].
Proof.
  induction s as [|a s IH]; [reflexivity|].
  simpl dir_raw. destruct (a =? slash) eqn:E.
  - simpl split at 1. rewrite E, IH. simpl split. rewrite E.
    destruct (split s) as [|w ws] eqn:Es; [exfalso; eapply split_nonnil; eauto|]. reflexivity.
  - destruct (dir_raw s) as [|b r] eqn:Er.
    + change (split []) with ([] ++ [[]:bytes]) in IH. apply app_inv_tail in IH.
      simpl split. rewrite E.
      destruct (split s) as [|w ws] eqn:Es; [exfalso; eapply split_nonnil; eauto|].
      destruct ws as [|w2 ws]; [reflexivity|]. exfalso. simpl in IH. destruct ws; discriminate.
    + assert (Hne : removelast (split s) <> []).
      { intro Hn. rewrite Hn in IH. apply (split_eq_single_nil (b :: r)) in IH. discriminate. }
      destruct (split s) as [|w ws] eqn:Es; [exfalso; eapply split_nonnil; eauto|].
      destruct ws as [|w2 ws]; [exfalso; apply Hne; reflexivity|].
      change (split (a :: b :: r)) with (if a =? slash then [] :: split (b :: r)
                                         else match split (b :: r) with [] => [[a]] | w :: ws => (a :: w) :: ws end).
      rewrite E, IH. simpl split. rewrite E, Es. reflexivity.
Qed.

Lemma dir_raw_rooted s : rooted (dir_raw s) = rooted s.
Proof.
  destruct s as [|a s]; [reflexivity|]. simpl. destruct (a =? slash) eqn:E; [simpl; assumption|].
  destruct (dir_raw s); simpl; [reflexivity | assumption].
Qed.

Lemma norm_app_nil rt l : norm rt (l ++ [[]]) = norm rt l.
Proof. unfold norm. rewrite run_app. reflexivity. Qed.

Lemma resolve_dir_raw s : resolve (dir_raw s) = norm (rooted s) (removelast (split s)).
Proof. unfold resolve. rewrite dir_raw_rooted, dir_raw_split. apply norm_app_nil. Qed.

Lemma okstk_removelast rt n : okstk rt (rev n) = true -> okstk rt (rev (removelast n)) = true.
Proof.
  intros H. destruct n as [|x n']; [reflexivity|].
  rewrite (app_removelast_last [] (l := x :: n')) in H by discriminate.
  rewrite rev_app_distr in H. simpl in H.
  apply (okstk_app_r rt [last (x :: n') []]). exact H.
Qed.

Lemma dir_cform rt n :
  okstk rt (rev n) = true -> Forall (fun c => ~ In slash c) n -> Forall (fun c => keep c = true) n ->
  rooted (dir (cform rt n)) = rt /\ resolve (dir (cform rt n)) = removelast n.
Proof.
  intros Hok Hns Hk. unfold dir.
  destruct (resolve_clean (dir_raw (cform rt n))) as [R E]. rewrite R, E, dir_raw_rooted, resolve_dir_raw.
  destruct (cform_resolve rt n Hok Hns Hk) as [Rc _]. rewrite Rc. split; [reflexivity|].
  destruct rt; unfold cform.
  - destruct n as [|x n']; [reflexivity|].
    change (split (slash :: join_slash (x :: n'))) with ([] :: split (join_slash (x :: n'))).
    rewrite split_join by (assumption || discriminate).
    change (removelast ([] :: x :: n')) with ([] :: removelast (x :: n')).
    change (norm true ([] :: removelast (x :: n'))) with (norm true (removelast (x :: n'))).
    apply norm_fix. apply okstk_removelast. assumption.
  - destruct n as [|x n']; [reflexivity|].
    rewrite split_join by (assumption || discriminate).
    apply norm_fix. apply okstk_removelast. assumption.
Qed.

Lemma dir_clean y : rooted (dir (clean y)) = rooted y /\ resolve (dir (clean y)) = removelast (resolve y).
Proof.
  rewrite clean_cform. apply dir_cform; [apply resolve_okstk | apply resolve_noslash | apply resolve_keep].
Qed.

Lemma Forall_removelast {A} (P : A -> Prop) l : Forall P l -> Forall P (removelast l).
Proof.
  induction l as [|x l IH]; intros H; [constructor|]. inversion H; subst.
  destruct l; [constructor|]. simpl. constructor; [assumption | apply IH; assumption].
Qed.

(* the parent of a clean path inside d is inside d, or is the parent of d itself *)
Lemma dir_within_or_above d p : clean p = p -> within d p -> within d (dir p) \/ above d (dir p).
Proof.
  intros Hp [R (rest & E & F)]. rewrite <- Hp. destruct (dir_clean p) as [Rd Ed].
  destruct rest as [|x rest'].
  - right. split; [congruence|]. rewrite Ed, E, app_nil_r.
    destruct (resolve d) as [|z l] eqn:Er; [exists []; reflexivity|].
    exists [last (z :: l) []]. apply app_removelast_last. discriminate.
  - left. split; [congruence|]. rewrite Ed, E.
    exists (removelast (x :: rest')). split.
    + apply removelast_app. discriminate.
    + apply Forall_removelast. assumption.
Qed.

Lemma dir_within d p : clean p = p -> clean d = d -> within d p -> p <> d -> within d (dir p).
Proof.
  intros Hp Hd W Hne. destruct W as [R (rest & E & F)].
  destruct rest as [|x rest'].
  - exfalso. apply Hne. rewrite <- Hp, <- Hd. apply clean_determined; [assumption|]. rewrite E, app_nil_r. reflexivity.
  - rewrite <- Hp. destruct (dir_clean p) as [Rd Ed]. split; [congruence|]. rewrite Ed, E.
    exists (removelast (x :: rest')). split; [apply removelast_app; discriminate | apply Forall_removelast; assumption].
Qed.

Lemma within_above_mono d nd q : within d nd -> above nd q -> within d q \/ above d q.
Proof.
  intros [R1 (r1 & E1 & F1)] [R2 (r2 & E2)]. rewrite E1 in E2.
  apply app_eq_app in E2 as [l [[H1 H2]|[H1 H2]]].
  - right. split; [congruence|]. exists l. assumption.
  - left. split; [congruence|]. exists l. split; [assumption|]. rewrite H2 in F1. apply Forall_app in F1. tauto.
Qed.

Lemma above_refl d : above d d.
Proof. split; [reflexivity|]. exists []. rewrite app_nil_r. reflexivity. Qed.

(* ---- parts of a string (for the substring shape of the ".." test) ---- *)

Definition part (x s : bytes) : Prop := exists a b, s = a ++ x ++ b.

Lemma part_trans x y z : part x y -> part y z -> part x z.
Proof.
  intros (a & b & ->) (a' & b' & ->). exists (a' ++ a), (b ++ b'). rewrite <- !app_assoc. reflexivity.
Qed.

Lemma part_contains x s : part x s -> contains x s = true.
Proof. intros (a & b & ->). apply contains_app. Qed.

Lemma strip_suffix r : exists pre, r = pre ++ strip_trailing_slashes_rev r.
Proof.
  induction r as [|c r IH]; [exists []; reflexivity|]. simpl. destruct (c =? slash).
  - destruct IH as [pre IH]. exists (c :: pre). simpl. rewrite <- IH. reflexivity.
  - exists []. reflexivity.
Qed.

Lemma last_In {A} (l : list A) d : l <> [] -> In (last l d) l.
Proof.
  induction l as [|x l IH]; [congruence|]. intros _. destruct l; [left; reflexivity|].
  right. apply IH. discriminate.
Qed.

Lemma base_part s : s <> [] -> part (base s) s.
Proof.
  intros Hs. unfold base. destruct s as [|c0 s0]; [congruence|].
  remember (c0 :: s0) as s eqn:Es.
  destruct (strip_suffix (rev s)) as [pre Hpre].
  remember (rev (strip_trailing_slashes_rev (rev s))) as t eqn:Et.
  assert (Ht : s = t ++ rev pre).
  { subst t. rewrite <- rev_app_distr, <- Hpre, rev_involutive. reflexivity. }
  destruct t as [|a t'].
  - (* only slashes *)
    assert (Hall : forall r, strip_trailing_slashes_rev r = [] -> Forall (fun c => c = slash) r).
    { induction r as [|c r IH]; intros H; [constructor|]. simpl in H. destruct (c =? slash) eqn:E; [|discriminate].
      constructor; [apply Z.eqb_eq; assumption | apply IH; assumption]. }
    assert (Hr : strip_trailing_slashes_rev (rev s) = []).
    { apply (f_equal (@rev Z)) in Et. rewrite rev_involutive in Et. symmetry. exact Et. }
    apply Hall in Hr. apply Forall_rev in Hr. rewrite rev_involutive in Hr. rewrite Es in Hr. inversion Hr; subst.
    exists [], s0. reflexivity.
  - remember (a :: t') as t2 eqn:Et2.
    assert (H : In (last (split t2) []) (split t2)) by (apply last_In, split_nonnil).
    destruct (split_In_sub _ _ H) as (x & y & Hxy).
    exists x, (y ++ rev pre). rewrite Ht. rewrite Hxy at 1. rewrite <- !app_assoc. reflexivity.
Qed.

Lemma trim_suffix_part s suf : part (trim_suffix s suf) s.
Proof.
  unfold trim_suffix. destruct (_ && _).
  - exists [], (skipn (length s - length suf) s). simpl. symmetry. apply firstn_skipn.
  - exists [], []. rewrite app_nil_r. reflexivity.
Qed.

Lemma stem_part s : s <> [] -> part (stem s) s.
Proof. intros H. unfold stem. eapply part_trans; [apply trim_suffix_part | apply base_part; assumption]. Qed.

Lemma nodotdot_split_of_part st p :
  part st p -> contains dotdot p = false -> Forall (fun c => c <> dotdot) (split st).
Proof.
  intros Hp Hc. apply Forall_forall. intros c Hin ->.
  destruct (split_In_sub _ _ Hin) as (x & y & Hst).
  assert (part dotdot p) by (eapply part_trans; [exists x, y; exact Hst | exact Hp]).
  apply part_contains in H. congruence.
Qed.

(* joining below a non-empty directory *)
Lemma join2_below a st : a <> [] -> Forall (fun c => c <> dotdot) (split st) -> within a (join2 a st).
Proof.
  intros Ha F. unfold join2. destruct a as [|x a']; [congruence|].
  assert (E : match st with [] | _ => clean ((x :: a') ++ slash :: st) end = clean ((x :: a') ++ slash :: st)) by (destruct st; reflexivity).
  destruct st; apply within_clean, safe_under_within; try discriminate; eexists; split; try reflexivity; assumption.
Qed.

Lemma join2_clean a b : a <> [] -> clean (join2 a b) = join2 a b.
Proof. intros Ha. unfold join2. destruct a; [congruence|]. destruct b; apply clean_idem. Qed.
