(* C04 — executable model of recursive removal in utils/filesystem/files.go on a file system WITH symbolic links.

   File system: a finite map from PHYSICAL paths (lists of names from the sandbox root []) to entries
   (regular file / directory / symbolic link with an absolute target path).  The backend primitives resolve paths the
   way the OS does: intermediate links are followed, [stat] follows the last component, [lstat]/[os_remove] do not.
   The library functions are mirrored line by line, so that a removal which walks through a link deletes, in the model
   as on the OS, entries that physically live somewhere else.

   The model is PARAMETERISED by the fact records of Facts.v (which test comes first, which string an exclusion test is
   applied to, whether the context is tested, what is handed down as [tested], the Lstat guards of garbageCollect and
   RemoveWithPrivileges, ...).  Their values are generated from the source on every run (Gen.v); expected_rm /
   expected_gc / expected_priv describe the repaired code, before_fix_* (Proofs.v) the code before the D10 fix, kept for
   the refutation theorems.  The correspondence (check_case) evaluates the GENERATED instance.
   The exclusion patterns are handed down from CleanDir... to the per-entry removal as the C08 repair of defect D11
   does it: the entry NAME is tested for nested entries, the caller's path for the top entry. *)
From Coq Require Import List ZArith Bool.
Import ListNotations.
From GU Require Import C04.Facts C04.Gen.

Definition name := list Z.          (* bytes of one path component *)
Definition path := list name.       (* components below the sandbox root; [] is the sandbox root *)

Fixpoint name_eqb (a b : name) : bool :=
  match a, b with
  | [], [] => true
  | x :: xs, y :: ys => Z.eqb x y && name_eqb xs ys
  | _, _ => false
  end.

Fixpoint path_eqb (a b : path) : bool :=
  match a, b with
  | [], [] => true
  | x :: xs, y :: ys => name_eqb x y && path_eqb xs ys
  | _, _ => false
  end.

(* cid: 0 for an empty file, otherwise an identifier of the content *)
Inductive entry := EFile (cid : Z) | EDir | ELink (target : path).

Definition fsys := list (path * entry).

Fixpoint lookup (s : fsys) (p : path) : option entry :=
  match s with
  | [] => None
  | (k, e) :: r => if path_eqb k p then Some e else lookup r p
  end.

Definition rm_key (q : path) (s : fsys) : fsys := filter (fun ke => negb (path_eqb (fst ke) q)) s.

(* child_of p k = Some n  iff  k = p ++ [n] *)
Fixpoint child_of (p k : path) : option name :=
  match p, k with
  | [], [n] => Some n
  | a :: p', b :: k' => if name_eqb a b then child_of p' k' else None
  | _, _ => None
  end.

Definition children (s : fsys) (p : path) : list name :=
  flat_map (fun ke => match child_of p (fst ke) with Some n => [n] | None => [] end) s.

(* ---- path resolution (the OS) ---- *)

(* walk the components [rest] from the physical directory [cur]; [follow] resolves the path a link expands to *)
Fixpoint walk (follow : path -> option path) (s : fsys) (last_follow : bool) (cur rest : path) : option path :=
  match rest with
  | [] => Some cur
  | c :: rest' =>
      let q := cur ++ [c] in
      match lookup s q with
      | None => None                                                   (* ENOENT *)
      | Some EDir => walk follow s last_follow q rest'
      | Some (EFile _) => match rest' with [] => Some q | _ => None end   (* ENOTDIR *)
      | Some (ELink t) =>
          match rest', last_follow with
          | [], false => Some q                                        (* lstat / unlink: the link itself *)
          | _, _ => follow (t ++ rest')
          end
      end
  end.

(* at most [fuel] link expansions (ELOOP afterwards; Linux: 40) *)
Fixpoint resolve (fuel : nat) (s : fsys) (last_follow : bool) (p : path) : option path :=
  match fuel with
  | O => None
  | S f => walk (resolve f s last_follow) s last_follow [] p
  end.

Definition link_fuel : nat := 40.

(* afero OsFs.Stat / LstatIfPossible: errors are collapsed to None (every caller below treats them as "not there") *)
Definition stat (s : fsys) (p : path) : option entry :=
  match resolve link_fuel s true p with Some q => lookup s q | None => None end.
Definition lstat (s : fsys) (p : path) : option entry :=
  match resolve link_fuel s false p with Some q => lookup s q | None => None end.

(* Open + Readdirnames(-1): follows links *)
Definition readdir (s : fsys) (p : path) : option (list name) :=
  match resolve link_fuel s true p with
  | Some q => match lookup s q with Some EDir => Some (children s q) | _ => None end
  | None => None
  end.

Inductive err := ECancelled | ENotFound | EInvalid | ENotEmpty | EFuel.
Inductive res := Ok | Err (e : err).

(* os.Remove: unlink, or rmdir of an EMPTY directory; never follows the last component *)
Definition os_remove (s : fsys) (p : path) : fsys * res :=
  match resolve link_fuel s false p with
  | Some q =>
      match lookup s q with
      | Some EDir => match children s q with [] => (rm_key q s, Ok) | _ => (s, Err ENotEmpty) end
      | Some _ => (rm_key q s, Ok)
      | None => (s, Err ENotFound)
      end
  | None => (s, Err ENotFound)
  end.

Definition is_link (e : option entry) : bool := match e with Some (ELink _) => true | _ => false end.

(* ---- the library (files.go) ---- *)

(* VFS.Exists, files.go:637-670: Stat (following links); a directory is double-checked by opening it *)
Definition exists_ (s : fsys) (p : path) : bool := match stat s p with Some _ => true | None => false end.

(* VFS.IsDir, files.go:808-823: None = ErrNotFound *)
Definition is_dir (s : fsys) (p : path) : option bool :=
  match stat s p with Some EDir => Some true | Some _ => Some false | None => None end.

(* VFS.IsEmpty, files.go:836-887: missing => empty; file => size 0; directory => Readdirnames(1) gives EOF *)
Definition is_empty (s : fsys) (p : path) : bool :=
  match stat s p with
  | None => true
  | Some (EFile c) => Z.eqb c 0
  | Some EDir => match readdir s p with Some (_ :: _) => false | _ => true end
  | Some (ELink _) => true
  end.

Section Removal.
(* exclusion.go: the listing tests the BASE NAME of each entry (LsWithExclusionPatterns -> ExcludeFiles); the removal
   tests [tested] (IsPathExcludedFromPatterns): the path as given by the caller for the top entry, the entry NAME (a
   one-component path) for everything below it — removeFileWithContext hands the name down (repair of D11). *)
Variable excl_name : name -> bool.
Variable excl_path : path -> bool.
Variable k : rm_facts.               (* the facts extracted from the source (Gen.v); expected_rm = the repaired code *)
Variable cancelled : bool.           (* the context handed in is already done *)

(* LsWithExclusionPatterns *)
Definition ls (s : fsys) (p : path) : option (list name) :=
  match is_dir s p with
  | Some true => match readdir s p with Some ns => Some (filter (fun n => negb (excl_name n)) ns) | None => None end
  | _ => None
  end.

(* the loop of CleanDirWithContextAndExclusionPatterns over removeFileWithContext:
   removeWithExclusionPatterns(ctx, Join(dir, f), f, patterns...) *)
Fixpoint fold_rm (rm : fsys -> path -> path -> fsys * res) (s : fsys) (p : path) (ns : list name) : fsys * res :=
  match ns with
  | [] => (s, Ok)
  | n :: r =>
      if cancelled then (s, Err ECancelled) else
      match rm s (p ++ [n]) (match nested_tested k with NName => [n] | NPath => p ++ [n] end) with
      | (s1, Ok) => fold_rm rm s1 p r
      | (s1, Err e) => (s1, Err e)
      end
  end.

(* CleanDirWithContextAndExclusionPatterns *)
Definition clean_dir_with (rm : fsys -> path -> path -> fsys * res) (s : fsys) (p : path) : fsys * res :=
  if cancelled then (s, Err ECancelled) else
  if negb (exists_ s p) then (s, Ok) else
  if is_empty s p then (s, Ok) else
  match ls s p with
  | None => (s, Err EInvalid)
  | Some ns => fold_rm rm s p ns
  end.

(* removeWithExclusionPatterns(ctx, dir, tested, patterns...) (the case dir == "" is not modelled: [] is the sandbox
   root; the patterns are valid regular expressions) *)
Fixpoint remove (fuel : nat) (s : fsys) (p : path) (tested : path) {struct fuel} : fsys * res :=
  match fuel with
  | O => (s, Err EFuel)
  | S f =>
      if rm_link_first k && is_link (lstat s p) then
        (* the fix: a symbolic link is removed as a link, never followed *)
        if rm_link_ctx k && cancelled then (s, Err ECancelled) else
        if (match rm_link_excl k with TTested => excl_path tested | TDir => excl_path p | TNone => false end) then (s, Ok) else os_remove s p
      else
      if negb (exists_ s p) then (s, Ok) else
      match is_dir s p with
      | None => (s, Err ENotFound)
      | Some isDir =>
          let isEmpty := is_empty s p in
          let '(s1, r1) := if isDir && negb isEmpty then clean_dir_with (remove f) s p else (s, Ok) in
          match r1 with
          | Err e =>
              if rm_clean_err_first k then (s1, Err e) else
              (* the error is overwritten by the next IsEmpty *)
              if rm_stop_nonempty k && isDir && negb (is_empty s1 p) then (s1, Ok) else
              if rm_final_ctx k && cancelled then (s1, Err ECancelled) else
              if (match rm_final_excl k with TTested => excl_path tested | TDir => excl_path p | TNone => false end) then (s1, Ok) else os_remove s1 p
          | Ok =>
              if rm_stop_nonempty k && isDir && negb (is_empty s1 p) then (s1, Ok) else    (* some entries were excluded: stop *)
              if rm_final_ctx k && cancelled then (s1, Err ECancelled) else
              if (match rm_final_excl k with TTested => excl_path tested | TDir => excl_path p | TNone => false end) then (s1, Ok) else os_remove s1 p
          end
      end
  end.

(* The same function when the caller spells the path with a TRAILING SEPARATOR (or "/.") and the path is not cleaned
   first: the OS then follows a final link in every resolution of that path, Lstat included, so the link branch is
   never taken, and unlink / rmdir of "link/" fail with ENOTDIR.  (Entries below are reached through Join, which cleans.) *)
Definition remove_trailing (fuel : nat) (s : fsys) (p : path) (tested : path) : fsys * res :=
  match fuel with
  | O => (s, Err EFuel)
  | S f =>
      if negb (exists_ s p) then (s, Ok) else
      match is_dir s p with
      | None => (s, Err ENotFound)
      | Some isDir =>
          let '(s1, r1) := if isDir && negb (is_empty s p) then clean_dir_with (remove f) s p else (s, Ok) in
          match r1 with
          | Err e => (s1, Err e)
          | Ok =>
              if isDir && negb (is_empty s1 p) then (s1, Ok) else
              if cancelled then (s1, Err ECancelled) else
              if excl_path tested then (s1, Ok) else
              if is_link (lstat s1 p) then (s1, Err EInvalid) else os_remove s1 p
          end
      end
  end.

(* RemoveWithContextAndExclusionPatterns(ctx, dir, patterns...) = removeWithExclusionPatterns(ctx, dir, dir, patterns...);
   [trailing]: the caller's spelling of dir ends in a separator or in "/." *)
Definition remove_top (trailing : bool) (fuel : nat) (s : fsys) (p : path) : fsys * res :=
  if negb (rm_path_cleaned k) && trailing then remove_trailing fuel s p p else remove fuel s p p.
Definition clean_dir (fuel : nat) (s : fsys) (p : path) : fsys * res := clean_dir_with (remove fuel) s p.
End Removal.

Section GC.
Variable k : rm_facts.
Variable g : gc_facts.
Variable cancelled : bool.
Variable old : path -> bool.   (* the entry at this PHYSICAL path was last accessed longer ago than the threshold *)
Variable ord : path -> list name -> list name.   (* the order in which the entries of a directory get processed *)

(* RemoveWithContext = removal without exclusion patterns *)
Definition remove0 (fuel : nat) (s : fsys) (p : path) : fsys * res :=
  remove (fun _ => false) (fun _ => false) k cancelled fuel s p p.

(* garbageCollectFile: StatTimes follows links *)
Definition gc_file (fuel : nat) (s : fsys) (p : path) : fsys * res :=
  if cancelled then (s, Err ECancelled) else
  match resolve link_fuel s true p with
  | None => (s, Err ENotFound)
  | Some q => if old q then remove0 fuel s p else (s, Ok)
  end.

(* the children of garbageCollectDir: collected by Parallelise (one goroutine each), their errors are dropped.
   Modelled in sequence, in an ARBITRARY order [ord] (the theorems hold for every order; interleavings below the
   granularity of one entry are not modelled); running out of fuel is not an error of the code but the model's own mark of
   non-termination, so it is the one thing that is NOT dropped. *)
Fixpoint gc_children (gg : fsys -> path -> fsys * res) (s : fsys) (p : path) (ns : list name) : fsys * bool :=
  match ns with
  | [] => (s, false)
  | n :: r =>
      match gg s (p ++ [n]) with
      | (s1, Err EFuel) => (s1, true)
      | (s1, _) => gc_children gg s1 p r
      end
  end.

(* garbageCollect / garbageCollectDir (non-Windows) *)
Fixpoint gc (fuel : nat) (s : fsys) (p : path) (deletePath : bool) {struct fuel} : fsys * res :=
  match fuel with
  | O => (s, Err EFuel)
  | S f =>
      if cancelled then (s, Err ECancelled) else
      if negb (exists_ s p) then (s, Ok) else
      if gc_link_first g && deletePath && is_link (lstat s p) then gc_file f s p else
      match is_dir s p with
      | Some true =>
          match ls (fun _ => false) s p with
          | None => (s, Err EInvalid)
          | Some ns =>
              match gc_children (fun a q => gc f a q true) s p (ord p ns) with
              | (s1, true) => (s1, Err EFuel)
              | (s1, false) => if is_empty s1 p && deletePath then remove0 f s1 p else (s1, Ok)
              end
          end
      | _ => gc_file f s p
      end
  end.

(* GarbageCollectWithContext *)
Definition garbage_collect (fuel : nat) (s : fsys) (root : path) : fsys * res := gc fuel s root false.
End GC.

Fixpoint is_prefix (p q : path) : bool :=
  match p, q with
  | [], _ => true
  | a :: p', b :: q' => name_eqb a b && is_prefix p' q'
  | _ :: _, [] => false
  end.

(* ---- ownership: RemoveWithPrivileges (files.go) ----
   Ownership is part of the state: [owners] gives the owner of the entry at each PHYSICAL path. *)
Definition owners := path -> Z.
Definition set_owner (o : owners) (q : path) (u : Z) : owners := fun x => if path_eqb x q then u else o x.

(* os.Chown FOLLOWS links: the entry that changes owner is the one the path resolves to *)
Definition chown (s : fsys) (o : owners) (p : path) (u : Z) : owners * res :=
  match resolve link_fuel s true p with
  | Some q => match lookup s q with Some _ => (set_owner o q u, Ok) | None => (o, Err ENotFound) end
  | None => (o, Err ENotFound)
  end.

(* platform.RemoveWithPrivileges: rm -r -f -- path as administrator; rm does not follow links *)
Definition force_remove (s : fsys) (p : path) : fsys * res :=
  match resolve link_fuel s false p with
  | Some q => (filter (fun ke => negb (is_prefix q (fst ke))) s, Ok)
  | None => (s, Err ENotFound)
  end.

(* ForceRemoveIfPossible of the extended OS file system, as far as the generated facts say *)
Definition library_force (pk : priv_facts) : fsys -> path -> fsys * res :=
  if pv_force_passes_path pk then force_remove else (fun s _ => (s, Ok)).   (* rm -r -f without operand: nothing, exit 0 *)

Section Privileges.
(* the two ordinary attempts (RemoveWithContext).  They may fail for reasons the file-system model does not know
   (EPERM, EBUSY, ...): the theorems take ANY behaviour that stays at or below the path. *)
Variable pass1 pass2 : fsys -> path -> fsys * res.
Variable force : fsys -> path -> fsys * res.    (* ForceRemoveIfPossible *)
Variable link_check : bool.                     (* the fix: never take ownership through a symbolic link *)
Variable me : Z.                                (* user.Current() *)

(* commonerrors.Any(err, nil, ErrTimeout, ErrCancelled) *)
Definition final (r : res) : bool := match r with Ok | Err ECancelled => true | _ => false end.

(* VFS.RemoveWithPrivileges *)
Definition remove_with_privileges (s : fsys) (o : owners) (p : path) : fsys * owners * res :=
  let '(s1, r1) := pass1 s p in
  if final r1 then (s1, o, r1) else
  let '(o1, rc) := if link_check && is_link (lstat s1 p) then (o, Ok) else chown s1 o p me in
  match rc with
  | Ok =>
      let '(s2, r2) := pass2 s1 p in
      if final r2 then (s2, o1, r2) else
      let '(s3, r3) := force s2 p in (s3, o1, r3)
  | Err _ => let '(s3, r3) := force s1 p in (s3, o1, r3)
  end.
End Privileges.

(* ---- vocabulary of the theorems ---- *)

Definition under (p q : path) : Prop := exists r, q = p ++ r.       (* q is p or lies below p *)

(* number of entries at or below p *)
Definition size_below (s : fsys) (p : path) : nat := length (filter (fun ke => is_prefix p (fst ke)) s).

(* every proper prefix of p is a real directory: p is a physical path *)
Definition dirs_above (s : fsys) (p : path) : Prop :=
  forall a b, p = a ++ b -> b <> [] -> lookup s a = Some EDir.

(* well-formed tree: whatever exists lives in a real directory *)
Definition wf (s : fsys) : Prop :=
  forall a n, lookup s (a ++ [n]) <> None -> lookup s a = Some EDir.

Definition not_link (e : option entry) : Prop := forall t, e <> Some (ELink t).

(* ---- correspondence ---- *)

Inductive opkind := OpRm | OpClean | OpGc.

Record case := mkCase {
  c_before : fsys;             (* Lstat snapshot of the whole sandbox before the call, root ([], EDir) included *)
  c_root : path;               (* the path handed to the library *)
  c_trailing : bool;           (* ... spelled with a trailing separator or "/." *)
  c_op : opkind;
  c_pats : list name;          (* non-empty literal exclusion patterns (no separator, no regexp operator) *)
  c_cancelled : bool;
  c_old : list path;           (* files with an old access time *)
  c_all_old : bool;            (* threshold so low that everything is old *)
  c_ok : bool;                 (* the call returned nil *)
  c_removed : list N;          (* positions in c_before of the entries that are gone after the call *)
  c_rest_same : bool           (* the snapshot after the call is exactly c_before minus those entries, nothing modified or created *)
}.

Fixpoint drop_idx (i : N) (rem : list N) (s : fsys) : fsys :=
  match s with
  | [] => []
  | x :: r => if existsb (N.eqb i) rem then drop_idx (N.succ i) rem r else x :: drop_idx (N.succ i) rem r
  end.
Definition c_after (c : case) : fsys := drop_idx 0%N (c_removed c) (c_before c).

Fixpoint has_prefix (pat n : name) : bool :=
  match pat, n with
  | [], _ => true
  | x :: xs, y :: ys => Z.eqb x y && has_prefix xs ys
  | _ :: _, [] => false
  end.

(* regexp.MatchString of a literal: substring *)
Fixpoint contains (pat n : name) : bool :=
  has_prefix pat n || match n with [] => false | _ :: r => contains pat r end.

Definition name_excluded (pats : list name) (n : name) : bool := existsb (fun pat => contains pat n) pats.
(* a separator-free literal matches the full path iff it matches one component (the scratch prefix never matches) *)
Definition path_excluded (pats : list name) (p : path) : bool := existsb (name_excluded pats) p.

Definition entry_eqb (a b : entry) : bool :=
  match a, b with
  | EFile x, EFile y => Z.eqb x y
  | EDir, EDir => true
  | ELink t, ELink u => path_eqb t u
  | _, _ => false
  end.

Definition sub_fs (a b : fsys) : bool :=
  forallb (fun ke => match lookup b (fst ke) with Some e => entry_eqb e (snd ke) | None => false end) a.
Definition fs_eqb (a b : fsys) : bool := sub_fs a b && sub_fs b a.

Definition run_case (c : case) : fsys * res :=
  let fuel := S (S (length (c_before c))) in
  let en := name_excluded (c_pats c) in
  let ep := path_excluded (c_pats c) in
  match c_op c with
  | OpRm => remove_top en ep Gen.rm (c_cancelled c) (c_trailing c) fuel (c_before c) (c_root c)
  | OpClean => clean_dir en ep Gen.rm (c_cancelled c) fuel (c_before c) (c_root c)
  | OpGc => garbage_collect Gen.rm Gen.gc (c_cancelled c)
              (fun q => c_all_old c || existsb (path_eqb q) (c_old c)) (fun _ ns => ns) fuel (c_before c) (c_root c)
  end.

(* the same call with the entries of every directory processed in the opposite order *)
Definition run_case_rev (c : case) : fsys * res :=
  match c_op c with
  | OpGc => garbage_collect Gen.rm Gen.gc (c_cancelled c)
              (fun q => c_all_old c || existsb (path_eqb q) (c_old c)) (fun _ ns => rev ns)
              (S (S (length (c_before c)))) (c_before c) (c_root c)
  | _ => run_case c
  end.

Definition agrees (c : case) (o : fsys * res) : bool :=
  let '(s', r) := o in
  fs_eqb s' (c_after c) && Bool.eqb (match r with Ok => true | Err _ => false end) (c_ok c).

Definition check_case (c : case) : bool :=
  c_rest_same c && agrees c (run_case c) && agrees c (run_case_rev c).
