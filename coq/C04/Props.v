(* C04 — Recursive removal never touches anything outside the tree.

   Vocabulary (Model.v): a file system maps PHYSICAL paths to entries (file / directory / symbolic link); path
   resolution follows links the way the OS does, so a removal that walked through a link WOULD delete entries that
   live elsewhere — the theorems say it never does.
     dirs_above s p : every proper prefix of p is a real directory (p is a physical path: the caller names the tree
                      by its real location);        wf s : whatever exists lives in a real directory;
     under p q      : q is p or lies below p.
   All theorems quantify over EVERY file system (any shape, any decoration with links to files, to directories inside
   or outside the tree, to ancestors, to nothing, loops), every path, every exclusion predicate (one on base names,
   used by the listing, one on full paths, used by the removal), every amount of fuel and both states of the context.
   [remove ... true ...] is the code after the fix (Lstat first). *)
From Coq Require Import List ZArith Bool.
Import ListNotations.
From GU Require Import C04.Model C04.Proofs.

(* Rm / RemoveWithContext / RemoveWithContextAndExclusionPatterns / RemoveWithPrivileges (success path):
   every entry that is not at or below p — in particular everything reachable from the tree only through a link —
   is exactly what it was: same kind, same content, same link target. *)
Theorem remove_confined : forall excl_name excl_path cancelled fuel s p,
  dirs_above s p ->
  forall q, ~ under p q ->
  lookup (fst (remove excl_name excl_path true cancelled fuel s p)) q = lookup s q.
Proof. exact remove_confined_l. Qed.
Print Assumptions remove_confined.

(* CleanDir...: the directory handed in is a real directory (or a file, or absent), not itself a link *)
Theorem clean_dir_confined : forall excl_name excl_path cancelled fuel s p,
  dirs_above s p -> not_link (lookup s p) ->
  forall q, ~ under p q ->
  lookup (fst (clean_dir excl_name excl_path true cancelled fuel s p)) q = lookup s q.
Proof. exact clean_dir_confined_l. Qed.
Print Assumptions clean_dir_confined.

(* GarbageCollect...: for every age assignment *)
Theorem gc_confined : forall cancelled old fuel s root,
  dirs_above s root -> not_link (lookup s root) ->
  forall q, ~ under root q ->
  lookup (fst (garbage_collect true cancelled old fuel s root)) q = lookup s q.
Proof. exact gc_confined_l. Qed.
Print Assumptions gc_confined.

(* success without exclusion patterns: nothing is left at or below p — links (dangling or not) included, since
   [lookup] does not follow them *)
Theorem remove_complete : forall excl_name excl_path cancelled fuel s p,
  (forall n, excl_name n = false) -> (forall q, excl_path q = false) ->
  wf s -> dirs_above s p ->
  snd (remove excl_name excl_path true cancelled fuel s p) = Ok ->
  forall q, under p q -> lookup (fst (remove excl_name excl_path true cancelled fuel s p)) q = None.
Proof.
  intros en ep c fuel s p Hen Hep Hwf Hd Hok. exact (remove_complete_l en ep Hen Hep c fuel s p Hwf Hd Hok).
Qed.
Print Assumptions remove_complete.

(* CleanDir of a real directory: on success the directory is still there and nothing is left below it *)
Theorem clean_dir_complete : forall excl_name excl_path cancelled fuel s p,
  (forall n, excl_name n = false) -> (forall q, excl_path q = false) ->
  wf s -> dirs_above s p -> lookup s p = Some EDir ->
  snd (clean_dir excl_name excl_path true cancelled fuel s p) = Ok ->
  lookup (fst (clean_dir excl_name excl_path true cancelled fuel s p)) p = Some EDir /\
  forall q, under p q -> q <> p -> lookup (fst (clean_dir excl_name excl_path true cancelled fuel s p)) q = None.
Proof. exact clean_dir_complete_l. Qed.
Print Assumptions clean_dir_complete.

(* an entry whose path matches an exclusion pattern survives unchanged, and all its ancestors are still directories
   (whatever the call returns; the pass-down of the patterns, defect D11, is modelled as repaired) *)
Theorem remove_keeps_excluded : forall excl_name excl_path cancelled fuel s p,
  wf s -> dirs_above s p ->
  forall q, excl_path q = true -> lookup s q <> None ->
  survives_with_ancestors s (fst (remove excl_name excl_path true cancelled fuel s p)) q.
Proof. exact remove_keeps_excluded_l. Qed.
Print Assumptions remove_keeps_excluded.

Theorem clean_dir_keeps_excluded : forall excl_name excl_path cancelled fuel s p,
  wf s -> dirs_above s p -> not_link (lookup s p) ->
  forall q, excl_path q = true -> lookup s q <> None ->
  survives_with_ancestors s (fst (clean_dir excl_name excl_path true cancelled fuel s p)) q.
Proof. exact clean_dir_keeps_excluded_l. Qed.
Print Assumptions clean_dir_keeps_excluded.

(* The code BEFORE the fix (Stat-based tests only) violates both halves of the property; kept as documentation of the
   repaired defect D10 — the harness replays this witness (tree/sub/lnk -> outside, tree/dangling) on every run. *)
Theorem remove_refuted_without_lstat :
  exists s p q, dirs_above s p /\ ~ under p q /\
    snd (remove noex_n noex_p false false 10 s p) = Ok /\
    lookup (fst (remove noex_n noex_p false false 10 s p)) q <> lookup s q /\     (* an outside file is deleted *)
    lookup (fst (remove noex_n noex_p false false 10 s p)) p <> None.              (* and the tree is still there *)
Proof.
  exists witness, [nm 3], [nm 1; nm 2].
  destruct without_lstat_outside_deleted as [H1 [H2 [H3 H4]]].
  split; [exact witness_dirs_above|]. split; [exact witness_not_under|]. split; [exact H1|].
  split; [rewrite H2, H3; discriminate | rewrite H4; discriminate].
Qed.
Print Assumptions remove_refuted_without_lstat.

(* non-vacuity: on the same tree the repaired code succeeds, removes the tree (dangling link included) and keeps the
   outside file; with the path-exclusion of tree/sub/lnk the link and its ancestors stay *)
Example c04_nonvacuous_remove :
  let r := remove noex_n noex_p true false 10 witness [nm 3] in
  snd r = Ok /\ lookup (fst r) [nm 1; nm 2] = Some (EFile 7) /\ lookup (fst r) [nm 3] = None /\
  lookup (fst r) [nm 3; nm 6] = None /\ lookup (fst r) [nm 1] = Some EDir.
Proof. vm_compute. repeat split; reflexivity. Qed.

Example c04_nonvacuous_excluded :
  let ep := fun q : path => path_eqb q [nm 3; nm 4; nm 5] in
  let r := remove (fun n => name_eqb n (nm 5)) ep true false 10 witness [nm 3] in
  snd r = Ok /\ lookup (fst r) [nm 3; nm 4; nm 5] = Some (ELink [nm 1]) /\ lookup (fst r) [nm 3; nm 4] = Some EDir /\
  lookup (fst r) [nm 3] = Some EDir /\ lookup (fst r) [nm 3; nm 6] = None.
Proof. vm_compute. repeat split; reflexivity. Qed.

Example c04_nonvacuous_clean_gc :
  snd (clean_dir noex_n noex_p true false 10 witness [nm 3]) = Ok /\
  children (fst (clean_dir noex_n noex_p true false 10 witness [nm 3])) [nm 3] = [] /\
  lookup (fst (garbage_collect true false (fun _ => true) 10 witness [nm 3])) [nm 1; nm 2] = Some (EFile 7) /\
  lookup (fst (garbage_collect false false (fun _ => true) 10 witness [nm 3])) [nm 1; nm 2] = None.
Proof. vm_compute. repeat split; reflexivity. Qed.
