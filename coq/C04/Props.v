(* C04 — Recursive removal never touches anything outside the tree.

   Vocabulary (Model.v): a file system maps PHYSICAL paths to entries (file / directory / symbolic link); path
   resolution follows links the way the OS does, so a removal that walked through a link WOULD delete entries that
   live elsewhere — the theorems say it never does.
     dirs_above s p : every proper prefix of p is a real directory (p is a physical path: the caller names the tree
                      by its real location);        wf s : whatever exists lives in a real directory;
     under p q      : q is p or lies below p;       size_below s p : number of entries at or below p.
   All theorems quantify over EVERY file system (any shape, any decoration with links to files, to directories inside
   or outside the tree, to ancestors, to nothing, loops), every path, every pair of exclusion predicates (one on base
   names: the listing and the test of nested entries; one on the caller's path: the test of the top entry), both states
   of the context and, for garbage collection, every age assignment and EVERY order in which the entries of a directory
   are processed.  [... true ...] is the code after the fix (Lstat first). *)
From Coq Require Import List ZArith Bool.
Import ListNotations.
From GU Require Import C04.Facts C04.Gen C04.Model C04.Proofs.

(* Gen.rm / Gen.gc / Gen.priv are GENERATED from files.go and platform/deletion*.go on every run.  Each theorem is stated
   for the model instantiated with them; its proof first checks, by computation, that the generated facts meet the
   condition the theorem needs (rm_ok / gc_ok / priv_ok) — a changed fact breaks the theorems that depend on it. *)
Ltac by_rm L := pattern Gen.rm; apply with_rm_ok; [vm_compute; reflexivity | exact L].
Ltac by_rm_gc L := pattern Gen.rm, Gen.gc; apply with_rm_gc_ok; [vm_compute; reflexivity | vm_compute; reflexivity | exact L].
Ltac by_priv L := pattern Gen.priv; apply with_priv_ok; [vm_compute; reflexivity | exact L].

(* ---- RemoveWithPrivileges: first attempt, take ownership of dir (Chown follows links), second attempt, forced
   removal.  Ownership is part of the state.  Whatever the two ordinary attempts and the forced removal do — they may
   fail for reasons the model does not know — as long as each stays at or below the path (which remove0 and
   force_remove do), nothing outside the tree changes: no entry, and no OWNER either. ---- *)
Theorem remove_with_privileges_confined : forall pass1 pass2 force me s o p,
  pass_confined pass1 -> pass_confined pass2 -> pass_confined force -> dirs_above s p ->
  forall q, ~ under p q ->
    lookup (fst (fst (remove_with_privileges pass1 pass2 force (pv_link_guard Gen.priv) me s o p))) q = lookup s q /\
    snd (fst (remove_with_privileges pass1 pass2 force (pv_link_guard Gen.priv) me s o p)) q = o q.
Proof. by_priv privileges_confined_l. Qed.
Print Assumptions remove_with_privileges_confined.


(* the forced removal of the generated facts is rm -r -f -- path on the path as given (no operand lost, no link
   resolved first), and the ownership change is the non-recursive one behind the Lstat guard *)
Theorem generated_privileges_facts : priv_ok Gen.priv = true /\ library_force Gen.priv = force_remove.
Proof. split; vm_compute; reflexivity. Qed.
Print Assumptions generated_privileges_facts.

(* before the fix (no Lstat before ChangeOwnership): RemoveWithPrivileges(link to an outside directory) whose first
   attempt fails re-owns the outside directory; replayed by the harness on every run *)
Theorem privileges_refuted_without_link_check :
  exists s o p q, dirs_above s p /\ ~ under p q /\
    snd (fst (remove_with_privileges failing_pass failing_pass force_remove false 0 s o p)) q <> o q /\
    snd (fst (remove_with_privileges failing_pass failing_pass force_remove true 0 s o p)) q = o q.
Proof.
  exists priv_witness, (fun _ => 4242%Z), [nm 3; nm 5], [nm 1].
  destruct priv_witness_facts as [H1 [H2 _]].
  split; [exact priv_witness_dirs_above|]. split; [intros [r H]; simpl in H; inversion H|].
  split; [rewrite H1; discriminate | exact H2].
Qed.
Print Assumptions privileges_refuted_without_link_check.

(* ---- confinement: whatever the fuel, whatever the result ---- *)

(* Rm / RemoveWithContext / RemoveWithContextAndExclusionPatterns / RemoveWithPrivileges (success path):
   every entry that is not at or below p — in particular everything reachable from the tree only through a link —
   is exactly what it was: same kind, same content, same link target. *)
Theorem remove_confined : forall trailing excl_name excl_path cancelled fuel s p,
  dirs_above s p ->
  forall q, ~ under p q ->
  lookup (fst (remove_top excl_name excl_path Gen.rm cancelled trailing fuel s p)) q = lookup s q.
Proof. by_rm remove_confined_l. Qed.
Print Assumptions remove_confined.

(* CleanDir...: the directory handed in is a real directory (or a file, or absent), not itself a link *)
Theorem clean_dir_confined : forall excl_name excl_path cancelled fuel s p,
  dirs_above s p -> not_link (lookup s p) ->
  forall q, ~ under p q ->
  lookup (fst (clean_dir excl_name excl_path Gen.rm cancelled fuel s p)) q = lookup s q.
Proof. by_rm clean_dir_confined_l. Qed.
Print Assumptions clean_dir_confined.


(* ---- termination: with Lstat first the recursion only descends into real directories, so fuel bounded by the number
   of entries at or below p is always enough (EFuel is the model's mark of "did not come back") ---- *)

Theorem remove_terminates : forall trailing excl_name excl_path cancelled fuel s p,
  dirs_above s p -> size_below s p < fuel ->
  snd (remove_top excl_name excl_path Gen.rm cancelled trailing fuel s p) <> Err EFuel.
Proof. by_rm remove_terminates_l. Qed.
Print Assumptions remove_terminates.

Theorem clean_dir_terminates : forall excl_name excl_path cancelled fuel s p,
  dirs_above s p -> not_link (lookup s p) -> size_below s p < fuel ->
  snd (clean_dir excl_name excl_path Gen.rm cancelled fuel s p) <> Err EFuel.
Proof. by_rm clean_dir_terminates_l. Qed.
Print Assumptions clean_dir_terminates.


(* ---- completeness ---- *)

(* no exclusion, live context, sufficient fuel: the call SUCCEEDS and nothing is left at or below p — links (dangling
   or not) included, since [lookup] does not follow them.  No premise about the result is needed. *)
Theorem remove_succeeds_and_is_complete : forall trailing excl_name excl_path fuel s p,
  (forall n, excl_name n = false) -> (forall q, excl_path q = false) ->
  wf s -> dirs_above s p -> size_below s p < fuel ->
  snd (remove_top excl_name excl_path Gen.rm false trailing fuel s p) = Ok /\
  forall q, under p q -> lookup (fst (remove_top excl_name excl_path Gen.rm false trailing fuel s p)) q = None.
Proof. by_rm remove_succeeds_l. Qed.
Print Assumptions remove_succeeds_and_is_complete.

Theorem clean_dir_succeeds_and_is_complete : forall excl_name excl_path fuel s p,
  (forall n, excl_name n = false) -> (forall q, excl_path q = false) ->
  wf s -> dirs_above s p -> lookup s p = Some EDir -> size_below s p < fuel ->
  snd (clean_dir excl_name excl_path Gen.rm false fuel s p) = Ok /\
  lookup (fst (clean_dir excl_name excl_path Gen.rm false fuel s p)) p = Some EDir /\
  forall q, under p q -> q <> p -> lookup (fst (clean_dir excl_name excl_path Gen.rm false fuel s p)) q = None.
Proof. by_rm clean_dir_succeeds_l. Qed.
Print Assumptions clean_dir_succeeds_and_is_complete.

(* the conditional form, for any fuel and either state of the context: whenever the call reports success *)
Theorem remove_complete : forall trailing excl_name excl_path cancelled fuel s p,
  (forall n, excl_name n = false) -> (forall q, excl_path q = false) ->
  wf s -> dirs_above s p ->
  snd (remove_top excl_name excl_path Gen.rm cancelled trailing fuel s p) = Ok ->
  forall q, under p q -> lookup (fst (remove_top excl_name excl_path Gen.rm cancelled trailing fuel s p)) q = None.
Proof.
  by_rm (fun (tr : bool) en ep c fuel s p Hen Hep Hwf Hd Hok => remove_complete_l en ep Hen Hep c fuel s p p Hwf Hd Hok).
Qed.
Print Assumptions remove_complete.

Theorem clean_dir_complete : forall excl_name excl_path cancelled fuel s p,
  (forall n, excl_name n = false) -> (forall q, excl_path q = false) ->
  wf s -> dirs_above s p -> lookup s p = Some EDir ->
  snd (clean_dir excl_name excl_path Gen.rm cancelled fuel s p) = Ok ->
  lookup (fst (clean_dir excl_name excl_path Gen.rm cancelled fuel s p)) p = Some EDir /\
  forall q, under p q -> q <> p -> lookup (fst (clean_dir excl_name excl_path Gen.rm cancelled fuel s p)) q = None.
Proof. by_rm clean_dir_complete_l. Qed.
Print Assumptions clean_dir_complete.

(* the model lists a directory completely ([children]); that is faithful only if the code reads the whole directory in one
   Readdirnames(-1) and never goes on with a partial listing (generated facts about LsFromOpenedDirectory /
   LsWithExclusionPatterns) *)
Theorem generated_listing_facts : ls_ok Gen.ls = true.
Proof. vm_compute; reflexivity. Qed.
Print Assumptions generated_listing_facts.

(* the exclusion predicates of the theorems are FUNCTIONS of the patterns of the call; that is faithful only if the code
   compiles the patterns of each call afresh (generated fact: no package-level state / memo in exclusion.go) *)
Theorem generated_exclusion_facts : ex_ok Gen.ex = true.
Proof. vm_compute; reflexivity. Qed.
Print Assumptions generated_exclusion_facts.

(* ---- exclusions (the rule of the D11 repair: caller's path for the top entry, entry name below it) ----
   [protected]: p itself when the caller's path is excluded; below p, an entry whose own name is excluded or that lies
   below a directory whose name is excluded.  Such an entry survives unchanged and all its ancestors remain directories,
   whatever the call returns. *)
Theorem remove_keeps_excluded : forall trailing excl_name excl_path cancelled fuel s p,
  wf s -> dirs_above s p ->
  forall q, protected excl_name excl_path p q -> lookup s q <> None ->
  survives_with_ancestors s (fst (remove_top excl_name excl_path Gen.rm cancelled trailing fuel s p)) q.
Proof. by_rm remove_keeps_excluded_l. Qed.
Print Assumptions remove_keeps_excluded.

Theorem clean_dir_keeps_excluded : forall excl_name excl_path cancelled fuel s p,
  wf s -> dirs_above s p -> not_link (lookup s p) ->
  forall q, protected_below excl_name excl_path p q -> lookup s q <> None ->
  survives_with_ancestors s (fst (clean_dir excl_name excl_path Gen.rm cancelled fuel s p)) q.
Proof. by_rm clean_dir_keeps_excluded_l. Qed.
Print Assumptions clean_dir_keeps_excluded.

(* the attempts and the forced removal of the library satisfy the premise *)
Theorem library_passes_confined : forall cancelled fuel,
  pass_confined (remove0 Gen.rm cancelled fuel) /\ pass_confined (library_force Gen.priv).
Proof.
  intros c fuel. split; [|apply library_force_confined].
  revert c fuel. by_rm remove0_pass_confined.
Qed.
Print Assumptions library_passes_confined.

(* ---- garbage collection (these two also need the generated facts of garbageCollect) ---- *)
Theorem gc_confined : forall cancelled old ord fuel s root,
  dirs_above s root -> not_link (lookup s root) ->
  forall q, ~ under root q ->
  lookup (fst (garbage_collect Gen.rm Gen.gc cancelled old ord fuel s root)) q = lookup s q.
Proof. by_rm_gc gc_confined_l. Qed.
Print Assumptions gc_confined.

(* the out-of-fuel mark of a child is propagated (all other errors of children are dropped, as in the code) *)
Theorem gc_terminates : forall cancelled old ord fuel s root,
  dirs_above s root -> not_link (lookup s root) -> size_below s root + 1 < fuel ->
  snd (garbage_collect Gen.rm Gen.gc cancelled old ord fuel s root) <> Err EFuel.
Proof. by_rm_gc gc_terminates_l. Qed.
Print Assumptions gc_terminates.

(* ---- the code BEFORE the fix (Stat-based tests only), kept as documentation of the repaired defect D10; the harness
   replays these witnesses (tree/sub/lnk -> outside + tree/dangling; tree/a/up -> tree) on every run ---- *)
Theorem remove_refuted_without_lstat :
  exists s p q, dirs_above s p /\ ~ under p q /\
    snd (remove_top noex_n noex_p before_fix_rm false false 10 s p) = Ok /\
    lookup (fst (remove_top noex_n noex_p before_fix_rm false false 10 s p)) q <> lookup s q /\     (* an outside file is deleted *)
    lookup (fst (remove_top noex_n noex_p before_fix_rm false false 10 s p)) p <> None.              (* and the tree is still there *)
Proof.
  exists witness, [nm 3], [nm 1; nm 2].
  destruct without_lstat_outside_deleted as [H1 [H2 [H3 H4]]].
  split; [exact witness_dirs_above|]. split; [exact witness_not_under|]. split; [exact H1|].
  split; [rewrite H2, H3; discriminate | rewrite H4; discriminate].
Qed.
Print Assumptions remove_refuted_without_lstat.

(* a link to an ancestor: the fuel that remove_terminates proves sufficient for the repaired code — and seven times
   more — runs out in the old code, which walks tree/a/up/a/up/... (on the OS: until ELOOP; exponentially many calls
   when the directories have several entries) *)
Theorem remove_terminates_refuted_without_lstat :
  exists s p, dirs_above s p /\ size_below s p < 4 /\
    snd (remove_top noex_n noex_p Gen.rm false false 4 s p) = Ok /\
    snd (remove_top noex_n noex_p before_fix_rm false false 4 s p) = Err EFuel /\
    snd (remove_top noex_n noex_p before_fix_rm false false 30 s p) = Err EFuel.
Proof.
  exists loop_witness, [nm 3]. destruct loop_witness_facts as [H0 [H1 [H2 H3]]].
  split; [exact loop_witness_dirs_above|]. split; [rewrite H0; repeat constructor|]. repeat split; assumption.
Qed.
Print Assumptions remove_terminates_refuted_without_lstat.

(* the code that does not clean the path first: Rm("tree/link/") — a link to an outside directory named with a trailing
   separator — deletes the content of the target, fails with "not a directory" and leaves the link; with the generated
   facts (path cleaned) the same call removes the link and nothing else.  Replayed by the harness on every run. *)
Theorem remove_refuted_with_trailing_separator :
  exists s p q, dirs_above s p /\ ~ under p q /\
    lookup (fst (remove_top noex_n noex_p uncleaned_rm false true 10 s p)) q <> lookup s q /\
    lookup (fst (remove_top noex_n noex_p uncleaned_rm false true 10 s p)) p <> None /\
    lookup (fst (remove_top noex_n noex_p Gen.rm false true 10 s p)) q = lookup s q /\
    lookup (fst (remove_top noex_n noex_p Gen.rm false true 10 s p)) p = None.
Proof.
  exists trailing_witness, [nm 3; nm 5], [nm 1; nm 2].
  destruct trailing_witness_facts as [H1 [_ [H3 [H4 H5]]]].
  split; [exact trailing_witness_dirs_above|]. split; [intros [r H]; simpl in H; inversion H|].
  split; [rewrite H1; discriminate|]. split; [rewrite H3; discriminate|].
  pattern Gen.rm; apply with_rm_ok; [vm_compute; reflexivity|]. split; [rewrite H4; reflexivity | exact H5].
Qed.
Print Assumptions remove_refuted_with_trailing_separator.

(* ---- non-vacuity ---- *)
Example c04_nonvacuous_remove :
  let r := remove_top noex_n noex_p Gen.rm false false 10 witness [nm 3] in
  snd r = Ok /\ lookup (fst r) [nm 1; nm 2] = Some (EFile 7) /\ lookup (fst r) [nm 3] = None /\
  lookup (fst r) [nm 3; nm 6] = None /\ lookup (fst r) [nm 1] = Some EDir.
Proof. vm_compute. repeat split; reflexivity. Qed.

(* name-based rule: excluding the NAME of the link keeps it and its ancestors; excluding only the caller's path keeps
   the (emptied) root and nothing below it *)
Example c04_nonvacuous_excluded :
  let r := remove_top (fun n => name_eqb n (nm 5)) (fun q => path_eqb q [nm 5]) Gen.rm false false 10 witness [nm 3] in
  snd r = Ok /\ lookup (fst r) [nm 3; nm 4; nm 5] = Some (ELink [nm 1]) /\ lookup (fst r) [nm 3; nm 4] = Some EDir /\
  lookup (fst r) [nm 3] = Some EDir /\ lookup (fst r) [nm 3; nm 6] = None.
Proof. vm_compute. repeat split; reflexivity. Qed.

Example c04_nonvacuous_root_excluded :
  let r := remove_top noex_n (fun q => path_eqb q [nm 3]) Gen.rm false false 10 witness [nm 3] in
  snd r = Ok /\ lookup (fst r) [nm 3] = Some EDir /\ children (fst r) [nm 3] = [] /\ lookup (fst r) [nm 1; nm 2] = Some (EFile 7).
Proof. vm_compute. repeat split; reflexivity. Qed.

Example c04_nonvacuous_clean_gc :
  snd (clean_dir noex_n noex_p Gen.rm false 10 witness [nm 3]) = Ok /\
  children (fst (clean_dir noex_n noex_p Gen.rm false 10 witness [nm 3])) [nm 3] = [] /\
  lookup (fst (garbage_collect Gen.rm Gen.gc false (fun _ => true) (fun _ ns => rev ns) 10 witness [nm 3])) [nm 1; nm 2] = Some (EFile 7) /\
  lookup (fst (garbage_collect before_fix_rm before_fix_gc false (fun _ => true) (fun _ ns => ns) 10 witness [nm 3])) [nm 1; nm 2] = None.
Proof. vm_compute. repeat split; reflexivity. Qed.
