From Coq Require Import List ZArith Bool.
Import ListNotations.
From GU Require Import C04.Model C04.Proofs.
