(* C04 — the facts about utils/filesystem/files.go and utils/platform/deletion*.go that the removal model depends on.
   The VALUES are generated from the source on every run (Gen.v, written by translator-c04/cmd/rmfacts2coq); Model.v
   is parameterised by these records and the property theorems are stated for the model instantiated with Gen.v. *)

From Coq Require Import Bool.

(* which string an exclusion test is applied to *)
Inductive excl_arg := TTested | TDir | TNone.
(* what removeFileWithContext hands down as [tested] for an entry f of dir *)
Inductive nested_arg := NName | NPath.

(* removeWithExclusionPatterns, CleanDirWithContextAndExclusionPatterns, removeFileWithContext *)
Record rm_facts := mkRm {
  rm_link_first : bool;       (* Lstat(dir) + IsSymLink is tested before Exists / IsDir / IsEmpty *)
  rm_link_ctx : bool;         (* the link branch tests the context before removing *)
  rm_link_excl : excl_arg;    (* the link branch tests the exclusion patterns on ... *)
  rm_link_returns : bool;     (* the link branch ends with fs.vfs.Remove(dir); return — no fall-through to the Stat-based path *)
  rm_clean_err_first : bool;  (* the error of CleanDir... is returned before IsEmpty is asked again *)
  rm_clean_patterns : bool;   (* CleanDir... is called with the exclusion patterns *)
  rm_stop_nonempty : bool;    (* a directory that is still not empty is left alone *)
  rm_final_ctx : bool;        (* the context is tested before the final Remove *)
  rm_final_excl : excl_arg;   (* the final exclusion test is applied to ... *)
  cl_ls_filtered : bool;      (* CleanDir... lists with LsWithExclusionPatterns(dir, patterns...) *)
  cl_stop_on_error : bool;    (* the loop returns on the first entry error *)
  cl_loop_patterns : bool;    (* the loop hands the patterns to removeFileWithContext *)
  nested_tested : nested_arg; (* removeFileWithContext: removeWithExclusionPatterns(ctx, Join(dir, f), f, patterns...) *)
  nested_patterns : bool;     (* ... with the patterns *)
  rm_path_cleaned : bool      (* dir = filepath.Clean(dir) after the empty-path test and before Lstat: the path is taken as a NAME, so that a
                                 trailing separator or "/." cannot make Lstat / Remove act on the target of a link *);
  rm_lstat_fail_closed : bool (* an error of Lstat other than "does not exist" is returned: no Stat-based test runs when it is not known
                                 whether dir is a link *)
}.

(* garbageCollect *)
Record gc_facts := mkGc {
  gc_link_first : bool;       (* under deletePath: Lstat(path) + IsSymLink before IsDir, and a link goes to garbageCollectFile (return) *)
  gc_exists_first : bool;     (* Exists(path) is tested before anything is done *)
  gc_lstat_fail_closed : bool (* an error of Lstat other than "does not exist" is returned instead of going on to IsDir *)
}.

(* VFS.RemoveWithPrivileges and platform.RemoveWithPrivileges / removeFileAs / removeDirAs (posix) *)
Record priv_facts := mkPriv {
  pv_link_guard : bool;          (* Lstat guard: no ChangeOwnership through a symbolic link *)
  pv_chown_recursive : bool;     (* ChangeOwnershipRecursively instead of ChangeOwnership *)
  pv_force_passes_path : bool;   (* rm ... "--", path *)
  pv_force_resolves_links : bool;(* the forced removal resolves the path first (EvalSymlinks) *)
  pv_path_cleaned : bool;        (* a non-empty dir is cleaned first: same name for the ownership guard and the forced removal *)
  pv_guard_fail_closed : bool    (* ownership is taken only when Lstat SUCCEEDED and says "not a link" *)
}.

(* exclusion.go *)
Record ex_facts := mkEx {
  ex_stateless : bool            (* NewExclusionRegexList compiles the patterns of THIS call: no package-level state, no memo *)
}.

(* listing: VFS.LsFromOpenedDirectory and the free function LsWithExclusionPatterns *)
Record ls_facts := mkLs {
  ls_one_read : bool;            (* the whole directory is read by ONE dir.Readdirnames(-1): no chunk loop, no bound on the number of names *)
  ls_read_error_kept : bool      (* the error of that read is returned (not overwritten by the error of Close): a partial listing is never used *)
}.

Definition expected_rm : rm_facts := mkRm true true TTested true true true true true TTested true true true NName true true true.
Definition expected_gc : gc_facts := mkGc true true true.
Definition expected_priv : priv_facts := mkPriv true false true false true true.
Definition expected_ex : ex_facts := mkEx true.

Definition excl_arg_eqb (a b : excl_arg) : bool :=
  match a, b with TTested, TTested | TDir, TDir | TNone, TNone => true | _, _ => false end.
Definition nested_arg_eqb (a b : nested_arg) : bool :=
  match a, b with NName, NName | NPath, NPath => true | _, _ => false end.

(* the conditions the theorems need, decided by computation on the generated records *)
Definition rm_ok (k : rm_facts) : bool :=
  Bool.eqb (rm_link_first k) true && Bool.eqb (rm_link_ctx k) true && excl_arg_eqb (rm_link_excl k) TTested &&
  Bool.eqb (rm_link_returns k) true && Bool.eqb (rm_clean_err_first k) true && Bool.eqb (rm_clean_patterns k) true &&
  Bool.eqb (rm_stop_nonempty k) true && Bool.eqb (rm_final_ctx k) true && excl_arg_eqb (rm_final_excl k) TTested &&
  Bool.eqb (cl_ls_filtered k) true && Bool.eqb (cl_stop_on_error k) true && Bool.eqb (cl_loop_patterns k) true &&
  nested_arg_eqb (nested_tested k) NName && Bool.eqb (nested_patterns k) true && Bool.eqb (rm_path_cleaned k) true &&
  Bool.eqb (rm_lstat_fail_closed k) true.
Definition gc_ok (k : gc_facts) : bool :=
  Bool.eqb (gc_link_first k) true && Bool.eqb (gc_exists_first k) true && Bool.eqb (gc_lstat_fail_closed k) true.
Definition ex_ok (k : ex_facts) : bool := Bool.eqb (ex_stateless k) true.
Definition ls_ok (k : ls_facts) : bool := Bool.eqb (ls_one_read k) true && Bool.eqb (ls_read_error_kept k) true.
Definition priv_ok (k : priv_facts) : bool :=
  Bool.eqb (pv_link_guard k) true && Bool.eqb (pv_chown_recursive k) false &&
  Bool.eqb (pv_force_passes_path k) true && Bool.eqb (pv_force_resolves_links k) false && Bool.eqb (pv_path_cleaned k) true &&
  Bool.eqb (pv_guard_fail_closed k) true.

Lemma rm_ok_eq : forall k, rm_ok k = true -> k = expected_rm.
Proof.
  intros [a b c d e f g h i j k l m n o q]. unfold rm_ok. simpl. intro H.
  repeat (apply Bool.andb_true_iff in H; destruct H as [H ?]).
  destruct a, b, d, e, f, g, h, j, k, l, n, o, q; try discriminate;
  destruct c; try discriminate; destruct i; try discriminate; destruct m; try discriminate; reflexivity.
Qed.

Lemma gc_ok_eq : forall k, gc_ok k = true -> k = expected_gc.
Proof. intros [[] [] []]; simpl; intro H; try discriminate; reflexivity. Qed.

Lemma priv_ok_eq : forall k, priv_ok k = true -> k = expected_priv.
Proof. intros [[] [] [] [] [] []]; simpl; intro H; try discriminate; reflexivity. Qed.
