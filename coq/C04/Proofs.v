(* C04 — lemmas (work in progress) *)
From Coq Require Import List ZArith Bool Lia.
Import ListNotations.
From GU Require Import C04.Model.
