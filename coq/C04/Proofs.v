(* C04 — lemmas about the removal model *)
From Coq Require Import List ZArith Bool Lia.
Import ListNotations.
From GU Require Import C04.Facts C04.Gen C04.Model.

(* the facts of the repaired code, as a literal so that [simpl] sees through the projections *)
Notation good := (mkRm true true TTested true true true true true TTested true true true NName true true true).
Notation goodg := (mkGc true true true).

(* ---------- equality tests ---------- *)

Lemma name_eqb_eq : forall a b, name_eqb a b = true <-> a = b.
Proof.
  induction a as [|x xs IH]; destruct b as [|y ys]; simpl; split; intro H; try reflexivity; try discriminate.
  - apply andb_true_iff in H as [H1 H2]. apply Z.eqb_eq in H1. apply IH in H2. now subst.
  - inversion H; subst. rewrite Z.eqb_refl. simpl. now apply IH.
Qed.

Lemma path_eqb_eq : forall a b, path_eqb a b = true <-> a = b.
Proof.
  induction a as [|x xs IH]; destruct b as [|y ys]; simpl; split; intro H; try reflexivity; try discriminate.
  - apply andb_true_iff in H as [H1 H2]. apply name_eqb_eq in H1. apply IH in H2. now subst.
  - inversion H; subst. apply andb_true_iff. split; [now apply name_eqb_eq | now apply IH].
Qed.

Lemma path_eqb_refl : forall a, path_eqb a a = true.
Proof. intro a. now apply path_eqb_eq. Qed.

Lemma path_eqb_neq : forall a b, a <> b -> path_eqb a b = false.
Proof. intros a b H. destruct (path_eqb a b) eqn:E; [apply path_eqb_eq in E; contradiction | reflexivity]. Qed.

Lemma path_eq_dec : forall a b : path, {a = b} + {a <> b}.
Proof.
  intros a b. destruct (path_eqb a b) eqn:E; [left; now apply path_eqb_eq | right; intro H; apply path_eqb_eq in H; congruence].
Qed.

(* ---------- the finite map ---------- *)

Lemma lookup_rm_key : forall q s x, lookup (rm_key q s) x = if path_eqb x q then None else lookup s x.
Proof.
  intros q s x. induction s as [|[k e] r IH]; simpl.
  - now destruct (path_eqb x q).
  - destruct (path_eqb k q) eqn:Ekq; simpl.
    + apply path_eqb_eq in Ekq. subst k. destruct (path_eqb q x) eqn:Eqx.
      * apply path_eqb_eq in Eqx. subst x. now rewrite IH, path_eqb_refl.
      * exact IH.
    + destruct (path_eqb k x) eqn:Ekx; [|exact IH].
      apply path_eqb_eq in Ekx. subst x. now rewrite Ekq.
Qed.

Lemma lookup_rm_key_other : forall q s x, x <> q -> lookup (rm_key q s) x = lookup s x.
Proof. intros. rewrite lookup_rm_key, path_eqb_neq; auto. Qed.

Lemma lookup_rm_key_same : forall q s, lookup (rm_key q s) q = None.
Proof. intros. now rewrite lookup_rm_key, path_eqb_refl. Qed.

(* ---------- prefixes ---------- *)

Lemma under_refl : forall p, under p p.
Proof. intro p. exists []. now rewrite app_nil_r. Qed.

Lemma under_app : forall p r q, under (p ++ r) q -> under p q.
Proof. intros p r q [x ->]. exists (r ++ x). now rewrite app_assoc. Qed.

Lemma strict_prefix_not_under : forall a b, b <> [] -> ~ under (a ++ b) a.
Proof.
  intros a b Hb [r H]. apply (f_equal (@length name)) in H. rewrite !app_length in H.
  destruct b; [congruence | simpl in H; lia].
Qed.

Lemma app_inv_head_nil : forall (a b : path), a = a ++ b -> b = [].
Proof. intros a b H. apply (app_inv_head a). now rewrite app_nil_r. Qed.

(* ---------- resolution of physical paths ---------- *)

(* below a chain of real directories the OS walk is the identity, up to what sits at the end *)
Lemma walk_phys : forall follow s lf rest cur,
  rest <> [] ->
  (forall a b, rest = a ++ b -> a <> [] -> b <> [] -> lookup s (cur ++ a) = Some EDir) ->
  walk follow s lf cur rest =
    match lookup s (cur ++ rest) with
    | None => None
    | Some (ELink t) => if lf then follow (t ++ []) else Some (cur ++ rest)
    | Some _ => Some (cur ++ rest)
    end.
Proof.
  intros follow s lf rest. induction rest as [|c rest' IH]; intros cur Hne Hd; [congruence|].
  destruct rest' as [|c' r].
  - simpl. destruct (lookup s (cur ++ [c])) as [[cid| |t]|]; reflexivity.
  - assert (Hc : lookup s (cur ++ [c]) = Some EDir).
    { apply (Hd [c] (c' :: r)); [reflexivity | discriminate | discriminate]. }
    change (walk follow s lf cur (c :: c' :: r)) with
      (let q := cur ++ [c] in match lookup s q with
        | None => None | Some EDir => walk follow s lf q (c' :: r)
        | Some (EFile _) => match c' :: r with [] => Some q | _ => None end
        | Some (ELink t) => match c' :: r, lf with [], false => Some q | _, _ => follow (t ++ c' :: r) end end).
    cbv zeta. rewrite Hc. rewrite IH.
    + now rewrite <- app_assoc.
    + discriminate.
    + intros a b Hab Ha Hb. rewrite <- app_assoc. simpl. apply (Hd (c :: a) b); [simpl; now rewrite Hab | discriminate | exact Hb].
Qed.

Lemma dirs_above_walk_hyp : forall s p, dirs_above s p ->
  forall a b, p = a ++ b -> a <> [] -> b <> [] -> lookup s ([] ++ a) = Some EDir.
Proof. intros s p H a b Hab _ Hb. simpl. eapply H; eauto. Qed.

Lemma resolve_phys : forall s lf p f, dirs_above s p -> p <> [] ->
  resolve (S f) s lf p =
    match lookup s p with
    | None => None
    | Some (ELink t) => if lf then resolve f s lf (t ++ []) else Some p
    | Some _ => Some p
    end.
Proof.
  intros s lf p f Hd Hne. simpl. rewrite walk_phys; [reflexivity | exact Hne | now apply dirs_above_walk_hyp].
Qed.

Lemma lstat_phys : forall s p, dirs_above s p -> lstat s p = lookup s p.
Proof.
  intros s p Hd. unfold lstat, link_fuel. destruct p as [|c r]; [reflexivity|].
  rewrite resolve_phys by (auto; discriminate).
  destruct (lookup s (c :: r)) as [[cid| |t]|] eqn:E; now rewrite ?E.
Qed.

Lemma resolve_nofollow_phys : forall s p, dirs_above s p ->
  resolve link_fuel s false p = match p with [] => Some [] | _ => match lookup s p with None => None | Some _ => Some p end end.
Proof.
  intros s p Hd. unfold link_fuel. destruct p as [|c r]; [reflexivity|].
  rewrite resolve_phys by (auto; discriminate). now destruct (lookup s (c :: r)) as [[cid| |t]|].
Qed.

Lemma resolve_follow_phys : forall s p, dirs_above s p -> not_link (lookup s p) ->
  resolve link_fuel s true p = match lookup s p with None => match p with [] => Some [] | _ => None end | Some _ => Some p end.
Proof.
  intros s p Hd Hn. unfold link_fuel. destruct p as [|c r].
  - simpl. now destruct (lookup s []).
  - rewrite resolve_phys by (auto; discriminate).
    destruct (lookup s (c :: r)) as [[cid| |t]|] eqn:E; try reflexivity. exfalso. now apply (Hn t).
Qed.

Lemma stat_phys : forall s p, dirs_above s p -> not_link (lookup s p) -> stat s p = lookup s p.
Proof.
  intros s p Hd Hn. unfold stat. rewrite resolve_follow_phys by assumption.
  destruct (lookup s p) eqn:E; [exact E|]. destruct p; [exact E | reflexivity].
Qed.

Lemma readdir_phys : forall s p, dirs_above s p -> lookup s p = Some EDir -> readdir s p = Some (children s p).
Proof.
  intros s p Hd Hl. unfold readdir. rewrite resolve_follow_phys; [now rewrite Hl, Hl | exact Hd | intros t; congruence].
Qed.

(* ---------- what a call may change ---------- *)

(* s' differs from s at most on the paths satisfying P *)
Definition changes_only (P : path -> Prop) (s s' : fsys) : Prop := forall q, ~ P q -> lookup s' q = lookup s q.

Lemma changes_only_refl : forall P s, changes_only P s s.
Proof. intros P s q _. reflexivity. Qed.

Lemma changes_only_trans : forall P s1 s2 s3, changes_only P s1 s2 -> changes_only P s2 s3 -> changes_only P s1 s3.
Proof. intros P s1 s2 s3 H1 H2 q Hq. rewrite H2, H1; auto. Qed.

Lemma changes_only_weaken : forall (P Q : path -> Prop) s s', (forall q, P q -> Q q) -> changes_only P s s' -> changes_only Q s s'.
Proof. intros P Q s s' HPQ H q Hq. apply H. intro HP. apply Hq. now apply HPQ. Qed.

Lemma dirs_above_preserved : forall (P : path -> Prop) s s' p,
  (forall q, P q -> under p q) -> changes_only P s s' -> dirs_above s p -> dirs_above s' p.
Proof.
  intros P s s' p HP Hc Hd a b Hab Hb. rewrite Hc; [eapply Hd; eauto|].
  intro HPa. apply HP in HPa. subst p. now apply (strict_prefix_not_under a b).
Qed.

Lemma dirs_above_child : forall s p n, dirs_above s p -> lookup s p = Some EDir -> dirs_above s (p ++ [n]).
Proof.
  intros s p n Hd Hl a b Hab Hb.
  destruct (exists_last Hb) as [b' [x ->]]. rewrite app_assoc in Hab. apply app_inj_tail in Hab as [Hp Hx].
  destruct b' as [|y b'']; [rewrite app_nil_r in Hp; now subst a|].
  apply (Hd a (y :: b'')); [now symmetry | discriminate].
Qed.

(* os.Remove on a physical path changes that path only *)
Lemma os_remove_changes_only : forall s p, dirs_above s p -> changes_only (fun q => q = p) s (fst (os_remove s p)).
Proof.
  intros s p Hd. unfold os_remove. rewrite resolve_nofollow_phys by assumption.
  assert (Hrm : changes_only (fun q => q = p) s (rm_key p s)) by (intros q Hq; now apply lookup_rm_key_other).
  destruct p as [|c r].
  - destruct (lookup s []) as [[cid| |t]|]; simpl; try apply changes_only_refl; try exact Hrm.
    destruct (children s []); simpl; [exact Hrm | apply changes_only_refl].
  - destruct (lookup s (c :: r)) as [[cid| |t]|] eqn:E; simpl; rewrite ?E; simpl; try apply changes_only_refl; try exact Hrm.
    destruct (children s (c :: r)); simpl; [exact Hrm | apply changes_only_refl].
Qed.

Section RemovalFacts.
Variable excl_name : name -> bool.
Variable excl_path : path -> bool.

(* the only entries a removal of p (exclusion tested on [tested]) may touch: p itself unless [tested] is excluded, and
   the entries below p that are reached through listed (not excluded) names and whose own name is not excluded *)
Definition touchable (p tested q : path) : Prop :=
  (q = p /\ excl_path tested = false) \/
  (exists r, r <> [] /\ q = p ++ r /\ Forall (fun n => excl_name n = false) r /\ excl_path [last r []] = false).

Lemma touchable_under : forall p t q, touchable p t q -> under p q.
Proof. intros p t q [[-> _]|[r [_ [-> _]]]]; [apply under_refl | now exists r]. Qed.

Lemma touchable_child : forall p t n q, excl_name n = false -> touchable (p ++ [n]) [n] q -> touchable p t q.
Proof.
  intros p t n q Hn [[-> He]|[r [Hr [-> [Hf He]]]]]; right.
  - exists [n]. repeat split; [discriminate | now constructor | exact He].
  - exists (n :: r). repeat split; [discriminate | now rewrite <- app_assoc | now constructor |].
    destruct r; [congruence | exact He].
Qed.

Definition rm_spec (rm : fsys -> path -> path -> fsys * res) : Prop :=
  forall s p t, dirs_above s p -> changes_only (touchable p t) s (fst (rm s p t)).

Definition listed (ns : list name) : Prop := Forall (fun n => excl_name n = false) ns.

Lemma fold_rm_changes_only : forall cancelled rm p t, rm_spec rm ->
  forall ns s, listed ns -> dirs_above s p -> lookup s p = Some EDir ->
  changes_only (touchable p t) s (fst (fold_rm good cancelled rm s p ns)).
Proof.
  intros cancelled rm p t Hrm. induction ns as [|n r IH]; intros s Hls Hd Hl; simpl; [apply changes_only_refl|].
  destruct cancelled; [apply changes_only_refl|].
  inversion Hls as [|? ? Hn Hls']; subst.
  pose proof (Hrm s (p ++ [n]) [n] (dirs_above_child s p n Hd Hl)) as H1.
  destruct (rm s (p ++ [n]) [n]) as [s1 r1] eqn:E. simpl in H1.
  assert (H1' : changes_only (touchable p t) s s1) by (eapply changes_only_weaken; [intros q Hq; exact (touchable_child p t n q Hn Hq) | exact H1]).
  destruct r1; [|exact H1'].
  eapply changes_only_trans; [exact H1'|]. apply IH; [exact Hls'| |].
  - eapply dirs_above_preserved; [apply touchable_under | exact H1' | exact Hd].
  - rewrite H1; [exact Hl|]. intros Ht. apply touchable_under in Ht. revert Ht. apply strict_prefix_not_under. discriminate.
Qed.

Lemma ls_some_dir : forall s p ns, dirs_above s p -> not_link (lookup s p) -> ls excl_name s p = Some ns -> lookup s p = Some EDir.
Proof.
  intros s p ns Hd Hn H. unfold ls, is_dir in H. rewrite stat_phys in H by assumption.
  destruct (lookup s p) as [[cid| |t]|]; try discriminate. reflexivity.
Qed.

Lemma ls_listed : forall s p ns, ls excl_name s p = Some ns -> listed ns.
Proof.
  intros s p ns H. unfold ls in H. destruct (is_dir s p) as [[|]|]; try discriminate.
  destruct (readdir s p) as [l|]; [|discriminate]. inversion H; subst. apply Forall_forall. intros n Hin.
  apply filter_In in Hin as [_ Hn]. now apply negb_true_iff in Hn.
Qed.

Lemma clean_dir_with_changes_only : forall cancelled rm t, rm_spec rm ->
  forall s p, dirs_above s p -> not_link (lookup s p) -> changes_only (touchable p t) s (fst (clean_dir_with excl_name good cancelled rm s p)).
Proof.
  intros cancelled rm t Hrm s p Hd Hn. unfold clean_dir_with.
  destruct cancelled; [apply changes_only_refl|].
  destruct (negb (exists_ s p)); [apply changes_only_refl|].
  destruct (is_empty s p); [apply changes_only_refl|].
  destruct (ls excl_name s p) as [ns|] eqn:E; [|apply changes_only_refl].
  apply fold_rm_changes_only; auto; [eapply ls_listed; eauto | eapply ls_some_dir; eauto].
Qed.

Lemma remove_changes_only : forall cancelled fuel, rm_spec (remove excl_name excl_path good cancelled fuel).
Proof.
  intros cancelled. induction fuel as [|f IH]; intros s p t Hd; simpl; [apply changes_only_refl|].
  rewrite lstat_phys by assumption.
  assert (Hos : forall s1, dirs_above s1 p -> excl_path t = false -> changes_only (touchable p t) s1 (fst (os_remove s1 p))).
  { intros s1 Hd1 He. eapply changes_only_weaken; [|apply os_remove_changes_only; exact Hd1].
    intros q ->. left. now split. }
  destruct (is_link (lookup s p)) eqn:El.
  - destruct cancelled; [apply changes_only_refl|].
    destruct (excl_path t) eqn:Ee; [apply changes_only_refl | now apply Hos].
  - assert (Hn : not_link (lookup s p)) by (intros t0 Ht; rewrite Ht in El; discriminate).
    destruct (negb (exists_ s p)); [apply changes_only_refl|].
    destruct (is_dir s p) as [isDir|]; [|apply changes_only_refl].
    set (c := if isDir && negb (is_empty s p) then clean_dir_with excl_name good cancelled (remove excl_name excl_path good cancelled f) s p else (s, Ok)).
    assert (Hc : changes_only (touchable p t) s (fst c)).
    { unfold c. destruct (isDir && negb (is_empty s p)); [|apply changes_only_refl].
      now apply clean_dir_with_changes_only. }
    destruct c as [s1 r1]. simpl in Hc.
    destruct r1; [|exact Hc].
    assert (Hd1 : dirs_above s1 p) by (eapply dirs_above_preserved; [apply touchable_under | exact Hc | exact Hd]).
    destruct (isDir && negb (is_empty s1 p)); [exact Hc|].
    destruct cancelled; [exact Hc|].
    destruct (excl_path t) eqn:Ee; [exact Hc|].
    eapply changes_only_trans; [exact Hc | now apply Hos].
Qed.

End RemovalFacts.

(* ---------- garbage collection ---------- *)

Lemma remove0_changes_only : forall cancelled fuel s p, dirs_above s p ->
  changes_only (under p) s (fst (remove0 good cancelled fuel s p)).
Proof.
  intros c fuel s p Hd. eapply changes_only_weaken; [|apply (remove_changes_only (fun _ => false) (fun _ => false) c fuel s p p Hd)].
  intros q Hq. exact (touchable_under _ _ _ _ _ Hq).
Qed.

Lemma gc_file_changes_only : forall cancelled old fuel s p, dirs_above s p ->
  changes_only (under p) s (fst (gc_file good cancelled old fuel s p)).
Proof.
  intros c old fuel s p Hd. unfold gc_file. destruct c; [apply changes_only_refl|].
  destruct (resolve link_fuel s true p) as [q|]; [|apply changes_only_refl].
  destruct (old q); [now apply remove0_changes_only | apply changes_only_refl].
Qed.

Definition gc_spec (g : fsys -> path -> fsys * res) : Prop :=
  forall s p, dirs_above s p -> changes_only (under p) s (fst (g s p)).

(* one child of the directory being collected *)
Lemma gc_child_step : forall g s p n, gc_spec g -> dirs_above s p -> lookup s p = Some EDir ->
  changes_only (under p) s (fst (g s (p ++ [n]))) /\ dirs_above (fst (g s (p ++ [n]))) p /\ lookup (fst (g s (p ++ [n]))) p = Some EDir.
Proof.
  intros g s p n Hg Hd Hl.
  pose proof (Hg s (p ++ [n]) (dirs_above_child s p n Hd Hl)) as H1.
  assert (H1' : changes_only (under p) s (fst (g s (p ++ [n])))) by (eapply changes_only_weaken; [intros q Hq; eapply under_app; exact Hq | exact H1]).
  split; [exact H1'|]. split.
  - eapply dirs_above_preserved; [intros q Hq; exact Hq | exact H1' | exact Hd].
  - rewrite H1; [exact Hl|]. apply strict_prefix_not_under. discriminate.
Qed.

Lemma gc_children_changes_only : forall g p, gc_spec g ->
  forall ns s, dirs_above s p -> lookup s p = Some EDir ->
  changes_only (under p) s (fst (gc_children g s p ns)).
Proof.
  intros g p Hg. induction ns as [|n r IH]; intros s Hd Hl; simpl; [apply changes_only_refl|].
  destruct (gc_child_step g s p n Hg Hd Hl) as [H1 [Hd1 Hl1]].
  destruct (g s (p ++ [n])) as [s1 r1]. simpl in *.
  assert (Hk : changes_only (under p) s (fst (gc_children g s1 p r))) by (eapply changes_only_trans; [exact H1 | now apply IH]).
  destruct r1 as [|[]]; try exact Hk. exact H1.
Qed.

Lemma gc_changes_only : forall cancelled old ord fuel s p dp, dirs_above s p -> (dp = false -> not_link (lookup s p)) ->
  changes_only (under p) s (fst (gc good goodg cancelled old ord fuel s p dp)).
Proof.
  intros c old ord. induction fuel as [|f IH]; intros s p dp Hd Hroot; simpl; [apply changes_only_refl|].
  destruct c; [apply changes_only_refl|].
  destruct (negb (exists_ s p)); [apply changes_only_refl|].
  rewrite lstat_phys by assumption.
  destruct (dp && is_link (lookup s p)) eqn:El; [now apply gc_file_changes_only|].
  assert (Hn : not_link (lookup s p)).
  { destruct dp; [|now apply Hroot]. simpl in El. intros t Ht. rewrite Ht in El. discriminate. }
  destruct (is_dir s p) as [[|]|] eqn:Ed; try now apply gc_file_changes_only.
  destruct (ls (fun _ => false) s p) as [ns|] eqn:E; [|apply changes_only_refl].
  assert (Hl : lookup s p = Some EDir) by (eapply ls_some_dir; eauto).
  assert (Hf : changes_only (under p) s (fst (gc_children (fun a q => gc good goodg false old ord f a q true) s p (ord p ns)))).
  { apply gc_children_changes_only; auto. intros s0 p0 Hd0. apply IH; [exact Hd0 | discriminate]. }
  destruct (gc_children (fun a q => gc good goodg false old ord f a q true) s p (ord p ns)) as [s1 b]. simpl in Hf.
  destruct b; [exact Hf|].
  destruct (is_empty s1 p && dp); [|exact Hf].
  eapply changes_only_trans; [exact Hf|]. apply remove0_changes_only.
  eapply dirs_above_preserved; [intros q Hq; exact Hq | exact Hf | exact Hd].
Qed.

(* ---------- listing, well-formed trees ---------- *)

Lemma child_of_spec : forall p k n, child_of p k = Some n <-> k = p ++ [n].
Proof.
  induction p as [|a p IH]; intros k n; simpl.
  - destruct k as [|x [|y r]]; split; intro H; try discriminate; try (inversion H; reflexivity).
  - destruct k as [|b k]; [split; discriminate|].
    destruct (name_eqb a b) eqn:E.
    + apply name_eqb_eq in E. subst b. rewrite IH. split; [intros ->; reflexivity | intro H; now inversion H].
    + split; [discriminate|]. intro H. inversion H. subst. assert (name_eqb a a = true) by now apply name_eqb_eq. congruence.
Qed.

Lemma lookup_in : forall s k, lookup s k <> None <-> exists e, In (k, e) s.
Proof.
  induction s as [|[k0 e0] r IH]; intro k; simpl.
  - split; [congruence | intros [e []]].
  - destruct (path_eqb k0 k) eqn:E.
    + apply path_eqb_eq in E. subst. split; [intros _; exists e0; now left | discriminate].
    + rewrite IH. split; intros [e H]; exists e; [now right|].
      destruct H as [H|H]; [inversion H; subst; rewrite path_eqb_refl in E; discriminate | exact H].
Qed.

Lemma children_spec : forall s p n, In n (children s p) <-> lookup s (p ++ [n]) <> None.
Proof.
  intros s p n. unfold children. rewrite in_flat_map, lookup_in. split.
  - intros [[k e] [Hin Hn]]. simpl in Hn. destruct (child_of p k) as [m|] eqn:E; [|destruct Hn].
    destruct Hn as [->|[]]. apply child_of_spec in E. subst k. now exists e.
  - intros [e Hin]. exists (p ++ [n], e). split; [exact Hin|]. simpl.
    assert (E : child_of p (p ++ [n]) = Some n) by now apply child_of_spec. rewrite E. now left.
Qed.

Lemma children_nil : forall s p, children s p = [] <-> forall n, lookup s (p ++ [n]) = None.
Proof.
  intros s p. split.
  - intros H n. destruct (lookup s (p ++ [n])) eqn:E; [|reflexivity].
    assert (In n (children s p)) by (apply children_spec; congruence). rewrite H in H0. destruct H0.
  - intros H. destruct (children s p) as [|n r] eqn:E; [reflexivity|].
    assert (Hin : In n (children s p)) by (rewrite E; now left). apply children_spec in Hin. now rewrite H in Hin.
Qed.

Lemma wf_prefix_dir : forall s, wf s -> forall r p, r <> [] -> lookup s (p ++ r) <> None -> lookup s p = Some EDir.
Proof.
  intros s Hwf. induction r as [|n r' IH] using rev_ind; intros p Hne H; [congruence|].
  rewrite app_assoc in H. apply Hwf in H. destruct r' as [|x r'']; [now rewrite app_nil_r in H|].
  apply IH; [discriminate | congruence].
Qed.

Lemma wf_nothing_below : forall s p r, wf s -> lookup s p <> Some EDir -> r <> [] -> lookup s (p ++ r) = None.
Proof.
  intros s p r Hwf Hp Hr. destruct (lookup s (p ++ r)) eqn:E; [|reflexivity].
  exfalso. apply Hp. apply (wf_prefix_dir s Hwf r p Hr). congruence.
Qed.

Definition gone_below (s : fsys) (p : path) : Prop := forall q, under p q -> lookup s q = None.

Lemma wf_missing_gone : forall s p, wf s -> lookup s p = None -> gone_below s p.
Proof.
  intros s p Hwf Hp q [r ->]. destruct r as [|x r']; [now rewrite app_nil_r|].
  apply wf_nothing_below; [exact Hwf | congruence | discriminate].
Qed.

Lemma rm_key_gone : forall s p, wf s -> (lookup s p <> Some EDir \/ forall n, lookup s (p ++ [n]) = None) -> gone_below (rm_key p s) p.
Proof.
  intros s p Hwf H q [r ->]. rewrite lookup_rm_key. destruct (path_eqb (p ++ r) p) eqn:E; [reflexivity|].
  destruct r as [|n r']; [rewrite app_nil_r, path_eqb_refl in E; discriminate|].
  destruct H as [H|H].
  - apply wf_nothing_below; [exact Hwf | exact H | discriminate].
  - change (n :: r') with ([n] ++ r'). rewrite app_assoc.
    destruct r' as [|y r'']; [rewrite app_nil_r; apply H|].
    apply wf_nothing_below; [exact Hwf | rewrite H; discriminate | discriminate].
Qed.

Lemma rm_key_wf : forall s p, wf s -> (lookup s p <> Some EDir \/ forall n, lookup s (p ++ [n]) = None) -> wf (rm_key p s).
Proof.
  intros s p Hwf H a n Hl. rewrite lookup_rm_key in Hl.
  destruct (path_eqb (a ++ [n]) p) eqn:E; [congruence|].
  pose proof (Hwf a n Hl) as Ha.
  rewrite lookup_rm_key_other; [exact Ha|]. intros ->.
  destruct H as [H|H]; [congruence | now rewrite H in Hl].
Qed.

(* the outcomes of os.Remove on a physical path *)
Lemma os_remove_cases : forall s p, dirs_above s p ->
  os_remove s p = (s, Err ENotFound) \/ os_remove s p = (s, Err ENotEmpty) \/
  (os_remove s p = (rm_key p s, Ok) /\ lookup s p <> None /\ (lookup s p <> Some EDir \/ forall n, lookup s (p ++ [n]) = None)).
Proof.
  intros s p Hd. unfold os_remove. rewrite resolve_nofollow_phys by assumption.
  assert (G : forall q, q = p -> 
     match lookup s q with
      | Some EDir => match children s q with [] => (rm_key q s, Ok) | _ => (s, Err ENotEmpty) end
      | Some _ => (rm_key q s, Ok)
      | None => (s, Err ENotFound) end = (s, Err ENotFound) \/ 
     match lookup s q with
      | Some EDir => match children s q with [] => (rm_key q s, Ok) | _ => (s, Err ENotEmpty) end
      | Some _ => (rm_key q s, Ok)
      | None => (s, Err ENotFound) end = (s, Err ENotEmpty) \/ 
     (match lookup s q with
      | Some EDir => match children s q with [] => (rm_key q s, Ok) | _ => (s, Err ENotEmpty) end
      | Some _ => (rm_key q s, Ok)
      | None => (s, Err ENotFound) end = (rm_key p s, Ok) /\ lookup s p <> None /\ (lookup s p <> Some EDir \/ forall n, lookup s (p ++ [n]) = None))).
  { intros q ->. destruct (lookup s p) as [[cid| |t]|] eqn:E.
    - right; right. repeat split; [discriminate | left; discriminate].
    - destruct (children s p) eqn:Ec; [|right; left; reflexivity].
      right; right. repeat split; [discriminate | right; now apply children_nil].
    - right; right. repeat split; [discriminate | left; discriminate].
    - left; reflexivity. }
  destruct p as [|c r]; [apply (G []); reflexivity|].
  destruct (lookup s (c :: r)) eqn:E; [|left; reflexivity].
  specialize (G (c :: r) eq_refl). rewrite E in G. rewrite E. exact G.
Qed.

Lemma os_remove_wf : forall s p, wf s -> dirs_above s p -> wf (fst (os_remove s p)).
Proof.
  intros s p Hwf Hd. destruct (os_remove_cases s p Hd) as [->|[->|[-> [_ H]]]]; simpl; auto. now apply rm_key_wf.
Qed.

Lemma os_remove_complete : forall s p, wf s -> dirs_above s p -> snd (os_remove s p) = Ok -> gone_below (fst (os_remove s p)) p.
Proof.
  intros s p Hwf Hd Hok. destruct (os_remove_cases s p Hd) as [E|[E|[E [_ H]]]]; rewrite E in *; simpl in *; try discriminate.
  now apply rm_key_gone.
Qed.

(* ---------- well-formedness is preserved ---------- *)

Section WfFacts.
Variable excl_name : name -> bool.
Variable excl_path : path -> bool.

Definition wf_spec (rm : fsys -> path -> path -> fsys * res) : Prop :=
  forall s p t, wf s -> dirs_above s p -> wf (fst (rm s p t)).

(* one step of the loop keeps the directory being cleaned in place *)
Lemma child_step : forall rm s p n, rm_spec excl_name excl_path rm -> dirs_above s p -> lookup s p = Some EDir ->
  dirs_above (fst (rm s (p ++ [n]) [n])) p /\ lookup (fst (rm s (p ++ [n]) [n])) p = Some EDir /\
  changes_only (touchable excl_name excl_path (p ++ [n]) [n]) s (fst (rm s (p ++ [n]) [n])).
Proof.
  intros rm s p n Hrm Hd Hl.
  pose proof (Hrm s (p ++ [n]) [n] (dirs_above_child s p n Hd Hl)) as H1.
  split; [|split; [|exact H1]].
  - eapply dirs_above_preserved; [|exact H1|exact Hd]. intros q Hq. eapply under_app. eapply touchable_under. exact Hq.
  - rewrite H1; [exact Hl|]. intros Ht. apply touchable_under in Ht. revert Ht. apply strict_prefix_not_under. discriminate.
Qed.

Lemma fold_rm_wf : forall c rm p, rm_spec excl_name excl_path rm -> wf_spec rm ->
  forall ns s, wf s -> dirs_above s p -> lookup s p = Some EDir -> wf (fst (fold_rm good c rm s p ns)).
Proof.
  intros c rm p Hrm Hw. induction ns as [|n r IH]; intros s Hwf Hd Hl; simpl; [exact Hwf|].
  destruct c; [exact Hwf|].
  destruct (child_step rm s p n Hrm Hd Hl) as [Hd1 [Hl1 _]].
  pose proof (Hw s (p ++ [n]) [n] Hwf (dirs_above_child s p n Hd Hl)) as Hwf1.
  destruct (rm s (p ++ [n]) [n]) as [s1 r1]. simpl in *. destruct r1; [now apply IH | exact Hwf1].
Qed.

Lemma clean_dir_with_wf : forall c rm, rm_spec excl_name excl_path rm -> wf_spec rm ->
  forall s p, wf s -> dirs_above s p -> not_link (lookup s p) -> wf (fst (clean_dir_with excl_name good c rm s p)).
Proof.
  intros c rm Hrm Hw s p Hwf Hd Hn. unfold clean_dir_with.
  destruct c; [exact Hwf|].
  destruct (negb (exists_ s p)); [exact Hwf|].
  destruct (is_empty s p); [exact Hwf|].
  destruct (ls excl_name s p) as [ns|] eqn:E; [|exact Hwf].
  apply fold_rm_wf; auto. eapply ls_some_dir; eauto.
Qed.

Lemma remove_wf : forall c fuel, wf_spec (remove excl_name excl_path good c fuel).
Proof.
  intros c. induction fuel as [|f IH]; intros s p t Hwf Hd; simpl; [exact Hwf|].
  rewrite lstat_phys by assumption.
  destruct (is_link (lookup s p)) eqn:El.
  - destruct c; [exact Hwf|]. destruct (excl_path t); [exact Hwf | now apply os_remove_wf].
  - assert (Hn : not_link (lookup s p)) by (intros t0 Ht; rewrite Ht in El; discriminate).
    destruct (negb (exists_ s p)); [exact Hwf|].
    destruct (is_dir s p) as [isDir|]; [|exact Hwf].
    set (x := if isDir && negb (is_empty s p) then clean_dir_with excl_name good c (remove excl_name excl_path good c f) s p else (s, Ok)).
    assert (Hx : wf (fst x) /\ changes_only (touchable excl_name excl_path p t) s (fst x)).
    { unfold x. destruct (isDir && negb (is_empty s p)); [|split; [exact Hwf | apply changes_only_refl]].
      split; [apply clean_dir_with_wf; auto; apply remove_changes_only | apply clean_dir_with_changes_only; auto; apply remove_changes_only]. }
    destruct x as [s1 r1]. simpl in Hx. destruct Hx as [Hwf1 Hc].
    destruct r1; [|exact Hwf1].
    assert (Hd1 : dirs_above s1 p) by (eapply dirs_above_preserved; [apply touchable_under | exact Hc | exact Hd]).
    destruct (isDir && negb (is_empty s1 p)); [exact Hwf1|].
    destruct c; [exact Hwf1|].
    destruct (excl_path t); [exact Hwf1 | now apply os_remove_wf].
Qed.

End WfFacts.

(* ---------- success without exclusion patterns: everything is gone ---------- *)

Lemma name_eq_dec : forall a b : name, {a = b} + {a <> b}.
Proof. apply list_eq_dec. apply Z.eq_dec. Qed.

Lemma sibling_not_under : forall p n m, m <> n -> ~ under (p ++ [n]) (p ++ [m]).
Proof.
  intros p n m Hne [x H]. rewrite <- app_assoc in H. apply app_inv_head in H. simpl in H. inversion H. congruence.
Qed.

Lemma is_empty_dir_phys : forall s p, dirs_above s p -> lookup s p = Some EDir ->
  is_empty s p = match children s p with [] => true | _ => false end.
Proof.
  intros s p Hd Hl. unfold is_empty. rewrite stat_phys; [|exact Hd|intros t; congruence].
  rewrite Hl, readdir_phys by assumption. now destruct (children s p).
Qed.

Section Complete.
Variable excl_name : name -> bool.
Variable excl_path : path -> bool.
Hypothesis Hen : forall n, excl_name n = false.
Hypothesis Hep : forall q, excl_path q = false.

Definition complete_spec (rm : fsys -> path -> path -> fsys * res) : Prop :=
  forall s p t, wf s -> dirs_above s p -> snd (rm s p t) = Ok -> gone_below (fst (rm s p t)) p.

Lemma filter_none : forall ns : list name, filter (fun n => negb (excl_name n)) ns = ns.
Proof. induction ns as [|n r IH]; simpl; [reflexivity|]. now rewrite Hen, IH. Qed.

Lemma fold_rm_complete : forall c rm p, rm_spec excl_name excl_path rm -> wf_spec rm -> complete_spec rm ->
  forall ns s, wf s -> dirs_above s p -> lookup s p = Some EDir ->
  (forall n, lookup s (p ++ [n]) <> None -> In n ns) ->
  snd (fold_rm good c rm s p ns) = Ok ->
  forall n, lookup (fst (fold_rm good c rm s p ns)) (p ++ [n]) = None.
Proof.
  intros c rm p Hrm Hw Hc. induction ns as [|n r IH]; intros s Hwf Hd Hl Hall Hok m; simpl in *.
  - destruct (lookup s (p ++ [m])) eqn:E; [|reflexivity]. exfalso. apply (Hall m). congruence.
  - destruct c; [discriminate|].
    destruct (child_step excl_name excl_path rm s p n Hrm Hd Hl) as [Hd1 [Hl1 Hch]].
    pose proof (Hw s (p ++ [n]) [n] Hwf (dirs_above_child s p n Hd Hl)) as Hwf1.
    pose proof (Hc s (p ++ [n]) [n] Hwf (dirs_above_child s p n Hd Hl)) as Hgone.
    destruct (rm s (p ++ [n]) [n]) as [s1 r1]. simpl in *.
    destruct r1; [|discriminate].
    apply IH; auto.
    intros k Hk. destruct (name_eq_dec k n) as [->|Hne].
    + exfalso. apply Hk. apply Hgone; [reflexivity | apply under_refl].
    + rewrite Hch in Hk.
      * destruct (Hall k Hk) as [->|Hin]; [congruence | exact Hin].
      * intros Ht. apply touchable_under in Ht. revert Ht. now apply sibling_not_under.
Qed.

(* a successful CleanDir of a real directory leaves it in place and empty *)
Lemma clean_dir_with_complete : forall c rm, rm_spec excl_name excl_path rm -> wf_spec rm -> complete_spec rm ->
  forall s p, wf s -> dirs_above s p -> lookup s p = Some EDir ->
  snd (clean_dir_with excl_name good c rm s p) = Ok ->
  children (fst (clean_dir_with excl_name good c rm s p)) p = [].
Proof.
  intros c rm Hrm Hw Hc s p Hwf Hd Hl Hok. unfold clean_dir_with in *.
  destruct c; [discriminate|].
  unfold exists_ in *. rewrite stat_phys in * by (auto; intros t; congruence). rewrite Hl in *. simpl in *.
  rewrite is_empty_dir_phys in * by assumption.
  destruct (children s p) as [|n0 r0] eqn:Ech; [exact Ech|].
  unfold ls, is_dir in *. rewrite stat_phys in * by (auto; intros t; congruence). rewrite Hl in *.
  rewrite readdir_phys in * by assumption. rewrite filter_none in *. rewrite Ech in *.
  apply children_nil. rewrite <- Ech in *. apply fold_rm_complete; auto.
  intros k Hk. now apply children_spec.
Qed.

Lemma fold_rm_keeps_root : forall c rm p, rm_spec excl_name excl_path rm ->
  forall ns s, dirs_above s p -> lookup s p = Some EDir -> lookup (fst (fold_rm good c rm s p ns)) p = Some EDir.
Proof.
  intros c rm p Hrm. induction ns as [|n r IH]; intros s Hd Hl; simpl; [exact Hl|].
  destruct c; [exact Hl|].
  destruct (child_step excl_name excl_path rm s p n Hrm Hd Hl) as [Hd1 [Hl1 _]].
  destruct (rm s (p ++ [n]) [n]) as [s1 r1]. simpl in *. destruct r1; [now apply IH | exact Hl1].
Qed.

Lemma clean_dir_with_keeps_root : forall c rm, rm_spec excl_name excl_path rm ->
  forall s p, dirs_above s p -> lookup s p = Some EDir -> lookup (fst (clean_dir_with excl_name good c rm s p)) p = Some EDir.
Proof.
  intros c rm Hrm s p Hd Hl. unfold clean_dir_with.
  destruct c; [exact Hl|].
  destruct (negb (exists_ s p)); [exact Hl|].
  destruct (is_empty s p); [exact Hl|].
  destruct (ls excl_name s p) as [ns|]; [|exact Hl].
  now apply fold_rm_keeps_root.
Qed.

Lemma remove_complete_l : forall c fuel, complete_spec (remove excl_name excl_path good c fuel).
Proof.
  intros c. induction fuel as [|f IH]; intros s p t Hwf Hd; [discriminate|].
  remember (remove excl_name excl_path good c (S f) s p t) as R eqn:HR. simpl in HR.
  rewrite lstat_phys in HR by assumption.
  destruct (is_link (lookup s p)) eqn:El.
  - simpl in HR. destruct c; [subst R; discriminate|]. rewrite Hep in HR. subst R. now apply os_remove_complete.
  - assert (Hn : not_link (lookup s p)) by (intros t0 Ht; rewrite Ht in El; discriminate).
    simpl in HR. unfold exists_, is_dir in HR. rewrite stat_phys in HR by assumption.
    destruct (lookup s p) as [[cid| |t0]|] eqn:Elk.
    + (* a regular file *)
      simpl in HR. destruct c; [subst R; discriminate|]. rewrite Hep in HR. subst R. now apply os_remove_complete.
    + (* a real directory *)
      simpl in HR.
      pose proof (remove_changes_only excl_name excl_path c f) as Hrm.
      pose proof (remove_wf excl_name excl_path c f) as Hw.
      assert (Hn' : not_link (lookup s p)) by (rewrite Elk; exact Hn).
      destruct (negb (is_empty s p)) eqn:Eemp.
      * pose proof (clean_dir_with_complete c _ Hrm Hw IH s p Hwf Hd Elk) as Hcc.
        pose proof (clean_dir_with_wf excl_name excl_path c _ Hrm Hw s p Hwf Hd Hn') as Hwf1.
        pose proof (clean_dir_with_changes_only excl_name excl_path c _ t Hrm s p Hd Hn') as Hch.
        pose proof (clean_dir_with_keeps_root c _ Hrm s p Hd Elk) as Hl1.
        destruct (clean_dir_with excl_name good c (remove excl_name excl_path good c f) s p) as [s1 r1]. simpl in *.
        destruct r1; [|subst R; discriminate].
        assert (Hd1 : dirs_above s1 p) by (eapply dirs_above_preserved; [apply touchable_under | exact Hch | exact Hd]).
        rewrite (is_empty_dir_phys s1 p Hd1 Hl1), (Hcc eq_refl) in HR. simpl in HR.
        destruct c; [subst R; discriminate|]. rewrite Hep in HR. subst R. now apply os_remove_complete.
      * rewrite Eemp in HR. simpl in HR.
        destruct c; [subst R; discriminate|]. rewrite Hep in HR. subst R. now apply os_remove_complete.
    + exfalso. now apply (Hn t0).
    + simpl in HR. subst R. simpl. intros _. now apply wf_missing_gone.
Qed.

End Complete.

(* ---------- fuel: with Lstat first the recursion only descends into real directories ---------- *)

Lemma is_prefix_spec : forall p q, is_prefix p q = true <-> under p q.
Proof.
  induction p as [|a p IH]; intros q; simpl.
  - split; [intros _; now exists q | reflexivity].
  - destruct q as [|b q]; [split; [discriminate | intros [r H]; discriminate]|].
    rewrite andb_true_iff, name_eqb_eq, IH. split.
    + intros [-> [r ->]]. now exists r.
    + intros [r H]. inversion H; subst. split; [reflexivity | now exists r].
Qed.

Lemma filter_le : forall (A : Type) (f g : A -> bool) l, (forall x, f x = true -> g x = true) ->
  length (filter f l) <= length (filter g l).
Proof.
  intros A f g l H. induction l as [|x r IH]; simpl; [lia|].
  destruct (f x) eqn:Ef; [rewrite (H x Ef); simpl; lia | destruct (g x); simpl; lia].
Qed.

Lemma filter_lt : forall (A : Type) (f g : A -> bool) l, (forall x, f x = true -> g x = true) ->
  (exists x, In x l /\ g x = true /\ f x = false) -> length (filter f l) < length (filter g l).
Proof.
  intros A f g l H [x [Hin [Hg Hf]]]. induction l as [|y r IH]; [destruct Hin|]. simpl.
  destruct Hin as [->|Hin].
  - rewrite Hf, Hg. simpl. pose proof (filter_le A f g r H). lia.
  - specialize (IH Hin). destruct (f y) eqn:Ef; [rewrite (H y Ef); simpl; lia | destruct (g y); simpl; lia].
Qed.

Lemma filter_filter_le : forall (A : Type) (f g : A -> bool) l, length (filter f (filter g l)) <= length (filter f l).
Proof.
  intros A f g l. induction l as [|x r IH]; simpl; [lia|].
  destruct (g x); simpl; destruct (f x); simpl; lia.
Qed.

Lemma size_child_lt : forall s p n, lookup s p <> None -> size_below s (p ++ [n]) < size_below s p.
Proof.
  intros s p n Hl. unfold size_below. apply filter_lt.
  - intros [k e] H. simpl in *. apply is_prefix_spec. apply is_prefix_spec in H. eapply under_app; eauto.
  - apply lookup_in in Hl as [e Hin]. exists (p, e). split; [exact Hin|]. simpl. split.
    + apply is_prefix_spec. apply under_refl.
    + destruct (is_prefix (p ++ [n]) p) eqn:E; [|reflexivity]. apply is_prefix_spec in E.
      exfalso. revert E. apply strict_prefix_not_under. discriminate.
Qed.

(* entries only ever disappear *)
Definition shrinks (s s' : fsys) : Prop := forall x, size_below s' x <= size_below s x.

Lemma shrinks_refl : forall s, shrinks s s.
Proof. intros s x. lia. Qed.

Lemma shrinks_trans : forall a b c, shrinks a b -> shrinks b c -> shrinks a c.
Proof. intros a b c H1 H2 x. specialize (H1 x). specialize (H2 x). lia. Qed.

Lemma rm_key_shrinks : forall q s, shrinks s (rm_key q s).
Proof. intros q s x. unfold size_below, rm_key. apply filter_filter_le. Qed.

Lemma os_remove_shrinks : forall s p, shrinks s (fst (os_remove s p)).
Proof.
  intros s p. unfold os_remove. destruct (resolve link_fuel s false p) as [q|]; [|apply shrinks_refl].
  destruct (lookup s q) as [[cid| |t]|]; simpl; try apply shrinks_refl; try apply rm_key_shrinks.
  destruct (children s q); simpl; [apply rm_key_shrinks | apply shrinks_refl].
Qed.

Section Fuel.
Variable excl_name : name -> bool.
Variable excl_path : path -> bool.

Definition shrink_spec (rm : fsys -> path -> path -> fsys * res) : Prop := forall s p t, shrinks s (fst (rm s p t)).

Lemma fold_rm_shrinks : forall c rm p, shrink_spec rm -> forall ns s, shrinks s (fst (fold_rm good c rm s p ns)).
Proof.
  intros c rm p Hs. induction ns as [|n r IH]; intros s; simpl; [apply shrinks_refl|].
  destruct c; [apply shrinks_refl|].
  pose proof (Hs s (p ++ [n]) [n]) as H1. destruct (rm s (p ++ [n]) [n]) as [s1 r1]. simpl in H1.
  destruct r1; [eapply shrinks_trans; [exact H1 | apply IH] | exact H1].
Qed.

Lemma clean_dir_with_shrinks : forall c rm, shrink_spec rm -> forall s p, shrinks s (fst (clean_dir_with excl_name good c rm s p)).
Proof.
  intros c rm Hs s p. unfold clean_dir_with. destruct c; [apply shrinks_refl|].
  destruct (negb (exists_ s p)); [apply shrinks_refl|]. destruct (is_empty s p); [apply shrinks_refl|].
  destruct (ls excl_name s p); [now apply fold_rm_shrinks | apply shrinks_refl].
Qed.

Lemma remove_shrinks : forall c fuel, shrink_spec (remove excl_name excl_path good c fuel).
Proof.
  intros c. induction fuel as [|f IH]; intros s p t; simpl; [apply shrinks_refl|].
  destruct (is_link (lstat s p)).
  - destruct c; [apply shrinks_refl|]. destruct (excl_path t); [apply shrinks_refl | apply os_remove_shrinks].
  - destruct (negb (exists_ s p)); [apply shrinks_refl|].
    destruct (is_dir s p) as [isDir|]; [|apply shrinks_refl].
    set (x := if isDir && negb (is_empty s p) then clean_dir_with excl_name good c (remove excl_name excl_path good c f) s p else (s, Ok)).
    assert (Hx : shrinks s (fst x)) by (unfold x; destruct (isDir && negb (is_empty s p)); [now apply clean_dir_with_shrinks | apply shrinks_refl]).
    destruct x as [s1 r1]. simpl in Hx. destruct r1; [|exact Hx].
    destruct (isDir && negb (is_empty s1 p)); [exact Hx|]. destruct c; [exact Hx|].
    destruct (excl_path t); [exact Hx|]. eapply shrinks_trans; [exact Hx | apply os_remove_shrinks].
Qed.

Definition nofuel_spec (f : nat) (rm : fsys -> path -> path -> fsys * res) : Prop :=
  forall s p t, dirs_above s p -> size_below s p < f -> snd (rm s p t) <> Err EFuel.

Lemma fold_rm_nofuel : forall c rm p f, rm_spec excl_name excl_path rm -> shrink_spec rm -> nofuel_spec f rm ->
  forall ns s, dirs_above s p -> lookup s p = Some EDir -> (forall n, size_below s (p ++ [n]) < f) ->
  snd (fold_rm good c rm s p ns) <> Err EFuel.
Proof.
  intros c rm p f Hrm Hs Hnf. induction ns as [|n r IH]; intros s Hd Hl Hsz; simpl; [discriminate|].
  destruct c; [discriminate|].
  destruct (child_step excl_name excl_path rm s p n Hrm Hd Hl) as [Hd1 [Hl1 _]].
  pose proof (Hs s (p ++ [n]) [n]) as Hsh.
  pose proof (Hnf s (p ++ [n]) [n] (dirs_above_child s p n Hd Hl) (Hsz n)) as Hn.
  destruct (rm s (p ++ [n]) [n]) as [s1 r1]. simpl in *.
  destruct r1 as [|e]; [|intro H; inversion H; subst; now apply Hn].
  apply IH; auto. intros m. specialize (Hsh (p ++ [m])). specialize (Hsz m). lia.
Qed.

Lemma clean_dir_with_nofuel : forall c rm f, rm_spec excl_name excl_path rm -> shrink_spec rm -> nofuel_spec f rm ->
  forall s p, dirs_above s p -> not_link (lookup s p) -> (forall n, size_below s (p ++ [n]) < f) ->
  snd (clean_dir_with excl_name good c rm s p) <> Err EFuel.
Proof.
  intros c rm f Hrm Hs Hnf s p Hd Hn Hsz. unfold clean_dir_with. destruct c; [discriminate|].
  destruct (negb (exists_ s p)); [discriminate|]. destruct (is_empty s p); [discriminate|].
  destruct (ls excl_name s p) as [ns|] eqn:E; [|discriminate].
  eapply fold_rm_nofuel; eauto. eapply ls_some_dir; eauto.
Qed.

Lemma os_remove_nofuel : forall s p, snd (os_remove s p) <> Err EFuel.
Proof.
  intros s p. unfold os_remove. destruct (resolve link_fuel s false p) as [q|]; [|discriminate].
  destruct (lookup s q) as [[cid| |t]|]; simpl; try discriminate. destruct (children s q); discriminate.
Qed.

Lemma remove_nofuel : forall c fuel, nofuel_spec fuel (remove excl_name excl_path good c fuel).
Proof.
  intros c. induction fuel as [|f IH]; intros s p t Hd Hsz; [lia|]. simpl.
  rewrite lstat_phys by assumption.
  destruct (is_link (lookup s p)) eqn:El.
  - simpl. destruct c; [discriminate|]. destruct (excl_path t); [discriminate | apply os_remove_nofuel].
  - assert (Hn : not_link (lookup s p)) by (intros t0 Ht; rewrite Ht in El; discriminate).
    simpl. destruct (negb (exists_ s p)); [discriminate|].
    destruct (is_dir s p) as [isDir|] eqn:Ed; [|discriminate].
    set (x := if isDir && negb (is_empty s p) then clean_dir_with excl_name good c (remove excl_name excl_path good c f) s p else (s, Ok)).
    assert (Hx : snd x <> Err EFuel).
    { unfold x. destruct isDir; simpl; [|discriminate]. destruct (negb (is_empty s p)); [|discriminate].
      assert (Hl : lookup s p = Some EDir).
      { unfold is_dir in Ed. rewrite stat_phys in Ed by assumption. destruct (lookup s p) as [[?| |?]|]; try discriminate; reflexivity. }
      apply (clean_dir_with_nofuel c _ f); auto.
      - apply remove_changes_only.
      - apply remove_shrinks.
      - intros n. assert (lookup s p <> None) by congruence. pose proof (size_child_lt s p n H). lia. }
    destruct x as [s1 r1]. simpl in Hx. destruct r1 as [|e]; [|intro H; inversion H; subst; now apply Hx].
    destruct (isDir && negb (is_empty s1 p)); [discriminate|]. destruct c; [discriminate|].
    destruct (excl_path t); [discriminate | apply os_remove_nofuel].
Qed.

End Fuel.

(* ---------- without exclusions, with a live context and enough fuel the removal SUCCEEDS ---------- *)

Lemma os_remove_ok : forall s p, dirs_above s p -> lookup s p <> None ->
  (lookup s p <> Some EDir \/ children s p = []) -> snd (os_remove s p) = Ok.
Proof.
  intros s p Hd Hl H. destruct (os_remove_cases s p Hd) as [E|[E|[E _]]]; rewrite E; simpl; try reflexivity; exfalso.
  - unfold os_remove in E. rewrite resolve_nofollow_phys in E by assumption.
    destruct p as [|c r].
    + destruct (lookup s []) as [[?| |?]|]; try congruence. destruct (children s []); discriminate.
    + destruct (lookup s (c :: r)) as [[?| |?]|] eqn:E2; try congruence; rewrite ?E2 in E; try discriminate.
      destruct (children s (c :: r)); discriminate.
  - unfold os_remove in E. rewrite resolve_nofollow_phys in E by assumption.
    destruct p as [|c r].
    + destruct (lookup s []) as [[?| |?]|] eqn:E2; try discriminate.
      destruct H as [H|H]; [congruence|]. rewrite H in E. discriminate.
    + destruct (lookup s (c :: r)) as [[?| |?]|] eqn:E2; rewrite ?E2 in E; try discriminate.
      destruct H as [H|H]; [congruence|]. rewrite H in E. discriminate.
Qed.

Section Success.
Variable excl_name : name -> bool.
Variable excl_path : path -> bool.
Hypothesis Hen : forall n, excl_name n = false.
Hypothesis Hep : forall q, excl_path q = false.

Definition ok_spec (f : nat) (rm : fsys -> path -> path -> fsys * res) : Prop :=
  forall s p t, wf s -> dirs_above s p -> size_below s p < f -> snd (rm s p t) = Ok.

Lemma fold_rm_ok : forall rm p f, rm_spec excl_name excl_path rm -> wf_spec rm -> shrink_spec rm -> ok_spec f rm ->
  forall ns s, wf s -> dirs_above s p -> lookup s p = Some EDir -> (forall n, size_below s (p ++ [n]) < f) ->
  snd (fold_rm good false rm s p ns) = Ok.
Proof.
  intros rm p f Hrm Hw Hs Hok. induction ns as [|n r IH]; intros s Hwf Hd Hl Hsz; simpl; [reflexivity|].
  destruct (child_step excl_name excl_path rm s p n Hrm Hd Hl) as [Hd1 [Hl1 _]].
  pose proof (Hs s (p ++ [n]) [n]) as Hsh.
  pose proof (Hw s (p ++ [n]) [n] Hwf (dirs_above_child s p n Hd Hl)) as Hwf1.
  pose proof (Hok s (p ++ [n]) [n] Hwf (dirs_above_child s p n Hd Hl) (Hsz n)) as Hr.
  destruct (rm s (p ++ [n]) [n]) as [s1 r1]. simpl in *. subst r1.
  apply IH; auto. intros m. specialize (Hsh (p ++ [m])). specialize (Hsz m). lia.
Qed.

Lemma clean_dir_with_ok : forall rm f, rm_spec excl_name excl_path rm -> wf_spec rm -> shrink_spec rm -> ok_spec f rm ->
  forall s p, wf s -> dirs_above s p -> lookup s p = Some EDir -> (forall n, size_below s (p ++ [n]) < f) ->
  snd (clean_dir_with excl_name good false rm s p) = Ok.
Proof.
  intros rm f Hrm Hw Hs Hok s p Hwf Hd Hl Hsz. unfold clean_dir_with.
  destruct (negb (exists_ s p)); [reflexivity|]. destruct (is_empty s p); [reflexivity|].
  unfold ls, is_dir. rewrite stat_phys by (auto; intros t; congruence). rewrite Hl.
  rewrite readdir_phys by assumption. eapply fold_rm_ok; eauto.
Qed.

Lemma remove_ok_c : forall c fuel, c = false -> ok_spec fuel (remove excl_name excl_path good c fuel).
Proof.
  intros c. induction fuel as [|f IH]; intros Hc s p t Hwf Hd Hsz; [lia|].
  specialize (IH Hc).
  remember (remove excl_name excl_path good c (S f) s p t) as R eqn:HR. simpl in HR.
  rewrite lstat_phys in HR by assumption.
  destruct (is_link (lookup s p)) eqn:El.
  - simpl in HR. subst c. rewrite Hep in HR. subst R. apply os_remove_ok; [exact Hd | |].
    + destruct (lookup s p); [discriminate | discriminate El].
    + left. destruct (lookup s p) as [[?| |?]|]; try discriminate El. discriminate.
  - assert (Hn : not_link (lookup s p)) by (intros t0 Ht; rewrite Ht in El; discriminate).
    simpl in HR. unfold exists_, is_dir in HR. rewrite stat_phys in HR by assumption.
    destruct (lookup s p) as [[cid| |t0]|] eqn:Elk.
    + simpl in HR. subst c. rewrite Hep in HR. subst R. apply os_remove_ok; [exact Hd | congruence | left; congruence].
    + simpl in HR. subst c.
      pose proof (remove_changes_only excl_name excl_path false f) as Hrm.
      pose proof (remove_wf excl_name excl_path false f) as Hw.
      pose proof (remove_shrinks excl_name excl_path false f) as Hsh.
      pose proof (remove_complete_l excl_name excl_path Hen Hep false f) as Hcm.
      assert (Hn' : not_link (lookup s p)) by (rewrite Elk; exact Hn).
      assert (Hch : forall n, size_below s (p ++ [n]) < f).
      { intros n. assert (H : lookup s p <> None) by congruence. pose proof (size_child_lt s p n H). lia. }
      destruct (negb (is_empty s p)) eqn:Eemp.
      * pose proof (clean_dir_with_ok _ f Hrm Hw Hsh IH s p Hwf Hd Elk Hch) as Hcok.
        pose proof (clean_dir_with_complete excl_name excl_path Hen false _ Hrm Hw Hcm s p Hwf Hd Elk Hcok) as Hcc.
        pose proof (clean_dir_with_changes_only excl_name excl_path false _ t Hrm s p Hd Hn') as Hchg.
        pose proof (clean_dir_with_keeps_root excl_name excl_path false _ Hrm s p Hd Elk) as Hl1.
        destruct (clean_dir_with excl_name good false (remove excl_name excl_path good false f) s p) as [s1 r1]. simpl in *. subst r1.
        assert (Hd1 : dirs_above s1 p) by (eapply dirs_above_preserved; [apply touchable_under | exact Hchg | exact Hd]).
        rewrite (is_empty_dir_phys s1 p Hd1 Hl1), Hcc in HR. simpl in HR.
        rewrite Hep in HR. subst R. apply os_remove_ok; [exact Hd1 | congruence | now right].
      * rewrite Eemp in HR. simpl in HR. rewrite Hep in HR. subst R.
        apply os_remove_ok; [exact Hd | congruence | right].
        apply negb_false_iff in Eemp. rewrite is_empty_dir_phys in Eemp by assumption.
        destruct (children s p); [reflexivity | discriminate].
    + exfalso. now apply (Hn t0).
    + simpl in HR. now subst R.
Qed.

Lemma remove_ok : forall fuel, ok_spec fuel (remove excl_name excl_path good false fuel).
Proof. intros fuel. now apply remove_ok_c. Qed.

End Success.

(* ---------- garbage collection: fuel ---------- *)

Lemma remove0_shrinks : forall c fuel s p, shrinks s (fst (remove0 good c fuel s p)).
Proof. intros. apply remove_shrinks. Qed.

Lemma gc_file_shrinks : forall c old fuel s p, shrinks s (fst (gc_file good c old fuel s p)).
Proof.
  intros c old fuel s p. unfold gc_file. destruct c; [apply shrinks_refl|].
  destruct (resolve link_fuel s true p) as [q|]; [|apply shrinks_refl].
  destruct (old q); [apply remove0_shrinks | apply shrinks_refl].
Qed.

Lemma gc_children_shrinks : forall g p, (forall s q, shrinks s (fst (g s q))) ->
  forall ns s, shrinks s (fst (gc_children g s p ns)).
Proof.
  intros g p Hg. induction ns as [|n r IH]; intros s; simpl; [apply shrinks_refl|].
  pose proof (Hg s (p ++ [n])) as H1. destruct (g s (p ++ [n])) as [s1 r1]. simpl in H1.
  assert (Hk : shrinks s (fst (gc_children g s1 p r))) by (eapply shrinks_trans; [exact H1 | apply IH]).
  destruct r1 as [|[]]; try exact Hk. exact H1.
Qed.

Lemma gc_shrinks : forall c old ord fuel s p dp, shrinks s (fst (gc good goodg c old ord fuel s p dp)).
Proof.
  intros c old ord. induction fuel as [|f IH]; intros s p dp; simpl; [apply shrinks_refl|].
  destruct c; [apply shrinks_refl|].
  destruct (negb (exists_ s p)); [apply shrinks_refl|].
  destruct (dp && is_link (lstat s p)); [apply gc_file_shrinks|].
  destruct (is_dir s p) as [[|]|]; try apply gc_file_shrinks.
  destruct (ls (fun _ => false) s p) as [ns|]; [|apply shrinks_refl].
  pose proof (gc_children_shrinks (fun a q => gc good goodg false old ord f a q true) p (fun s0 q => IH s0 q true) (ord p ns) s) as Hf.
  destruct (gc_children (fun a q => gc good goodg false old ord f a q true) s p (ord p ns)) as [s1 b]. simpl in Hf.
  destruct b; [exact Hf|].
  destruct (is_empty s1 p && dp); [|exact Hf].
  eapply shrinks_trans; [exact Hf | apply remove0_shrinks].
Qed.

Lemma remove0_nofuel : forall c fuel s p, dirs_above s p -> size_below s p < fuel -> snd (remove0 good c fuel s p) <> Err EFuel.
Proof. intros c fuel s p Hd Hsz. unfold remove0. now apply remove_nofuel. Qed.

Lemma gc_file_nofuel : forall c old fuel s p, dirs_above s p -> size_below s p < fuel ->
  snd (gc_file good c old fuel s p) <> Err EFuel.
Proof.
  intros c old fuel s p Hd Hsz. unfold gc_file. destruct c; [discriminate|].
  destruct (resolve link_fuel s true p) as [q|]; [|discriminate].
  destruct (old q); [now apply remove0_nofuel | discriminate].
Qed.

Lemma gc_children_nofuel : forall g p f, gc_spec g -> (forall s q, shrinks s (fst (g s q))) ->
  (forall s q, dirs_above s q -> size_below s q + 1 < f -> snd (g s q) <> Err EFuel) ->
  forall ns s, dirs_above s p -> lookup s p = Some EDir -> (forall n, size_below s (p ++ [n]) + 1 < f) ->
  snd (gc_children g s p ns) = false.
Proof.
  intros g p f Hg Hs Hnf. induction ns as [|n r IH]; intros s Hd Hl Hsz; simpl; [reflexivity|].
  destruct (gc_child_step g s p n Hg Hd Hl) as [_ [Hd1 Hl1]].
  pose proof (Hs s (p ++ [n])) as Hsh.
  pose proof (Hnf s (p ++ [n]) (dirs_above_child s p n Hd Hl) (Hsz n)) as Hn.
  destruct (g s (p ++ [n])) as [s1 r1]. simpl in *.
  assert (Hk : snd (gc_children g s1 p r) = false).
  { apply IH; auto. intros m. specialize (Hsh (p ++ [m])). specialize (Hsz m). lia. }
  destruct r1 as [|[]]; try exact Hk. congruence.
Qed.

Lemma gc_nofuel : forall c old ord fuel s p dp, dirs_above s p -> (dp = false -> not_link (lookup s p)) ->
  size_below s p + 1 < fuel -> snd (gc good goodg c old ord fuel s p dp) <> Err EFuel.
Proof.
  intros c old ord. induction fuel as [|f IH]; intros s p dp Hd Hroot Hsz; [lia|]. simpl.
  destruct c; [discriminate|].
  destruct (negb (exists_ s p)); [discriminate|].
  rewrite lstat_phys by assumption.
  destruct (dp && is_link (lookup s p)) eqn:El; [apply gc_file_nofuel; [exact Hd | lia]|].
  assert (Hn : not_link (lookup s p)).
  { destruct dp; [|now apply Hroot]. simpl in El. intros t Ht. rewrite Ht in El. discriminate. }
  destruct (is_dir s p) as [[|]|] eqn:Ed; try (apply gc_file_nofuel; [exact Hd | lia]).
  destruct (ls (fun _ => false) s p) as [ns|] eqn:E; [|discriminate].
  assert (Hl : lookup s p = Some EDir) by (eapply ls_some_dir; eauto).
  set (g := fun a q => gc good goodg false old ord f a q true).
  assert (Hg : gc_spec g) by (intros s0 p0 Hd0; apply gc_changes_only; [exact Hd0 | discriminate]).
  assert (Hch : forall n, size_below s (p ++ [n]) + 1 < f).
  { intros n. assert (H : lookup s p <> None) by congruence. pose proof (size_child_lt s p n H). lia. }
  pose proof (gc_children_nofuel g p f Hg (fun s0 q => gc_shrinks false old ord f s0 q true)
                (fun s0 q Hd0 Hs0 => IH s0 q true Hd0 (fun H => ltac:(discriminate H)) Hs0) (ord p ns) s Hd Hl Hch) as Hb.
  pose proof (gc_children_changes_only g p Hg (ord p ns) s Hd Hl) as Hf.
  pose proof (gc_children_shrinks g p (fun s0 q => gc_shrinks false old ord f s0 q true) (ord p ns) s) as Hsh.
  destruct (gc_children g s p (ord p ns)) as [s1 b]. simpl in *. subst b.
  destruct (is_empty s1 p && dp); [|discriminate].
  apply remove0_nofuel.
  - eapply dirs_above_preserved; [intros q Hq; exact Hq | exact Hf | exact Hd].
  - specialize (Hsh p). lia.
Qed.

(* ---------- statements used by Props.v ---------- *)

Lemma remove_confined_l : forall tr en ep c fuel s p, dirs_above s p ->
  forall q, ~ under p q -> lookup (fst (remove_top en ep good c tr fuel s p)) q = lookup s q.
Proof.
  intros tr en ep c fuel s p Hd q Hq. apply (remove_changes_only en ep c fuel s p p Hd). intros Ht. apply Hq. eapply touchable_under; eauto.
Qed.

Lemma clean_dir_confined_l : forall en ep c fuel s p, dirs_above s p -> not_link (lookup s p) ->
  forall q, ~ under p q -> lookup (fst (clean_dir en ep good c fuel s p)) q = lookup s q.
Proof.
  intros en ep c fuel s p Hd Hn q Hq. unfold clean_dir.
  apply (clean_dir_with_changes_only en ep c _ p (remove_changes_only en ep c fuel) s p Hd Hn). intros Ht. apply Hq. eapply touchable_under; eauto.
Qed.

Lemma gc_confined_l : forall c old ord fuel s root, dirs_above s root -> not_link (lookup s root) ->
  forall q, ~ under root q -> lookup (fst (garbage_collect good goodg c old ord fuel s root)) q = lookup s q.
Proof.
  intros c old ord fuel s root Hd Hn q Hq. unfold garbage_collect. now apply (gc_changes_only c old ord fuel s root false Hd (fun _ => Hn)).
Qed.

(* what the exclusion patterns protect in a call on p: p itself when the caller's path is excluded; below p, every entry
   whose own name is excluded or that lies below a directory whose name is excluded *)
Definition protected_below (en : name -> bool) (ep : path -> bool) (p q : path) : Prop :=
  exists r, q = p ++ r /\ r <> [] /\ (ep [last r []] = true \/ exists n, In n r /\ en n = true).
Definition protected (en : name -> bool) (ep : path -> bool) (p q : path) : Prop :=
  (q = p /\ ep p = true) \/ protected_below en ep p q.

Lemma protected_below_not_touchable : forall en ep p t q, protected_below en ep p q -> ~ touchable en ep p t q.
Proof.
  intros en ep p t q [r [-> [Hr H]]] [[Heq _]|[r' [_ [Heq [Hf He]]]]].
  - apply Hr. symmetry in Heq. now apply app_inv_head_nil in Heq.
  - apply app_inv_head in Heq. subst r'. destruct H as [H|[n [Hin Hn]]]; [congruence|].
    rewrite Forall_forall in Hf. specialize (Hf n Hin). congruence.
Qed.

Lemma protected_not_touchable : forall en ep p q, protected en ep p q -> ~ touchable en ep p p q.
Proof.
  intros en ep p q [[-> He]|H]; [|now apply protected_below_not_touchable].
  intros [[_ H]|[r [Hr [Heq _]]]]; [congruence|]. apply Hr. now apply app_inv_head_nil in Heq.
Qed.

Definition survives_with_ancestors (s s' : fsys) (q : path) : Prop :=
  lookup s' q = lookup s q /\ forall a b, q = a ++ b -> b <> [] -> lookup s' a = Some EDir.

Lemma keeps_gen : forall (P : path -> Prop) (s s' : fsys) q, wf s' -> changes_only P s s' ->
  ~ P q -> lookup s q <> None -> survives_with_ancestors s s' q.
Proof.
  intros P s s' q Hwf Hc Hq Hex.
  assert (E : lookup s' q = lookup s q) by now apply Hc.
  split; [exact E|]. intros a b -> Hb. apply (wf_prefix_dir s' Hwf b a Hb). congruence.
Qed.

Lemma remove_keeps_excluded_l : forall tr en ep c fuel s p, wf s -> dirs_above s p ->
  forall q, protected en ep p q -> lookup s q <> None -> survives_with_ancestors s (fst (remove_top en ep good c tr fuel s p)) q.
Proof.
  intros tr en ep c fuel s p Hwf Hd q Hp Hex. eapply keeps_gen; eauto.
  - exact (remove_wf en ep c fuel s p p Hwf Hd).
  - exact (remove_changes_only en ep c fuel s p p Hd).
  - now apply protected_not_touchable.
Qed.

Lemma clean_dir_keeps_excluded_l : forall en ep c fuel s p, wf s -> dirs_above s p -> not_link (lookup s p) ->
  forall q, protected_below en ep p q -> lookup s q <> None -> survives_with_ancestors s (fst (clean_dir en ep good c fuel s p)) q.
Proof.
  intros en ep c fuel s p Hwf Hd Hn q Hp Hex. unfold clean_dir. eapply keeps_gen; eauto.
  - exact (clean_dir_with_wf en ep c _ (remove_changes_only en ep c fuel) (remove_wf en ep c fuel) s p Hwf Hd Hn).
  - exact (clean_dir_with_changes_only en ep c _ p (remove_changes_only en ep c fuel) s p Hd Hn).
  - now apply protected_below_not_touchable.
Qed.

Lemma clean_dir_complete_l : forall en ep c fuel s p,
  (forall n, en n = false) -> (forall q, ep q = false) ->
  wf s -> dirs_above s p -> lookup s p = Some EDir ->
  snd (clean_dir en ep good c fuel s p) = Ok ->
  lookup (fst (clean_dir en ep good c fuel s p)) p = Some EDir /\
  forall q, under p q -> q <> p -> lookup (fst (clean_dir en ep good c fuel s p)) q = None.
Proof.
  intros en ep c fuel s p Hen Hep Hwf Hd Hl Hok. unfold clean_dir in *.
  pose proof (remove_changes_only en ep c fuel) as Hrm.
  pose proof (remove_wf en ep c fuel) as Hw.
  pose proof (remove_complete_l en ep Hen Hep c fuel) as Hc.
  assert (Hn : not_link (lookup s p)) by (intros t; congruence).
  split; [exact (clean_dir_with_keeps_root en ep c _ Hrm s p Hd Hl)|].
  pose proof (clean_dir_with_complete en ep Hen c _ Hrm Hw Hc s p Hwf Hd Hl Hok) as Hch.
  pose proof (clean_dir_with_wf en ep c _ Hrm Hw s p Hwf Hd Hn) as Hwf1.
  intros q [r ->] Hne. destruct r as [|n r']; [rewrite app_nil_r in Hne; congruence|].
  change (n :: r') with ([n] ++ r'). rewrite app_assoc.
  apply (wf_missing_gone _ (p ++ [n]) Hwf1); [|eexists; reflexivity].
  now apply children_nil.
Qed.

Lemma size_child_le : forall s p n, size_below s (p ++ [n]) <= size_below s p.
Proof.
  intros s p n. unfold size_below. apply filter_le. intros [k e] H. simpl in *.
  apply is_prefix_spec. apply is_prefix_spec in H. eapply under_app; eauto.
Qed.

Lemma remove_terminates_l : forall tr en ep c fuel s p, dirs_above s p -> size_below s p < fuel ->
  snd (remove_top en ep good c tr fuel s p) <> Err EFuel.
Proof. intros tr en ep c fuel s p Hd Hsz. change (snd (remove en ep good c fuel s p p) <> Err EFuel). now apply remove_nofuel. Qed.

Lemma clean_dir_terminates_l : forall en ep c fuel s p, dirs_above s p -> not_link (lookup s p) -> size_below s p < fuel ->
  snd (clean_dir en ep good c fuel s p) <> Err EFuel.
Proof.
  intros en ep c fuel s p Hd Hn Hsz. unfold clean_dir. apply (clean_dir_with_nofuel en ep c _ fuel); auto.
  - apply remove_changes_only.
  - apply remove_shrinks.
  - apply remove_nofuel.
  - intros n. pose proof (size_child_le s p n). lia.
Qed.

Lemma gc_terminates_l : forall c old ord fuel s root, dirs_above s root -> not_link (lookup s root) ->
  size_below s root + 1 < fuel -> snd (garbage_collect good goodg c old ord fuel s root) <> Err EFuel.
Proof. intros c old ord fuel s root Hd Hn Hsz. unfold garbage_collect. now apply gc_nofuel. Qed.

Lemma remove_succeeds_l : forall tr en ep fuel s p,
  (forall n, en n = false) -> (forall q, ep q = false) -> wf s -> dirs_above s p -> size_below s p < fuel ->
  snd (remove_top en ep good false tr fuel s p) = Ok /\ forall q, under p q -> lookup (fst (remove_top en ep good false tr fuel s p)) q = None.
Proof.
  intros tr en ep fuel s p Hen Hep Hwf Hd Hsz. change (remove_top en ep good false tr fuel s p) with (remove en ep good false fuel s p p).
  pose proof (remove_ok en ep Hen Hep fuel s p p Hwf Hd Hsz) as Hok.
  split; [exact Hok|]. exact (remove_complete_l en ep Hen Hep false fuel s p p Hwf Hd Hok).
Qed.

Lemma clean_dir_succeeds_l : forall en ep fuel s p,
  (forall n, en n = false) -> (forall q, ep q = false) -> wf s -> dirs_above s p -> lookup s p = Some EDir -> size_below s p < fuel ->
  snd (clean_dir en ep good false fuel s p) = Ok /\
  lookup (fst (clean_dir en ep good false fuel s p)) p = Some EDir /\
  forall q, under p q -> q <> p -> lookup (fst (clean_dir en ep good false fuel s p)) q = None.
Proof.
  intros en ep fuel s p Hen Hep Hwf Hd Hl Hsz.
  assert (Hok : snd (clean_dir en ep good false fuel s p) = Ok).
  { unfold clean_dir. apply (clean_dir_with_ok en ep _ fuel); auto.
    - apply remove_changes_only.
    - apply remove_wf.
    - apply remove_shrinks.
    - now apply remove_ok.
    - intros n. pose proof (size_child_le s p n). lia. }
  split; [exact Hok|]. now apply clean_dir_complete_l.
Qed.

(* the code before the fix: Stat-based tests follow the link tree/sub/lnk -> outside; the dangling link is "not there" *)
Definition nm (z : Z) : name := [z].
Definition witness : fsys :=
  [ ([], EDir); ([nm 1], EDir); ([nm 1; nm 2], EFile 7);
    ([nm 3], EDir); ([nm 3; nm 4], EDir); ([nm 3; nm 4; nm 5], ELink [nm 1]); ([nm 3; nm 6], ELink [nm 9]) ].
Definition noex_n : name -> bool := fun _ => false.
Definition noex_p : path -> bool := fun _ => false.
(* the facts of the code before the D10 fix: no Lstat test, everything else as now *)
Definition before_fix_rm : rm_facts := mkRm false true TTested true true true true true TTested true true true NName true true true.
(* the facts of the code that does not clean the path first (before the trailing-separator fix) *)
Definition uncleaned_rm : rm_facts := mkRm true true TTested true true true true true TTested true true true NName true false true.
Definition before_fix_gc : gc_facts := mkGc false true true.

Lemma witness_dirs_above : dirs_above witness [nm 3].
Proof.
  intros a b H Hb. destruct a as [|x a']; [reflexivity|].
  exfalso. destruct a'; destruct b; simpl in H; try discriminate; congruence.
Qed.

Lemma without_lstat_outside_deleted :
  snd (remove_top noex_n noex_p before_fix_rm false false 10 witness [nm 3]) = Ok /\
  lookup (fst (remove_top noex_n noex_p before_fix_rm false false 10 witness [nm 3])) [nm 1; nm 2] = None /\
  lookup witness [nm 1; nm 2] = Some (EFile 7) /\
  lookup (fst (remove_top noex_n noex_p before_fix_rm false false 10 witness [nm 3])) [nm 3] = Some EDir.
Proof. vm_compute. repeat split; reflexivity. Qed.

Lemma witness_not_under : ~ under [nm 3] [nm 1; nm 2].
Proof. intros [r H]. simpl in H. inversion H. Qed.

(* a link to an ancestor: the repaired code needs fuel entries+1; the old code walks tree/a/up/a/up/... until the OS
   gives up on the 40th link, and the fuel that suffices for every tree after the fix runs out *)
Definition loop_witness : fsys :=
  [ ([], EDir); ([nm 3], EDir); ([nm 3; nm 4], EDir); ([nm 3; nm 4; nm 5], ELink [nm 3]) ].

Lemma loop_witness_dirs_above : dirs_above loop_witness [nm 3].
Proof.
  intros a b H Hb. destruct a as [|x a']; [reflexivity|].
  exfalso. destruct a'; destruct b; simpl in H; try discriminate; congruence.
Qed.

Lemma loop_witness_facts :
  size_below loop_witness [nm 3] = 3%nat /\
  snd (remove_top noex_n noex_p expected_rm false false 4 loop_witness [nm 3]) = Ok /\
  snd (remove_top noex_n noex_p before_fix_rm false false 4 loop_witness [nm 3]) = Err EFuel /\
  snd (remove_top noex_n noex_p before_fix_rm false false 30 loop_witness [nm 3]) = Err EFuel.
Proof. vm_compute. repeat split; reflexivity. Qed.

(* ---------- RemoveWithPrivileges: the escalation path, ownership included ---------- *)

Definition pass_confined (f : fsys -> path -> fsys * res) : Prop :=
  forall s p, dirs_above s p -> changes_only (under p) s (fst (f s p)).

Lemma remove0_pass_confined : forall c fuel, pass_confined (remove0 good c fuel).
Proof. intros c fuel s p Hd. now apply remove0_changes_only. Qed.

Lemma lookup_filter_below : forall q s x, ~ under q x ->
  lookup (filter (fun ke => negb (is_prefix q (fst ke))) s) x = lookup s x.
Proof.
  intros q s x Hx. induction s as [|[k e] r IH]; simpl; [reflexivity|].
  destruct (is_prefix q k) eqn:Ep; simpl.
  - destruct (path_eqb k x) eqn:Ekx; [|exact IH].
    apply path_eqb_eq in Ekx. subst k. apply is_prefix_spec in Ep. contradiction.
  - destruct (path_eqb k x); [reflexivity | exact IH].
Qed.

Lemma force_remove_pass_confined : pass_confined force_remove.
Proof.
  intros s p Hd. unfold force_remove. rewrite resolve_nofollow_phys by assumption.
  destruct p as [|c r].
  - simpl. intros q Hq. exfalso. apply Hq. now exists q.
  - destruct (lookup s (c :: r)); [|apply changes_only_refl].
    intros q Hq. exact (lookup_filter_below (c :: r) s q Hq).
Qed.

(* Chown of a physical path that is not a link changes the owner of that very entry, or of nothing *)
Lemma chown_phys : forall s o p u, dirs_above s p -> not_link (lookup s p) ->
  forall q, q <> p -> fst (chown s o p u) q = o q.
Proof.
  intros s o p u Hd Hn q Hq. unfold chown. rewrite resolve_follow_phys by assumption.
  destruct (lookup s p) eqn:E.
  - rewrite E. simpl. unfold set_owner. now rewrite path_eqb_neq.
  - destruct p; [rewrite E|]; reflexivity.
Qed.

Lemma privileges_confined_l : forall pass1 pass2 force me s o p,
  pass_confined pass1 -> pass_confined pass2 -> pass_confined force -> dirs_above s p ->
  forall q, ~ under p q ->
    lookup (fst (fst (remove_with_privileges pass1 pass2 force true me s o p))) q = lookup s q /\
    snd (fst (remove_with_privileges pass1 pass2 force true me s o p)) q = o q.
Proof.
  intros pass1 pass2 force me s o p H1 H2 H3 Hd q Hq. unfold remove_with_privileges.
  pose proof (H1 s p Hd) as Hc1. destruct (pass1 s p) as [s1 r1]. simpl in Hc1.
  destruct (final r1); [simpl; split; [now apply Hc1 | reflexivity]|].
  assert (Hd1 : dirs_above s1 p) by (eapply dirs_above_preserved; [intros x Hx; exact Hx | exact Hc1 | exact Hd]).
  assert (Hqp : q <> p) by (intros ->; apply Hq; apply under_refl).
  assert (Ho : forall o1 rc, (if true && is_link (lstat s1 p) then (o, Ok) else chown s1 o p me) = (o1, rc) -> o1 q = o q).
  { intros o1 rc E. rewrite lstat_phys in E by assumption. simpl in E.
    destruct (is_link (lookup s1 p)) eqn:El; [inversion E; reflexivity|].
    assert (Hn : not_link (lookup s1 p)) by (intros t Ht; rewrite Ht in El; discriminate).
    pose proof (chown_phys s1 o p me Hd1 Hn q Hqp) as Hch. rewrite E in Hch. exact Hch. }
  destruct (if true && is_link (lstat s1 p) then (o, Ok) else chown s1 o p me) as [o1 rc] eqn:E.
  specialize (Ho o1 rc eq_refl).
  destruct rc.
  - pose proof (H2 s1 p Hd1) as Hc2. destruct (pass2 s1 p) as [s2 r2]. simpl in Hc2.
    destruct (final r2); [simpl; split; [rewrite Hc2, Hc1; auto | exact Ho]|].
    assert (Hd2 : dirs_above s2 p) by (eapply dirs_above_preserved; [intros x Hx; exact Hx | exact Hc2 | exact Hd1]).
    pose proof (H3 s2 p Hd2) as Hc3. destruct (force s2 p) as [s3 r3]. simpl in *.
    split; [rewrite Hc3, Hc2, Hc1; auto | exact Ho].
  - pose proof (H3 s1 p Hd1) as Hc3. destruct (force s1 p) as [s3 r3]. simpl in *.
    split; [rewrite Hc3, Hc1; auto | exact Ho].
Qed.

(* before the fix: the root handed in is a link to an outside directory, the first attempt fails (say EPERM, here any
   non-final error), and Chown re-owns the outside directory *)
Definition priv_witness : fsys := [ ([], EDir); ([nm 1], EDir); ([nm 3], EDir); ([nm 3; nm 5], ELink [nm 1]) ].
Definition failing_pass : fsys -> path -> fsys * res := fun s _ => (s, Err ENotEmpty).

Lemma failing_pass_confined : pass_confined failing_pass.
Proof. intros s p _. apply changes_only_refl. Qed.

Lemma priv_witness_dirs_above : dirs_above priv_witness [nm 3; nm 5].
Proof.
  intros a b H Hb. destruct a as [|x [|y a']]; [reflexivity | |].
  - simpl in H. inversion H; subst. reflexivity.
  - exfalso. destruct a'; destruct b; simpl in H; try discriminate; congruence.
Qed.

Lemma priv_witness_facts :
  snd (fst (remove_with_privileges failing_pass failing_pass force_remove false 0%Z priv_witness (fun _ => 4242%Z) [nm 3; nm 5])) [nm 1] = 0%Z /\
  snd (fst (remove_with_privileges failing_pass failing_pass force_remove true 0%Z priv_witness (fun _ => 4242%Z) [nm 3; nm 5])) [nm 1] = 4242%Z /\
  lookup (fst (fst (remove_with_privileges failing_pass failing_pass force_remove true 0%Z priv_witness (fun _ => 4242%Z) [nm 3; nm 5]))) [nm 3; nm 5] = None /\
  lookup (fst (fst (remove_with_privileges failing_pass failing_pass force_remove true 0%Z priv_witness (fun _ => 4242%Z) [nm 3; nm 5]))) [nm 1] = Some EDir.
Proof. vm_compute. repeat split; reflexivity. Qed.

(* ---------- from the facts generated from the source to the theorems ----------
   Every theorem of Props.v is stated for the model instantiated with the GENERATED records; it follows from the lemma
   about the expected facts as soon as the generated record passes the decidable condition (by computation). *)
Lemma with_rm_ok : forall (P : rm_facts -> Prop) k, rm_ok k = true -> P expected_rm -> P k.
Proof. intros P k H HP. now rewrite (rm_ok_eq k H). Qed.

Lemma with_rm_gc_ok : forall (P : rm_facts -> gc_facts -> Prop) k g, rm_ok k = true -> gc_ok g = true -> P expected_rm expected_gc -> P k g.
Proof. intros P k g H1 H2 HP. now rewrite (rm_ok_eq k H1), (gc_ok_eq g H2). Qed.

Lemma with_priv_ok : forall (P : priv_facts -> Prop) k, priv_ok k = true -> P expected_priv -> P k.
Proof. intros P k H HP. now rewrite (priv_ok_eq k H). Qed.

Lemma library_force_confined : forall pk, pass_confined (library_force pk).
Proof.
  intros pk. unfold library_force. destruct (pv_force_passes_path pk); [exact force_remove_pass_confined|].
  intros s p _. apply changes_only_refl.
Qed.

(* a link to an outside directory named with a trailing separator, by code that does not clean the path first *)
Definition trailing_witness : fsys := [ ([], EDir); ([nm 1], EDir); ([nm 1; nm 2], EFile 7); ([nm 3], EDir); ([nm 3; nm 5], ELink [nm 1]) ].

Lemma trailing_witness_dirs_above : dirs_above trailing_witness [nm 3; nm 5].
Proof.
  intros a b H Hb. destruct a as [|x [|y a']]; [reflexivity | |].
  - simpl in H. inversion H; subst. reflexivity.
  - exfalso. destruct a'; destruct b; simpl in H; try discriminate; congruence.
Qed.

Lemma trailing_witness_facts :
  lookup (fst (remove_top noex_n noex_p uncleaned_rm false true 10 trailing_witness [nm 3; nm 5])) [nm 1; nm 2] = None /\
  snd (remove_top noex_n noex_p uncleaned_rm false true 10 trailing_witness [nm 3; nm 5]) = Err EInvalid /\
  lookup (fst (remove_top noex_n noex_p uncleaned_rm false true 10 trailing_witness [nm 3; nm 5])) [nm 3; nm 5] = Some (ELink [nm 1]) /\
  lookup (fst (remove_top noex_n noex_p expected_rm false true 10 trailing_witness [nm 3; nm 5])) [nm 1; nm 2] = Some (EFile 7) /\
  lookup (fst (remove_top noex_n noex_p expected_rm false true 10 trailing_witness [nm 3; nm 5])) [nm 3; nm 5] = None.
Proof. vm_compute. repeat split; reflexivity. Qed.
