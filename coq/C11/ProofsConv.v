(* C11, converters — lemmas about Conv.v over the generated rule tables GenConv.v. *)
From Coq Require Import List ZArith Bool Lia Arith String.
Import ListNotations.
From GU Require Import C11.Gen C11.GenConv C11.Bytes C11.Model C11.Proofs C11.Conv.
Local Open Scope Z_scope.

(* ================= the tables, by computation ================= *)

Definition all_cases : list ccase := platform_cases ++ fs_cases ++ io_cases ++ proc_cases.

Lemma tables_ok_l : tables_ok = true.
Proof. vm_compute. reflexivity. Qed.

Lemma all_strings_eq : all_strings = case_strings all_cases.
Proof. vm_compute. reflexivity. Qed.

Lemma all_targets_eq : all_targets_b = case_targets all_cases ++ map BK (seq 0 nkinds) ++ [BCanceled; BDeadline].
Proof. vm_compute. reflexivity. Qed.

Definition is_tv (x : berr) : bool :=
  match x with BK _ | BCanceled | BDeadline | BErrno _ | BF _ => true | _ => false end.

Lemma targets_tv : forall X, In X all_targets_b -> is_tv X = true.
Proof.
  assert (H : forallb is_tv all_targets_b = true) by (vm_compute; reflexivity).
  intros X I. rewrite forallb_forall in H. auto.
Qed.

Definition helpers_known (cc : ccase) : bool :=
  forallb (fun a => match a with PHelper h => existsb (String.eqb h) (all_helpers ++ strong_helpers) | _ => true end) (fst cc).

Lemma helpers_in : forall cc a h, In cc all_cases -> In a (fst cc) -> a = PHelper h -> In h (all_helpers ++ strong_helpers).
Proof.
  assert (H : forallb helpers_known all_cases = true) by (vm_compute; reflexivity).
  intros cc a h I Ia ->. rewrite forallb_forall in H. specialize (H cc I). unfold helpers_known in H.
  rewrite forallb_forall in H. specialize (H _ Ia). change (existsb (String.eqb h) (all_helpers ++ strong_helpers) = true) in H. apply existsb_exists in H.
  destruct H as (x & Ix & E). apply String.eqb_eq in E. subst. exact Ix.
Qed.

Lemma strings_in cc a s : In cc all_cases -> In a (fst cc) -> In s (atom_strings a) -> In s all_strings.
Proof.
  intros. rewrite all_strings_eq. unfold case_strings. apply in_flat_map. exists cc. split; auto.
  apply in_flat_map. exists a. auto.
Qed.

Lemma targets_in cc a X : In cc all_cases -> In a (fst cc) -> In X (atom_targets a) -> In X all_targets_b.
Proof.
  intros. rewrite all_targets_eq. apply in_or_app. left. unfold case_targets. apply in_flat_map. exists cc. split; auto.
  apply in_flat_map. exists a. auto.
Qed.

Lemma kind_in_targets k : (k < nkinds)%nat -> In (BK k) all_targets_b.
Proof.
  intro H. rewrite all_targets_eq. apply in_or_app. right. apply in_or_app. left. apply in_map. apply in_seq. lia.
Qed.

Lemma ctx_in_targets : In BCanceled all_targets_b /\ In BDeadline all_targets_b /\
  In (BK ErrTimeout) all_targets_b /\ In (BK ErrCancelled) all_targets_b.
Proof.
  destruct special_kinds as (_ & T & C & _).
  repeat split; try (apply kind_in_targets; assumption);
    rewrite all_targets_eq; apply in_or_app; right; apply in_or_app; right; simpl; auto.
Qed.

(* ================= strings: a neutral prefix neither creates nor hides an occurrence ================= *)

Lemma has_prefix_app_cases s : forall u t, has_prefix s (u ++ t) = true -> has_prefix s u = true \/ has_prefix u s = true.
Proof.
  induction s as [|a s IH]; intros u t H; [left; destruct u; reflexivity|].
  destruct u as [|b u]; [right; reflexivity|]. simpl in H. apply andb_true_iff in H. destruct H as [E H].
  destruct (IH _ _ H) as [L|R]; [left | right]; simpl.
  - rewrite E, L. reflexivity.
  - rewrite Z.eqb_sym, E, R. reflexivity.
Qed.

Lemma contains_neutral p s t : neutral_for p s = true -> contains (p ++ t) s = contains t s.
Proof.
  induction p as [|c p IH]; intro N; [reflexivity|].
  simpl in N. apply andb_true_iff in N. destruct N as [N1 N2]. apply andb_true_iff in N1. destruct N1 as [A B].
  apply negb_true_iff in A. apply negb_true_iff in B.
  change ((c :: p) ++ t) with (c :: (p ++ t)). simpl contains. rewrite (IH N2).
  destruct (has_prefix s (c :: p ++ t)) eqn:H; [|reflexivity].
  destruct (has_prefix_app_cases s (c :: p) t H); congruence.
Qed.

Lemma has_prefix_refl s : has_prefix s s = true.
Proof. induction s; simpl; auto. rewrite Z.eqb_refl. auto. Qed.

Lemma contains_refl s : contains s s = true.
Proof. destruct s; simpl; auto. rewrite Z.eqb_refl, has_prefix_refl. reflexivity. Qed.

Lemma b_corr_contains e s : b_corr e s = contains (lower (b_text e)) (lower s).
Proof.
  unfold b_corr. destruct (beq (lower (b_text e)) (lower s)) eqn:E; [|reflexivity].
  apply beq_eq in E. rewrite E, contains_refl. reflexivity.
Qed.

Lemma lower_app a b : lower (a ++ b) = lower a ++ lower b.
Proof. apply map_app. Qed.

Lemma neutral_corr p s tx m e e' : neutral p = true -> In s all_strings -> b_text e' = tx ->
  b_corr (BWrap (p ++ tx) e) s = b_corr e' s /\ (m = p ++ tx -> True).
Proof.
  intros N I T. split; auto. rewrite !b_corr_contains. simpl b_text. rewrite lower_app, T.
  unfold neutral in N. rewrite forallb_forall in N. apply contains_neutral. auto.
Qed.

(* ================= similarity: what the predicates of the tables can see ================= *)

Definition sim (x c : berr) : Prop :=
  (forall X, In X all_targets_b -> b_is x X = b_is c X) /\
  (forall X, In X all_targets_b -> b_any x X = b_any c X) /\
  (forall s, In s all_strings -> b_corr x s = b_corr c s) /\
  (forall h, In h all_helpers -> helper_eval h x = true -> helper_eval h c = true) /\
  (forall h, In h strong_helpers -> helper_eval h x = helper_eval h c).

Lemma sim_refl c : sim c c.
Proof. repeat split; auto. Qed.

Definition sym_b (c : berr) : bool := forallb (fun X => implb (b_is X c) (b_is c X)) all_targets_b.

Lemma tv_not_wrapper X : is_tv X = true -> forall y, is_tv y = false -> b_is X y = false.
Proof.
  intros T y Y. destruct X as [k| | |n|i|m|tm p x|m x|a b]; try discriminate; destruct y; try discriminate; simpl; auto;
    try (match goal with |- context [f_kind ?z] => destruct (f_kind z) end; reflexivity).
Qed.

Lemma frame_text f x : b_text (apply_frame f x) = frame_prefix f ++ b_text x.
Proof. destruct f; simpl; rewrite <- ?app_assoc; reflexivity. Qed.

Lemma frame_is f x X : is_tv X = true -> b_is (apply_frame f x) X = b_is x X.
Proof. intro T. destruct f; destruct X; try discriminate; reflexivity. Qed.

Lemma frame_not_tv f x : is_tv (apply_frame f x) = false.
Proof. destruct f; reflexivity. Qed.

Lemma timeout_underlying x : timeout_iface x = true -> timeout_iface (os_underlying x) = true.
Proof. destruct x; simpl; auto. intro H. apply andb_true_iff in H. tauto. Qed.

Lemma frame_helper f x h : In h all_helpers -> helper_eval h (apply_frame f x) = true -> helper_eval h x = true.
Proof.
  intros I. simpl in I.
  destruct I as [<-|[<-|[<-|[<-|[]]]]]; destruct f; simpl; unfold helper_eval; simpl;
    try discriminate; try (unfold os_is_timeout; simpl; apply timeout_underlying);
    unfold os_uis; simpl; destruct x; simpl; auto; try discriminate.
Qed.

Lemma timeout_any x : timeout_iface x = true -> any_timeout x = true.
Proof. destruct x; simpl; intro H; try discriminate; try (rewrite H; reflexivity); auto. Qed.

Lemma frame_strong f x h : In h strong_helpers -> helper_eval h (apply_frame f x) = helper_eval h x.
Proof.
  intros [<-|[]]. unfold helper_eval. simpl String.eqb. cbv iota. destruct f; simpl; auto.
  destruct tm; simpl; auto. destruct (timeout_iface x) eqn:T; simpl; auto. rewrite (timeout_any x T). reflexivity.
Qed.

Lemma frame_sim f x c : sym_b c = true -> frame_ok f = true -> sim x c -> sim (apply_frame f x) c.
Proof.
  intros Sy F (S1 & S2 & S3 & S4 & S5). unfold sym_b in Sy. rewrite forallb_forall in Sy. repeat split.
  - intros X I. rewrite frame_is by (apply targets_tv; auto). auto.
  - intros X I. pose proof (targets_tv X I) as T. unfold b_any at 1.
    rewrite (tv_not_wrapper X T _ (frame_not_tv f x)), frame_is by auto. simpl. rewrite (S1 X I).
    unfold b_any. specialize (Sy X I). destruct (b_is X c); simpl in *; auto.
  - intros s I. rewrite <- (S3 s I). rewrite !b_corr_contains, frame_text, lower_app.
    unfold frame_ok, neutral in F. rewrite forallb_forall in F. apply contains_neutral. auto.
  - intros h I H. apply (S4 h I). eapply frame_helper; eauto.
  - intros h I. rewrite frame_strong by auto. auto.
Qed.

Lemma plug_sim w c : sym_b c = true -> forallb frame_ok w = true -> sim (plug w c) c.
Proof.
  intros Sy. induction w as [|f w IH]; simpl; intro F; [apply sim_refl|].
  apply andb_true_iff in F. destruct F. apply frame_sim; auto.
Qed.

Lemma sim_kinds a b : sim a b -> b_kinds a = b_kinds b.
Proof.
  intros (S1 & _). unfold b_kinds. apply filter_ext_in. intros k I. apply S1. apply kind_in_targets.
  apply in_seq in I. lia.
Qed.

(* a library wrapper around a sentinel: only its text depends on what was wrapped *)
Lemma b_is_wrap_text X : forall m m' e, b_is X (BWrap m e) = b_is X (BWrap m' e).
Proof.
  induction X as [k| | |n|i|t|tm p Y IHY|t Y IHY|Y1 IHY1 Y2 IHY2]; intros; simpl; auto.
  rewrite (IHY1 m m' e), (IHY2 m m' e). reflexivity.
Qed.

Lemma helper_wrap_false h m k : helper_eval h (BWrap m (BK k)) = false.
Proof.
  unfold helper_eval. repeat match goal with |- context [String.eqb ?a ?b] => destruct (String.eqb a b) end; reflexivity.
Qed.

(* the text a fired case puts in front of the error's text: for every string of the tables it is neutral, or it
   contains the string itself (then the string is found whatever follows) *)
Definition okprefix (p : bytes) : bool :=
  forallb (fun s => neutral_for (lower p) (lower s) || contains (lower p) (lower s)) all_strings.

Lemma has_prefix_app_l s : forall p t, has_prefix s p = true -> has_prefix s (p ++ t) = true.
Proof.
  induction s as [|a s IH]; intros p t H; [reflexivity|]. destruct p as [|b p]; [discriminate|].
  simpl in *. apply andb_true_iff in H. destruct H as [E H]. rewrite E, (IH _ _ H). reflexivity.
Qed.

Lemma contains_app_l p s t : contains p s = true -> contains (p ++ t) s = true.
Proof.
  induction p as [|c p IH]; intro H.
  - simpl in H. rewrite orb_false_r in H. destruct s; [|discriminate]. destruct t; reflexivity.
  - change ((c :: p) ++ t) with (c :: (p ++ t)). simpl in *. apply orb_true_iff in H. destruct H as [H|H].
    + change (c :: p ++ t) with ((c :: p) ++ t). rewrite (has_prefix_app_l _ _ _ H). reflexivity.
    + rewrite (IH H), orb_true_r. reflexivity.
Qed.

Lemma sim_wrapP x c p k : okprefix p = true -> sim x c ->
  sim (BWrap (p ++ b_text x) (BK k)) (BWrap (p ++ b_text c) (BK k)).
Proof.
  intros N (S1 & S2 & S3 & S4 & S5). repeat split.
  - intros X I. unfold b_any. rewrite (b_is_wrap_text X (p ++ b_text x) (p ++ b_text c)). reflexivity.
  - intros s I. rewrite !b_corr_contains. simpl b_text. rewrite !lower_app.
    unfold okprefix in N. rewrite forallb_forall in N. specialize (N s I). apply orb_true_iff in N. destruct N as [N|N].
    + rewrite !contains_neutral by auto. rewrite <- !b_corr_contains. auto.
    + rewrite !contains_app_l by auto. reflexivity.
  - intros h I H. rewrite helper_wrap_false in H. discriminate.
Qed.

(* ================= one switch ================= *)

(* the atoms whose value does not depend on the wrapping: everything but the os.IsXxx helpers *)
Definition nonhelper_atom (a : catom) : bool :=
  match a with PHelper h => existsb (String.eqb h) strong_helpers | _ => true end.
Definition fires_nh (e : berr) (cc : ccase) : bool := existsb (eval_atom e) (filter nonhelper_atom (fst cc)).

Definition noctx (c : berr) : bool :=
  negb (b_any c BCanceled) && negb (b_any c BDeadline) && negb (b_anyl c b_ctx_kinds).

Definition res_prefix (r : cres) : bytes :=
  match r with
  | RWrap k msg => ktext k ++ [58; 32] ++ msg ++ [58; 32]
  | RFmt k => ktext k ++ [58; 32]
  | _ => []
  end.

(* the certificate of one switch for a concrete error c: every case that fires on c also fires without its os.IsXxx
   atoms; the text the fired case puts in front is neutral; WrapError sees no context kind *)
Fixpoint stage_cert (cs : list ccase) (c : berr) : bool :=
  match cs with
  | [] => true
  | cc :: rest =>
      implb (fires c cc) (fires_nh c cc) &&
      (if fires c cc
       then match snd cc with
            | RWrap _ _ => okprefix (res_prefix (snd cc)) && noctx c
            | RFmt _ => okprefix (res_prefix (snd cc))
            | _ => true
            end
       else stage_cert rest c)
  end.

Definition res_sim (r1 r2 : cresult) : Prop :=
  match r1, r2 with
  | CNil, CNil => True
  | CErr a, CErr b => sim a b
  | _, _ => False
  end.

Lemma existsb_ext_in {A} (p q : A -> bool) l : (forall x, In x l -> p x = q x) -> existsb p l = existsb q l.
Proof. induction l; simpl; intro H; auto. rewrite H, IHl; auto. Qed.

Lemma eval_nonhelper x c cc a : In cc all_cases -> In a (fst cc) -> nonhelper_atom a = true -> sim x c ->
  eval_atom x a = eval_atom c a.
Proof.
  intros Ic Ia NH (S1 & S2 & S3 & S4 & S5). destruct a as [|h| | |]; simpl; auto.
  - apply S5. change (existsb (String.eqb h) strong_helpers = true) in NH. apply existsb_exists in NH. destruct NH as (y & Iy & E). apply String.eqb_eq in E. subst. auto.
  - unfold b_anyl. apply existsb_ext_in. intros X IX. apply S2. eapply targets_in; eauto.
  - apply existsb_ext_in. intros s Is. apply S3. eapply strings_in; eauto.
Qed.

Lemma eval_helper x c cc a : In cc all_cases -> In a (fst cc) -> nonhelper_atom a = false -> sim x c ->
  eval_atom x a = true -> eval_atom c a = true.
Proof.
  intros Ic Ia NH (S1 & S2 & S3 & S4 & S5). destruct a as [|h| | |]; try discriminate.
  cbn [eval_atom]. apply S4. pose proof (helpers_in cc (PHelper h) h Ic Ia eq_refl) as I.
  apply in_app_or in I. destruct I as [I|I]; auto.
  exfalso. change (existsb (String.eqb h) strong_helpers = false) in NH. assert (existsb (String.eqb h) strong_helpers = true); [|congruence].
  apply existsb_exists. exists h. split; auto. apply String.eqb_refl.
Qed.

Lemma fires_sim x c cc : In cc all_cases -> sim x c -> implb (fires c cc) (fires_nh c cc) = true ->
  fires x cc = fires c cc.
Proof.
  intros Ic S Cov. apply eq_true_iff_eq. unfold fires, fires_nh in *. split; intro H.
  - apply existsb_exists in H. destruct H as (a & Ia & Ea). apply existsb_exists. exists a. split; auto.
    destruct (nonhelper_atom a) eqn:NH.
    + rewrite <- (eval_nonhelper x c cc a); auto.
    + eapply eval_helper; eauto.
  - rewrite H in Cov. simpl in Cov. apply existsb_exists in Cov. destruct Cov as (a & Ia & Ea).
    apply filter_In in Ia. destruct Ia as [Ia NH]. apply existsb_exists. exists a. split; auto.
    rewrite (eval_nonhelper x c cc a); auto.
Qed.

Lemma noctx_sim x c : sim x c -> noctx c = true -> noctx x = true.
Proof.
  intros (S1 & S2 & _) H. destruct ctx_in_targets as (I1 & I2 & I3 & I4). unfold noctx, b_anyl, b_ctx_kinds in *.
  simpl in *. rewrite (S2 _ I1), (S2 _ I2), (S2 _ I3), (S2 _ I4). exact H.
Qed.

Lemma convert_sent_b k : b_convert_ctx (BK k) = BK k.
Proof. reflexivity. Qed.

Lemma wrap_shape k x msg : noctx x = true ->
  b_wrap_error (BK k) x msg = BWrap ((ktext k ++ [58; 32] ++ msg ++ [58; 32]) ++ b_text x) (BK k).
Proof.
  unfold noctx. intro H. apply andb_true_iff in H. destruct H as [H H3]. apply andb_true_iff in H. destruct H as [H1 H2].
  apply negb_true_iff in H1. apply negb_true_iff in H2. apply negb_true_iff in H3.
  unfold b_wrap_error. unfold b_convert_ctx at 1. rewrite H1, H2, H3.
  unfold b_errorf. rewrite convert_sent_b, errorf_wraps, errorf_text. simpl b_text.
  f_equal. cbn [fmt_subst Z.eqb Pos.eqb orb]. rewrite !app_nil_r. unfold sep, type_reason_separator.
  rewrite <- !app_assoc. reflexivity.
Qed.

Lemma stage_sim cs x c : (forall cc, In cc cs -> In cc all_cases) -> sim x c -> stage_cert cs c = true ->
  res_sim (run_cases cs x) (run_cases cs c).
Proof.
  induction cs as [|cc rest IH]; intros Sub S Ce; [exact S|].
  simpl in Ce. apply andb_true_iff in Ce. destruct Ce as [Cov Ce].
  simpl. rewrite (fires_sim x c cc) by (auto; apply Sub; left; reflexivity).
  destruct (fires c cc).
  - destruct (snd cc) as [| |n|k msg|k]; simpl; auto.
    + apply sim_refl.
    + apply andb_true_iff in Ce. destruct Ce as [N NC].
      rewrite !wrap_shape by (auto; eapply noctx_sim; eauto). apply sim_wrapP; auto.
    + unfold b_fmt. rewrite !(app_assoc (ktext k)). apply (sim_wrapP x c (ktext k ++ [58; 32])); auto.
  - apply IH; auto. intros; apply Sub; right; auto.
Qed.

(* ================= a whole converter ================= *)

Definition step_cert (name : string) (c : berr) : bool :=
  if String.eqb name "commonerrors.ConvertContextError" then negb (b_any c BCanceled) && negb (b_any c BDeadline)
  else if String.eqb name "platform.ConvertError" then stage_cert platform_cases c
  else false.

Fixpoint pre_cert (pre : list string) (r : cresult) : bool :=
  match pre with
  | [] => true
  | n :: rest => match r with CNil => true | CErr c => step_cert n c && pre_cert rest (pre_step n c) end
  end.

Lemma platform_sub : forall cc, In cc platform_cases -> In cc all_cases.
Proof. intros. unfold all_cases. apply in_or_app. auto. Qed.
Lemma fs_sub : forall cc, In cc fs_cases -> In cc all_cases.
Proof. intros. unfold all_cases. apply in_or_app. right. apply in_or_app. auto. Qed.
Lemma io_sub : forall cc, In cc io_cases -> In cc all_cases.
Proof. intros. unfold all_cases. apply in_or_app. right. apply in_or_app. right. apply in_or_app. auto. Qed.
Lemma proc_sub : forall cc, In cc proc_cases -> In cc all_cases.
Proof. intros. unfold all_cases. apply in_or_app. right. apply in_or_app. right. apply in_or_app. auto. Qed.

Lemma step_sim n x c : sim x c -> step_cert n c = true -> res_sim (pre_step n x) (pre_step n c).
Proof.
  intros S Ce. unfold step_cert, pre_step in *.
  destruct (String.eqb n "commonerrors.ConvertContextError").
  - apply andb_true_iff in Ce. destruct Ce as [H1 H2]. apply negb_true_iff in H1. apply negb_true_iff in H2.
    destruct S as (S1 & S2 & S3 & S4 & S5). destruct ctx_in_targets as (I1 & I2 & _).
    simpl. unfold b_convert_ctx. rewrite (S2 _ I1), (S2 _ I2), H1, H2. repeat split; auto.
  - destruct (String.eqb n "platform.ConvertError"); [|discriminate].
    apply stage_sim; auto. apply platform_sub.
Qed.

Lemma pre_sim pre : forall r1 r2, res_sim r1 r2 -> pre_cert pre r2 = true ->
  res_sim (fold_left (fun r name => then_cases r (pre_step name)) pre r1)
          (fold_left (fun r name => then_cases r (pre_step name)) pre r2).
Proof.
  induction pre as [|n pre IH]; intros r1 r2 S Ce; [exact S|].
  simpl. destruct r1 as [|x], r2 as [|c]; simpl in S; try contradiction.
  - apply IH; simpl; auto. destruct pre; reflexivity.
  - simpl in Ce. apply andb_true_iff in Ce. destruct Ce as [C1 C2]. apply IH; auto. simpl. apply step_sim; auto.
Qed.

Definition conv_cert (pre : list string) (cs : list ccase) (c : berr) : bool :=
  pre_cert pre (CErr c) && match run_pre pre c with CNil => true | CErr c' => stage_cert cs c' end.

Lemma conv_sim pre cs x c : (forall cc, In cc cs -> In cc all_cases) -> sim x c -> conv_cert pre cs c = true ->
  res_sim (run_conv pre cs x) (run_conv pre cs c).
Proof.
  intros Sub S Ce. unfold conv_cert in Ce. apply andb_true_iff in Ce. destruct Ce as [C1 C2].
  unfold run_conv. pose proof (pre_sim pre (CErr x) (CErr c) S C1) as P. unfold run_pre in *.
  destruct (fold_left _ pre (CErr x)) as [|x'], (fold_left _ pre (CErr c)) as [|c']; simpl in P; try contradiction; simpl; auto.
  apply stage_sim; auto.
Qed.

Lemma res_sim_kinds r1 r2 : res_sim r1 r2 -> res_kinds r1 = res_kinds r2.
Proof. destruct r1, r2; simpl; try contradiction; auto. intro S. f_equal. apply sim_kinds; auto. Qed.

(* ================= the domain ================= *)

Definition at_most_one (o : option (list nat)) : bool :=
  match o with Some (_ :: _ :: _) => false | _ => true end.

Definition opt_nats_eq (a b : option (list nat)) : bool :=
  match a, b with Some x, Some y => nats_eq x y | None, None => true | _, _ => false end.

(* everything the theorems need of one base condition, for one converter: wrappers are invisible (sym, certificate),
   the outcome has at most one kind, and the converter applied to its own result (certificate again) keeps the kinds *)
Definition cond_cert (pre : list string) (cs : list ccase) (c : berr) : bool :=
  sym_b c && conv_cert pre cs c && at_most_one (res_kinds (run_conv pre cs c)) &&
  match run_conv pre cs c with
  | CNil => true
  | CErr rc => conv_cert pre cs rc && opt_nats_eq (res_kinds (run_conv pre cs rc)) (Some (b_kinds rc))
  end.

Lemma fs_domain_cert : forallb (cond_cert fs_pre fs_cases) base_conds = true.
Proof. vm_compute. reflexivity. Qed.
Lemma io_domain_cert : forallb (cond_cert io_pre io_cases) base_conds = true.
Proof. vm_compute. reflexivity. Qed.
Lemma proc_domain_cert : forallb (cond_cert proc_pre proc_cases) base_conds = true.
Proof. vm_compute. reflexivity. Qed.

Lemma nats_eq_eq a : forall b, nats_eq a b = true -> a = b.
Proof.
  induction a; destruct b; simpl; try discriminate; auto. intro H. apply andb_true_iff in H. destruct H as [E H].
  apply Nat.eqb_eq in E. f_equal; auto.
Qed.

(* wrapping independence + one kind + idempotence, from the certificate *)
Lemma cond_cert_sound pre cs c w : (forall cc, In cc cs -> In cc all_cases) ->
  cond_cert pre cs c = true -> forallb frame_ok w = true ->
  res_kinds (run_conv pre cs (plug w c)) = res_kinds (run_conv pre cs c) /\
  at_most_one (res_kinds (run_conv pre cs c)) = true /\
  match run_conv pre cs (plug w c) with
  | CNil => True
  | CErr r => res_kinds (run_conv pre cs r) = Some (b_kinds r)
  end.
Proof.
  intros Sub Ce F. unfold cond_cert in Ce.
  apply andb_true_iff in Ce. destruct Ce as [Ce C4]. apply andb_true_iff in Ce. destruct Ce as [Ce C3].
  apply andb_true_iff in Ce. destruct Ce as [C1 C2].
  pose proof (conv_sim pre cs (plug w c) c Sub (plug_sim w c C1 F) C2) as S.
  split; [apply res_sim_kinds; auto|]. split; auto.
  destruct (run_conv pre cs (plug w c)) as [|r], (run_conv pre cs c) as [|rc]; simpl in S; try contradiction; auto.
  apply andb_true_iff in C4. destruct C4 as [C5 C6].
  pose proof (conv_sim pre cs r rc Sub S C5) as S2. rewrite (res_sim_kinds _ _ S2).
  destruct (res_kinds (run_conv pre cs rc)) as [ks|] eqn:K; simpl in C6; try discriminate.
  apply nats_eq_eq in C6. rewrite C6. f_equal. symmetry. apply sim_kinds; auto.
Qed.

Lemma converters_wrapping_l :
  (forall c w, In c base_conds -> forallb frame_ok w = true ->
     res_kinds (conv_fs (plug w c)) = res_kinds (conv_fs c) /\ at_most_one (res_kinds (conv_fs c)) = true /\
     match conv_fs (plug w c) with CNil => True | CErr r => res_kinds (conv_fs r) = Some (b_kinds r) end) /\
  (forall c w, In c base_conds -> forallb frame_ok w = true ->
     res_kinds (conv_io (plug w c)) = res_kinds (conv_io c) /\ at_most_one (res_kinds (conv_io c)) = true /\
     match conv_io (plug w c) with CNil => True | CErr r => res_kinds (conv_io r) = Some (b_kinds r) end) /\
  (forall c w, In c base_conds -> forallb frame_ok w = true ->
     res_kinds (conv_proc (plug w c)) = res_kinds (conv_proc c) /\ at_most_one (res_kinds (conv_proc c)) = true /\
     match conv_proc (plug w c) with CNil => True | CErr r => res_kinds (conv_proc r) = Some (b_kinds r) end).
Proof.
  pose proof fs_domain_cert as A. pose proof io_domain_cert as B. pose proof proc_domain_cert as C.
  rewrite forallb_forall in A, B, C.
  split; [|split]; intros c w I F.
  - apply cond_cert_sound; auto. apply fs_sub.
  - apply cond_cert_sound; auto. apply io_sub.
  - apply cond_cert_sound; auto. apply proc_sub.
Qed.

(* before fixes/C11-timeout-through-wrapping.patch (the table without isTimeoutError) the statement was false:
   a %w wrapper hid ETIMEDOUT from the filesystem converter *)
Lemma fs_errno_timeout_before_fix_l :
  exists n w, errno_timeout n = true /\ forallb frame_ok w = true /\
    res_kinds (run_conv fs_pre fs_cases_before_fix (BErrno n)) = Some [ErrTimeout] /\
    res_kinds (run_conv fs_pre fs_cases_before_fix (plug w (BErrno n))) = Some [] /\
    res_kinds (conv_fs (plug w (BErrno n))) = Some [ErrTimeout].
Proof.
  exists 110, [FWrap (s2b "while testing")]. vm_compute. auto 10.
Qed.

(* ================= context errors ================= *)

Lemma run_cases_shape cs e : run_cases cs e = CErr e \/ exists cc, In cc cs /\ run_cases cs e = apply_res (snd cc) e.
Proof.
  induction cs as [|cc cs IH]; simpl; auto. destruct (fires e cc).
  - right. exists cc. auto.
  - destruct IH as [H|(c' & I & H)]; auto. right. exists c'. auto.
Qed.

Definition platform_res_ok (cc : ccase) : bool :=
  match snd cc with RSame => true | RWrap _ _ => true | _ => false end.

Lemma platform_results : forall cc, In cc platform_cases -> platform_res_ok cc = true.
Proof.
  assert (H : forallb platform_res_ok platform_cases = true) by (vm_compute; reflexivity).
  rewrite forallb_forall in H. exact H.
Qed.

Lemma any_sent_ctx_b : b_anyl (BK ErrCancelled) b_ctx_kinds = true /\ b_anyl (BK ErrTimeout) b_ctx_kinds = true.
Proof. vm_compute. auto. Qed.

Lemma wrap_ctx t e msg k : b_convert_ctx e = BK k -> b_anyl (BK k) b_ctx_kinds = true ->
  exists m, b_wrap_error t e msg = BWrap m (BK k).
Proof.
  intros C A. unfold b_wrap_error. rewrite C, A. unfold b_errorf. rewrite convert_sent_b, errorf_wraps. eauto.
Qed.

Lemma fs_ctx_kind_pass m :
  run_cases fs_cases (BWrap m (BK ErrCancelled)) = CErr (BWrap m (BK ErrCancelled)) /\
  run_cases fs_cases (BWrap m (BK ErrTimeout)) = CErr (BWrap m (BK ErrTimeout)) /\
  run_cases fs_cases (BK ErrCancelled) = CErr (BK ErrCancelled) /\
  run_cases fs_cases (BK ErrTimeout) = CErr (BK ErrTimeout).
Proof. vm_compute. auto. Qed.

Lemma ioproc_ctx_kind_pass :
  run_cases io_cases (BK ErrCancelled) = CErr (BK ErrCancelled) /\ run_cases io_cases (BK ErrTimeout) = CErr (BK ErrTimeout) /\
  run_cases proc_cases (BK ErrCancelled) = CErr (BK ErrCancelled) /\ run_cases proc_cases (BK ErrTimeout) = CErr (BK ErrTimeout).
Proof. vm_compute. auto. Qed.

Lemma pres : fs_pre = ["platform.ConvertError"; "commonerrors.ConvertContextError"]%string /\
  io_pre = ["commonerrors.ConvertContextError"]%string /\ proc_pre = ["commonerrors.ConvertContextError"]%string.
Proof. vm_compute. auto. Qed.

Lemma filter_eqb_seq k n : (k < n)%nat -> filter (fun k' => Nat.eqb k k') (seq 0 n) = [k].
Proof.
  intro Hk.
  assert (Sq : seq 0 n = seq 0 k ++ k :: seq (S k) (n - S k)).
  { replace n with (k + S (n - S k))%nat at 1 by lia. rewrite seq_app. reflexivity. }
  rewrite Sq. rewrite filter_app. simpl. rewrite Nat.eqb_refl.
  assert (Z1 : forall a l, (forall x, In x l -> x <> a) -> filter (fun k' => Nat.eqb a k') l = []).
  { intros a l. induction l as [|x l IH]; simpl; auto. intro H.
    destruct (Nat.eqb a x) eqn:Q; [apply Nat.eqb_eq in Q; exfalso; apply (H x); auto|]. apply IH. intros; apply H; auto. }
  rewrite !Z1; auto; intros x I; apply in_seq in I; lia.
Qed.

Lemma b_is_wrap_sent m k k' : b_is (BWrap m (BK k)) (BK k') = Nat.eqb k k'.
Proof. cbn [b_is b_same]. rewrite !orb_false_r. reflexivity. Qed.

Lemma b_is_sent k k' : b_is (BK k) (BK k') = Nat.eqb k k'.
Proof. cbn [b_is b_same]. rewrite !orb_false_r. reflexivity. Qed.

Lemma kinds_wrap_sent m k : (k < nkinds)%nat -> b_kinds (BWrap m (BK k)) = [k] /\ b_kinds (BK k) = [k].
Proof.
  intro Hk. unfold b_kinds. split.
  - rewrite (filter_ext _ (fun k' => Nat.eqb k k')) by (intro; apply b_is_wrap_sent). apply filter_eqb_seq; auto.
  - rewrite (filter_ext _ (fun k' => Nat.eqb k k')) by (intro; apply b_is_sent). apply filter_eqb_seq; auto.
Qed.

(* the kind a raw context error stands for *)
Definition b_ctx_kind_of (e : berr) : option nat :=
  if b_any e BCanceled then Some ErrCancelled else if b_any e BDeadline then Some ErrTimeout else None.

Lemma converters_context_l e k : b_ctx_kind_of e = Some k ->
  res_kinds (conv_fs e) = Some [k] /\ res_kinds (conv_io e) = Some [k] /\ res_kinds (conv_proc e) = Some [k].
Proof.
  intro H. destruct special_kinds as (_ & HT & HC & _).
  destruct any_sent_ctx_b as (AC & AT). destruct pres as (P1 & P2 & P3).
  destruct ioproc_ctx_kind_pass as (I1 & I2 & I3 & I4).
  assert (CK : b_convert_ctx e = BK k /\ (k = ErrCancelled \/ k = ErrTimeout)).
  { unfold b_ctx_kind_of in H. unfold b_convert_ctx. destruct (b_any e BCanceled).
    - inversion H; auto.
    - destruct (b_any e BDeadline); inversion H; auto. }
  destruct CK as (CK & Kc).
  assert (Hk : (k < nkinds)%nat) by (destruct Kc; subst; auto).
  assert (Ak : b_anyl (BK k) b_ctx_kinds = true) by (destruct Kc; subst; auto).
  split; [|split].
  - assert (U : conv_fs e = then_cases (then_cases (run_cases platform_cases e) (fun e0 => CErr (b_convert_ctx e0))) (run_cases fs_cases))
      by (unfold conv_fs, run_conv, run_pre; rewrite P1; reflexivity).
    rewrite U. clear U.
    destruct (run_cases_shape platform_cases e) as [E|(cc & I & E)]; rewrite E.
    + simpl. rewrite CK. destruct (fs_ctx_kind_pass []) as (_ & _ & F3 & F4).
      destruct Kc; subst k; rewrite ?F3, ?F4; simpl; f_equal; apply (kinds_wrap_sent []); auto.
    + pose proof (platform_results cc I) as R. unfold platform_res_ok in R.
      destruct (snd cc) as [| |n|k0 msg|k0]; try discriminate; simpl.
      * rewrite CK. destruct (fs_ctx_kind_pass []) as (_ & _ & F3 & F4).
        destruct Kc; subst k; rewrite ?F3, ?F4; simpl; f_equal; apply (kinds_wrap_sent []); auto.
      * destruct (wrap_ctx (BK k0) e msg k CK Ak) as (m & ->).
        assert (b_convert_ctx (BWrap m (BK k)) = BWrap m (BK k)) as -> by reflexivity.
        destruct (fs_ctx_kind_pass m) as (F1 & F2 & _).
        destruct Kc; subst k; rewrite ?F1, ?F2; simpl; f_equal; apply kinds_wrap_sent; auto.
  - assert (U : conv_io e = run_cases io_cases (b_convert_ctx e)) by (unfold conv_io, run_conv, run_pre; rewrite P2; reflexivity).
    rewrite U, CK.
    destruct Kc; subst k; rewrite ?I1, ?I2; simpl; f_equal; apply (kinds_wrap_sent []); auto.
  - assert (U : conv_proc e = run_cases proc_cases (b_convert_ctx e)) by (unfold conv_proc, run_conv, run_pre; rewrite P3; reflexivity).
    rewrite U, CK.
    destruct Kc; subst k; rewrite ?I3, ?I4; simpl; f_equal; apply (kinds_wrap_sent []); auto.
Qed.

(* ================= errors that already have a library kind ================= *)

(* every predicate except CorrespondTo looks at the structure of an error only: erase all texts *)
Fixpoint erase (e : berr) : berr :=
  match e with
  | BOpaque _ => BOpaque []
  | BPath tm _ x => BPath tm [] (erase x)
  | BWrap _ x => BWrap [] (erase x)
  | BJoin a b => BJoin (erase a) (erase b)
  | _ => e
  end.

Lemma b_same_erase_l e t : b_same (erase e) t = b_same e t.
Proof. destruct e; reflexivity. Qed.
Lemma b_same_erase_r x e : b_same x (erase e) = b_same x e.
Proof. destruct x, e; reflexivity. Qed.
Lemma errno_is_erase n e : errno_is n (erase e) = errno_is n e.
Proof. destruct e; reflexivity. Qed.

Lemma b_is_erase_l e t : b_is (erase e) t = b_is e t.
Proof.
  induction e as [k| | |n|i|m|tm p e IH|m e IH|a IHa b IHb]; simpl; auto.
  rewrite IHa, IHb. reflexivity.
Qed.

Lemma b_is_erase_r x : forall e, b_is x (erase e) = b_is x e.
Proof.
  induction x as [k| | |n|i|m|tm p x IH|m x IH|a IHa b IHb]; intro e; cbn [b_is];
    rewrite ?b_same_erase_r, ?errno_is_erase, ?IH, ?IHa, ?IHb; auto.
  destruct (f_kind (finfo_of i)); rewrite ?b_same_erase_r; reflexivity.
Qed.

Lemma b_any_erase e x : b_any (erase e) x = b_any e x.
Proof. unfold b_any. rewrite b_is_erase_l, b_is_erase_r. reflexivity. Qed.

Lemma timeout_iface_erase e : timeout_iface (erase e) = timeout_iface e.
Proof. induction e; simpl; auto. rewrite IHe. reflexivity. Qed.

Lemma any_timeout_erase e : any_timeout (erase e) = any_timeout e.
Proof.
  induction e as [k| | |n|i|m|tm p e IH|m e IH|a IHa b IHb]; simpl; rewrite ?IH, ?IHa, ?IHb, ?timeout_iface_erase; auto.
Qed.

Lemma os_uis_erase e t : os_uis (erase e) t = os_uis e t.
Proof.
  unfold os_uis. destruct e as [k| | |n|i|m|tm p e|m e|a b]; simpl; auto.
  rewrite b_same_erase_l. destruct e; reflexivity.
Qed.

Lemma os_is_timeout_erase e : os_is_timeout (erase e) = os_is_timeout e.
Proof. unfold os_is_timeout. destruct e; simpl; auto. apply timeout_iface_erase. Qed.

Lemma helper_erase h e : helper_eval h (erase e) = helper_eval h e.
Proof.
  unfold helper_eval.
  repeat match goal with |- context [String.eqb h ?b] => destruct (String.eqb h b) end;
    auto using os_is_timeout_erase, os_uis_erase, any_timeout_erase.
Qed.

Definition is_text (a : catom) : bool := match a with PText _ => true | _ => false end.

Lemma eval_atom_erase e a : is_text a = false -> eval_atom (erase e) a = eval_atom e a.
Proof.
  destruct a; simpl; intro H; try discriminate; auto using helper_erase.
  unfold b_anyl. apply existsb_ext_in. intros; apply b_any_erase.
Qed.

Definition fires_nontext (e : berr) (cc : ccase) : bool :=
  existsb (eval_atom e) (filter (fun a => negb (is_text a)) (fst cc)).

(* which case fires, as far as that can be told without reading any text: [Some None] = no case fires,
   [Some (Some r)] = a case with result r fires on its non-text atoms, [None] = it depends on the text *)
Fixpoint run_nt (cs : list ccase) (e : berr) : option (option cres) :=
  match cs with
  | [] => Some None
  | cc :: rest =>
      if fires_nontext e cc then Some (Some (snd cc))
      else if existsb is_text (fst cc) then None
      else run_nt rest e
  end.

Lemma fires_nontext_erase e cc : fires_nontext (erase e) cc = fires_nontext e cc.
Proof.
  unfold fires_nontext. apply existsb_ext_in. intros a I. apply filter_In in I. destruct I as [_ N].
  apply eval_atom_erase. apply negb_true_iff in N. exact N.
Qed.

Lemma fires_of_nontext e cc : fires_nontext e cc = true -> fires e cc = true.
Proof.
  unfold fires, fires_nontext. intro H. apply existsb_exists in H. destruct H as (a & I & E).
  apply filter_In in I. apply existsb_exists. exists a. tauto.
Qed.

Lemma fires_no_text e cc : existsb is_text (fst cc) = false -> fires e cc = fires_nontext e cc.
Proof.
  unfold fires, fires_nontext. induction (fst cc) as [|a l IH]; simpl; auto. intro H.
  apply orb_false_iff in H. destruct H as [H1 H2]. rewrite H1. simpl. rewrite IH; auto.
Qed.

Lemma run_nt_sound cs e o : run_nt cs (erase e) = Some o ->
  run_cases cs e = match o with None => CErr e | Some r => apply_res r e end.
Proof.
  induction cs as [|cc rest IH]; simpl; intro H.
  - inversion H. reflexivity.
  - rewrite fires_nontext_erase in H. destruct (fires_nontext e cc) eqn:F.
    + inversion H. rewrite (fires_of_nontext _ _ F). reflexivity.
    + destruct (existsb is_text (fst cc)) eqn:T; [discriminate|].
      rewrite (fires_no_text e cc T), F. auto.
Qed.

(* the switch returns its argument unchanged, and that can be told from the structure alone *)
Definition stage_pass (cs : list ccase) (e0 : berr) : bool :=
  match run_nt cs e0 with Some None => true | Some (Some RSame) => true | _ => false end.

Lemma stage_pass_sound cs e : stage_pass cs (erase e) = true -> run_cases cs e = CErr e.
Proof.
  unfold stage_pass. destruct (run_nt cs (erase e)) as [[r|]|] eqn:R; try discriminate.
  - destruct r; try discriminate. intros _. rewrite (run_nt_sound _ _ _ R). reflexivity.
  - intros _. rewrite (run_nt_sound _ _ _ R). reflexivity.
Qed.

Definition step_pass (name : string) (e0 : berr) : bool :=
  if String.eqb name "commonerrors.ConvertContextError" then negb (b_any e0 BCanceled) && negb (b_any e0 BDeadline)
  else if String.eqb name "platform.ConvertError" then stage_pass platform_cases e0
  else false.

Lemma step_pass_sound n e : step_pass n (erase e) = true -> pre_step n e = CErr e.
Proof.
  unfold step_pass, pre_step. destruct (String.eqb n "commonerrors.ConvertContextError").
  - rewrite !b_any_erase. intro H. apply andb_true_iff in H. destruct H as [H1 H2].
    apply negb_true_iff in H1. apply negb_true_iff in H2. unfold b_convert_ctx. rewrite H1, H2. reflexivity.
  - destruct (String.eqb n "platform.ConvertError"); [|discriminate]. apply stage_pass_sound.
Qed.

Definition conv_pass (pre : list string) (cs : list ccase) (e0 : berr) : bool :=
  forallb (fun n => step_pass n e0) pre && stage_pass cs e0.

Lemma conv_pass_sound pre cs e : conv_pass pre cs (erase e) = true -> run_conv pre cs e = CErr e.
Proof.
  unfold conv_pass, run_conv, run_pre. intro H. apply andb_true_iff in H. destruct H as [H1 H2].
  assert (P : fold_left (fun r name => then_cases r (pre_step name)) pre (CErr e) = CErr e).
  { induction pre as [|n pre IH]; simpl; auto. simpl in H1. apply andb_true_iff in H1. destruct H1 as [A B].
    rewrite (step_pass_sound n e A). auto. }
  rewrite P. simpl. apply stage_pass_sound; auto.
Qed.

Definition conv_table (conv : Z) : list string * list ccase :=
  if conv =? 0 then (fs_pre, fs_cases) else if conv =? 1 then (io_pre, io_cases)
  else if conv =? 2 then (proc_pre, proc_cases) else (platform_pre, platform_cases).

Lemma conv_by_table conv e : In conv [0; 1; 2; 3] -> platform_pre = [] ->
  conv_by conv e = run_conv (fst (conv_table conv)) (snd (conv_table conv)) e.
Proof.
  intros [<-|[<-|[<-|[<-|[]]]]] P; reflexivity.
Qed.

Lemma platform_pre_nil : platform_pre = [].
Proof. reflexivity. Qed.


Lemma b_kinds_erase e : b_kinds (erase e) = b_kinds e.
Proof. unfold b_kinds. apply filter_ext. intro k. apply b_is_erase_l. Qed.

Definition shapes (k : nat) : list berr := [BK k; BWrap [] (BK k); BWrap [] (BWrap [] (BK k))].

(* the certificate, computed on CLOSED terms (texts erased): for every converter and every kind it is expected to leave
   alone, the sentinel and library errors of one or two wrappers pass every pre-step and the switch unchanged *)
Definition pass_cert : bool :=
  forallb (fun conv => forallb (fun k =>
     forallb (fun e0 => conv_pass (fst (conv_table conv)) (snd (conv_table conv)) e0 && nats_eq (b_kinds e0) [k])
             (shapes k))
     (expected_pass conv)) [0; 1; 2; 3].

Lemma pass_cert_ok : pass_cert = true.
Proof. vm_compute. reflexivity. Qed.

Lemma pass_cert_at conv k e0 : In conv [0; 1; 2; 3] -> In k (expected_pass conv) -> In e0 (shapes k) ->
  conv_pass (fst (conv_table conv)) (snd (conv_table conv)) e0 = true /\ nats_eq (b_kinds e0) [k] = true.
Proof.
  intros Ic Ik Ie. pose proof pass_cert_ok as H. unfold pass_cert in H.
  pose proof (proj1 (forallb_forall _ _) H conv Ic) as H1. cbv beta in H1.
  pose proof (proj1 (forallb_forall _ _) H1 k Ik) as H2. cbv beta in H2.
  pose proof (proj1 (forallb_forall _ _) H2 e0 Ie) as H3. cbv beta in H3.
  apply andb_true_iff in H3. exact H3.
Qed.

Lemma pass_shape conv k e : In conv [0; 1; 2; 3] -> In k (expected_pass conv) -> In (erase e) (shapes k) ->
  res_kinds (conv_by conv e) = Some [k].
Proof.
  intros Ic Ik Ie. destruct (pass_cert_at conv k (erase e) Ic Ik Ie) as [H1 H2].
  rewrite (conv_by_table conv e Ic platform_pre_nil). rewrite (conv_pass_sound _ _ e H1).
  unfold res_kinds. f_equal. rewrite <- (b_kinds_erase e). apply nats_eq_eq. exact H2.
Qed.

Lemma kind_preserved_for_library_errors_l conv k m m' : In conv [0; 1; 2; 3] -> In k (expected_pass conv) ->
  res_kinds (conv_by conv (BK k)) = Some [k] /\
  res_kinds (conv_by conv (BWrap m (BK k))) = Some [k] /\
  res_kinds (conv_by conv (BWrap m' (BWrap m (BK k)))) = Some [k].
Proof.
  intros Ic Ik. split; [|split]; apply pass_shape; auto; unfold shapes; cbn [erase]; [left | right; left | right; right; left]; reflexivity.
Qed.

(* without the restriction to the expected kinds the statement is false of the code as it is: platform.ConvertError
   re-reads an "invalid" error whose message says "not supported" as unsupported *)
Lemma kind_preservation_unrestricted_false_l :
  exists k m, (k < nkinds)%nat /\ res_kinds (conv_platform (b_new k m)) <> Some [k] /\
              res_kinds (conv_fs (b_new k m)) <> Some [k].
Proof. exists ErrInvalid, (s2b "links are not supported here"). vm_compute. repeat split; try lia; discriminate. Qed.

(* ================= the order of the rules; composite backend values ================= *)

Lemma rule_order_l :
  rule_kinds platform_cases = expected_order_platform /\ rule_kinds fs_cases = expected_order_fs /\
  rule_kinds io_cases = expected_order_io /\ rule_kinds proc_cases = expected_order_proc.
Proof. vm_compute. repeat split; reflexivity. Qed.

Definition gives_timeout (e : berr) : bool := opt_nats_eq (res_kinds (conv_fs e)) (Some [ErrTimeout]).
(* platform.ConvertError, which runs first, does not re-read the error as "unsupported" *)
Definition platform_neutral (e : berr) : bool := negb (existsb (b_corr e) (case_strings platform_cases)).

(* a deadline wins: for every base condition c that the filesystem converter maps to timeout and every other base
   condition d (neither spelling "not supported"), a value carrying BOTH - joined in either order, also inside a
   *PathError - is timeout *)
Definition deadline_wins_cert : bool :=
  forallb (fun c => implb (gives_timeout c && platform_neutral c)
    (forallb (fun d => implb (platform_neutral d)
       (gives_timeout (BJoin c d) && gives_timeout (BJoin d c) && gives_timeout (BPath true [99] (BJoin d c))))
     base_conds)) base_conds.

Lemma deadline_wins_l : deadline_wins_cert = true.
Proof. vm_compute. reflexivity. Qed.
