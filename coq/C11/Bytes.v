(* C11 — byte strings as [list Z] with the few functions of Go's [strings] package the error code uses.
   Definitions only (lemmas are in Proofs.v).  ASCII model: [is_space] is the ASCII part of unicode.IsSpace
   (strings.TrimSpace also trims U+0085, U+00A0 and the other Unicode White_Space runes) and [lower] is the ASCII part
   of strings.ToLower (which also maps U+212A and U+0130 to ASCII letters); the correspondence runs only use strings on
   which the two agree (the Go oracle of the harness has no such restriction). *)
From Coq Require Import List ZArith Bool.
Import ListNotations.
Local Open Scope Z_scope.

Definition bytes := list Z.

Definition is_nil {A} (l : list A) : bool := match l with [] => true | _ => false end.

Fixpoint beq (a b : bytes) : bool :=
  match a, b with
  | [], [] => true
  | x :: a', y :: b' => (x =? y) && beq a' b'
  | _, _ => false
  end.

(* '\t' '\n' '\v' '\f' '\r' ' ' *)
Definition is_space (c : Z) : bool := ((9 <=? c) && (c <=? 13)) || (c =? 32).

Fixpoint trim_left (s : bytes) : bytes :=
  match s with
  | [] => []
  | c :: r => if is_space c then trim_left r else s
  end.

Fixpoint trim_right (s : bytes) : bytes :=
  match s with
  | [] => []
  | c :: r => let r' := trim_right r in if is_space c && is_nil r' then [] else c :: r'
  end.

(* strings.TrimSpace *)
Definition trim (s : bytes) : bytes := trim_right (trim_left s).

(* strings.Split(s, string(sep)) for a one-byte separator: never returns the empty list *)
Fixpoint split (sep : Z) (s : bytes) : list bytes :=
  match s with
  | [] => [[]]
  | c :: r =>
      if c =? sep then [] :: split sep r
      else match split sep r with
           | h :: t => (c :: h) :: t
           | [] => [[c]]
           end
  end.

(* strings.Join *)
Fixpoint join (sep : bytes) (ls : list bytes) : bytes :=
  match ls with
  | [] => []
  | [a] => a
  | a :: r => a ++ sep ++ join sep r
  end.

(* strings.HasPrefix(s, p) *)
Fixpoint has_prefix (p s : bytes) : bool :=
  match p, s with
  | [], _ => true
  | x :: p', y :: s' => (x =? y) && has_prefix p' s'
  | _ :: _, [] => false
  end.

(* strings.Contains(s, d) *)
Fixpoint contains (s d : bytes) : bool :=
  has_prefix d s || match s with [] => false | _ :: r => contains r d end.

Definition mem (c : Z) (s : bytes) : bool := existsb (Z.eqb c) s.

Definition lower_c (c : Z) : Z := if (65 <=? c) && (c <=? 90) then c + 32 else c.
Definition lower (s : bytes) : bytes := map lower_c s.

Fixpoint filter_map {A B} (f : A -> option B) (l : list A) : list B :=
  match l with
  | [] => []
  | a :: r => match f a with Some b => b :: filter_map f r | None => filter_map f r end
  end.
