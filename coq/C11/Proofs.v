(* C11 — lemmas. *)
From Coq Require Import List ZArith Bool Lia Arith.
Import ListNotations.
From GU Require Import C11.Gen C11.Bytes C11.Model.
Local Open Scope Z_scope.

(* ================= facts about the generated table, by computation ================= *)

Definition table_total : bool :=
  forallb (fun k => match deser_common (ktext k) with (true, Some k') => Nat.eqb k k' | _ => false end) (seq 0 nkinds).

Lemma forallb_seq (p : nat -> bool) n : forallb p (seq 0 n) = true -> forall k, (k < n)%nat -> p k = true.
Proof. intros H k Hk. rewrite forallb_forall in H. apply H. apply in_seq. lia. Qed.

(* every kind's text is recognised as that kind by the ordered switch of deserialiseCommonError *)
Lemma deser_table_total_l : forall k, (k < nkinds)%nat -> deser_common (ktext k) = (true, Some k).
Proof.
  assert (H : table_total = true) by (vm_compute; reflexivity).
  intros k Hk. pose proof (forallb_seq _ _ H k Hk) as E. cbv beta in E.
  destruct (deser_common (ktext k)) as [[] [k'|]]; try discriminate.
  apply Nat.eqb_eq in E. subst. reflexivity.
Qed.

(* the text of a kind: not empty, starts and ends with a non-blank, contains neither separator, is its own trimming *)
Definition text_ok (s : bytes) : bool :=
  negb (is_nil s) && negb (mem sep s) && negb (mem nl s) && beq (trim_right s) s &&
  match s with c :: _ => negb (is_space c) | [] => false end.

Lemma beq_eq a b : beq a b = true -> a = b.
Proof.
  revert b; induction a as [|x a IH]; destruct b as [|y b]; simpl; try discriminate; auto.
  intro H. apply andb_true_iff in H. destruct H as [H1 H2]. apply Z.eqb_eq in H1. f_equal; auto.
Qed.

Lemma beq_refl a : beq a a = true.
Proof. induction a; simpl; auto. rewrite Z.eqb_refl. auto. Qed.

Lemma kind_text_ok_l : forall k, (k < nkinds)%nat ->
  ktext k <> [] /\ mem sep (ktext k) = false /\ mem nl (ktext k) = false /\ trim_right (ktext k) = ktext k /\
  exists c r, ktext k = c :: r /\ is_space c = false.
Proof.
  assert (H : forallb (fun k => text_ok (ktext k)) (seq 0 nkinds) = true) by (vm_compute; reflexivity).
  intros k Hk. pose proof (forallb_seq _ _ H k Hk) as E. cbv beta in E. unfold text_ok in E.
  repeat (apply andb_true_iff in E; destruct E as [E ?]).
  destruct (ktext k) as [|c r] eqn:Ek; [discriminate|].
  repeat split; try congruence.
  - now apply negb_true_iff.
  - now apply negb_true_iff.
  - now apply beq_eq.
  - exists c, r. split; auto. now apply negb_true_iff.
Qed.

(* the distinguished kinds exist, are pairwise what the code assumes, and IsCommonError lists every kind *)
Lemma special_kinds : (ErrUnknown < nkinds)%nat /\ (ErrTimeout < nkinds)%nat /\ (ErrCancelled < nkinds)%nat /\
  is_ctx_kind ErrUnknown = false /\ is_ctx_kind ErrTimeout = true /\ is_ctx_kind ErrCancelled = true.
Proof. vm_compute. repeat split; lia. Qed.

Lemma is_common_args_total : forall k, (k < nkinds)%nat -> existsb (Nat.eqb k) is_common_args = true.
Proof.
  assert (H : forallb (fun k => existsb (Nat.eqb k) is_common_args) (seq 0 nkinds) = true) by (vm_compute; reflexivity).
  intros k Hk. exact (forallb_seq _ _ H k Hk).
Qed.

Lemma errorf_wraps : contains errorf_format [37; 119] = true.
Proof. vm_compute. reflexivity. Qed.

Lemma errorf_text a b c : fmt_subst errorf_format [a; b; c] = a ++ b ++ 32 :: c.
Proof. unfold errorf_format. cbn. rewrite app_nil_r. reflexivity. Qed.

Lemma sep_not_space : is_space sep = false. Proof. reflexivity. Qed.
Lemma sep_nl : (sep =? nl) = false. Proof. reflexivity. Qed.

(* ================= errors.Is on chains ================= *)

Lemma is_wrap m i t : is (Wrap m i) t = is i t.
Proof. destruct t; reflexivity. Qed.

(* a chain has one root: a context error has no kind *)
Lemma canceled_no_kind e : is e TCanceled = true -> (forall k, is e (TK k) = false) /\ is e TDeadline = false.
Proof.
  induction e; simpl; try discriminate; auto.
Qed.

Lemma deadline_no_kind e : is e TDeadline = true -> (forall k, is e (TK k) = false) /\ is e TCanceled = false.
Proof.
  induction e; simpl; try discriminate; auto.
Qed.

Lemma ctx_kind_cases e k : ctx_kind_of e = Some k ->
  (k = ErrCancelled \/ k = ErrTimeout) /\ convert_ctx e = Sent k /\ forall k', is e (TK k') = false.
Proof.
  unfold ctx_kind_of, convert_ctx. destruct (is e TCanceled) eqn:C.
  - intro H; inversion H; subst. repeat split; auto. apply canceled_no_kind; auto.
  - destruct (is e TDeadline) eqn:D; [|discriminate].
    intro H; inversion H; subst. repeat split; auto. apply deadline_no_kind; auto.
Qed.

(* ================= the shape of what the library builds ================= *)

(* [lib k e]: a chain of wrappers down to the sentinel k in which every wrapper's text is the text of what it wraps,
   the separator, and something more — the convention "<kind>: <reason>" of Errorf *)
Inductive lib (k : nat) : err -> Prop :=
| lib_sent : lib k (Sent k)
| lib_wrap i r : lib k i -> lib k (Wrap (text i ++ sep :: r) i).

Lemma lib_exactly k e : lib k e -> exactly e k.
Proof.
  induction 1.
  - repeat split; simpl; intros; rewrite ?orb_false_r; reflexivity.
  - destruct IHlib as (A & B & C). repeat split; intros; rewrite is_wrap; auto.
Qed.

Lemma lib_headed1 k e : lib k e -> headed1 k (text e).
Proof.
  induction 1; simpl.
  - exists []. rewrite app_nil_r. auto.
  - destruct IHlib as (r0 & E & [->|[r' ->]]).
    + exists (sep :: r). rewrite E, app_nil_r. split; eauto.
    + exists (sep :: r' ++ sep :: r). rewrite E, <- app_assoc. split; eauto.
Qed.

Lemma headed1_headed k s : headed1 k s -> headed k s.
Proof.
  intros (r & E & [->|[r' ->]]); [exists [] | exists (sep :: r')]; split; auto.
  right. exists sep, r'. auto.
Qed.

Lemma lib_convert k e : lib k e -> convert_ctx e = e.
Proof. intro L. destruct (lib_exactly _ _ L) as (_ & B & C). unfold convert_ctx. rewrite B, C. reflexivity. Qed.

Lemma errorf_some_eq e m : errorf (Some e) m = Wrap (text (convert_ctx e) ++ sep :: 32 :: m) (convert_ctx e).
Proof. unfold errorf. rewrite errorf_wraps, errorf_text. reflexivity. Qed.

Lemma errorf_lib k e m : lib k e -> lib k (errorf (Some e) m).
Proof. intro L. rewrite errorf_some_eq, (lib_convert _ _ L). constructor. exact L. Qed.

Lemma errorf_ctx e k m : ctx_kind_of e = Some k -> lib k (errorf (Some e) m).
Proof.
  intro H. destruct (ctx_kind_cases _ _ H) as (_ & E & _). rewrite errorf_some_eq, E. constructor. constructor.
Qed.

Lemma errorf_nil m : lib ErrUnknown (errorf None m).
Proof. unfold errorf. rewrite errorf_wraps, errorf_text. apply (lib_wrap _ (Sent ErrUnknown)). constructor. Qed.

Lemma any_lib_ctx k e : lib k e -> any (Some e) ctx_kinds = is_ctx_kind k.
Proof.
  intro L. destruct (lib_exactly _ _ L) as (A & _ & _). unfold any, ctx_kinds, is_ctx_kind. simpl.
  rewrite !A, orb_false_r. reflexivity.
Qed.

(* the semantic reading of [arg] and [cause] *)
Definition arg_sem (t : option err) (k : nat) : Prop :=
  (k < nkinds)%nat /\
  ((t = None /\ k = ErrUnknown) \/ exists e, t = Some e /\ (ctx_kind_of e = Some k \/ lib k e)).

Definition cause_sem (o : option err) (ko : option nat) : Prop :=
  match o, ko with
  | None, None => True
  | Some c, Some k => (k < nkinds)%nat /\ (ctx_kind_of c = Some k \/ lib k c)
  | Some c, None => plain c
  | None, Some _ => False
  end.

Lemma ctx_kind_lt e k : ctx_kind_of e = Some k -> (k < nkinds)%nat /\ is_ctx_kind k = true.
Proof.
  intro H. destruct (ctx_kind_cases _ _ H) as ([->| ->] & _ & _); pose proof special_kinds; tauto.
Qed.

Lemma errorf_arg t k m : arg_sem t k -> lib k (errorf t m).
Proof.
  intros (_ & [[-> ->] | (e & -> & [H|H])]).
  - apply errorf_nil.
  - apply errorf_ctx; auto.
  - apply errorf_lib; auto.
Qed.

(* Errorf applied to "targetError or ErrUnknown" (the first lines of WrapError) *)
Lemma errorf_arg' t k m : arg_sem t k ->
  lib k (errorf (Some (match t with None => Sent ErrUnknown | Some e => e end)) m).
Proof.
  intros (_ & [[-> ->] | (e & -> & [H|H])]).
  - apply errorf_lib. constructor.
  - apply errorf_ctx; auto.
  - apply errorf_lib; auto.
Qed.

Lemma any_sent_ctx k : any (Some (Sent k)) ctx_kinds = is_ctx_kind k.
Proof. apply any_lib_ctx. constructor. Qed.

Lemma wrap_error_lib t o kt ko m : arg_sem t kt -> cause_sem o ko -> lib (wrap_kind kt ko) (wrap_error t o m).
Proof.
  intros At Co. unfold wrap_error, new.
  destruct o as [c|], ko as [k|]; simpl in Co; try contradiction; cbn [option_map wrap_kind].
  - destruct Co as (Hk & [H|H]).
    + destruct (ctx_kind_cases _ _ H) as (_ & E & _). destruct (ctx_kind_lt _ _ H) as (_ & Ck).
      rewrite E, any_sent_ctx, Ck. apply errorf_lib. constructor.
    + rewrite (lib_convert _ _ H), (any_lib_ctx _ _ H).
      destruct (is_ctx_kind k); [apply errorf_lib; auto | apply errorf_arg'; auto].
  - destruct Co as (A & B & C). unfold convert_ctx. rewrite B, C.
    assert (any (Some c) ctx_kinds = false) as -> by (simpl; rewrite !A; reflexivity).
    apply errorf_arg'; auto.
  - cbn [any]. apply errorf_arg'; auto.
Qed.

Lemma any_convert_arg t k : arg_sem t k -> any (option_map convert_ctx t) ctx_kinds = is_ctx_kind k.
Proof.
  intros (_ & [[-> ->] | (e & -> & [H|H])]); simpl option_map.
  - destruct special_kinds as (_ & _ & _ & U & _). rewrite U. reflexivity.
  - destruct (ctx_kind_cases _ _ H) as (_ & E & _). rewrite E. apply any_sent_ctx.
  - rewrite (lib_convert _ _ H). apply any_lib_ctx; auto.
Qed.

Lemma existsb_map' {A B} (f : A -> B) (p : B -> bool) l : existsb p (map f l) = existsb (fun x => p (f x)) l.
Proof. induction l; simpl; congruence. Qed.

Lemma is_common_lib k e : (k < nkinds)%nat -> lib k e -> is_common (Some e) = true.
Proof.
  intros Hk L. destruct (lib_exactly _ _ L) as (A & _ & _). unfold is_common, any.
  rewrite existsb_map'. pose proof (is_common_args_total k Hk) as H.
  rewrite existsb_exists in *. destruct H as (x & I & E). exists x. split; auto. rewrite A. exact E.
Qed.

Lemma is_common_nokind e : (forall k, is e (TK k) = false) -> is_common (Some e) = false.
Proof.
  intro A. unfold is_common, any. rewrite existsb_map'. induction is_common_args; simpl; auto. rewrite A. auto.
Qed.

Lemma wrapinc_lib t o kt ko m : arg_sem t kt -> cause_sem o ko ->
  lib (wrapinc_kind kt ko) (wrap_if_not_common t o m).
Proof.
  intros At Co. unfold wrap_if_not_common, wrapinc_kind. rewrite (any_convert_arg _ _ At).
  destruct (is_ctx_kind kt) eqn:Ck; [apply wrap_error_lib; auto|].
  destruct o as [c|], ko as [k|]; simpl in Co; try contradiction.
  - destruct Co as (Hk & [H|H]).
    + destruct (ctx_kind_cases _ _ H) as (_ & _ & N). rewrite (is_common_nokind _ N).
      destruct (ctx_kind_lt _ _ H) as (_ & Ck').
      replace k with (wrap_kind kt (Some k)) at 1 by (simpl; rewrite Ck'; reflexivity).
      apply wrap_error_lib; simpl; auto.
    + rewrite (is_common_lib _ _ Hk H). apply errorf_lib; auto.
  - destruct Co as (A & B & C). rewrite (is_common_nokind _ A).
    apply (wrap_error_lib t (Some c) kt None); simpl; auto. repeat split; auto.
  - simpl. apply (wrap_error_lib t None kt None); simpl; auto.
Qed.

Scheme given_mut := Minimality for given Sort Prop
  with arg_mut := Minimality for arg Sort Prop
  with cause_mut := Minimality for cause Sort Prop.
Combined Scheme given_arg_cause_ind from given_mut, arg_mut, cause_mut.

Lemma wrap_kind_lt kt ko : (kt < nkinds)%nat -> match ko with Some k => (k < nkinds)%nat | None => True end ->
  (wrap_kind kt ko < nkinds)%nat.
Proof. destruct ko as [k|]; simpl; auto. destruct (is_ctx_kind k); auto. Qed.

Lemma wrapinc_kind_lt kt ko : (kt < nkinds)%nat -> match ko with Some k => (k < nkinds)%nat | None => True end ->
  (wrapinc_kind kt ko < nkinds)%nat.
Proof.
  unfold wrapinc_kind. destruct (is_ctx_kind kt); [apply wrap_kind_lt|]. destruct ko; auto.
Qed.

Lemma cause_sem_lt o ko : cause_sem o ko -> match ko with Some k => (k < nkinds)%nat | None => True end.
Proof. destruct o, ko; simpl; tauto. Qed.

Lemma given_sem :
  (forall e k, given e k -> (k < nkinds)%nat /\ lib k e) /\
  (forall t k, arg t k -> arg_sem t k) /\
  (forall o ko, cause o ko -> cause_sem o ko).
Proof.
  apply given_arg_cause_ind; intros.
  - split; auto. constructor.
  - split; [apply H0 | apply errorf_arg; auto].
  - split; [apply H0|]. apply (wrap_error_lib t None k None); simpl; auto.
  - split; [apply H0 | apply errorf_arg; auto].
  - split; [|apply wrap_error_lib; auto].
    apply wrap_kind_lt; [apply H0 | eapply cause_sem_lt; eauto].
  - split; [|apply wrapinc_lib; auto].
    apply wrapinc_kind_lt; [apply H0 | eapply cause_sem_lt; eauto].
  - split; [apply special_kinds | auto].
  - split; [apply (ctx_kind_lt _ _ H) | right; eauto].
  - destruct H0. split; auto. right; eauto.
  - exact I.
  - split; [apply (ctx_kind_lt _ _ H) | auto].
  - destruct H0. split; auto.
  - exact H.
Qed.

Lemma given_lib e k : given e k -> (k < nkinds)%nat /\ lib k e.
Proof. apply given_sem. Qed.

(* constructors_keep_kind *)
Lemma constructors_keep_kind_l e k : given e k ->
  is e (TK k) = true /\ any (Some e) [TK k] = true /\ exactly e k /\ is_common (Some e) = true.
Proof.
  intro G. destruct (given_lib _ _ G) as (Hk & L). pose proof (lib_exactly _ _ L) as X.
  destruct X as (A & B & C). repeat split; auto.
  - rewrite A. apply Nat.eqb_refl.
  - simpl. rewrite A, Nat.eqb_refl. reflexivity.
  - eapply is_common_lib; eauto.
Qed.

(* context_cause_wins: whatever the target (even nil or of another kind), a cause that is a cancellation / deadline —
   raw, under foreign wrappers, or already converted by the library — gives an error of exactly that kind *)
Definition ctx_cause (c : err) (k : nat) : Prop :=
  ctx_kind_of c = Some k \/ (given c k /\ is_ctx_kind k = true).

Lemma context_cause_wins_l t c k m : ctx_cause c k ->
  exactly (wrap_error t (Some c) m) k /\ exactly (wrap_if_not_common t (Some c) m) k /\
  exactly (new (Some c) m) k /\ exactly (errorf (Some c) m) k /\ exactly (newf (Some c) m) k.
Proof.
  intro H.
  assert (W : forall t, lib k (wrap_error t (Some c) m)).
  { intro t0. unfold wrap_error. simpl option_map. destruct H as [H|[G Ck]].
    - destruct (ctx_kind_cases _ _ H) as (_ & E & _). destruct (ctx_kind_lt _ _ H) as (_ & Ck).
      rewrite E, any_sent_ctx, Ck. apply errorf_lib. constructor.
    - destruct (given_lib _ _ G) as (_ & L). rewrite (lib_convert _ _ L), (any_lib_ctx _ _ L), Ck.
      apply errorf_lib; auto. }
  assert (N : lib k (errorf (Some c) m)).
  { destruct H as [H|[G _]]; [apply errorf_ctx; auto | apply errorf_lib; apply (given_lib _ _ G)]. }
  split; [|split; [|split; [|split]]]; try (apply lib_exactly; auto; fail).
  - apply lib_exactly. unfold wrap_if_not_common.
    destruct (any (option_map convert_ctx t) ctx_kinds); auto.
    destruct H as [H|[G _]].
    + destruct (ctx_kind_cases _ _ H) as (_ & _ & Nk). rewrite (is_common_nokind _ Nk). auto.
    + destruct (given_lib _ _ G) as (Hk & L). rewrite (is_common_lib _ _ Hk L). exact N.
Qed.

(* ================= byte strings ================= *)

Lemma mem_app c a b : mem c (a ++ b) = mem c a || mem c b.
Proof. unfold mem. apply existsb_app. Qed.

Lemma contains_mem s c : contains s [c] = mem c s.
Proof.
  induction s as [|x s IH]; simpl; auto.
  rewrite IH. rewrite andb_true_r. rewrite (Z.eqb_sym c x). reflexivity.
Qed.

Lemma trim_right_app a b :
  trim_right (a ++ b) = if is_nil (trim_right b) then trim_right a else a ++ trim_right b.
Proof.
  induction a as [|c a IH]; simpl.
  - destruct (trim_right b); reflexivity.
  - rewrite IH. destruct (trim_right b) as [|z l] eqn:E; simpl; auto.
    destruct (a ++ z :: l) eqn:E2; [destruct a; discriminate|]. rewrite andb_false_r. reflexivity.
Qed.

Lemma trim_right_nonspace c s : is_space c = false -> trim_right (c :: s) = c :: trim_right s.
Proof. intro H. simpl. rewrite H. reflexivity. Qed.

Lemma trim_right_idem s : trim_right (trim_right s) = trim_right s.
Proof.
  induction s as [|c s IH]; simpl; auto.
  destruct (is_space c && is_nil (trim_right s)) eqn:E; simpl; auto.
  rewrite IH, E. reflexivity.
Qed.

Lemma trim_left_idem s : trim_left (trim_left s) = trim_left s.
Proof. induction s as [|c s IH]; simpl; auto. destruct (is_space c) eqn:E; auto. simpl. rewrite E. auto. Qed.

Lemma trim_lr_comm s : trim_left (trim_right s) = trim_right (trim_left s).
Proof.
  induction s as [|c s IH]; simpl; auto.
  destruct (is_space c) eqn:E; simpl.
  - destruct (trim_right s) eqn:T; simpl.
    + rewrite <- IH. reflexivity.
    + rewrite E. rewrite <- IH. reflexivity.
  - rewrite E. simpl. rewrite ?E. reflexivity.
Qed.

Lemma trim_idem s : trim (trim s) = trim s.
Proof. unfold trim. rewrite (trim_lr_comm (trim_left s)), trim_left_idem, trim_right_idem. reflexivity. Qed.

Lemma trim_trim_right s : trim (trim_right s) = trim s.
Proof. unfold trim. rewrite trim_lr_comm, trim_right_idem. reflexivity. Qed.

Lemma trim_space_cons c s : is_space c = true -> trim (c :: s) = trim s.
Proof. intro H. unfold trim. simpl. rewrite H. reflexivity. Qed.

Lemma split_nonempty c s : split c s <> [].
Proof. destruct s as [|x s]; simpl; [discriminate|]. destruct (x =? c); [discriminate|]. destruct (split c s); discriminate. Qed.

Lemma split_cons_other c x s : (x =? c) = false ->
  exists h t, split c s = h :: t /\ split c (x :: s) = (x :: h) :: t.
Proof.
  intro H. simpl. rewrite H. destruct (split c s) as [|h t] eqn:E; [exfalso; eapply split_nonempty; eauto|].
  exists h, t. auto.
Qed.

(* a prefix without the separator stays in front of the first element *)
Lemma split_app_prefix c a x : mem c a = false ->
  exists h t, split c x = h :: t /\ split c (a ++ x) = (a ++ h) :: t.
Proof.
  induction a as [|y a IH]; intro M.
  - destruct (split c x) as [|h t] eqn:E; [exfalso; eapply split_nonempty; eauto|]. exists h, t. auto.
  - simpl in M. apply orb_false_iff in M. destruct M as [M1 M2]. destruct (IH M2) as (h & t & E1 & E2).
    exists h, t. split; auto. simpl. rewrite Z.eqb_sym, M1, E2. reflexivity.
Qed.

Lemma split_app_sep c a b : mem c a = false -> split c (a ++ c :: b) = a :: split c b.
Proof.
  intro M. destruct (split_app_prefix c a (c :: b) M) as (h & t & E1 & E2).
  simpl in E1. rewrite Z.eqb_refl in E1. inversion E1; subst. rewrite E2, app_nil_r. reflexivity.
Qed.

Lemma split_nosep c a : mem c a = false -> split c a = [a].
Proof.
  intro M. destruct (split_app_prefix c a [] M) as (h & t & E1 & E2). simpl in E1. inversion E1; subst.
  rewrite !app_nil_r in E2. exact E2.
Qed.

Lemma split_segments_nosep c s : Forall (fun p => mem c p = false) (split c s).
Proof.
  induction s as [|x s IH]; simpl; [repeat constructor|].
  destruct (x =? c) eqn:E; [constructor; auto|].
  destruct (split c s) as [|h t]; [repeat constructor; simpl; rewrite Z.eqb_sym, E; auto|].
  inversion IH; subst. constructor; auto. simpl. rewrite Z.eqb_sym, E. auto.
Qed.

Lemma mem_trim_left c s : mem c s = false -> mem c (trim_left s) = false.
Proof.
  induction s as [|x s IH]; simpl; auto. intro M. apply orb_false_iff in M. destruct M.
  destruct (is_space x); simpl; auto. apply orb_false_iff; auto.
Qed.

Lemma mem_trim_right c s : mem c s = false -> mem c (trim_right s) = false.
Proof.
  induction s as [|x s IH]; simpl; auto. intro M. apply orb_false_iff in M. destruct M.
  destruct (is_space x && is_nil (trim_right s)); simpl; auto. apply orb_false_iff; auto.
Qed.

Lemma mem_trim c s : mem c s = false -> mem c (trim s) = false.
Proof. intro. apply mem_trim_right, mem_trim_left; auto. Qed.

Lemma mem_split c d s : mem c s = false -> Forall (fun p => mem c p = false) (split d s).
Proof.
  induction s as [|x s IH]; simpl; [repeat constructor|]. intro M. apply orb_false_iff in M. destruct M as [M1 M2].
  specialize (IH M2). destruct (x =? d); [constructor; auto|].
  destruct (split d s) as [|h t]; [repeat constructor; simpl; rewrite M1; auto|].
  inversion IH; subst. constructor; auto. simpl. rewrite M1. auto.
Qed.

Lemma mem_join c sp ls : mem c sp = false -> Forall (fun p => mem c p = false) ls -> mem c (join sp ls) = false.
Proof.
  intros S. induction 1 as [|p ls Hp Hl IH]; simpl; auto.
  destruct ls; auto. rewrite !mem_app, Hp, S, IH. reflexivity.
Qed.

Lemma Forall_map' {A B} (f : A -> B) (P : B -> Prop) (Q : A -> Prop) l :
  (forall a, Q a -> P (f a)) -> Forall Q l -> Forall P (map f l).
Proof. intros H. induction 1; simpl; constructor; auto. Qed.

(* normalise = trim every colon-separated part *)
Lemma map_trim_split_space c s : is_space c = true -> (c =? sep) = false ->
  map trim (split sep (c :: s)) = map trim (split sep s).
Proof.
  intros S N. destruct (split_cons_other sep c s N) as (h & t & E1 & E2). rewrite E1, E2. simpl.
  rewrite trim_space_cons; auto.
Qed.

(* trimming the right end of a text only touches the last part, whose own trimming absorbs it *)
Lemma split_single c s h : split c s = [h] -> s = h.
Proof.
  revert h. induction s as [|x s IH]; simpl; intros h H; [inversion H; auto|].
  destruct (x =? c); [destruct (split c s) eqn:E; [exfalso; eapply split_nonempty; eauto | discriminate]|].
  destruct (split c s) as [|h' t] eqn:E; [inversion H; subst; exfalso; eapply split_nonempty; eauto|].
  inversion H; subst. f_equal. apply IH. reflexivity.
Qed.

Lemma map_trim_split_trim_right s : map trim (split sep (trim_right s)) = map trim (split sep s).
Proof.
  induction s as [|x s IH]; auto.
  destruct (x =? sep) eqn:X.
  - apply Z.eqb_eq in X. subst x. rewrite trim_right_nonspace by reflexivity. simpl. rewrite IH. reflexivity.
  - destruct (split_cons_other sep x s X) as (h & t & E1 & E2). rewrite E2.
    simpl trim_right. destruct (is_space x && is_nil (trim_right s)) eqn:B.
    + apply andb_true_iff in B. destruct B as [B1 B2]. destruct (trim_right s) eqn:T; [|discriminate].
      simpl in IH. rewrite E1 in IH. simpl in IH. inversion IH as [[I1 I2]].
      simpl. rewrite trim_space_cons by auto. rewrite <- I1. destruct t; [reflexivity | discriminate].
    + destruct (split_cons_other sep x (trim_right s) X) as (h' & t' & F1 & F2). rewrite F2.
      rewrite F1, E1 in IH. simpl in IH. inversion IH as [[I1 I2]]. simpl. rewrite I2. f_equal.
      destruct (is_space x) eqn:S.
      * rewrite !trim_space_cons; auto.
      * (* x is not a blank: the part starts with x, only its right end matters *)
        unfold trim. simpl. rewrite S.
        destruct t as [|t1 tt].
        -- (* last part: h = s and h' = trim_right s *)
           apply split_single in E1. subst h. destruct t'; [|discriminate].
           apply split_single in F1. subst h'. simpl. rewrite S. simpl. rewrite trim_right_idem. reflexivity.
        -- (* not the last part: untouched *)
           assert (h' = h); [|subst; reflexivity].
           clear -E1 F1 X. revert h h' t1 tt t' E1 F1.
           induction s as [|y s IHs]; intros; [simpl in E1; discriminate|].
           destruct (y =? sep) eqn:Y.
           ++ apply Z.eqb_eq in Y. subst y. rewrite trim_right_nonspace in F1 by reflexivity.
              simpl in E1, F1. rewrite ?Z.eqb_refl in E1, F1. inversion E1; inversion F1; subst. reflexivity.
           ++ destruct (split_cons_other sep y s Y) as (a & b & G1 & G2). rewrite G2 in E1. inversion E1; subst.
              simpl trim_right in F1.
              destruct (is_space y && is_nil (trim_right s)) eqn:B'.
              ** exfalso. apply andb_true_iff in B'. destruct B' as [_ B2]. destruct (trim_right s) eqn:T; [|discriminate].
                 (* trim_right s = [] means s has no separator, so split sep s is a singleton: contradiction with t1 :: tt *)
                 assert (mem sep s = false).
                 { clear -T. induction s as [|z s IH]; auto. simpl in T.
                   destruct (is_space z && is_nil (trim_right s)) eqn:Q; [|discriminate].
                   apply andb_true_iff in Q. destruct Q as [Q1 Q2]. destruct (trim_right s); [|discriminate].
                   simpl. rewrite IH by reflexivity. rewrite orb_false_r.
                   destruct (sep =? z) eqn:W; auto. apply Z.eqb_eq in W. subst z. discriminate. }
                 rewrite (split_nosep _ _ H) in G1. discriminate.
              ** destruct (split_cons_other sep y (trim_right s) Y) as (a' & b' & K1 & K2). rewrite K2 in F1.
                 inversion F1; subst. f_equal. eapply IHs; eauto.
Qed.

(* ================= the parser on texts that start with a kind ================= *)

Definition reason_part (r : bytes) : bytes :=
  match r with [] => [] | _ :: r' => normalise r' end.

Lemma trim_kind_app k x : (k < nkinds)%nat -> trim (ktext k ++ x) = ktext k ++ trim_right x.
Proof.
  intro Hk. destruct (kind_text_ok_l k Hk) as (_ & _ & _ & T & c & r & E & S).
  unfold trim. rewrite E. simpl trim_left. rewrite S. change (c :: r ++ x) with ((c :: r) ++ x). rewrite <- E.
  rewrite trim_right_app, T. destruct (trim_right x); simpl; auto. rewrite app_nil_r. reflexivity.
Qed.

Lemma kind_app_not_nil k x : (k < nkinds)%nat -> is_nil (ktext k ++ x) = false.
Proof. intro Hk. destruct (kind_text_ok_l k Hk) as (_ & _ & _ & _ & c & r & E & _). rewrite E. reflexivity. Qed.

Lemma deser_kind k : (k < nkinds)%nat -> deser_common (ktext k) = (true, Some k).
Proof. apply deser_table_total_l. Qed.

(* processErrorStrLine on "<kind>" / "<kind>:<rest>": the kind, and the rest with every part trimmed *)
Lemma parse_headed1 k r : (k < nkinds)%nat -> (r = [] \/ exists r', r = sep :: r') ->
  parse_line (ktext k ++ r) = Some (Sent k, reason_part r).
Proof.
  intros Hk Hr. unfold parse_line. rewrite trim_kind_app by auto. rewrite kind_app_not_nil by auto.
  destruct (kind_text_ok_l k Hk) as (_ & Ms & _ & _ & _).
  destruct Hr as [->|[r' ->]].
  - simpl trim_right. rewrite app_nil_r, (split_nosep _ _ Ms). simpl hd. rewrite deser_kind by auto. reflexivity.
  - rewrite trim_right_nonspace by reflexivity. rewrite (split_app_sep _ _ _ Ms). simpl hd. simpl tl.
    rewrite deser_kind by auto. unfold reason_part, normalise. rewrite map_trim_split_trim_right. reflexivity.
Qed.

Definition mtext (k : nat) (reason : bytes) : bytes :=
  if is_nil reason then ktext k else ktext k ++ sep :: 32 :: reason.

Lemma convert_sent k : convert_ctx (Sent k) = Sent k.
Proof. reflexivity. Qed.

Lemma marshal_sent k reason : marshal_line (Sent k, reason) = mtext k reason.
Proof.
  unfold marshal_line, convert_to_error, mtext, new. destruct reason; simpl is_nil; cbv iota; auto.
  rewrite errorf_some_eq. reflexivity.
Qed.

Lemma convert_sent_lib k reason : lib k (convert_to_error (Sent k, reason)).
Proof. unfold convert_to_error, new. destruct (is_nil reason); [constructor | apply errorf_lib; constructor]. Qed.

Lemma mtext_headed1 k reason : headed1 k (mtext k reason).
Proof.
  unfold mtext. destruct (is_nil reason).
  - exists []. rewrite app_nil_r. auto.
  - eexists. split; [reflexivity|]. right. eauto.
Qed.

Lemma headed_trim_not_nil k s : (k < nkinds)%nat -> headed k s -> is_nil (trim s) = false.
Proof. intros Hk (r & -> & _). rewrite trim_kind_app by auto. apply kind_app_not_nil; auto. Qed.

Lemma headed_not_nil k s : (k < nkinds)%nat -> headed k s -> is_nil s = false.
Proof. intros Hk (r & -> & _). apply kind_app_not_nil; auto. Qed.

(* the first line of a text that starts with a kind starts with that kind *)
Lemma split_headed k s : (k < nkinds)%nat -> headed k s ->
  exists l ls, split nl s = l :: ls /\ headed1 k l.
Proof.
  intros Hk (r & -> & Hr). destruct (kind_text_ok_l k Hk) as (_ & _ & Mn & _ & _).
  destruct (split_app_prefix nl (ktext k) r Mn) as (h & t & E1 & E2).
  exists (ktext k ++ h), t. split; auto. exists h. split; auto.
  destruct Hr as [->|(c & r' & -> & [-> | ->])].
  - simpl in E1. inversion E1. auto.
  - destruct (split_cons_other nl sep r' sep_nl) as (h' & t' & F1 & F2). rewrite F2 in E1. inversion E1. eauto.
  - simpl in E1. rewrite ?Z.eqb_refl in E1. inversion E1. auto.
Qed.

Lemma parse_lines_headed k s : (k < nkinds)%nat -> headed k s ->
  exists reason rest, parse_lines s = (Sent k, reason) :: rest.
Proof.
  intros Hk H. destruct (split_headed k s Hk H) as (l & ls & E & (r & -> & Hr)).
  unfold parse_lines. rewrite E. simpl. rewrite parse_headed1 by auto. eauto.
Qed.

Lemma marshal_lines_headed k reason rest : headed k (marshal_lines ((Sent k, reason) :: rest)).
Proof.
  unfold marshal_lines. simpl. rewrite marshal_sent. unfold mtext. destruct (is_nil reason).
  - exists ((nl :: nil) ++ concat (map (fun ml => marshal_line ml ++ [nl]) rest)). rewrite <- !app_assoc. split; auto.
    right. exists nl. eexists. split; [reflexivity | auto].
  - eexists. rewrite <- !app_assoc. split; [reflexivity|]. right. exists sep. eexists. split; [reflexivity | auto].
Qed.

(* ================= serialisation of what the library builds ================= *)

Lemma has_prefix_app a c x : has_prefix (a ++ [c]) (a ++ c :: x) = true.
Proof. induction a; simpl; rewrite Z.eqb_refl; auto. Qed.

Lemma type_of_chain_lib k w : lib k w -> forall desc r, desc = text w ++ sep :: r -> type_of_chain desc w = Sent k.
Proof.
  induction 1; intros desc r0 E; simpl; auto.
  simpl in E. rewrite <- app_assoc in E. simpl in E. rewrite E at 1. rewrite has_prefix_app.
  eapply IHlib. exact E.
Qed.

Lemma serialise_single k e r : (k < nkinds)%nat -> lib k e -> text e = ktext k ++ r ->
  mem nl (text e) = false -> serialise e = mtext k (reason_part r).
Proof.
  intros Hk L E M. unfold serialise, serialise_gen. rewrite contains_mem, M.
  assert (Hr : r = [] \/ exists r', r = sep :: r').
  { destruct (lib_headed1 _ _ L) as (r1 & E1 & Hr). rewrite E in E1. apply app_inv_head in E1. subst. auto. }
  rewrite E at 1. rewrite parse_headed1 by auto. rewrite marshal_sent.
  rewrite (headed_trim_not_nil k) by (auto; apply headed1_headed, mtext_headed1).
  inversion L; subst; simpl unwrap.
  - apply marshal_sent.
  - simpl text. erewrite type_of_chain_lib; eauto. apply marshal_sent.
Qed.

Lemma serialise_headed k e : (k < nkinds)%nat -> lib k e -> headed k (serialise e).
Proof.
  intros Hk L. pose proof (lib_headed1 _ _ L) as H1. destruct (mem nl (text e)) eqn:M.
  - unfold serialise, serialise_gen. rewrite contains_mem, M.
    destruct (parse_lines_headed k (text e) Hk (headed1_headed _ _ H1)) as (reason & rest & ->).
    rewrite (headed_trim_not_nil k) by (auto; apply marshal_lines_headed). apply marshal_lines_headed.
  - destruct H1 as (r & E & Hr). rewrite (serialise_single k e r); auto. apply headed1_headed, mtext_headed1.
Qed.

(* DeserialiseError on any text that starts with kind k: the result is (a join whose first member is) of kind k *)
Lemma deserialise_headed k s : (k < nkinds)%nat -> headed k s -> dres_is (deserialise s) (TK k) = true.
Proof.
  intros Hk H. unfold deserialise. rewrite (headed_not_nil k) by auto. rewrite contains_mem.
  destruct (mem nl s) eqn:M.
  - destruct (parse_lines_headed k s Hk H) as (reason & rest & ->).
    rewrite (headed_trim_not_nil k) by (auto; apply marshal_lines_headed).
    simpl. destruct (lib_exactly _ _ (convert_sent_lib k reason)) as (A & _). rewrite A, Nat.eqb_refl. reflexivity.
  - destruct H as (r & -> & Hr).
    assert (Hr' : r = [] \/ exists r', r = sep :: r').
    { destruct Hr as [->|(c & r' & -> & [-> | ->])]; eauto.
      rewrite mem_app in M. simpl in M. rewrite Z.eqb_refl, orb_true_r in M. discriminate. }
    rewrite parse_headed1 by auto. simpl.
    destruct (lib_exactly _ _ (convert_sent_lib k (reason_part r))) as (A & _). rewrite A. apply Nat.eqb_refl.
Qed.

Lemma roundtrip_kind_l e k : given e k -> dres_is (deserialise (serialise e)) (TK k) = true.
Proof. intro G. destruct (given_lib _ _ G) as (Hk & L). apply deserialise_headed; auto. apply serialise_headed; auto. Qed.
