(* C11 — lemmas. *)
From Coq Require Import List ZArith Bool Lia Arith.
Import ListNotations.
From GU Require Import C11.Gen C11.Bytes C11.Model.
Local Open Scope Z_scope.

(* ================= facts about the generated table, by computation ================= *)

Definition table_total : bool :=
  forallb (fun k => match deser_common (ktext k) with (true, Some k') => Nat.eqb k k' | _ => false end) (seq 0 nkinds).

Lemma forallb_seq (p : nat -> bool) n : forallb p (seq 0 n) = true -> forall k, (k < n)%nat -> p k = true.
Proof. intros H k Hk. rewrite forallb_forall in H. apply H. apply in_seq. lia. Qed.

(* every kind's text is recognised as that kind by the ordered switch of deserialiseCommonError *)
Lemma deser_table_total_l : forall k, (k < nkinds)%nat -> deser_common (ktext k) = (true, Some k).
Proof.
  assert (H : table_total = true) by (vm_compute; reflexivity).
  intros k Hk. pose proof (forallb_seq _ _ H k Hk) as E. cbv beta in E.
  clear H. revert E. generalize (deser_common (ktext k)). intros [[] [k'|]] E; try discriminate E.
  apply Nat.eqb_eq in E. subst. reflexivity.
Qed.

(* the text of a kind: not empty, starts and ends with a non-blank, contains neither separator, is its own trimming *)
Definition text_ok (s : bytes) : bool :=
  negb (is_nil s) && negb (mem sep s) && negb (mem nl s) && beq (trim_right s) s &&
  match s with c :: _ => negb (is_space c) | [] => false end.

Lemma beq_eq a b : beq a b = true -> a = b.
Proof.
  revert b; induction a as [|x a IH]; destruct b as [|y b]; simpl; try discriminate; auto.
  intro H. apply andb_true_iff in H. destruct H as [H1 H2]. apply Z.eqb_eq in H1. f_equal; auto.
Qed.

Lemma beq_refl a : beq a a = true.
Proof. induction a; simpl; auto. rewrite Z.eqb_refl. auto. Qed.

Lemma kind_text_ok_l : forall k, (k < nkinds)%nat ->
  ktext k <> [] /\ mem sep (ktext k) = false /\ mem nl (ktext k) = false /\ trim_right (ktext k) = ktext k /\
  exists c r, ktext k = c :: r /\ is_space c = false.
Proof.
  assert (H : forallb (fun k => text_ok (ktext k)) (seq 0 nkinds) = true) by (vm_compute; reflexivity).
  intros k Hk. pose proof (forallb_seq _ _ H k Hk) as E. cbv beta in E. unfold text_ok in E.
  repeat (apply andb_true_iff in E; destruct E as [E ?]).
  destruct (ktext k) as [|c r] eqn:Ek; [discriminate|].
  repeat split; try congruence.
  - now apply negb_true_iff.
  - now apply negb_true_iff.
  - now apply beq_eq.
  - exists c, r. split; auto. now apply negb_true_iff.
Qed.

(* the distinguished kinds exist, are pairwise what the code assumes, and IsCommonError lists every kind *)
Lemma special_kinds : (ErrUnknown < nkinds)%nat /\ (ErrTimeout < nkinds)%nat /\ (ErrCancelled < nkinds)%nat /\
  is_ctx_kind ErrUnknown = false /\ is_ctx_kind ErrTimeout = true /\ is_ctx_kind ErrCancelled = true.
Proof. vm_compute. repeat split; lia. Qed.

Lemma is_common_args_total : forall k, (k < nkinds)%nat -> existsb (Nat.eqb k) is_common_args = true.
Proof.
  assert (H : forallb (fun k => existsb (Nat.eqb k) is_common_args) (seq 0 nkinds) = true) by (vm_compute; reflexivity).
  intros k Hk. exact (forallb_seq _ _ H k Hk).
Qed.

Lemma errorf_wraps : contains errorf_format [37; 119] = true.
Proof. vm_compute. reflexivity. Qed.

Lemma errorf_text a b c : fmt_subst errorf_format [a; b; c] = a ++ b ++ 32 :: c.
Proof. unfold errorf_format. cbn. rewrite app_nil_r. reflexivity. Qed.

Lemma sep_not_space : is_space sep = false. Proof. reflexivity. Qed.
Lemma sep_nl : (sep =? nl) = false. Proof. reflexivity. Qed.

(* ================= errors.Is on chains ================= *)

Lemma is_wrap m i t : is (Wrap m i) t = is i t.
Proof. destruct t; reflexivity. Qed.

(* a context error, raw, wrapped, or inside a composite that may also be of a library kind: converted to its kind *)
Lemma ctx_kind_cases e k : ctx_kind_of e = Some k ->
  (k = ErrCancelled \/ k = ErrTimeout) /\ convert_ctx e = Sent k.
Proof.
  unfold ctx_kind_of, convert_ctx. destruct (is e TCanceled) eqn:C.
  - intro H; inversion H; subst. split; auto.
  - destruct (is e TDeadline) eqn:D; [|discriminate].
    intro H; inversion H; subst. split; auto.
Qed.

(* ================= the shape of what the library builds ================= *)

(* [lib k e]: a chain of wrappers down to the sentinel k in which every wrapper's text is the text of what it wraps,
   the separator, and something more — the convention "<kind>: <reason>" of Errorf *)
Inductive lib (k : nat) : err -> Prop :=
| lib_sent : lib k (Sent k)
| lib_wrap i r : lib k i -> lib k (Wrap (text i ++ sep :: r) i).

Lemma lib_exactly k e : lib k e -> exactly e k.
Proof.
  induction 1.
  - repeat split; simpl; intros; rewrite ?orb_false_r; reflexivity.
  - destruct IHlib as (A & B & C). repeat split; intros; rewrite is_wrap; auto.
Qed.

Lemma lib_headed1 k e : lib k e -> headed1 k (text e).
Proof.
  induction 1; simpl.
  - exists []. rewrite app_nil_r. auto.
  - destruct IHlib as (r0 & E & [->|[r' ->]]).
    + exists (sep :: r). rewrite E, app_nil_r. split; eauto.
    + exists (sep :: r' ++ sep :: r). rewrite E, <- app_assoc. split; eauto.
Qed.

Lemma headed1_headed k s : headed1 k s -> headed k s.
Proof.
  intros (r & E & [->|[r' ->]]); [exists [] | exists (sep :: r')]; split; auto.
  right. exists sep, r'. auto.
Qed.

Lemma lib_convert k e : lib k e -> convert_ctx e = e.
Proof. intro L. destruct (lib_exactly _ _ L) as (_ & B & C). unfold convert_ctx. rewrite B, C. reflexivity. Qed.

Lemma errorf_some_eq e m : errorf (Some e) m = Wrap (text (convert_ctx e) ++ sep :: 32 :: m) (convert_ctx e).
Proof. unfold errorf. rewrite errorf_wraps, errorf_text. reflexivity. Qed.

Lemma errorf_lib k e m : lib k e -> lib k (errorf (Some e) m).
Proof. intro L. rewrite errorf_some_eq, (lib_convert _ _ L). constructor. exact L. Qed.

Lemma errorf_ctx e k m : ctx_kind_of e = Some k -> lib k (errorf (Some e) m).
Proof.
  intro H. destruct (ctx_kind_cases _ _ H) as (_ & E). rewrite errorf_some_eq, E. constructor. constructor.
Qed.

Lemma errorf_nil m : lib ErrUnknown (errorf None m).
Proof. unfold errorf. rewrite errorf_wraps, errorf_text. apply (lib_wrap _ (Sent ErrUnknown)). constructor. Qed.

Lemma any_lib_ctx k e : lib k e -> any (Some e) ctx_kinds = is_ctx_kind k.
Proof.
  intro L. destruct (lib_exactly _ _ L) as (A & _ & _). unfold any, ctx_kinds, is_ctx_kind. simpl.
  rewrite !A, orb_false_r. reflexivity.
Qed.

(* the semantic reading of [arg] and [cause] *)
Definition arg_sem (t : option err) (k : nat) : Prop :=
  (k < nkinds)%nat /\
  ((t = None /\ k = ErrUnknown) \/ exists e, t = Some e /\ (ctx_kind_of e = Some k \/ lib k e)).

Definition cause_sem (o : option err) (ko : option nat) : Prop :=
  match o, ko with
  | None, None => True
  | Some c, Some k => (k < nkinds)%nat /\ (ctx_kind_of c = Some k \/ lib k c)
  | Some c, None => plain c
  | None, Some _ => False
  end.

Lemma ctx_kind_lt e k : ctx_kind_of e = Some k -> (k < nkinds)%nat /\ is_ctx_kind k = true.
Proof.
  intro H. destruct (ctx_kind_cases _ _ H) as ([->| ->] & _); pose proof special_kinds; tauto.
Qed.

Lemma errorf_arg t k m : arg_sem t k -> lib k (errorf t m).
Proof.
  intros (_ & [[-> ->] | (e & -> & [H|H])]).
  - apply errorf_nil.
  - apply errorf_ctx; auto.
  - apply errorf_lib; auto.
Qed.

(* Errorf applied to "targetError or ErrUnknown" (the first lines of WrapError) *)
Lemma errorf_arg' t k m : arg_sem t k ->
  lib k (errorf (Some (match t with None => Sent ErrUnknown | Some e => e end)) m).
Proof.
  intros (_ & [[-> ->] | (e & -> & [H|H])]).
  - apply errorf_lib. constructor.
  - apply errorf_ctx; auto.
  - apply errorf_lib; auto.
Qed.

Lemma any_sent_ctx k : any (Some (Sent k)) ctx_kinds = is_ctx_kind k.
Proof. apply any_lib_ctx. constructor. Qed.

Lemma wrap_error_lib t o kt ko m : arg_sem t kt -> cause_sem o ko -> lib (wrap_kind kt ko) (wrap_error t o m).
Proof.
  intros At Co. unfold wrap_error, new.
  destruct o as [c|], ko as [k|]; simpl in Co; try contradiction; cbn [option_map wrap_kind].
  - destruct Co as (Hk & [H|H]).
    + destruct (ctx_kind_cases _ _ H) as (_ & E). destruct (ctx_kind_lt _ _ H) as (_ & Ck).
      rewrite E, any_sent_ctx, Ck. apply errorf_lib. constructor.
    + rewrite (lib_convert _ _ H), (any_lib_ctx _ _ H).
      destruct (is_ctx_kind k); [apply errorf_lib; auto | apply errorf_arg'; auto].
  - destruct Co as (A & B & C). unfold convert_ctx. rewrite B, C.
    assert (any (Some c) ctx_kinds = false) as -> by (simpl; rewrite !A; reflexivity).
    apply errorf_arg'; auto.
  - cbn [any]. apply errorf_arg'; auto.
Qed.

Lemma any_convert_arg t k : arg_sem t k -> any (option_map convert_ctx t) ctx_kinds = is_ctx_kind k.
Proof.
  intros (_ & [[-> ->] | (e & -> & [H|H])]); simpl option_map.
  - destruct special_kinds as (_ & _ & _ & U & _). rewrite U. reflexivity.
  - destruct (ctx_kind_cases _ _ H) as (_ & E). rewrite E. apply any_sent_ctx.
  - rewrite (lib_convert _ _ H). apply any_lib_ctx; auto.
Qed.

Lemma existsb_map' {A B} (f : A -> B) (p : B -> bool) l : existsb p (map f l) = existsb (fun x => p (f x)) l.
Proof. induction l; simpl; congruence. Qed.

Lemma existsb_ext' {A} (p q : A -> bool) l : (forall x, p x = q x) -> existsb p l = existsb q l.
Proof. intro H. induction l; simpl; congruence. Qed.

Lemma is_common_lib k e : (k < nkinds)%nat -> lib k e -> is_common (Some e) = true.
Proof.
  intros Hk L. destruct (lib_exactly _ _ L) as (A & _ & _). unfold is_common, any.
  rewrite existsb_map'. pose proof (is_common_args_total k Hk) as H.
  rewrite existsb_exists in *. destruct H as (x & I & E). exists x. split; auto. rewrite A. exact E.
Qed.

Lemma is_common_nokind e : (forall k, is e (TK k) = false) -> is_common (Some e) = false.
Proof.
  intro A. unfold is_common, any. rewrite existsb_map'. induction is_common_args; simpl; auto. rewrite A. auto.
Qed.

Lemma wrapinc_lib t o kt ko m : arg_sem t kt -> cause_sem o ko ->
  lib (wrapinc_kind kt ko) (wrap_if_not_common t o m).
Proof.
  intros At Co. unfold wrap_if_not_common, wrapinc_kind. rewrite (any_convert_arg _ _ At).
  destruct (is_ctx_kind kt) eqn:Ck; [apply wrap_error_lib; auto|].
  destruct o as [c|], ko as [k|]; simpl in Co; try contradiction.
  - destruct Co as (Hk & [H|H]).
    + (* a context cause, possibly a composite that is also a common error: New(cause) converts it as well *)
      destruct (is_common (Some c)); [apply errorf_ctx; auto|].
      destruct (ctx_kind_lt _ _ H) as (_ & Ck').
      replace k with (wrap_kind kt (Some k)) at 1 by (simpl; rewrite Ck'; reflexivity).
      apply wrap_error_lib; simpl; auto.
    + rewrite (is_common_lib _ _ Hk H). apply errorf_lib; auto.
  - destruct Co as (A & B & C). rewrite (is_common_nokind _ A).
    apply (wrap_error_lib t (Some c) kt None); simpl; auto. repeat split; auto.
  - simpl. apply (wrap_error_lib t None kt None); simpl; auto.
Qed.

Scheme given_mut := Minimality for given Sort Prop
  with arg_mut := Minimality for arg Sort Prop
  with cause_mut := Minimality for cause Sort Prop.
Combined Scheme given_arg_cause_ind from given_mut, arg_mut, cause_mut.

Lemma wrap_kind_lt kt ko : (kt < nkinds)%nat -> match ko with Some k => (k < nkinds)%nat | None => True end ->
  (wrap_kind kt ko < nkinds)%nat.
Proof. destruct ko as [k|]; simpl; auto. destruct (is_ctx_kind k); auto. Qed.

Lemma wrapinc_kind_lt kt ko : (kt < nkinds)%nat -> match ko with Some k => (k < nkinds)%nat | None => True end ->
  (wrapinc_kind kt ko < nkinds)%nat.
Proof.
  unfold wrapinc_kind. destruct (is_ctx_kind kt); [apply wrap_kind_lt|]. destruct ko; auto.
Qed.

Lemma cause_sem_lt o ko : cause_sem o ko -> match ko with Some k => (k < nkinds)%nat | None => True end.
Proof. destruct o, ko; simpl; tauto. Qed.

Lemma given_sem :
  (forall e k, given e k -> (k < nkinds)%nat /\ lib k e) /\
  (forall t k, arg t k -> arg_sem t k) /\
  (forall o ko, cause o ko -> cause_sem o ko).
Proof.
  apply given_arg_cause_ind; intros.
  - split; auto. constructor.
  - split; [apply H0 | apply errorf_arg; auto].
  - split; [apply H0|]. apply (wrap_error_lib t None k None); simpl; auto.
  - split; [apply H0 | apply errorf_arg; auto].
  - split; [|apply wrap_error_lib; auto].
    apply wrap_kind_lt; [apply H0 | eapply cause_sem_lt; eauto].
  - split; [|apply wrapinc_lib; auto].
    apply wrapinc_kind_lt; [apply H0 | eapply cause_sem_lt; eauto].
  - split; [apply special_kinds | auto].
  - split; [apply (ctx_kind_lt _ _ H) | right; eauto].
  - destruct H0. split; auto. right; eauto.
  - exact I.
  - split; [apply (ctx_kind_lt _ _ H) | auto].
  - destruct H0. split; auto.
  - exact H.
Qed.

Lemma given_lib e k : given e k -> (k < nkinds)%nat /\ lib k e.
Proof. apply given_sem. Qed.

(* constructors_keep_kind *)
Lemma constructors_keep_kind_l e k : given e k ->
  is e (TK k) = true /\ any (Some e) [TK k] = true /\ exactly e k /\ is_common (Some e) = true.
Proof.
  intro G. destruct (given_lib _ _ G) as (Hk & L). pose proof (lib_exactly _ _ L) as X.
  destruct X as (A & B & C). repeat split; auto.
  - rewrite A. apply Nat.eqb_refl.
  - simpl. rewrite A, Nat.eqb_refl. reflexivity.
  - eapply is_common_lib; eauto.
Qed.

(* context_cause_wins: whatever the target (even nil or of another kind), a cause that is a cancellation / deadline —
   raw, under foreign wrappers, or already converted by the library — gives an error of exactly that kind *)
Definition ctx_cause (c : err) (k : nat) : Prop :=
  ctx_kind_of c = Some k \/ (given c k /\ is_ctx_kind k = true).

Lemma context_cause_wins_l t c k m : ctx_cause c k ->
  exactly (wrap_error t (Some c) m) k /\ exactly (wrap_if_not_common t (Some c) m) k /\
  exactly (new (Some c) m) k /\ exactly (errorf (Some c) m) k /\ exactly (newf (Some c) m) k.
Proof.
  intro H.
  assert (W : forall t, lib k (wrap_error t (Some c) m)).
  { intro t0. unfold wrap_error. simpl option_map. destruct H as [H|[G Ck]].
    - destruct (ctx_kind_cases _ _ H) as (_ & E). destruct (ctx_kind_lt _ _ H) as (_ & Ck).
      rewrite E, any_sent_ctx, Ck. apply errorf_lib. constructor.
    - destruct (given_lib _ _ G) as (_ & L). rewrite (lib_convert _ _ L), (any_lib_ctx _ _ L), Ck.
      apply errorf_lib; auto. }
  assert (N : lib k (errorf (Some c) m)).
  { destruct H as [H|[G _]]; [apply errorf_ctx; auto | apply errorf_lib; apply (given_lib _ _ G)]. }
  split; [|split; [|split; [|split]]]; try (apply lib_exactly; auto; fail).
  - apply lib_exactly. unfold wrap_if_not_common.
    destruct (any (option_map convert_ctx t) ctx_kinds); auto.
    destruct H as [H|[G _]].
    + destruct (is_common (Some c)); auto.
    + destruct (given_lib _ _ G) as (Hk & L). rewrite (is_common_lib _ _ Hk L). exact N.
Qed.

(* ================= byte strings ================= *)

Lemma mem_app c a b : mem c (a ++ b) = mem c a || mem c b.
Proof. unfold mem. apply existsb_app. Qed.

Lemma contains_mem s c : contains s [c] = mem c s.
Proof.
  induction s as [|x s IH]; simpl; auto.
  rewrite IH. rewrite andb_true_r. rewrite (Z.eqb_sym c x). reflexivity.
Qed.

Lemma trim_right_app a b :
  trim_right (a ++ b) = if is_nil (trim_right b) then trim_right a else a ++ trim_right b.
Proof.
  induction a as [|c a IH]; simpl.
  - destruct (trim_right b); reflexivity.
  - rewrite IH. destruct (trim_right b) as [|z l] eqn:E; simpl; auto.
    destruct (a ++ z :: l) eqn:E2; [destruct a; discriminate|]. rewrite andb_false_r. reflexivity.
Qed.

Lemma trim_right_nonspace c s : is_space c = false -> trim_right (c :: s) = c :: trim_right s.
Proof. intro H. simpl. rewrite H. reflexivity. Qed.

Lemma trim_right_idem s : trim_right (trim_right s) = trim_right s.
Proof.
  induction s as [|c s IH]; simpl; auto.
  destruct (is_space c && is_nil (trim_right s)) eqn:E; simpl; auto.
  rewrite IH, E. reflexivity.
Qed.

Lemma trim_left_idem s : trim_left (trim_left s) = trim_left s.
Proof. induction s as [|c s IH]; simpl; auto. destruct (is_space c) eqn:E; auto. simpl. rewrite E. auto. Qed.

Lemma trim_lr_comm s : trim_left (trim_right s) = trim_right (trim_left s).
Proof.
  induction s as [|c s IH]; simpl; auto.
  destruct (is_space c) eqn:E; simpl.
  - destruct (trim_right s) eqn:T; simpl.
    + rewrite <- IH. reflexivity.
    + rewrite E. rewrite <- IH. reflexivity.
  - rewrite E. simpl. rewrite ?E. reflexivity.
Qed.

Lemma trim_idem s : trim (trim s) = trim s.
Proof. unfold trim. rewrite (trim_lr_comm (trim_left s)), trim_left_idem, trim_right_idem. reflexivity. Qed.

Lemma trim_trim_right s : trim (trim_right s) = trim s.
Proof. unfold trim. rewrite trim_lr_comm, trim_right_idem. reflexivity. Qed.

Lemma trim_space_cons c s : is_space c = true -> trim (c :: s) = trim s.
Proof. intro H. unfold trim. simpl. rewrite H. reflexivity. Qed.

Lemma split_nonempty c s : split c s <> [].
Proof. destruct s as [|x s]; simpl; [discriminate|]. destruct (x =? c); [discriminate|]. destruct (split c s); discriminate. Qed.

Lemma split_cons_other c x s : (x =? c) = false ->
  exists h t, split c s = h :: t /\ split c (x :: s) = (x :: h) :: t.
Proof.
  intro H. simpl. rewrite H. destruct (split c s) as [|h t] eqn:E; [exfalso; eapply split_nonempty; eauto|].
  exists h, t. auto.
Qed.

(* a prefix without the separator stays in front of the first element *)
Lemma split_app_prefix c a x : mem c a = false ->
  exists h t, split c x = h :: t /\ split c (a ++ x) = (a ++ h) :: t.
Proof.
  induction a as [|y a IH]; intro M.
  - destruct (split c x) as [|h t] eqn:E; [exfalso; eapply split_nonempty; eauto|]. exists h, t. auto.
  - simpl in M. apply orb_false_iff in M. destruct M as [M1 M2]. destruct (IH M2) as (h & t & E1 & E2).
    exists h, t. split; auto. simpl. rewrite Z.eqb_sym, M1, E2. reflexivity.
Qed.

Lemma split_app_sep c a b : mem c a = false -> split c (a ++ c :: b) = a :: split c b.
Proof.
  intro M. destruct (split_app_prefix c a (c :: b) M) as (h & t & E1 & E2).
  simpl in E1. rewrite Z.eqb_refl in E1. inversion E1; subst. rewrite E2, app_nil_r. reflexivity.
Qed.

Lemma split_nosep c a : mem c a = false -> split c a = [a].
Proof.
  intro M. destruct (split_app_prefix c a [] M) as (h & t & E1 & E2). simpl in E1. inversion E1; subst.
  rewrite !app_nil_r in E2. exact E2.
Qed.

Lemma split_segments_nosep c s : Forall (fun p => mem c p = false) (split c s).
Proof.
  induction s as [|x s IH]; simpl; [repeat constructor|].
  destruct (x =? c) eqn:E; [constructor; auto|].
  destruct (split c s) as [|h t]; [repeat constructor; simpl; rewrite Z.eqb_sym, E; auto|].
  inversion IH; subst. constructor; auto. simpl. rewrite Z.eqb_sym, E. auto.
Qed.

Lemma mem_trim_left c s : mem c s = false -> mem c (trim_left s) = false.
Proof.
  induction s as [|x s IH]; simpl; auto. intro M. apply orb_false_iff in M. destruct M.
  destruct (is_space x); simpl; auto. apply orb_false_iff; auto.
Qed.

Lemma mem_trim_right c s : mem c s = false -> mem c (trim_right s) = false.
Proof.
  induction s as [|x s IH]; simpl; auto. intro M. apply orb_false_iff in M. destruct M.
  destruct (is_space x && is_nil (trim_right s)); simpl; auto. apply orb_false_iff; auto.
Qed.

Lemma mem_trim c s : mem c s = false -> mem c (trim s) = false.
Proof. intro. apply mem_trim_right, mem_trim_left; auto. Qed.

Lemma mem_split c d s : mem c s = false -> Forall (fun p => mem c p = false) (split d s).
Proof.
  induction s as [|x s IH]; simpl; [repeat constructor|]. intro M. apply orb_false_iff in M. destruct M as [M1 M2].
  specialize (IH M2). destruct (x =? d); [constructor; auto|].
  destruct (split d s) as [|h t]; [repeat constructor; simpl; rewrite M1; auto|].
  inversion IH; subst. constructor; auto. simpl. rewrite M1. auto.
Qed.

Lemma mem_join c sp ls : mem c sp = false -> Forall (fun p => mem c p = false) ls -> mem c (join sp ls) = false.
Proof.
  intros S. induction 1 as [|p ls Hp Hl IH]; simpl; auto.
  destruct ls; auto. rewrite !mem_app, Hp, S, IH. reflexivity.
Qed.

Lemma Forall_map' {A B} (f : A -> B) (P : B -> Prop) (Q : A -> Prop) l :
  (forall a, Q a -> P (f a)) -> Forall Q l -> Forall P (map f l).
Proof. intros H. induction 1; simpl; constructor; auto. Qed.

(* normalise = trim every colon-separated part *)
Lemma map_trim_split_space c s : is_space c = true -> (c =? sep) = false ->
  map trim (split sep (c :: s)) = map trim (split sep s).
Proof.
  intros S N. destruct (split_cons_other sep c s N) as (h & t & E1 & E2). rewrite E1, E2. simpl.
  rewrite trim_space_cons; auto.
Qed.

(* trimming the right end of a text only touches the last part, whose own trimming absorbs it *)
Lemma split_single c s h : split c s = [h] -> s = h.
Proof.
  revert h. induction s as [|x s IH]; simpl; intros h H; [inversion H; auto|].
  destruct (x =? c); [destruct (split c s) eqn:E; [exfalso; eapply split_nonempty; eauto | discriminate]|].
  destruct (split c s) as [|h' t] eqn:E; [inversion H; subst; exfalso; eapply split_nonempty; eauto|].
  inversion H; subst. f_equal. apply IH. reflexivity.
Qed.

Lemma map_trim_split_trim_right s : map trim (split sep (trim_right s)) = map trim (split sep s).
Proof.
  induction s as [|x s IH]; auto.
  destruct (x =? sep) eqn:X.
  - apply Z.eqb_eq in X. subst x. rewrite trim_right_nonspace by reflexivity. simpl. rewrite IH. reflexivity.
  - destruct (split_cons_other sep x s X) as (h & t & E1 & E2). rewrite E2.
    simpl trim_right. destruct (is_space x && is_nil (trim_right s)) eqn:B.
    + apply andb_true_iff in B. destruct B as [B1 B2]. destruct (trim_right s) eqn:T; [|discriminate].
      simpl in IH. rewrite E1 in IH. simpl in IH. inversion IH as [[I1 I2]].
      simpl. rewrite trim_space_cons by auto. rewrite <- I1. destruct t; [reflexivity | discriminate].
    + destruct (split_cons_other sep x (trim_right s) X) as (h' & t' & F1 & F2). rewrite F2.
      rewrite F1, E1 in IH. simpl in IH. inversion IH as [[I1 I2]]. simpl. rewrite I2. f_equal.
      destruct (is_space x) eqn:S.
      * rewrite !trim_space_cons; auto.
      * (* x is not a blank: the part starts with x, only its right end matters *)
        unfold trim. simpl. rewrite S.
        destruct t as [|t1 tt].
        -- (* last part: h = s and h' = trim_right s *)
           apply split_single in E1. subst h. destruct t'; [|discriminate].
           apply split_single in F1. subst h'. simpl. rewrite S. simpl. rewrite trim_right_idem. reflexivity.
        -- (* not the last part: untouched *)
           assert (h' = h); [|subst; reflexivity].
           clear -E1 F1 X. revert h h' t1 tt t' E1 F1.
           induction s as [|y s IHs]; intros; [simpl in E1; discriminate|].
           destruct (y =? sep) eqn:Y.
           ++ apply Z.eqb_eq in Y. subst y. rewrite trim_right_nonspace in F1 by reflexivity.
              simpl in E1, F1. rewrite ?Z.eqb_refl in E1, F1. inversion E1; inversion F1; subst. reflexivity.
           ++ destruct (split_cons_other sep y s Y) as (a & b & G1 & G2). rewrite G2 in E1. inversion E1; subst.
              simpl trim_right in F1.
              destruct (is_space y && is_nil (trim_right s)) eqn:B'.
              ** exfalso. apply andb_true_iff in B'. destruct B' as [_ B2]. destruct (trim_right s) eqn:T; [|discriminate].
                 (* trim_right s = [] means s has no separator, so split sep s is a singleton: contradiction with t1 :: tt *)
                 assert (mem sep s = false).
                 { clear -T. induction s as [|z s IH]; auto. simpl in T.
                   destruct (is_space z && is_nil (trim_right s)) eqn:Q; [|discriminate].
                   apply andb_true_iff in Q. destruct Q as [Q1 Q2]. destruct (trim_right s); [|discriminate].
                   simpl. rewrite IH by reflexivity. rewrite orb_false_r.
                   destruct (sep =? z) eqn:W; auto. apply Z.eqb_eq in W. subst z. discriminate. }
                 rewrite (split_nosep _ _ H) in G1. discriminate.
              ** destruct (split_cons_other sep y (trim_right s) Y) as (a' & b' & K1 & K2). rewrite K2 in F1.
                 inversion F1; subst. f_equal. eapply IHs; eauto.
Qed.

(* ================= the parser on texts that start with a kind ================= *)

Definition reason_part (r : bytes) : bytes :=
  match r with [] => [] | _ :: r' => normalise r' end.

Lemma trim_kind_app k x : (k < nkinds)%nat -> trim (ktext k ++ x) = ktext k ++ trim_right x.
Proof.
  intro Hk. destruct (kind_text_ok_l k Hk) as (_ & _ & _ & T & c & r & E & S).
  unfold trim. rewrite E. simpl trim_left. rewrite S. change (c :: r ++ x) with ((c :: r) ++ x). rewrite <- E.
  rewrite trim_right_app, T. destruct (trim_right x); simpl; auto. rewrite app_nil_r. reflexivity.
Qed.

Lemma kind_app_not_nil k x : (k < nkinds)%nat -> is_nil (ktext k ++ x) = false.
Proof. intro Hk. destruct (kind_text_ok_l k Hk) as (_ & _ & _ & _ & c & r & E & _). rewrite E. reflexivity. Qed.

Lemma deser_kind k : (k < nkinds)%nat -> deser_common (ktext k) = (true, Some k).
Proof. apply deser_table_total_l. Qed.

(* processErrorStrLine on "<kind>" / "<kind>:<rest>": the kind, and the rest with every part trimmed *)
Lemma parse_headed1 k r : (k < nkinds)%nat -> (r = [] \/ exists r', r = sep :: r') ->
  parse_line (ktext k ++ r) = Some (Sent k, reason_part r).
Proof.
  intros Hk Hr. unfold parse_line. rewrite trim_kind_app by auto. rewrite kind_app_not_nil by auto.
  destruct (kind_text_ok_l k Hk) as (_ & Ms & _ & _ & _).
  destruct Hr as [->|[r' ->]].
  - simpl trim_right. rewrite app_nil_r, (split_nosep _ _ Ms). simpl hd. rewrite deser_kind by auto. reflexivity.
  - rewrite trim_right_nonspace by reflexivity. rewrite (split_app_sep _ _ _ Ms). simpl hd. simpl tl.
    rewrite deser_kind by auto. unfold reason_part, normalise. rewrite map_trim_split_trim_right. reflexivity.
Qed.

Definition mtext (k : nat) (reason : bytes) : bytes :=
  if is_nil reason then ktext k else ktext k ++ sep :: 32 :: reason.

Lemma convert_sent k : convert_ctx (Sent k) = Sent k.
Proof. reflexivity. Qed.

Lemma marshal_sent k reason : marshal_line (Sent k, reason) = mtext k reason.
Proof.
  unfold marshal_line, convert_to_error, mtext, new. destruct reason; simpl is_nil; cbv iota; auto.
  rewrite errorf_some_eq. reflexivity.
Qed.

Lemma convert_sent_lib k reason : lib k (convert_to_error (Sent k, reason)).
Proof. unfold convert_to_error, new. destruct (is_nil reason); [constructor | apply errorf_lib; constructor]. Qed.

Lemma mtext_headed1 k reason : headed1 k (mtext k reason).
Proof.
  unfold mtext. destruct (is_nil reason).
  - exists []. rewrite app_nil_r. auto.
  - eexists. split; [reflexivity|]. right. eauto.
Qed.

Lemma headed_trim_not_nil k s : (k < nkinds)%nat -> headed k s -> is_nil (trim s) = false.
Proof. intros Hk (r & -> & _). rewrite trim_kind_app by auto. apply kind_app_not_nil; auto. Qed.

Lemma headed_not_nil k s : (k < nkinds)%nat -> headed k s -> is_nil s = false.
Proof. intros Hk (r & -> & _). apply kind_app_not_nil; auto. Qed.

(* the first line of a text that starts with a kind starts with that kind *)
Lemma split_headed k s : (k < nkinds)%nat -> headed k s ->
  exists l ls, split nl s = l :: ls /\ headed1 k l.
Proof.
  intros Hk (r & -> & Hr). destruct (kind_text_ok_l k Hk) as (_ & _ & Mn & _ & _).
  destruct (split_app_prefix nl (ktext k) r Mn) as (h & t & E1 & E2).
  exists (ktext k ++ h), t. split; auto. exists h. split; auto.
  destruct Hr as [->|(c & r' & -> & [-> | ->])].
  - simpl in E1. inversion E1. auto.
  - destruct (split_cons_other nl sep r' sep_nl) as (h' & t' & F1 & F2). rewrite F2 in E1. inversion E1. eauto.
  - simpl in E1. rewrite ?Z.eqb_refl in E1. inversion E1. auto.
Qed.

Lemma parse_lines_headed k s : (k < nkinds)%nat -> headed k s ->
  exists reason rest, parse_lines s = (Sent k, reason) :: rest.
Proof.
  intros Hk H. destruct (split_headed k s Hk H) as (l & ls & E & (r & -> & Hr)).
  unfold parse_lines. rewrite E. simpl. rewrite parse_headed1 by auto. eauto.
Qed.

Lemma marshal_lines_headed k reason rest : headed k (marshal_lines ((Sent k, reason) :: rest)).
Proof.
  unfold marshal_lines. simpl. rewrite marshal_sent. unfold mtext. destruct (is_nil reason).
  - exists ((nl :: nil) ++ concat (map (fun ml => marshal_line ml ++ [nl]) rest)). rewrite <- !app_assoc. split; auto.
    right. exists nl. eexists. split; [reflexivity | auto].
  - eexists. rewrite <- !app_assoc. split; [reflexivity|]. right. exists sep. eexists. split; [reflexivity | auto].
Qed.

(* ================= serialisation of what the library builds ================= *)

Lemma has_prefix_app a c x : has_prefix (a ++ [c]) (a ++ c :: x) = true.
Proof. induction a; simpl; rewrite Z.eqb_refl; auto. Qed.

Lemma type_of_chain_lib k w : lib k w -> forall desc r, desc = text w ++ sep :: r -> type_of_chain desc w = Sent k.
Proof.
  induction 1; intros desc r0 E; simpl; auto.
  simpl in E. rewrite <- app_assoc in E. simpl in E. rewrite E at 1. rewrite has_prefix_app.
  eapply IHlib. exact E.
Qed.

Lemma serialise_single k e r : (k < nkinds)%nat -> lib k e -> text e = ktext k ++ r ->
  mem nl (text e) = false -> serialise e = mtext k (reason_part r).
Proof.
  intros Hk L E M. unfold serialise, serialise_gen. rewrite contains_mem, M.
  assert (Hr : r = [] \/ exists r', r = sep :: r').
  { destruct (lib_headed1 _ _ L) as (r1 & E1 & Hr). rewrite E in E1. apply app_inv_head in E1. subst. auto. }
  rewrite E at 1. rewrite parse_headed1 by auto. rewrite marshal_sent.
  rewrite (headed_trim_not_nil k) by (auto; apply headed1_headed, mtext_headed1).
  inversion L; subst; simpl unwrap.
  - apply marshal_sent.
  - cbv iota beta. simpl text. erewrite type_of_chain_lib; eauto. apply marshal_sent.
Qed.

Lemma serialise_headed k e : (k < nkinds)%nat -> lib k e -> headed k (serialise e).
Proof.
  intros Hk L. pose proof (lib_headed1 _ _ L) as H1. destruct (mem nl (text e)) eqn:M.
  - unfold serialise, serialise_gen. rewrite contains_mem, M.
    destruct (parse_lines_headed k (text e) Hk (headed1_headed _ _ H1)) as (reason & rest & ->).
    rewrite (headed_trim_not_nil k) by (auto; apply marshal_lines_headed). apply marshal_lines_headed.
  - destruct H1 as (r & E & Hr). rewrite (serialise_single k e r); auto. apply headed1_headed, mtext_headed1.
Qed.

(* DeserialiseError on any text that starts with kind k: the result is (a join whose first member is) of kind k *)
Lemma deserialise_headed k s : (k < nkinds)%nat -> headed k s -> dres_is (deserialise s) (TK k) = true.
Proof.
  intros Hk H. unfold deserialise. rewrite (headed_not_nil k) by auto. rewrite contains_mem.
  destruct (mem nl s) eqn:M.
  - destruct (parse_lines_headed k s Hk H) as (reason & rest & ->).
    rewrite (headed_trim_not_nil k) by (auto; apply marshal_lines_headed).
    simpl. destruct (lib_exactly _ _ (convert_sent_lib k reason)) as (A & _). rewrite A, Nat.eqb_refl. reflexivity.
  - destruct H as (r & -> & Hr).
    assert (Hr' : r = [] \/ exists r', r = sep :: r').
    { destruct Hr as [->|(c & r' & -> & [-> | ->])]; eauto.
      rewrite mem_app in M. simpl in M. rewrite ?Z.eqb_refl, ?orb_true_r in M. discriminate. }
    rewrite parse_headed1 by auto. simpl.
    destruct (lib_exactly _ _ (convert_sent_lib k (reason_part r))) as (A & _). rewrite A. apply Nat.eqb_refl.
Qed.

Lemma roundtrip_kind_l e k : given e k -> dres_is (deserialise (serialise e)) (TK k) = true.
Proof. intro G. destruct (given_lib _ _ G) as (Hk & L). apply deserialise_headed; auto. apply serialise_headed; auto. Qed.

(* ================= the reason ================= *)

Lemma split_join_parts p ps : Forall (fun x => mem sep x = false) (p :: ps) ->
  split sep (join [sep; 32] (p :: ps)) = p :: map (cons 32) ps.
Proof.
  revert p. induction ps as [|q ps IH]; intros p F; inversion F as [|? ? Hp Hps]; subst.
  - simpl. apply split_nosep; auto.
  - change (join [sep; 32] (p :: q :: ps)) with (p ++ sep :: 32 :: join [sep; 32] (q :: ps)).
    rewrite split_app_sep by auto.
    destruct (split_cons_other sep 32 (join [sep; 32] (q :: ps)) eq_refl) as (h & t & E1 & E2).
    rewrite E2. rewrite (IH q Hps) in E1. inversion E1; subst. reflexivity.
Qed.

Lemma normalise_idem m : normalise (normalise m) = normalise m.
Proof.
  unfold normalise.
  destruct (split sep m) as [|p ps] eqn:E; [exfalso; eapply split_nonempty; eauto|].
  change (map trim (p :: ps)) with (trim p :: map trim ps). rewrite split_join_parts.
  - f_equal. simpl. rewrite trim_idem. f_equal. rewrite !map_map. apply map_ext. intro a.
    rewrite trim_space_cons by reflexivity. apply trim_idem.
  - change (trim p :: map trim ps) with (map trim (p :: ps)). rewrite <- E.
    eapply Forall_map'; [|apply split_segments_nosep]. intros a Ha. apply mem_trim; auto.
Qed.

Lemma normalise_space m : normalise (32 :: m) = normalise m.
Proof. unfold normalise. rewrite map_trim_split_space; auto. Qed.

Lemma normalise_mem c m : mem c [sep; 32] = false -> mem c m = false -> mem c (normalise m) = false.
Proof.
  intros S M. unfold normalise. apply mem_join; auto.
  eapply Forall_map'; [|apply (mem_split c sep m M)]. intros a Ha. apply mem_trim; auto.
Qed.

Lemma parse_mtext k R : (k < nkinds)%nat -> normalise R = R -> parse_line (mtext k R) = Some (Sent k, R).
Proof.
  intros Hk N. unfold mtext. destruct R as [|c R]; simpl is_nil; cbv iota.
  - rewrite <- (app_nil_r (ktext k)). rewrite parse_headed1; auto.
  - rewrite parse_headed1 by eauto. unfold reason_part. rewrite normalise_space, N. reflexivity.
Qed.

Lemma reason_part_normal r : normalise (reason_part r) = reason_part r.
Proof. destruct r; simpl; auto. apply normalise_idem. Qed.

Lemma reason_part_nl r : mem nl r = false -> mem nl (reason_part r) = false.
Proof.
  destruct r; simpl; auto. intro M. apply orb_false_iff in M. destruct M. apply normalise_mem; auto.
Qed.

Lemma mtext_nl k R : (k < nkinds)%nat -> mem nl R = false -> mem nl (mtext k R) = false.
Proof.
  intros Hk M. destruct (kind_text_ok_l k Hk) as (_ & _ & Mn & _ & _). unfold mtext.
  destruct (is_nil R); auto. rewrite mem_app, Mn. simpl. rewrite M. reflexivity.
Qed.

Lemma kind_of_exactly e k : (k < nkinds)%nat -> exactly e k -> kind_of e = [k].
Proof.
  intros Hk (A & _ & _). unfold kind_of.
  rewrite (filter_ext _ (fun k' => Nat.eqb k k')) by (intro; apply A).
  clear A. revert Hk. generalize nkinds. intros n Hk.
  assert (Sq : seq 0 n = seq 0 k ++ k :: seq (S k) (n - S k)).
  { replace n with (k + S (n - S k))%nat at 1 by lia. rewrite seq_app. reflexivity. }
  rewrite Sq. rewrite filter_app. simpl. rewrite Nat.eqb_refl.
  assert (Z1 : forall a l, (forall x, In x l -> x <> a) -> filter (fun k' => Nat.eqb a k') l = []).
  { intros a l. induction l as [|x l IH]; simpl; auto. intro H.
    destruct (Nat.eqb a x) eqn:Q; [apply Nat.eqb_eq in Q; exfalso; apply (H x); auto|]. apply IH. intros; apply H; auto. }
  rewrite !Z1; auto; intros x I; apply in_seq in I; lia.
Qed.

(* single error, single-line text: the round trip yields one error of exactly that kind whose text is
   "<kind>: <normalised reason>" (or "<kind>") and whose reason is the normalised reason *)
Lemma roundtrip_single_l e k r : given e k -> text e = ktext k ++ r -> mem nl (text e) = false ->
  exists d, deserialise (serialise e) = DOne d /\ exactly d k /\ text d = mtext k (reason_part r) /\
            reason_of_text (text d) = reason_part r /\ dres_kinds (deserialise (serialise e)) = [[k]].
Proof.
  intros G E M. destruct (given_lib _ _ G) as (Hk & L).
  rewrite (serialise_single k e r Hk L E M).
  assert (Mr : mem nl r = false) by (rewrite E, mem_app in M; apply orb_false_iff in M; tauto).
  pose proof (mtext_nl k _ Hk (reason_part_nl r Mr)) as Mt.
  pose proof (parse_mtext k _ Hk (reason_part_normal r)) as P.
  exists (convert_to_error (Sent k, reason_part r)).
  assert (T : text (convert_to_error (Sent k, reason_part r)) = mtext k (reason_part r)) by apply marshal_sent.
  assert (D : deserialise (mtext k (reason_part r)) = DOne (convert_to_error (Sent k, reason_part r))).
  { unfold deserialise. rewrite (headed_not_nil k) by (auto; apply headed1_headed, mtext_headed1).
    rewrite contains_mem, Mt, P. reflexivity. }
  pose proof (lib_exactly _ _ (convert_sent_lib k (reason_part r))) as X.
  repeat split; auto; try apply X.
  - rewrite T. unfold reason_of_text. rewrite (headed_not_nil k) by (auto; apply headed1_headed, mtext_headed1).
    rewrite contains_mem, Mt, P. reflexivity.
  - rewrite D. simpl. rewrite (kind_of_exactly _ k); auto.
Qed.

(* the headline case: New(kind, m) with a single-line m *)
Lemma roundtrip_reason_new_l k m : (k < nkinds)%nat -> mem nl m = false ->
  exists d, deserialise (serialise (new (Some (Sent k)) m)) = DOne d /\ exactly d k /\
            reason_of_text (text d) = normalise m.
Proof.
  intros Hk M. destruct (kind_text_ok_l k Hk) as (_ & _ & Mn & _ & _).
  assert (G : given (new (Some (Sent k)) m) k) by (constructor; apply A_given; constructor; auto).
  assert (E : text (new (Some (Sent k)) m) = ktext k ++ sep :: 32 :: m) by (unfold new; rewrite errorf_some_eq; reflexivity).
  destruct (roundtrip_single_l _ k _ G E) as (d & D & X & _ & R & _).
  { rewrite E, mem_app, Mn. simpl. rewrite M. reflexivity. }
  exists d. repeat split; auto; try apply X. rewrite R. simpl. apply normalise_space.
Qed.

(* the code before fixes/C11-nested-reason.patch: the reason of a nested error is duplicated (defect D18) *)
Lemma unfixed_nested_reason_refuted_l :
  exists k m1 m2, (k < nkinds)%nat /\
    let e := new (Some (new (Some (Sent k)) m1)) m2 in
    reason_of_text (dres_text (deserialise (serialise_gen false e))) <> reason_part (skipn (length (ktext k)) (text e))
    /\ reason_of_text (dres_text (deserialise (serialise_gen true e))) = reason_part (skipn (length (ktext k)) (text e)).
Proof.
  exists ErrInvalid, [102;111;111], [98;97;114]. split; [vm_compute; lia|]. vm_compute. split; [discriminate | reflexivity].
Qed.

(* ================= joins ================= *)

Definition R_of (e : err) (k : nat) : bytes := reason_part (skipn (length (ktext k)) (text e)).
Definition jline (e : err) (k : nat) : bytes := marshal_line (e, R_of e k).

Lemma skipn_app_len {A} (a b : list A) : skipn (length a) (a ++ b) = b.
Proof. induction a; simpl; auto. Qed.

Lemma parse_text_lib k e : (k < nkinds)%nat -> lib k e -> parse_line (text e) = Some (Sent k, R_of e k).
Proof.
  intros Hk L. destruct (lib_headed1 _ _ L) as (r & E & Hr). unfold R_of. rewrite E, skipn_app_len.
  apply parse_headed1; auto.
Qed.

Lemma jline_ok k e : (k < nkinds)%nat -> lib k e -> mem nl (text e) = false ->
  headed1 k (jline e k) /\ mem nl (jline e k) = false.
Proof.
  intros Hk L M. destruct (lib_headed1 _ _ L) as (r & E & Hr).
  assert (Mr : mem nl r = false) by (rewrite E, mem_app in M; apply orb_false_iff in M; tauto).
  assert (HR : R_of e k = reason_part r) by (unfold R_of; rewrite E, skipn_app_len; reflexivity).
  unfold jline, marshal_line, convert_to_error, new. rewrite HR.
  destruct (is_nil (reason_part r)) eqn:N.
  - split; auto. exists r. auto.
  - rewrite errorf_some_eq, (lib_convert _ _ L). simpl text. split.
    + rewrite E. destruct Hr as [->|[r' ->]].
      * rewrite app_nil_r. eexists. split; [reflexivity|]. eauto.
      * rewrite <- app_assoc. eexists. split; [reflexivity|]. simpl. eauto.
    + rewrite mem_app, M. simpl. apply reason_part_nl; auto.
Qed.

Definition good (p : err * nat) : Prop := (snd p < nkinds)%nat /\ lib (snd p) (fst p) /\ mem nl (text (fst p)) = false.

Lemma split_join_lines ls : ls <> [] -> Forall (fun l => mem nl l = false) ls -> split nl (join [nl] ls) = ls.
Proof.
  intros NE F. induction F as [|a ls Ha F IH]; [congruence|].
  destruct ls as [|b ls]; [simpl; apply split_nosep; auto|].
  change (join [nl] (a :: b :: ls)) with (a ++ nl :: join [nl] (b :: ls)).
  rewrite split_app_sep by auto. rewrite IH by discriminate. reflexivity.
Qed.

Lemma split_concat_lines ls : Forall (fun l => mem nl l = false) ls ->
  split nl (concat (map (fun l => l ++ [nl]) ls)) = ls ++ [[]].
Proof.
  induction 1 as [|a ls Ha F IH]; [reflexivity|].
  simpl. rewrite <- app_assoc. simpl. rewrite split_app_sep by auto. rewrite IH. reflexivity.
Qed.

Lemma filter_map_app {A B} (f : A -> option B) l1 l2 : filter_map f (l1 ++ l2) = filter_map f l1 ++ filter_map f l2.
Proof. induction l1; simpl; auto. destruct (f a); simpl; congruence. Qed.

Lemma parse_nil : parse_line [] = None. Proof. reflexivity. Qed.

(* deserialising lines that each start with a kind: one error per line, of exactly that kind *)
Lemma parse_good_lines (lks : list (bytes * nat)) :
  Forall (fun p => (snd p < nkinds)%nat /\ headed1 (snd p) (fst p)) lks ->
  exists subs, filter_map parse_line (map fst lks) = subs /\
               map (fun ml => kind_of (convert_to_error ml)) subs = map (fun p => [snd p]) lks /\
               (forall l k rest, lks = (l, k) :: rest -> exists R rest', subs = (Sent k, R) :: rest').
Proof.
  induction 1 as [|[l k] lks (Hk & (r & E & Hr)) F (subs & S1 & S2 & S3)].
  - exists []. repeat split; auto. discriminate.
  - simpl in *. subst l. rewrite parse_headed1 by auto. eexists. split; [reflexivity|]. split.
    + simpl. rewrite S1, S2. f_equal. apply kind_of_exactly; auto. apply lib_exactly, convert_sent_lib.
    + intros l0 k0 rest0 Q. inversion Q; subst. eauto.
Qed.

Lemma deser_lines (lks : list (bytes * nat)) : lks <> [] ->
  Forall (fun p => (snd p < nkinds)%nat /\ headed1 (snd p) (fst p)) lks ->
  Forall (fun l => mem nl l = false) (map fst lks) ->
  dres_kinds (deserialise (concat (map (fun l => l ++ [nl]) (map fst lks)))) = map (fun p => [snd p]) lks.
Proof.
  intros NE F M. destruct lks as [|[l k] rest]; [congruence|]. clear NE.
  destruct (parse_good_lines _ F) as (subs & S1 & S2 & S3). destruct (S3 l k rest eq_refl) as (R & rest' & ->).
  inversion F as [|? ? (Hk & H1) _]; subst. simpl in Hk, H1.
  unfold deserialise.
  assert (HD : headed k (concat (map (fun l0 => l0 ++ [nl]) (map fst ((l, k) :: rest))))).
  { simpl. destruct H1 as (r & -> & Hr). rewrite <- !app_assoc. eexists. split; [reflexivity|].
    destruct Hr as [->|[r' ->]]; right; simpl; eauto. }
  rewrite (headed_not_nil k) by auto. rewrite contains_mem.
  assert (mem nl (concat (map (fun l0 => l0 ++ [nl]) (map fst ((l, k) :: rest)))) = true) as ->.
  { simpl. rewrite !mem_app. simpl. rewrite ?Z.eqb_refl, ?orb_true_r. reflexivity. }
  unfold parse_lines. rewrite split_concat_lines by auto. rewrite filter_map_app, S1.
  change (filter_map parse_line [[]]) with (@nil mline). rewrite !app_nil_r. rewrite (headed_trim_not_nil k) by (auto; apply marshal_lines_headed).
  simpl dres_kinds. rewrite map_map. exact S2.
Qed.

Lemma deser_line l k : (k < nkinds)%nat -> headed1 k l -> mem nl l = false -> dres_kinds (deserialise l) = [[k]].
Proof.
  intros Hk (r & -> & Hr) M. unfold deserialise. rewrite kind_app_not_nil by auto. rewrite contains_mem, M.
  rewrite parse_headed1 by auto. simpl. f_equal. apply kind_of_exactly; auto. apply lib_exactly, convert_sent_lib.
Qed.

Lemma lib_not_empty k e : (k < nkinds)%nat -> lib k e -> is_empty_err e = false.
Proof. intros Hk L. unfold is_empty_err. apply (headed_trim_not_nil k); auto. apply headed1_headed, lib_headed1; auto. Qed.

Lemma filter_good (ps : list (err * nat)) : Forall good ps ->
  filter (fun e => negb (is_empty_err e)) (map fst ps) = map fst ps.
Proof.
  induction 1 as [|[e k] ps (Hk & L & _) F IH]; simpl; auto. simpl in *. rewrite (lib_not_empty k e), IH; auto.
Qed.

Lemma parse_good (ps : list (err * nat)) : Forall good ps ->
  filter_map parse_line (map text (map fst ps)) = map (fun p => (Sent (snd p), R_of (fst p) (snd p))) ps.
Proof.
  induction 1 as [|[e k] ps (Hk & L & _) F IH]; simpl; auto. simpl in *. rewrite (parse_text_lib k e), IH; auto.
Qed.

Lemma assign_good (ps : list (err * nat)) :
  assign_types (map (fun p => (Sent (snd p), R_of (fst p) (snd p))) ps) (map fst ps) =
  map (fun p => (fst p, R_of (fst p) (snd p))) ps.
Proof. induction ps as [|[e k] ps IH]; simpl; auto. rewrite IH. reflexivity. Qed.

Lemma lks_good (qs : list (err * nat)) : Forall good qs ->
  Forall (fun p : bytes * nat => (snd p < nkinds)%nat /\ headed1 (snd p) (fst p))
         (map (fun p => (jline (fst p) (snd p), snd p)) qs) /\
  Forall (fun l => mem nl l = false) (map fst (map (fun p => (jline (fst p) (snd p), snd p)) qs)).
Proof.
  induction 1 as [|[e k] ps (Hk & L & M) F [IH1 IH2]]; simpl; split; constructor; auto; simpl in *.
  - split; auto. apply jline_ok; auto.
  - apply jline_ok; auto.
Qed.

(* joins of 1..n constructed errors with single-line texts: the round trip yields one error per joined error, in
   order, each of exactly the kind the corresponding error was given *)
Lemma roundtrip_join_kinds_l (ps : list (err * nat)) : ps <> [] ->
  Forall (fun p => given (fst p) (snd p) /\ mem nl (text (fst p)) = false) ps ->
  dres_kinds (deserialise (serialise_join (map fst ps))) = map (fun p => [snd p]) ps.
Proof.
  intros NE F0.
  assert (F : Forall good ps).
  { eapply Forall_impl; [|exact F0]. intros [e k] (G & M). destruct (given_lib _ _ G). split; auto. }
  clear F0. unfold serialise_join. rewrite (filter_good _ F).
  assert (NL : Forall (fun l => mem nl l = false) (map text (map fst ps))).
  { clear NE. induction F as [|[e k] ps (_ & _ & M) F IH]; simpl; constructor; auto. }
  destruct ps as [|[e1 k1] [|p2 ps]]; [congruence| |].
  - (* a join of one error: its text has no line separator *)
    inversion F as [|? ? (Hk & L & M) _]; subst. simpl in Hk, L, M. simpl map. simpl join.
    rewrite contains_mem, M. rewrite (parse_text_lib k1 e1) by auto.
    destruct (jline_ok k1 e1 Hk L M) as (H1 & Mj).
    rewrite marshal_sent. rewrite (headed_trim_not_nil k1) by (auto; apply headed1_headed, mtext_headed1).
    change (marshal_line (e1, R_of e1 k1)) with (jline e1 k1). apply deser_line; auto.
  - (* two or more: one line each *)
    set (qs := (e1, k1) :: p2 :: ps) in *.
    assert (C : contains (join [nl] (map text (map fst qs))) [nl] = true).
    { rewrite contains_mem. unfold qs. simpl map.
      change (join [nl] (text e1 :: text (fst p2) :: map text (map fst ps))) with
        (text e1 ++ nl :: join [nl] (text (fst p2) :: map text (map fst ps))).
      rewrite mem_app. simpl. rewrite ?Z.eqb_refl, ?orb_true_r. reflexivity. }
    rewrite C. unfold parse_lines. rewrite split_join_lines by (auto; unfold qs; discriminate).
    rewrite (parse_good _ F), assign_good.
    assert (HD : exists R rest, map (fun p => (Sent (snd p), R_of (fst p) (snd p))) qs = (Sent k1, R) :: rest)
      by (unfold qs; simpl; eauto).
    destruct HD as (R & rest & HD). rewrite HD.
    inversion F as [|? ? (Hk & _) _]; subst. simpl in Hk.
    rewrite (headed_trim_not_nil k1) by (auto; apply marshal_lines_headed).
    unfold marshal_lines.
    set (lks := map (fun p => (jline (fst p) (snd p), snd p)) qs).
    replace (map (fun ml => marshal_line ml ++ [nl]) (map (fun p => (fst p, R_of (fst p) (snd p))) qs))
      with (map (fun l => l ++ [nl]) (map fst lks)) by (unfold lks; rewrite !map_map; reflexivity).
    replace (map (fun p => [snd p]) qs) with (map (fun p : bytes * nat => [snd p]) lks)
      by (unfold lks; rewrite map_map; reflexivity).
    apply deser_lines.
    + unfold lks, qs. discriminate.
    + apply lks_good; auto.
    + apply lks_good; auto.
Qed.

(* ================= converters ================= *)

Lemma convert_ctx_idem e : convert_ctx (convert_ctx e) = convert_ctx e.
Proof.
  unfold convert_ctx. destruct (is e TCanceled) eqn:C; [reflexivity|].
  destruct (is e TDeadline) eqn:D; [reflexivity|]. rewrite C, D. reflexivity.
Qed.

Lemma foreign_no_kind e i : chain e = true -> is e (TF i) = true -> forall k, is e (TK k) = false.
Proof. induction e; simpl; try discriminate; auto. Qed.

Lemma chain_convert e : chain e = true -> chain (convert_ctx e) = true.
Proof. unfold convert_ctx. destruct (is e TCanceled); auto. destruct (is e TDeadline); auto. Qed.

Lemma wrap_sent_lib k c m : any (Some (convert_ctx c)) ctx_kinds = false ->
  lib k (wrap_error (Some (Sent k)) (Some c) m).
Proof. intro H. unfold wrap_error. simpl option_map. rewrite H. apply errorf_lib. constructor. Qed.

Lemma ctx_cause_convert c k : ctx_cause c k ->
  exactly (convert_ctx c) k /\ any (Some (convert_ctx c)) ctx_kinds = true /\ (k < nkinds)%nat.
Proof.
  intros [H|[G Ck]].
  - destruct (ctx_kind_cases _ _ H) as (_ & E). destruct (ctx_kind_lt _ _ H) as (Hk & Ck).
    rewrite E, any_sent_ctx. split; [apply lib_exactly; constructor | auto].
  - destruct (given_lib _ _ G) as (Hk & L). rewrite (lib_convert _ _ L), (any_lib_ctx _ _ L).
    split; [apply lib_exactly; auto | auto].
Qed.

(* the rule-list converters (ConvertFileSystemError, ConvertProcessError), whatever the rule predicates are *)
Lemma convert_rules_l rs e :
  (forall k, ctx_cause e k -> exactly (convert_rules rs e) k) /\
  (forall k m, any (Some (convert_ctx e)) ctx_kinds = false -> first_rule rs (convert_ctx e) = Some (k, m) ->
               exactly (convert_rules rs e) k /\ is_common (Some (convert_rules rs e)) = is_common (Some (Sent k))) /\
  (any (Some (convert_ctx e)) ctx_kinds = false -> first_rule rs (convert_ctx e) = None ->
               convert_rules rs e = convert_ctx e).
Proof.
  unfold convert_rules. split; [|split].
  - intros k H. destruct (ctx_cause_convert _ _ H) as (X & A & _). rewrite A. apply X.
  - intros k m H H0. split.
    + rewrite H, H0. apply lib_exactly, wrap_sent_lib. rewrite convert_ctx_idem. auto.
    + rewrite H, H0.
      assert (L : lib k (wrap_error (Some (Sent k)) (Some (convert_ctx e)) m)) by (apply wrap_sent_lib; rewrite convert_ctx_idem; auto).
      destruct (lib_exactly _ _ L) as (A & _). unfold is_common, any. rewrite !existsb_map'.
      apply existsb_ext'. intro x. rewrite A. simpl. rewrite orb_false_r. reflexivity.
  - intros H H0. rewrite H, H0. reflexivity.
Qed.

Lemma eof_not_ctx : is_ctx_kind ErrEOF = false /\ (ErrEOF < nkinds)%nat /\
  Nat.eqb ErrCancelled ErrEOF = false /\ Nat.eqb ErrTimeout ErrEOF = false.
Proof. vm_compute. repeat split; lia. Qed.

Definition io_targets : list target := [TF io_EOF; TF io_ErrUnexpectedEOF].

Lemma any_foreign_no_kind n ts : chain n = true -> (forall t, In t ts -> exists i, t = TF i) -> any (Some n) ts = true ->
  forall k, is n (TK k) = false.
Proof.
  intros Ch F H. simpl in H. apply existsb_exists in H. destruct H as (t & I & H).
  destruct (F t I) as (i & ->). eapply foreign_no_kind; eauto.
Qed.

Lemma io_targets_foreign : forall t, In t io_targets -> exists i, t = TF i.
Proof. intros t [<-|[<-|[]]]; eauto. Qed.

(* ConvertIOError: its result is a fixed point (converting again changes nothing); a context error becomes exactly
   cancelled / timeout; io.EOF / io.ErrUnexpectedEOF (bare or wrapped) become exactly ErrEOF *)
Lemma convert_io_l e : chain e = true ->
  convert_io (convert_io e) = convert_io e /\
  (forall k, ctx_kind_of e = Some k -> convert_io e = Sent k) /\
  (ctx_kind_of e = None -> any (Some e) io_targets = true -> exactly (convert_io e) ErrEOF).
Proof.
  intro Ch. destruct eof_not_ctx as (E1 & E2 & E3 & E4).
  assert (EOFCASE : forall n, chain n = true -> convert_ctx n = n -> any (Some n) [TK ErrEOF] = false -> any (Some n) io_targets = true ->
                    lib ErrEOF (wrap_error (Some (Sent ErrEOF)) (Some n) [])).
  { intros n Chn Cn A B. apply wrap_sent_lib. rewrite Cn. pose proof (any_foreign_no_kind n _ Chn io_targets_foreign B) as N.
    simpl. rewrite !N. reflexivity. }
  split; [|split].
  - assert (R : convert_io e = if any (Some (convert_ctx e)) [TK ErrEOF] then convert_ctx e
                               else if any (Some (convert_ctx e)) io_targets
                                    then wrap_error (Some (Sent ErrEOF)) (Some (convert_ctx e)) [] else convert_ctx e)
      by reflexivity.
    rewrite R. clear R.
    destruct (any (Some (convert_ctx e)) [TK ErrEOF]) eqn:A.
    + unfold convert_io. rewrite convert_ctx_idem, A. reflexivity.
    + destruct (any (Some (convert_ctx e)) io_targets) eqn:B.
      * pose proof (EOFCASE _ (chain_convert e Ch) (convert_ctx_idem e) A B) as L. unfold convert_io. rewrite (lib_convert _ _ L).
        destruct (lib_exactly _ _ L) as (X & _).
        assert (any (Some (wrap_error (Some (Sent ErrEOF)) (Some (convert_ctx e)) [])) [TK ErrEOF] = true) as ->
          by (cbn [any existsb]; rewrite X, Nat.eqb_refl; reflexivity).
        reflexivity.
      * unfold convert_io. fold io_targets. rewrite convert_ctx_idem, A, B. reflexivity.
  - intros k H. destruct (ctx_kind_cases _ _ H) as (Hk & C). unfold convert_io. rewrite C. simpl.
    rewrite !orb_false_r. destruct Hk as [-> | ->]; rewrite ?E3, ?E4; reflexivity.
  - intros H B. assert (C : convert_ctx e = e).
    { unfold ctx_kind_of in H. unfold convert_ctx. destruct (is e TCanceled); [discriminate|].
      destruct (is e TDeadline); [discriminate | reflexivity]. }
    pose proof (any_foreign_no_kind e _ Ch io_targets_foreign B) as N.
    unfold convert_io. fold io_targets. rewrite C.
    assert (A : any (Some e) [TK ErrEOF] = false) by (simpl; rewrite N; reflexivity).
    rewrite A, B. apply lib_exactly, EOFCASE; auto.
Qed.
