(* C11 — executable model of utils/commonerrors (errors.go, serialisation.go) and of the shape of the three
   error converters.  Definitions only; proofs are in Proofs.v.  The sentinel table, the argument list of
   IsCommonError, the ORDERED case list of deserialiseCommonError, the two separators and the format literal of Errorf
   come from Gen.v, which translator-c11/cmd/errkinds2coq regenerates from the source on every run.
   The model is of the code AFTER fixes/C11-nested-reason.patch ([serialise] = [serialise_gen true]); the code before
   the patch is [serialise_gen false]. *)
From Coq Require Import List ZArith Bool.
Import ListNotations.
From GU Require Import C11.Gen C11.Bytes.
Local Open Scope Z_scope.

(* ---------- error values, as far as errors.Is / Error() / Unwrap() can see them ---------- *)

(* [Sent k]: the k-th sentinel of errors.go:18-52 (pointer identity = index).  [CtxCanceled]/[CtxDeadline]:
   context.Canceled / context.DeadlineExceeded.  [Foreign i m]: a comparable error value of another package
   (io.EOF, os.ErrNotExist, ...), identity [i], text [m].  [Opaque m]: errors.New(m) allocated somewhere else
   (equal to nothing).  [Wrap m inner]: *fmt.wrapError{msg: m, err: inner} (fmt.Errorf with one %w).
   [Multi m a b]: an error with text m that wraps BOTH a and b (Unwrap() []error): fmt.Errorf with two %w, or
   errors.Join(a, b) — a composite that can be of a library kind and a context error at the same time. *)
Inductive err :=
| Sent (k : nat)
| CtxCanceled
| CtxDeadline
| Foreign (i : nat) (m : bytes)
| Opaque (m : bytes)
| Wrap (m : bytes) (inner : err)
| Multi (m : bytes) (a b : err).

Inductive target := TK (k : nat) | TCanceled | TDeadline | TF (i : nat).

Definition same (e : err) (t : target) : bool :=
  match e, t with
  | Sent a, TK b => Nat.eqb a b
  | CtxCanceled, TCanceled => true
  | CtxDeadline, TDeadline => true
  | Foreign a _, TF b => Nat.eqb a b
  | _, _ => false
  end.

(* errors.Is(e, t) for a comparable target without Is method *)
Fixpoint is (e : err) (t : target) : bool :=
  same e t || match e with Wrap _ i => is i t | Multi _ a b => is a t || is b t | _ => false end.

(* no composite inside: a single Unwrap chain *)
Fixpoint chain (e : err) : bool :=
  match e with Wrap _ i => chain i | Multi _ _ _ => false | _ => true end.

(* errors.go:64 Any(target, errs...) = exists e in errs, errors.Is(e, target) || errors.Is(target, e); with sentinel
   [errs] the first disjunct is subsumed by the second.  [None] = nil. *)
Definition any (e : option err) (ts : list target) : bool :=
  match e with None => false | Some e => existsb (is e) ts end.

Definition ktext (k : nat) : bytes := nth k sentinel_texts [].
Definition nkinds : nat := length sentinel_texts.
Definition sep : Z := type_reason_separator.
Definition nl : Z := multiple_error_separator.

Definition canceled_text : bytes := [99;111;110;116;101;120;116;32;99;97;110;99;101;108;101;100]. (* "context canceled" *)
Definition deadline_text : bytes :=
  [99;111;110;116;101;120;116;32;100;101;97;100;108;105;110;101;32;101;120;99;101;101;100;101;100]. (* "context deadline exceeded" *)

(* Error() *)
Definition text (e : err) : bytes :=
  match e with
  | Sent k => ktext k
  | CtxCanceled => canceled_text
  | CtxDeadline => deadline_text
  | Foreign _ m => m
  | Opaque m => m
  | Wrap m _ => m
  | Multi m _ _ => m
  end.

Definition unwrap (e : err) : option err := match e with Wrap _ i => Some i | _ => None end.

(* fmt.Sprintf / fmt.Errorf restricted to the verbs %w and %v applied to strings / errors (arguments given by their text) *)
Fixpoint fmt_subst (f : bytes) (args : list bytes) {struct f} : bytes :=
  match f with
  | [] => []
  | c :: tl =>
      if c =? 37 then
        match tl with
        | v :: r =>
            if (v =? 119) || (v =? 118) then
              match args with
              | a :: args' => a ++ fmt_subst r args'
              | [] => fmt_subst r []
              end
            else c :: fmt_subst tl args
        | [] => [c]
        end
      else c :: fmt_subst tl args
  end.

(* ---------- constructors (errors.go:190-340) ---------- *)

(* errors.go:191 ConvertContextError *)
Definition convert_ctx (e : err) : err :=
  if is e TCanceled then Sent ErrCancelled
  else if is e TDeadline then Sent ErrTimeout
  else e.

(* errors.go:271 Errorf(targetErr, format, args...) with the message already rendered:
   fmt.Errorf("%w%v %v", tErr, ":", msg); the result wraps tErr iff the format has a %w. *)
Definition errorf (t : option err) (msg : bytes) : err :=
  let tErr := match t with None => Sent ErrUnknown | Some e => convert_ctx e end in
  let m := fmt_subst errorf_format [text tErr; [sep]; msg] in
  if contains errorf_format [37; 119] then Wrap m tErr else Opaque m.

(* errors.go:333 New *)
Definition new (t : option err) (msg : bytes) : err := errorf t msg.

Definition ctx_kinds : list target := [TK ErrTimeout; TK ErrCancelled].

(* errors.go:286 WrapError *)
Definition wrap_error (t orig : option err) (msg : bytes) : err :=
  let tErr := match t with None => Sent ErrUnknown | Some e => e end in
  let origErr := option_map convert_ctx orig in
  let tErr := if any origErr ctx_kinds then match origErr with Some o => o | None => tErr end else tErr in
  match orig with
  | None => new (Some tErr) msg
  | Some o => errorf (Some tErr) (fmt_subst [37;118;37;118;32;37;118] [msg; [sep]; text o])
  end.

(* errors.go:338 Newf without arguments = WrapErrorf(t, nil, msg) = WrapError(t, nil, msg) *)
Definition newf (t : option err) (msg : bytes) : err := wrap_error t None msg.

(* errors.go:59 IsCommonError *)
Definition is_common (e : option err) : bool := any e (map TK is_common_args).

(* errors.go:303 WrapIfNotCommonError *)
Definition wrap_if_not_common (t orig : option err) (msg : bytes) : err :=
  if any (option_map convert_ctx t) ctx_kinds then wrap_error t orig msg
  else if is_common orig then new orig msg
  else wrap_error t orig msg.

(* ---------- the text form and its parser (errors.go:85-188, serialisation.go) ---------- *)

(* errors.go:91 CorrespondTo(sentinel k, s): the SENTINEL's text contains s (case-insensitively) *)
Definition correspond_to (k : nat) (s : bytes) : bool :=
  let desc := lower (ktext k) in
  let d := lower s in
  beq desc d || contains desc d.

Fixpoint run_deser_cases (cs : list deser_case) (s : bytes) : bool * option nat :=
  match cs with
  | [] => (false, Some deser_default)
  | DEmpty :: r => if is_nil s then (true, None) else run_deser_cases r s
  | DExact t ret :: r => if beq s (ktext t) then (true, Some ret) else run_deser_cases r s
  | DCorr t ret :: r => if correspond_to t s then (true, Some ret) else run_deser_cases r s
  end.

(* errors.go:117 deserialiseCommonError *)
Definition deser_common (s : bytes) : bool * option nat := run_deser_cases deser_cases (trim s).

(* marshallingError{ErrorType, Reason}; ErrorType is never nil on the paths modelled *)
Definition mline := (err * bytes)%type.

(* serialisation.go:211 processErrorStrLine; None = nil *)
Definition parse_line (s : bytes) : option mline :=
  let s := trim s in
  if is_nil s then None
  else
    let elems := split sep s in
    let e0 := hd [] elems in
    let ty := match deser_common e0 with
              | (true, Some k) => Sent k
              | _ => Opaque (trim e0)
              end in
    Some (ty, join [sep; 32] (map trim (tl elems))).

(* serialisation.go:62 ConvertToError *)
Definition convert_to_error (ml : mline) : err :=
  let '(ty, reason) := ml in
  if is_nil reason then ty else new (Some ty) reason.

(* serialisation.go:234 serialiseMarshallingError = marshallingError.String/Error/MarshalText *)
Definition marshal_line (ml : mline) : bytes := text (convert_to_error ml).

(* multiplemarshallingError.MarshalText :102 *)
Definition marshal_lines (subs : list mline) : bytes := concat (map (fun ml => marshal_line ml ++ [nl]) subs).

(* processErrorStr :167 on a text that contains the line separator *)
Definition parse_lines (s : bytes) : list mline := filter_map parse_line (split nl s).

(* the %T of the error value, for the "no description" message of processError :191 *)
Definition go_type_name (e : err) : bytes :=
  match e with
  | Wrap _ _ => [42;102;109;116;46;119;114;97;112;69;114;114;111;114] (* *fmt.wrapError *)
  | CtxCanceled | CtxDeadline | Foreign _ _ => [63] (* not needed: their texts are never empty *)
  | _ => [42;101;114;114;111;114;115;46;101;114;114;111;114;83;116;114;105;110;103] (* *errors.errorString *)
  end.

Definition no_description (tname : bytes) : bytes :=
  text (newf (Some (Sent ErrUnknown))
     ([101;114;114;111;114;32;96] ++ tname ++
      [96;32;119;105;116;104;32;110;111;32;100;101;115;99;114;105;112;116;105;111;110;32;114;101;116;117;114;110;101;100])).
      (* "error `" T "` with no description returned" *)

(* errorTypeOfWrappingChain (added by fixes/C11-nested-reason.patch) *)
Fixpoint type_of_chain (desc : bytes) (w : err) : err :=
  match w with
  | Wrap _ inner => if has_prefix (text inner ++ [sep]) desc then type_of_chain desc inner else w
  | _ => w
  end.

(* serialisation.go:246 SerialiseError = processError :184 + MarshalText, for a non-nil error that is not a join.
   [fixed = false]: the code before the patch (the direct Unwrap() target becomes the error type). *)
Definition serialise_gen (fixed : bool) (e : err) : bytes :=
  let s := text e in
  if contains s [nl] then
    let subs := parse_lines s in
    if is_nil (trim (marshal_lines subs)) then no_description (go_type_name e)
    else marshal_lines subs (* SetWrappedError of a multiple error ignores a target without Unwrap() []error *)
  else
    match parse_line s with
    | None => no_description (go_type_name e)
    | Some (ty, reason) =>
        if is_nil (trim (marshal_line (ty, reason))) then no_description (go_type_name e)
        else
          let ty' := match unwrap e with
                     | Some w => if fixed then type_of_chain s w else w
                     | None => ty
                     end in
          marshal_line (ty', reason)
    end.

Definition serialise := serialise_gen true.

(* multiplemarshallingError.SetWrappedError :148 — sub-error i takes the i-th non-empty joined error as its type *)
Fixpoint assign_types (subs : list mline) (es : list err) : list mline :=
  match subs, es with
  | (_, r) :: ss, e :: ee => (e, r) :: assign_types ss ee
  | ss, _ => ss
  end.

Definition is_empty_err (e : err) : bool := is_nil (trim (text e)).

Definition join_type_name : bytes := [42;101;114;114;111;114;115;46;106;111;105;110;69;114;114;111;114]. (* *errors.joinError *)

(* SerialiseError(errors.Join(es...)), es non-nil and non-empty.  A one-element join has a one-line text, is parsed as
   a single error and gets the join itself (text = text of its element) as its type. *)
Definition serialise_join (es : list err) : bytes :=
  let s := join [nl] (map text es) in
  let nonempty := filter (fun e => negb (is_empty_err e)) es in
  if contains s [nl] then
    let subs := parse_lines s in
    if is_nil (trim (marshal_lines subs)) then no_description join_type_name
    else marshal_lines (assign_types subs nonempty)
  else
    match parse_line s, nonempty with
    | Some (ty, reason), e1 :: _ =>
        if is_nil (trim (marshal_line (ty, reason))) then no_description join_type_name
        else marshal_line (e1, reason)
    | _, _ => no_description join_type_name
    end.

(* serialisation.go:255 DeserialiseError *)
Inductive dres :=
| DNil                    (* (nil, nil): empty text *)
| DFail                   (* (nil, ErrMarshalling) *)
| DOne (e : err)
| DMany (es : list err).  (* errors.Join(es...) *)

Definition deserialise (t : bytes) : dres :=
  if is_nil t then DNil
  else if contains t [nl] then
    let subs := parse_lines t in
    if is_nil (trim (marshal_lines subs)) then DFail else DMany (map convert_to_error subs)
  else
    match parse_line t with
    | None => DFail
    | Some ml => DOne (convert_to_error ml)
    end.

Definition dres_is (d : dres) (t : target) : bool :=
  match d with
  | DOne e => is e t
  | DMany es => existsb (fun e => is e t) es
  | _ => false
  end.

Definition dres_text (d : dres) : bytes :=
  match d with
  | DOne e => text e
  | DMany es => join [nl] (map text es)
  | _ => []
  end.

(* serialisation.go:277 GetErrorReason applied to an error whose text is [t] *)
Definition reason_of_text (t : bytes) : bytes :=
  if is_nil t then []
  else if contains t [nl] then
    let subs := parse_lines t in
    if is_nil (trim (marshal_lines subs)) then [] else join [nl] (map snd subs)
  else
    match parse_line t with
    | None => []
    | Some (_, r) => r
    end.

(* what "the same reason up to whitespace around colons" means: trim every colon-separated part *)
Definition normalise (m : bytes) : bytes := join [sep; 32] (map trim (split sep m)).

(* the kinds of a deserialised error, in order (one per joined error) *)
Definition kind_of (e : err) : list nat := filter (fun k => is e (TK k)) (seq 0 nkinds).
Definition dres_kinds (d : dres) : list (list nat) :=
  match d with
  | DOne e => [kind_of e]
  | DMany es => map kind_of es
  | _ => []
  end.

(* ---------- converters: safeio/error.go:10 exactly; filesystem.go:103 and proc/errors.go:25 as ordered rule lists ---------- *)

Definition io_EOF : nat := 0%nat.
Definition io_ErrUnexpectedEOF : nat := 1%nat.

(* safeio/error.go:10 ConvertIOError (non-nil argument) *)
Definition convert_io (e : err) : err :=
  let n := convert_ctx e in
  if any (Some n) [TK ErrEOF] then n
  else if any (Some n) [TF io_EOF; TF io_ErrUnexpectedEOF] then wrap_error (Some (Sent ErrEOF)) (Some n) []
  else n.

(* filesystem.go:103 ConvertFileSystemError: context conversion, context kinds pass, then the FIRST rule whose
   predicate holds decides the kind: WrapError(kind, err, msg).  The predicates (os.IsTimeout, errors.Is against
   foreign values, CorrespondTo on the text) are parameters of the model; the harness checks the real table. *)
Definition rule := ((err -> bool) * nat * bytes)%type.

Fixpoint first_rule (rs : list rule) (e : err) : option (nat * bytes) :=
  match rs with
  | [] => None
  | (p, k, m) :: r => if p e then Some (k, m) else first_rule r e
  end.

Definition convert_rules (rs : list rule) (e : err) : err :=
  let e1 := convert_ctx e in
  if any (Some e1) ctx_kinds then e1
  else match first_rule rs e1 with
       | Some (k, m) => wrap_error (Some (Sent k)) (Some e1) m
       | None => e1
       end.

(* ---------- what the property quantifies over: errors built by the constructors, and the kind they were GIVEN ---------- *)

(* a raw context error: context.Canceled / context.DeadlineExceeded, possibly under wrappers of other packages *)
Definition ctx_kind_of (e : err) : option nat :=
  if is e TCanceled then Some ErrCancelled else if is e TDeadline then Some ErrTimeout else None.

(* an error of no kind that is not a context error either (errors.New(..), io.EOF, *PathError, ...) *)
Definition plain (e : err) : Prop :=
  (forall k, is e (TK k) = false) /\ is e TCanceled = false /\ is e TDeadline = false.

Definition is_ctx_kind (k : nat) : bool := Nat.eqb k ErrTimeout || Nat.eqb k ErrCancelled.

(* WrapError(target of kind kt, cause, msg): a cause that is a cancellation / deadline keeps its kind *)
Definition wrap_kind (kt : nat) (ko : option nat) : nat :=
  match ko with Some k => if is_ctx_kind k then k else kt | None => kt end.

(* WrapIfNotCommonError: additionally a cause that already has a kind keeps it (unless the target is a context kind) *)
Definition wrapinc_kind (kt : nat) (ko : option nat) : nat :=
  if is_ctx_kind kt then wrap_kind kt ko else match ko with Some k => k | None => kt end.

(* [given e k]: e is a sentinel or the result of a constructor, to any nesting depth, with any messages, and k is the
   kind it was given.  [arg t k]: t in TARGET position stands for kind k (nil = unknown, a context error = its kind).
   [cause o ko]: o in CAUSE position; ko = its kind if it has one. *)
Inductive given : err -> nat -> Prop :=
| G_sent k : (k < nkinds)%nat -> given (Sent k) k
| G_new t k m : arg t k -> given (new t m) k
| G_newf t k m : arg t k -> given (newf t m) k
| G_errorf t k m : arg t k -> given (errorf t m) k
| G_wrap t o kt ko m : arg t kt -> cause o ko -> given (wrap_error t o m) (wrap_kind kt ko)
| G_wrapinc t o kt ko m : arg t kt -> cause o ko -> given (wrap_if_not_common t o m) (wrapinc_kind kt ko)
with arg : option err -> nat -> Prop :=
| A_nil : arg None ErrUnknown
| A_ctx e k : ctx_kind_of e = Some k -> arg (Some e) k
| A_given e k : given e k -> arg (Some e) k
with cause : option err -> option nat -> Prop :=
| C_nil : cause None None
| C_ctx e k : ctx_kind_of e = Some k -> cause (Some e) (Some k)
| C_given e k : given e k -> cause (Some e) (Some k)
| C_plain e : plain e -> cause (Some e) None.

(* recognised as kind k and as nothing else *)
Definition exactly (e : err) (k : nat) : Prop :=
  (forall k', is e (TK k') = Nat.eqb k k') /\ is e TCanceled = false /\ is e TDeadline = false.

(* the text form: the text of kind k, then the end of the text, the separator, or the end of the line *)
Definition headed (k : nat) (s : bytes) : Prop :=
  exists r, s = ktext k ++ r /\ (r = [] \/ exists c r', r = c :: r' /\ (c = sep \/ c = nl)).

(* ... of a single line: "<kind>" or "<kind>:<reason>" *)
Definition headed1 (k : nat) (s : bytes) : Prop :=
  exists r, s = ktext k ++ r /\ (r = [] \/ exists r', r = sep :: r').

(* ---------- chains of constructor applications, for the correspondence ---------- *)

Inductive op :=
| ONew (m : bytes)                       (* cur := New(cur, m) *)
| ONewf (m : bytes)                      (* cur := Newf(cur, m) *)
| OErrorf (m : bytes)                    (* cur := Errorf(cur, m) *)
| OWrap (t : option err) (m : bytes)     (* cur := WrapError(t, cur, m): cur is the cause *)
| OWrapINC (t : option err) (m : bytes)  (* cur := WrapIfNotCommonError(t, cur, m) *)
| OWrapT (o : option err) (m : bytes)    (* cur := WrapError(cur, o, m): cur is the target *)
| OWrapINCT (o : option err) (m : bytes). (* cur := WrapIfNotCommonError(cur, o, m) *)

Definition apply_op (cur : option err) (o : op) : option err :=
  Some match o with
       | ONew m => new cur m
       | ONewf m => newf cur m
       | OErrorf m => errorf cur m
       | OWrap t m => wrap_error t cur m
       | OWrapINC t m => wrap_if_not_common t cur m
       | OWrapT c m => wrap_error cur c m
       | OWrapINCT c m => wrap_if_not_common cur c m
       end.

Definition build (b : option err) (ops : list op) : option err := fold_left apply_op ops b.

(* ---------- correspondence cases ---------- *)

(* what the harness observes of an error: Error() text and errors.Is against every sentinel, context.Canceled,
   context.DeadlineExceeded *)
Definition all_targets : list target := map TK (seq 0 nkinds) ++ [TCanceled; TDeadline].
Definition is_vector (e : err) : list bool := map (is e) all_targets.

(* deserialisation outcome: status 0 = (nil,nil), 1 = ErrMarshalling, 2 = an error; its text, Is-vector, reason *)
Record dobs := mkD { d_status : Z; d_text : bytes; d_is : list bool; d_reason : bytes }.

Definition dobs_of (d : dres) : dobs :=
  match d with
  | DNil => mkD 0 [] [] []
  | DFail => mkD 1 [] [] []
  | _ => mkD 2 (dres_text d) (map (dres_is d) all_targets) (reason_of_text (dres_text d))
  end.

Fixpoint bools_eq (a b : list bool) : bool :=
  match a, b with
  | [], [] => true
  | x :: a', y :: b' => Bool.eqb x y && bools_eq a' b'
  | _, _ => false
  end.

Definition dobs_eq (a b : dobs) : bool :=
  (d_status a =? d_status b) && beq (d_text a) (d_text b) && bools_eq (d_is a) (d_is b) && beq (d_reason a) (d_reason b).

Inductive case :=
| CChain (b : option err) (ops : list op) (o_text : bytes) (o_is : list bool) (o_ser : bytes) (o_d : dobs)
| CJoin (cs : list (option err * list op)) (o_ser : bytes) (o_d : dobs)
| CDeser (t : bytes) (o_d : dobs)
| CConvIO (e : err) (o_text : bytes) (o_is : list bool).

Definition all_some {A} (l : list (option A)) : option (list A) :=
  fold_right (fun x acc => match x, acc with Some a, Some r => Some (a :: r) | _, _ => None end) (Some []) l.

Definition check_case (c : case) : bool :=
  match c with
  | CChain b ops o_text o_is o_ser o_d =>
      match build b ops with
      | None => false
      | Some e =>
          beq (text e) o_text && bools_eq (is_vector e) o_is &&
          beq (serialise e) o_ser && dobs_eq (dobs_of (deserialise o_ser)) o_d
      end
  | CJoin cs o_ser o_d =>
      match all_some (map (fun c => build (fst c) (snd c)) cs) with
      | None => false
      | Some es => beq (serialise_join es) o_ser && dobs_eq (dobs_of (deserialise o_ser)) o_d
      end
  | CDeser t o_d => dobs_eq (dobs_of (deserialise t)) o_d
  | CConvIO e o_text o_is =>
      let r := convert_io e in beq (text r) o_text && bools_eq (is_vector r) o_is
  end.
