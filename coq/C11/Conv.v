(* C11, converters — executable model of filesystem.ConvertFileSystemError, safeio.ConvertIOError,
   proc.ConvertProcessError and platform.ConvertError over a model of BACKEND error values.  Definitions only.
   The ordered rule tables (predicates and returned kinds) come from GenConv.v, which
   translator-c11/cmd/convrules2coq regenerates from the source on every run; the interpretation of the predicates
   (errors.Is incl. syscall.Errno.Is, os.IsTimeout / IsExist / IsNotExist / IsPermission with their real
   definitions over os.underlyingError, CorrespondTo) and the facts about the values of other packages (texts,
   aliases, Timeout methods: [foreign], [errno_text]) are written here and cross-checked against the real values
   and the real converters by harness/cmd/c11 on every run.  linux/amd64. *)
From Coq Require Import List ZArith Bool String.
Import ListNotations.
From GU Require Import C11.Gen C11.GenConv C11.Bytes C11.Model.
Local Open Scope Z_scope.

(* ---------- backend error values ---------- *)

(* [BK k]: sentinel k of commonerrors.  [BErrno n]: syscall.Errno(n).  [BF i]: the i-th named value of another
   package (table [foreign]).  [BOpaque m]: errors.New(m).  [BPath tm pre e]: *os.PathError / *os.LinkError /
   *os.SyscallError around e (what os.underlyingError looks through; text "pre: e"; tm: the type has a Timeout()
   method delegating to e - PathError and SyscallError do, LinkError does not).  [BWrap m e]: *fmt.wrapError
   with text m around e (fmt.Errorf with one %w).  [BJoin a b]: errors.Join(a, b). *)
Inductive berr :=
| BK (k : nat)
| BCanceled
| BDeadline
| BErrno (n : Z)
| BF (i : nat)
| BOpaque (m : bytes)
| BPath (tm : bool) (pre : bytes) (e : berr)
| BWrap (m : bytes) (e : berr)
| BJoin (a b : berr).

Record finfo := mkF { f_names : list string; f_text : bytes; f_timeout : bool; f_kind : option nat }.

Definition s2b (s : string) : bytes := map (fun a => Z.of_nat (Ascii.nat_of_ascii a)) (list_ascii_of_string s).

(* named error values of other packages: Go names (aliases share an entry), Error() text, whether they have a
   Timeout() method returning true, and — for values built by commonerrors.New — the sentinel they unwrap to *)
Definition foreign : list finfo := [
  mkF ["os.ErrExist"; "afero.ErrFileExists"; "afero.ErrDestinationExists"]%string (s2b "file already exists") false None;
  mkF ["os.ErrNotExist"; "afero.ErrFileNotFound"]%string (s2b "file does not exist") false None;
  mkF ["os.ErrPermission"]%string (s2b "permission denied") false None;
  mkF ["os.ErrClosed"]%string (s2b "file already closed") false None;
  mkF ["os.ErrDeadlineExceeded"]%string (s2b "i/o timeout") true None;
  mkF ["os.ErrNoDeadline"]%string (s2b "file type does not support deadline") false None;
  mkF ["os.ErrInvalid"]%string (s2b "invalid argument") false None;
  mkF ["io.ErrClosedPipe"]%string (s2b "io: read/write on closed pipe") false None;
  mkF ["io.EOF"]%string (s2b "EOF") false None;
  mkF ["io.ErrUnexpectedEOF"]%string (s2b "unexpected EOF") false None;
  mkF ["afero.ErrOutOfRange"]%string (s2b "out of range") false None;
  mkF ["afero.ErrTooLarge"]%string (s2b "too large") false None;
  mkF ["afero.ErrFileClosed"]%string (s2b "File is closed") false None;
  mkF ["filesystem.ErrPathNotExist"]%string (s2b "readdirent: no such file or directory") false None;
  mkF ["filesystem.ErrChownNotImplemented"]%string (s2b "not implemented: chown not implemented") false (Some ErrNotImplemented);
  mkF ["filesystem.ErrLinkNotImplemented"]%string (s2b "not implemented: link not implemented") false (Some ErrNotImplemented);
  mkF ["exec.ErrWaitDelay"]%string (s2b "exec: WaitDelay expired before I/O complete") false None;
  mkF ["exec.ErrDot"]%string (s2b "cannot run executable found relative to current directory") false None;
  mkF ["exec.ErrNotFound"]%string (s2b "executable file not found in $PATH") false None;
  mkF ["os.ErrProcessDone"]%string (s2b "os: process already finished") false None
].

Definition F_ErrExist : nat := 0.
Definition F_ErrNotExist : nat := 1.
Definition F_ErrPermission : nat := 2.

Definition finfo_of (i : nat) : finfo := nth i foreign (mkF [] [] false None).

(* syscall.Errno(n).Error() for the errnos of the domain; linux/amd64 numbering *)
Definition errno_table : list (Z * bytes) := [
  (1, s2b "operation not permitted"); (2, s2b "no such file or directory"); (3, s2b "no such process");
  (5, s2b "input/output error"); (9, s2b "bad file descriptor"); (11, s2b "resource temporarily unavailable");
  (13, s2b "permission denied"); (17, s2b "file exists"); (22, s2b "invalid argument");
  (38, s2b "function not implemented"); (39, s2b "directory not empty"); (95, s2b "operation not supported");
  (110, s2b "connection timed out")
].

Fixpoint assocz (n : Z) (l : list (Z * bytes)) : bytes :=
  match l with [] => s2b "errno " | (m, t) :: r => if n =? m then t else assocz n r end.
Definition errno_text (n : Z) : bytes := assocz n errno_table.

(* syscall.Errno.Timeout(): EAGAIN / EWOULDBLOCK (both 11) / ETIMEDOUT *)
Definition errno_timeout (n : Z) : bool := (n =? 11) || (n =? 110).

(* Error() *)
Fixpoint b_text (e : berr) : bytes :=
  match e with
  | BK k => ktext k
  | BCanceled => canceled_text
  | BDeadline => deadline_text
  | BErrno n => errno_text n
  | BF i => f_text (finfo_of i)
  | BOpaque m => m
  | BPath _ pre e' => pre ++ [58; 32] ++ b_text e'
  | BWrap m _ => m
  | BJoin a b => b_text a ++ [10] ++ b_text b
  end.

(* err == target for the comparable values; a wrapper or errors.New value allocated elsewhere equals nothing *)
Definition b_same (e t : berr) : bool :=
  match e, t with
  | BK a, BK b => Nat.eqb a b
  | BCanceled, BCanceled => true
  | BDeadline, BDeadline => true
  | BErrno a, BErrno b => a =? b
  | BF a, BF b => Nat.eqb a b
  | _, _ => false
  end.

(* syscall.Errno.Is (syscall_unix.go): EACCES, EPERM ~ ErrPermission; EEXIST, ENOTEMPTY ~ ErrExist; ENOENT ~ ErrNotExist
   (errors.ErrUnsupported is no target of the converters) *)
Definition errno_is (n : Z) (t : berr) : bool :=
  match t with
  | BF i => (Nat.eqb i F_ErrPermission && ((n =? 13) || (n =? 1))) ||
            (Nat.eqb i F_ErrExist && ((n =? 17) || (n =? 39))) ||
            (Nat.eqb i F_ErrNotExist && (n =? 2))
  | _ => false
  end.

(* errors.Is(e, t): ==, the Is method (only Errno has one), then Unwrap() error / Unwrap() []error *)
Fixpoint b_is (e t : berr) : bool :=
  b_same e t ||
  match e with
  | BErrno n => errno_is n t
  | BF i => match f_kind (finfo_of i) with Some k => b_same (BK k) t | None => false end
  | BPath _ _ e' => b_is e' t
  | BWrap _ e' => b_is e' t
  | BJoin a b => b_is a t || b_is b t
  | _ => false
  end.

(* commonerrors.Any(e, x) for one candidate *)
Definition b_any (e x : berr) : bool := b_is x e || b_is e x.
Definition b_anyl (e : berr) (xs : list berr) : bool := existsb (b_any e) xs.

(* os.underlyingError: one level of *PathError / *LinkError / *SyscallError *)
Definition os_underlying (e : berr) : berr := match e with BPath _ _ e' => e' | _ => e end.

(* "has a Timeout() method that returns true": Errno, os.ErrDeadlineExceeded, context.DeadlineExceeded, and
   *PathError / *LinkError / *SyscallError, which delegate to what they wrap *)
Fixpoint timeout_iface (e : berr) : bool :=
  match e with
  | BErrno n => errno_timeout n
  | BF i => f_timeout (finfo_of i)
  | BDeadline => true
  | BPath tm _ e' => tm && timeout_iface e'
  | _ => false
  end.

(* os.IsTimeout *)
Definition os_is_timeout (e : berr) : bool := timeout_iface (os_underlying e).

(* os.underlyingErrorIs(err, target) *)
Definition os_uis (e t : berr) : bool :=
  let u := os_underlying e in
  b_same u t || match u with BErrno n => errno_is n t | _ => false end.

(* filesystem.isTimeoutError (added by fixes/C11-timeout-through-wrapping.patch): err or anything it wraps
   (Unwrap() error, Unwrap() []error) has a Timeout() method that returns true *)
Fixpoint any_timeout (e : berr) : bool :=
  timeout_iface e ||
  match e with
  | BPath _ _ e' => any_timeout e'
  | BWrap _ e' => any_timeout e'
  | BJoin a b => any_timeout a || any_timeout b
  | _ => false
  end.

Definition helper_eval (name : string) (e : berr) : bool :=
  if String.eqb name "os.IsTimeout" then os_is_timeout e
  else if String.eqb name "os.IsExist" then os_uis e (BF F_ErrExist)
  else if String.eqb name "os.IsNotExist" then os_uis e (BF F_ErrNotExist)
  else if String.eqb name "os.IsPermission" then os_uis e (BF F_ErrPermission)
  else if String.eqb name "filesystem.isTimeoutError" then any_timeout e
  else false.

Definition known_helper (name : string) : bool :=
  existsb (String.eqb name) ["os.IsTimeout"; "os.IsExist"; "os.IsNotExist"; "os.IsPermission"; "filesystem.isTimeoutError"]%string.

(* the value a Go name of the rule tables stands for *)
Fixpoint index_of (name : string) (l : list string) (i : nat) : option nat :=
  match l with [] => None | x :: r => if String.eqb name x then Some i else index_of name r (S i) end.

Fixpoint find_foreign (name : string) (l : list finfo) (i : nat) : option nat :=
  match l with
  | [] => None
  | f :: r => if existsb (String.eqb name) (f_names f) then Some i else find_foreign name r (S i)
  end.

Definition strip_prefix (p s : string) : option string :=
  if String.prefix p s then Some (String.substring (String.length p) (String.length s - String.length p) s) else None.

Definition target_of (name : string) : option berr :=
  match strip_prefix "commonerrors." name with
  | Some n => option_map BK (index_of n sentinel_names 0)
  | None =>
      if String.eqb name "syscall.ESRCH" then Some (BErrno 3)
      else if String.eqb name "context.Canceled" then Some BCanceled
      else if String.eqb name "context.DeadlineExceeded" then Some BDeadline
      else option_map BF (find_foreign name foreign 0)
  end.

Definition tv (name : string) : berr := match target_of name with Some b => b | None => BOpaque [] end.

(* commonerrors.CorrespondTo(e, s) *)
Definition b_corr (e : berr) (s : bytes) : bool :=
  let desc := lower (b_text e) in let d := lower s in beq desc d || contains desc d.

(* ---------- commonerrors on backend values (errors.go:191, 271, 286) ---------- *)

Definition b_convert_ctx (e : berr) : berr :=
  if b_any e BCanceled then BK ErrCancelled
  else if b_any e BDeadline then BK ErrTimeout
  else e.

Definition b_errorf (t : berr) (msg : bytes) : berr :=
  let tErr := b_convert_ctx t in
  let m := fmt_subst errorf_format [b_text tErr; [sep]; msg] in
  if contains errorf_format [37; 119] then BWrap m tErr else BOpaque m.

Definition b_ctx_kinds : list berr := [BK ErrTimeout; BK ErrCancelled].

(* WrapError(target, orig, msg) with both non-nil *)
Definition b_wrap_error (t o : berr) (msg : bytes) : berr :=
  let origErr := b_convert_ctx o in
  let tErr := if b_anyl origErr b_ctx_kinds then origErr else t in
  b_errorf tErr (fmt_subst [37;118;37;118;32;37;118] [msg; [sep]; b_text o]).

(* fmt.Errorf("%w: %v", kind, err.Error()) *)
Definition b_fmt (k : nat) (e : berr) : berr := BWrap (ktext k ++ [58; 32] ++ b_text e) (BK k).

(* commonerrors.New(sentinel k, msg) *)
Definition b_new (k : nat) (msg : bytes) : berr := b_errorf (BK k) msg.

(* The kinds each converter is EXPECTED to leave alone whatever the message says (hand-written, not generated: this
   is the intent the rule tables are checked against).  platform.ConvertError: the context kinds and "not implemented" /
   "unsupported" (so that an error already classified as not implemented is not re-read as "unsupported" because its
   message says "not supported").  ConvertFileSystemError: the context kinds.  ConvertIOError: every kind.
   ConvertProcessError: none (its first rule is a text rule). *)
Definition expected_pass (conv : Z) : list nat :=
  if conv =? 3 then [ErrTimeout; ErrCancelled; ErrNotImplemented; ErrUnsupported]
  else if conv =? 0 then [ErrTimeout; ErrCancelled]
  else if conv =? 1 then seq 0 nkinds
  else [].

(* ---------- interpretation of the generated tables ---------- *)

Definition eval_atom (e : berr) (a : catom) : bool :=
  match a with
  | PNil => false                       (* the argument is not nil *)
  | PHelper h => helper_eval h e
  | PIs ts => b_anyl e (map tv ts)
  | PText ss => existsb (b_corr e) ss
  | PFalse => false
  end.

Inductive cresult := CNil | CErr (e : berr).

Definition apply_res (r : cres) (e : berr) : cresult :=
  match r with
  | RSame => CErr e
  | RNil => CNil
  | RTarget n => CErr (tv n)
  | RWrap k msg => CErr (b_wrap_error (BK k) e msg)
  | RFmt k => CErr (b_fmt k e)
  end.

Definition fires (e : berr) (c : ccase) : bool := existsb (eval_atom e) (fst c).

(* the tag-less switch; no case = the final `return err` / default *)
Fixpoint run_cases (cs : list ccase) (e : berr) : cresult :=
  match cs with
  | [] => CErr e
  | c :: rest => if fires e c then apply_res (snd c) e else run_cases rest e
  end.

Definition then_cases (r : cresult) (f : berr -> cresult) : cresult :=
  match r with CNil => CNil | CErr e => f e end.

(* platform.ConvertError *)
Definition conv_platform (e : berr) : cresult := run_cases platform_cases e.

(* the pre-steps named by the generated tables *)
Definition pre_step (name : string) (e : berr) : cresult :=
  if String.eqb name "commonerrors.ConvertContextError" then CErr (b_convert_ctx e)
  else if String.eqb name "platform.ConvertError" then conv_platform e
  else CErr e.

Definition known_pre (name : string) : bool :=
  existsb (String.eqb name) ["commonerrors.ConvertContextError"; "platform.ConvertError"]%string.

Definition run_pre (pre : list string) (e : berr) : cresult :=
  fold_left (fun r name => then_cases r (pre_step name)) pre (CErr e).

Definition run_conv (pre : list string) (cs : list ccase) (e : berr) : cresult :=
  then_cases (run_pre pre e) (run_cases cs).

Definition conv_fs := run_conv fs_pre fs_cases.       (* filesystem.ConvertFileSystemError *)
Definition conv_io := run_conv io_pre io_cases.       (* safeio.ConvertIOError *)
Definition conv_proc := run_conv proc_pre proc_cases. (* proc.ConvertProcessError *)

(* the kinds of a result *)
Definition b_kinds (e : berr) : list nat := filter (fun k => b_is e (BK k)) (seq 0 nkinds).
Definition res_kinds (r : cresult) : option (list nat) :=
  match r with CNil => None | CErr e => Some (b_kinds e) end.

(* every name of the tables is known to this file *)
Definition atom_names_ok (a : catom) : bool :=
  match a with
  | PHelper h => known_helper h
  | PIs ts => forallb (fun n => match target_of n with Some _ => true | None => false end) ts
  | _ => true
  end.
Definition res_names_ok (r : cres) : bool :=
  match r with RTarget n => match target_of n with Some _ => true | None => false end | _ => true end.
Definition cases_ok (cs : list ccase) : bool :=
  forallb (fun c => forallb atom_names_ok (fst c) && res_names_ok (snd c)) cs.
Definition tables_ok : bool :=
  cases_ok platform_cases && cases_ok fs_cases && cases_ok io_cases && cases_ok proc_cases &&
  forallb known_pre (platform_pre ++ fs_pre ++ io_pre ++ proc_pre).

(* ---------- the ORDER of the rules ---------- *)

Definition res_kind (r : cres) : option nat := match r with RWrap k _ | RFmt k => Some k | _ => None end.
(* the kind each case of a switch returns, in SOURCE ORDER (None: the error itself / nil / another value) *)
Definition rule_kinds (cs : list ccase) : list (option nat) := map (fun c => res_kind (snd c)) cs.

(* the order the rules are EXPECTED to have (hand-written; a first-match switch: the order is the precedence): in
   ConvertFileSystemError the pass-through of cancelled / timeout, then the timeout case, BEFORE exists / conflict /
   not found / ... *)
Definition expected_order_platform : list (option nat) := [None; None; None; Some ErrUnsupported; Some ErrUnsupported].
Definition expected_order_fs : list (option nat) :=
  [None; None; Some ErrTimeout; Some ErrExists; Some ErrConflict; Some ErrNotFound; Some ErrUnsupported; Some ErrInvalid;
   Some ErrOutOfRange; Some ErrTooLarge; Some ErrNotImplemented; Some ErrEOF].
Definition expected_order_io : list (option nat) := [None; Some ErrEOF].
Definition expected_order_proc : list (option nat) :=
  [None; None; None; Some ErrTimeout; Some ErrNotFound; Some ErrForbidden; Some ErrNotFound; Some ErrNotFound; Some ErrNotImplemented].

(* ---------- wrapping ---------- *)

(* a frame put around an error by a layer between the backend and the converter *)
Inductive frame :=
| FPath (tm : bool) (pre : bytes) (* &os.PathError / LinkError / SyscallError{..., Err: e}: text "pre: e" *)
| FWrap (pre : bytes)        (* fmt.Errorf("pre: %w", e) *)
| FJoinL (noise : bytes).    (* errors.Join(errors.New(noise), e) *)

Definition apply_frame (f : frame) (e : berr) : berr :=
  match f with
  | FPath tm pre => BPath tm pre e
  | FWrap pre => BWrap (pre ++ [58; 32] ++ b_text e) e
  | FJoinL noise => BJoin (BOpaque noise) e
  end.

(* outermost frame first *)
Definition plug (w : list frame) (c : berr) : berr := fold_right apply_frame c w.

(* the text a frame puts in front of the text of what it wraps *)
Definition frame_prefix (f : frame) : bytes :=
  match f with FPath _ pre => pre ++ [58; 32] | FWrap pre => pre ++ [58; 32] | FJoinL noise => noise ++ [10] end.

(* all the strings the text predicates of the tables look for *)
Definition atom_strings (a : catom) : list bytes := match a with PText ss => ss | _ => [] end.
Definition case_strings (cs : list ccase) : list bytes := flat_map (fun c => flat_map atom_strings (fst c)) cs.
Definition all_strings : list bytes :=
  case_strings platform_cases ++ case_strings fs_cases ++ case_strings io_cases ++ case_strings proc_cases.

Definition atom_targets (a : catom) : list berr := match a with PIs ts => map tv ts | _ => [] end.
Definition case_targets (cs : list ccase) : list berr := flat_map (fun c => flat_map atom_targets (fst c)) cs.
(* every value some predicate compares against, every kind, the context errors *)
Definition all_targets_b : list berr :=
  case_targets platform_cases ++ case_targets fs_cases ++ case_targets io_cases ++ case_targets proc_cases ++
  map BK (seq 0 nkinds) ++ [BCanceled; BDeadline].

Definition all_helpers : list string := ["os.IsTimeout"; "os.IsExist"; "os.IsNotExist"; "os.IsPermission"]%string.
(* predicates that look through every wrapper themselves *)
Definition strong_helpers : list string := ["filesystem.isTimeoutError"]%string.

(* the filesystem table as it was before fixes/C11-timeout-through-wrapping.patch: without isTimeoutError *)
Definition fs_cases_before_fix : list ccase :=
  map (fun cc => (filter (fun a => match a with PHelper h => negb (String.eqb h "filesystem.isTimeoutError") | _ => true end) (fst cc), snd cc)) fs_cases.

(* [neutral_for p s]: putting the text p in front of any text t neither creates nor hides an occurrence of s:
   no non-empty suffix of p is a prefix of s or has s as a prefix *)
Fixpoint suffixes (p : bytes) : list bytes := match p with [] => [] | _ :: r => p :: suffixes r end.
Definition neutral_for (p s : bytes) : bool :=
  forallb (fun u => negb (has_prefix u s) && negb (has_prefix s u)) (suffixes p).
Definition neutral (p : bytes) : bool := forallb (fun s => neutral_for (lower p) (lower s)) all_strings.
Definition frame_ok (f : frame) : bool := neutral (frame_prefix f).

(* ---------- the domain: base backend conditions ---------- *)

Definition base_conds : list berr :=
  map BF (seq 0 (List.length foreign)) ++ map (fun p => BErrno (fst p)) errno_table ++
  map BOpaque all_strings ++ [BOpaque (s2b "something else went wrong")].

(* ---------- correspondence cases (extends Model.case) ---------- *)

Inductive case2 :=
| Old (c : Model.case)
| CConvB (conv : Z) (e : berr) (o_nil : bool) (o_text : bytes) (o_kinds : list nat)   (* 0 fs, 1 io, 2 proc, 3 platform *)
| CValue (e : berr) (o_text : bytes) (o_timeout : bool) (o_is : list (berr * bool)). (* text, Timeout(), errors.Is(e, x) for each listed x *)

Fixpoint nats_eq (a b : list nat) : bool :=
  match a, b with [] , [] => true | x :: a', y :: b' => Nat.eqb x y && nats_eq a' b' | _, _ => false end.

Definition conv_by (n : Z) : berr -> cresult :=
  if n =? 0 then conv_fs else if n =? 1 then conv_io else if n =? 2 then conv_proc else conv_platform.

Definition timeout_method (e : berr) : bool := timeout_iface e.

Definition check_case2 (c : case2) : bool :=
  match c with
  | Old c => check_case c
  | CConvB n e o_nil o_text o_kinds =>
      match conv_by n e with
      | CNil => o_nil
      | CErr r => negb o_nil && beq (b_text r) o_text && nats_eq (b_kinds r) o_kinds
      end
  | CValue e o_text o_timeout o_is =>
      beq (b_text e) o_text && Bool.eqb (timeout_method e) o_timeout &&
      forallb (fun p => Bool.eqb (b_is e (fst p)) (snd p)) o_is
  end.
