(* C11 — Error kinds survive wrapping and serialisation.  Property theorems only. *)
From Coq Require Import List ZArith Bool.
Import ListNotations.
From GU Require Import C11.Gen C11.Bytes C11.Model C11.Proofs.

Theorem deser_table_total : forall k, (k < nkinds)%nat -> deser_common (ktext k) = (true, Some k).
Proof. exact deser_table_total_l. Qed.
Print Assumptions deser_table_total.
