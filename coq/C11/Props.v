(* C11 — Error kinds survive wrapping and serialisation.
   Property theorems only: each is closed by [exact] of a lemma of Proofs.v and followed by Print Assumptions.
   Model: GU.C11.Model over the table GU.C11.Gen, which translator-c11/cmd/errkinds2coq regenerates from
   utils/commonerrors/errors.go + serialisation.go on every run; tied to the code additionally by the correspondence
   runs of harness/cmd/c11.  [given e k] = "e is a sentinel or was built by New / Newf / Errorf / WrapError /
   WrapIfNotCommonError, to any nesting depth, with any messages (any bytes), and k is the kind it was given". *)
From Coq Require Import List ZArith Bool Lia.
Import ListNotations.
From Coq Require Import String.
From GU Require Import C11.Gen C11.GenConv C11.Bytes C11.Model C11.Proofs C11.Conv C11.ProofsConv.
Local Open Scope Z_scope.

(* Every constructed error is recognised by errors.Is and by Any as the kind it was given — and as no other kind, and
   not as a raw context error — and IsCommonError accepts it.  Unbounded: any depth, any mix, any messages. *)
Theorem constructors_keep_kind : forall e k, given e k ->
  is e (TK k) = true /\ any (Some e) [TK k] = true /\ exactly e k /\ is_common (Some e) = true.
Proof. exact constructors_keep_kind_l. Qed.
Print Assumptions constructors_keep_kind.

(* A cause that is a cancellation or a deadline — context.Canceled / DeadlineExceeded raw or under foreign wrappers,
   or an error the library already classified as cancelled / timeout — is never reclassified: for EVERY target
   (nil, any kind, anything at all) the wrappers return an error of exactly the cause's kind. *)
Theorem context_cause_wins : forall t c k m, ctx_cause c k ->
  exactly (wrap_error t (Some c) m) k /\ exactly (wrap_if_not_common t (Some c) m) k /\
  exactly (new (Some c) m) k /\ exactly (errorf (Some c) m) k /\ exactly (newf (Some c) m) k.
Proof. exact context_cause_wins_l. Qed.
Print Assumptions context_cause_wins.

(* The 30-way switch of deserialiseCommonError (cases in SOURCE ORDER, from the generated table) maps the text of every
   kind of the generated sentinel list back to that kind.  The bound is the table. *)
Theorem deser_table_total : forall k, (k < nkinds)%nat -> deser_common (ktext k) = (true, Some k).
Proof. exact deser_table_total_l. Qed.
Print Assumptions deser_table_total.

(* No kind text is empty, contains the type/reason separator or the line separator, or has blanks at its ends. *)
Theorem kind_text_no_separator : forall k, (k < nkinds)%nat ->
  ktext k <> [] /\ mem sep (ktext k) = false /\ mem nl (ktext k) = false /\ trim_right (ktext k) = ktext k /\
  exists c r, ktext k = c :: r /\ is_space c = false.
Proof. exact kind_text_ok_l. Qed.
Print Assumptions kind_text_no_separator.

(* Serialise then deserialise: for every constructed error — any depth, any messages, multi-line included — the
   result is recognised as the kind the error was given. *)
Theorem roundtrip_kind : forall e k, given e k -> dres_is (deserialise (serialise e)) (TK k) = true.
Proof. exact roundtrip_kind_l. Qed.
Print Assumptions roundtrip_kind.

(* Single error whose text is a single line "<kind><r>": the round trip yields ONE error, of exactly that kind (no
   other kind appears), with text "<kind>: <reason>" and reason = the part after the first separator with every
   colon-separated part trimmed ([reason_part r]).  Holds at any nesting depth (this is what the patch repairs). *)
Theorem roundtrip_reason : forall e k r, given e k -> text e = ktext k ++ r -> mem nl (text e) = false ->
  exists d, deserialise (serialise e) = DOne d /\ exactly d k /\ text d = mtext k (reason_part r) /\
            reason_of_text (text d) = reason_part r /\ dres_kinds (deserialise (serialise e)) = [[k]].
Proof. exact roundtrip_single_l. Qed.
Print Assumptions roundtrip_reason.

(* ... in particular New(kind, m): the reason that comes back is m up to whitespace around colons. *)
Theorem roundtrip_reason_new : forall k m, (k < nkinds)%nat -> mem nl m = false ->
  exists d, deserialise (serialise (new (Some (Sent k)) m)) = DOne d /\ exactly d k /\
            reason_of_text (text d) = normalise m.
Proof. exact roundtrip_reason_new_l. Qed.
Print Assumptions roundtrip_reason_new.

(* Joins of 1..n constructed errors (n unbounded) with single-line texts: the round trip yields one error per joined
   error, in order, each of exactly the kind the corresponding error was given — the same kinds. *)
Theorem roundtrip_join_kinds : forall ps : list (err * nat), ps <> [] ->
  Forall (fun p => given (fst p) (snd p) /\ mem nl (text (fst p)) = false) ps ->
  dres_kinds (deserialise (serialise_join (map fst ps))) = map (fun p => [snd p]) ps.
Proof. exact roundtrip_join_kinds_l. Qed.
Print Assumptions roundtrip_join_kinds.

(* Converters, over the GENERATED ordered rule tables (GenConv.v) of ConvertFileSystemError, ConvertIOError,
   ConvertProcessError and platform.ConvertError, interpreted with the real definitions of errors.Is (incl.
   syscall.Errno.Is), os.IsTimeout / IsExist / IsNotExist / IsPermission (os.underlyingError) and CorrespondTo over
   the backend error values [berr] (errno, named value of os / io / afero / exec / filesystem, errors.New, *PathError,
   %w wrapper, errors.Join, context errors).

   1. Context errors pass: for EVERY backend value e (any shape, any depth) that is or wraps context.Canceled resp.
      context.DeadlineExceeded, each converter returns an error of exactly the kind cancelled resp. timeout. *)
Theorem converters_context_pass : forall e k, b_ctx_kind_of e = Some k ->
  res_kinds (conv_fs e) = Some [k] /\ res_kinds (conv_io e) = Some [k] /\ res_kinds (conv_proc e) = Some [k].
Proof. exact converters_context_l. Qed.
Print Assumptions converters_context_pass.

(* 2. One stable kind.  For every base condition c of the domain (every named value, errno and text the tables
      mention, and an unrelated error) and EVERY stack w of frames (os.PathError, LinkError, SyscallError, fmt.Errorf %w,
      errors.Join with an unrelated error; any depth; frame texts that do not themselves spell one of the strings the
      text predicates look for): the converter gives w[c] the same kinds as c (or nil for both) — independent of the
      wrapping —, that is at most one kind, and converting the result again does not change its kinds (idempotent at
      kind level).  No exception: since fixes/C11-timeout-through-wrapping.patch the timeout case of the filesystem
      converter (predicate filesystem.isTimeoutError) sees EAGAIN / ETIMEDOUT through wrapping too. *)
Theorem converters_stable :
  (forall c w, In c base_conds -> forallb frame_ok w = true ->
     res_kinds (conv_fs (plug w c)) = res_kinds (conv_fs c) /\ at_most_one (res_kinds (conv_fs c)) = true /\
     match conv_fs (plug w c) with CNil => True | CErr r => res_kinds (conv_fs r) = Some (b_kinds r) end) /\
  (forall c w, In c base_conds -> forallb frame_ok w = true ->
     res_kinds (conv_io (plug w c)) = res_kinds (conv_io c) /\ at_most_one (res_kinds (conv_io c)) = true /\
     match conv_io (plug w c) with CNil => True | CErr r => res_kinds (conv_io r) = Some (b_kinds r) end) /\
  (forall c w, In c base_conds -> forallb frame_ok w = true ->
     res_kinds (conv_proc (plug w c)) = res_kinds (conv_proc c) /\ at_most_one (res_kinds (conv_proc c)) = true /\
     match conv_proc (plug w c) with CNil => True | CErr r => res_kinds (conv_proc r) = Some (b_kinds r) end).
Proof. exact converters_wrapping_l. Qed.
Print Assumptions converters_stable.

(* 3. Before that patch the statement was false: with the filesystem table minus isTimeoutError (fs_cases_before_fix,
      derived from the generated table) ETIMEDOUT maps to timeout when bare and to no kind under one %w wrapper, because
      os.IsTimeout does not look through it; with the generated table both map to timeout. *)
Theorem converters_stable_errno_timeout_before_fix :
  exists n w, errno_timeout n = true /\ forallb frame_ok w = true /\
    res_kinds (run_conv fs_pre fs_cases_before_fix (BErrno n)) = Some [ErrTimeout] /\
    res_kinds (run_conv fs_pre fs_cases_before_fix (plug w (BErrno n))) = Some [] /\
    res_kinds (conv_fs (plug w (BErrno n))) = Some [ErrTimeout].
Proof. exact fs_errno_timeout_before_fix_l. Qed.
Print Assumptions converters_stable_errno_timeout_before_fix.

(* 3b. Errors that ALREADY have a library kind.  For every converter (0 ConvertFileSystemError, 1 ConvertIOError,
      2 ConvertProcessError, 3 platform.ConvertError) and every kind it is expected to leave alone ([expected_pass], written
      by hand in Conv.v: the intent the generated tables are checked against): the sentinel itself and every library error
      built on it keep exactly that kind WHATEVER their messages say (m, m' arbitrary bytes: trigger texts of other rules,
      texts of wrapped causes, ...).  The unrestricted statement ("every library kind is kept") is false of the code as it
      is, see the Example below. *)
Theorem kind_preserved_for_library_errors : forall conv k m m', In conv [0; 1; 2; 3]%Z -> In k (expected_pass conv) ->
  res_kinds (conv_by conv (BK k)) = Some [k] /\
  res_kinds (conv_by conv (BWrap m (BK k))) = Some [k] /\
  res_kinds (conv_by conv (BWrap m' (BWrap m (BK k)))) = Some [k].
Proof. exact kind_preserved_for_library_errors_l. Qed.
Print Assumptions kind_preserved_for_library_errors.

Example kind_preservation_unrestricted_false :
  exists k m, (k < nkinds)%nat /\ res_kinds (conv_platform (b_new k m)) <> Some [k] /\
              res_kinds (conv_fs (b_new k m)) <> Some [k].
Proof. exact kind_preservation_unrestricted_false_l. Qed.

(* 3c. The ORDER of the rules (first-match switches: the order is the precedence) of the generated tables is the
      expected one (hand-written in Conv.v): in ConvertFileSystemError the timeout case comes directly after the
      pass-through of cancelled / timeout and BEFORE exists / conflict / not found / ...; a reordering flips this fact. *)
Theorem rule_order_as_expected :
  rule_kinds platform_cases = expected_order_platform /\ rule_kinds fs_cases = expected_order_fs /\
  rule_kinds io_cases = expected_order_io /\ rule_kinds proc_cases = expected_order_proc.
Proof. exact rule_order_l. Qed.
Print Assumptions rule_order_as_expected.

(* 3d. A deadline wins in composite backend values: for every base condition c that ConvertFileSystemError maps to
      timeout and every other base condition d of the domain (neither spelling "not supported", which platform.ConvertError
      re-reads first), a value carrying BOTH — errors.Join in either order, also inside a PathError — is mapped to
      exactly timeout ([deadline_wins_cert] spells this out as a computable statement over base_conds x base_conds).
      Context errors inside ANY composite are covered by converters_context_pass (all values). *)
Theorem deadline_wins_in_composites : deadline_wins_cert = true.
Proof. exact deadline_wins_l. Qed.
Print Assumptions deadline_wins_in_composites.

(* 4. Every name of the generated tables (predicate helper, errors.Is target, pre-step) is one this model interprets. *)
Theorem converter_tables_wellformed : tables_ok = true.
Proof. exact tables_ok_l. Qed.
Print Assumptions converter_tables_wellformed.

(* 5. The shape, for ANY rule predicates (first development; kept): ConvertIOError on the chain model of Model.v is
      idempotent, turns context errors into cancelled / timeout and io.EOF / io.ErrUnexpectedEOF into ErrEOF; a
      rule-list converter lets a context cause pass as exactly its kind and otherwise gives exactly the kind of the
      first rule that fires. *)
Theorem converters_first_rule_decides :
  (forall e, chain e = true -> convert_io (convert_io e) = convert_io e /\
             (forall k, ctx_kind_of e = Some k -> convert_io e = Sent k) /\
             (ctx_kind_of e = None -> any (Some e) io_targets = true -> exactly (convert_io e) ErrEOF)) /\
  (forall rs e,
     (forall k, ctx_cause e k -> exactly (convert_rules rs e) k) /\
     (forall k m, any (Some (convert_ctx e)) ctx_kinds = false -> first_rule rs (convert_ctx e) = Some (k, m) ->
                  exactly (convert_rules rs e) k /\ is_common (Some (convert_rules rs e)) = is_common (Some (Sent k))) /\
     (any (Some (convert_ctx e)) ctx_kinds = false -> first_rule rs (convert_ctx e) = None ->
                  convert_rules rs e = convert_ctx e)).
Proof. split; [exact convert_io_l | exact convert_rules_l]. Qed.
Print Assumptions converters_first_rule_decides.

Example converters_stable_nonvacuous :
  In (BErrno 2) base_conds /\ In (BErrno 110) base_conds /\ In (tv "afero.ErrFileNotFound") base_conds /\
  forallb frame_ok [FWrap (s2b "while testing"); FJoinL (s2b "cleanup failed too"); FPath true (s2b "open /x/y")] = true /\
  res_kinds (conv_fs (plug [FWrap (s2b "while testing"); FPath true (s2b "open /x/y")] (BErrno 2))) = Some [ErrNotFound] /\
  b_ctx_kind_of (BPath true (s2b "read /x") (BJoin (BOpaque (s2b "noise")) BDeadline)) = Some ErrTimeout.
Proof. vm_compute. repeat split; auto 40. Qed.


(* Non-vacuity and the defect D18: the code BEFORE the patch ([serialise_gen false]) duplicates the reason of
   New(New(invalid,"foo"),"bar"); the patched code does not. *)
Example unfixed_nested_reason_refuted :
  exists k m1 m2, (k < nkinds)%nat /\
    let e := new (Some (new (Some (Sent k)) m1)) m2 in
    reason_of_text (dres_text (deserialise (serialise_gen false e))) <> reason_part (skipn (List.length (ktext k)) (text e))
    /\ reason_of_text (dres_text (deserialise (serialise_gen true e))) = reason_part (skipn (List.length (ktext k)) (text e)).
Proof. exact unfixed_nested_reason_refuted_l. Qed.

(* The operands of the two theorems above range over COMPOSITES too (Multi: two %w, errors.Join): an error that is of a
   library kind and a context error at the same time stands, in target position, for its context kind, and as a cause /
   original it wins over every target — e.g. errors.Join(New(ErrConflict, ..), context.DeadlineExceeded). *)
Example composites_are_covered :
  let c := Multi [120] (new (Some (Sent ErrConflict)) [97]) CtxDeadline in
  ctx_kind_of c = Some ErrTimeout /\ is_common (Some c) = true /\
  given (new (Some c) [109]) ErrTimeout /\
  exactly (wrap_if_not_common (Some (Sent ErrInvalid)) (Some c) [109]) ErrTimeout /\
  exactly (wrap_error (Some c) (Some (Opaque [98])) [109]) ErrTimeout.
Proof.
  cbv zeta. split; [reflexivity|]. split; [vm_compute; reflexivity|]. split; [apply G_new, A_ctx; reflexivity|].
  split; [apply (context_cause_wins (Some (Sent ErrInvalid)) _ ErrTimeout [109]); left; reflexivity|].
  apply constructors_keep_kind. apply (G_wrap _ _ ErrTimeout None); [apply A_ctx; reflexivity|].
  apply C_plain. vm_compute. auto.
Qed.

Example given_example :
  given (wrap_if_not_common (Some (Sent ErrInvalid)) (Some (wrap_error (Some (Sent ErrNotFound)) (Some CtxCanceled) [109])) [120]) ErrCancelled.
Proof.
  apply (G_wrapinc _ _ ErrInvalid (Some ErrCancelled)).
  - apply A_given. constructor. vm_compute. lia.
  - apply C_given. apply (G_wrap _ _ ErrNotFound (Some ErrCancelled)).
    + apply A_given. constructor. vm_compute. lia.
    + apply C_ctx. reflexivity.
Qed.
