(* C09 — Cancellation is honoured everywhere; context-aware I/O yields exact prefixes. *)
From Coq Require Import List ZArith Bool Lia.
Import ListNotations.
From GU Require Import C09.IR C09.Gen C09.SkExpected C09.SkCheck C09.Model C09.Proofs C09.ProofsGen C09.ProofsB.
Local Open Scope Z_scope.

(* The theorems below are about the model INSTANTIATED WITH coq/C09/Gen.v, which translator-c09/cmd/ckpt2coq regenerates
   from the Go source on every run (safeio facts; check-point structure of files.go / zip.go; programs of the walk /
   listing / removal families).  Each proof reduces the generated facts it needs by computation, so a changed fact
   breaks exactly the theorems that depend on it. *)

(* ---------- the generated facts themselves ---------- *)

(* safeio: default capacity capped by a constant (D14), unlimited reader for a negative maximum, buffer wrapped,
   ReadAll = ReadAtMost(-1,-1), CopyData = io.Copy, the contextual reader / writer are contextio's, Write converts its
   error, DetermineContextError converts what it reads from the context *)
Theorem generated_safeio_facts_hold : safeio_facts_ok gen_safeio = true.
Proof. reflexivity. Qed.
Print Assumptions generated_safeio_facts_hold.

(* every context-accepting function of files.go / zip.go reaches a context test, and no mutating backend helper is
   reached before it (callees included): a context done at the call changes nothing *)
Theorem generated_no_mutation_before_first_context_test :
  forallb (fun p => p_has_test p && negb (existsb mutating (p_before p))) gen_preludes = true.
Proof. reflexivity. Qed.
Print Assumptions generated_no_mutation_before_first_context_test.

(* every loop over entries (walk, ListDirTree, CleanDir, copyFolder, moveFolder, unzip, directory timestamps, the
   garbage-collection fan-out, SubDirectories): a context test dominates the backend operations of each iteration and
   the errors of the iteration — cancellation included — are returned, not dropped *)
Theorem generated_loops_tested_and_errors_returned :
  forallb (fun l => l_test_dominates l && l_errors_returned l) gen_loops = true /\ (9 <= length gen_loops)%nat.
Proof. split; [reflexivity|cbn; lia]. Qed.
Print Assumptions generated_loops_tested_and_errors_returned.

(* the generated programs: every mutating helper (dead branches included, e.g. the symbolic-link branch of
   removeWithExclusionPatterns) is preceded by a context test; no error of an entry is dropped *)
Theorem generated_programs_are_guarded :
  forallb guarded [gen_walk_body; gen_listtree_body; gen_remove_body; gen_walk_entry; gen_listtree_entry; gen_remove_entry;
                   gen_clean_entry; gen_chmod_entry; gen_chown_entry; gen_lsrecursive_entry] = true.
Proof. exact generated_programs_guarded. Qed.
Print Assumptions generated_programs_are_guarded.

(* the traces interpreted from the generated programs are the traces whose stretches are bounded in ProofsB.v *)
Theorem generated_traces_are_the_analysed_traces : forall e t, ep_trace e t = ep_hand e t.
Proof. exact ep_trace_is_hand. Qed.
Print Assumptions generated_traces_are_the_analysed_traces.

(* copy and move: the regenerated skeletons are the ones copy_entry / move_entry were derived from (minimum tie) *)
Theorem generated_copy_move_skeletons_as_analysed :
  (gen_sk_CopyBetweenFSWithExclusionPatterns, gen_sk_CopyBetweenFSWithExclusionRegexes, gen_sk_copyFolderBetweenFSWithExclusionRegexes,
   gen_sk_copyFileBetweenFSWithExclusionPatternsWithExclusionRegexes, gen_sk_VFS_MoveWithContext, gen_sk_VFS_move, gen_sk_VFS_moveFolder,
   gen_sk_VFS_moveFile, gen_sk_VFS_CopyToDirectoryWithContext, gen_sk_VFS_RemoveWithPrivileges, gen_sk_VFS_ReadFileContent)
  = (exp_sk_CopyBetweenFSWithExclusionPatterns, exp_sk_CopyBetweenFSWithExclusionRegexes, exp_sk_copyFolderBetweenFSWithExclusionRegexes,
     exp_sk_copyFileBetweenFSWithExclusionPatternsWithExclusionRegexes, exp_sk_VFS_MoveWithContext, exp_sk_VFS_move, exp_sk_VFS_moveFolder,
     exp_sk_VFS_moveFile, exp_sk_VFS_CopyToDirectoryWithContext, exp_sk_VFS_RemoveWithPrivileges, exp_sk_VFS_ReadFileContent).
Proof. reflexivity. Qed.
Print Assumptions generated_copy_move_skeletons_as_analysed.

(* RemoveWithPrivileges: every removal attempt is immediately followed by the return on nil / timeout / cancelled, so
   that a cancelled attempt never escalates to the ownership change or to the forced removal (which runs without the
   context) *)
Theorem generated_privileged_removal_returns_context_errors :
  attempts_return_context_errors gen_sk_VFS_RemoveWithPrivileges = true.
Proof. reflexivity. Qed.
Print Assumptions generated_privileged_removal_returns_context_errors.

(* the kinds: by the generated rules of ConvertIOError / ConvertContextError and the generated source of
   DetermineContextError, an ended context is reported as cancelled / timeout and an unexpected end of stream as EOF *)
Theorem generated_kinds :
  mid_kind false = KCancelled /\ mid_kind true = KTimeout /\ unexp_kind = KEOF /\ eof_kind = KEOF /\
  (forall cause, kind_of_ctx (mkCtx false cause) = KCancelled /\ kind_of_ctx (mkCtx true cause) = KTimeout).
Proof. repeat split. Qed.
Print Assumptions generated_kinds.

(* ---------- part (a): safeio ---------- *)

(* For EVERY source, every maximum, every reader script (chunk sizes, zero-length reads, EOF / unexpected EOF / failure
   at any Read, context ending during any Read) and whether or not the context is done at the call: ReadAtMost returns
   a prefix of the source, never more than a non-negative maximum, and no Read of the source is issued once the
   context has ended. *)
Theorem read_at_most_prefix : forall pre ck max src rs,
  let r := read_at_most pre ck max src rs in
  prefix_of (r_bytes r) src /\ reads_ok (r_tr r) = true /\ r_count r = Z.of_nat (length (r_bytes r)) /\
  (0 <= max -> Z.of_nat (length (r_bytes r)) <= max).
Proof. exact read_at_most_sound. Qed.
Print Assumptions read_at_most_prefix.

(* Well-behaved streams: the bytes returned are EXACTLY the first min(max, available) bytes (the whole source for a
   negative maximum), for every chunking. *)
Theorem read_at_most_exact : forall max src rs,
  plain rs = true ->
  let avail := Z.min (total rs) (Z.of_nat (length src)) in
  let want := if max <? 0 then avail else Z.min max avail in
  let r := read_at_most None KCancelled max src rs in
  r_bytes r = firstn (Z.to_nat want) src /\ r_kind r = (if want =? 0 then KEmpty else KNil).
Proof. exact read_at_most_exact_l. Qed.
Print Assumptions read_at_most_exact.

(* CopyN transfers exactly n bytes or reports an error — for every reader / writer / context script, destination
   with or without io.ReaderFrom. *)
Theorem copy_n_exact : forall rf ck n src rs ws,
  0 <= n ->
  let r := copy_n rf None ck n src rs ws in
  r_count r <= n /\ (r_kind r = KNil -> r_count r = n /\ r_bytes r = firstn (Z.to_nat n) src).
Proof. exact Proofs.copy_n_exact. Qed.
Print Assumptions copy_n_exact.

(* ... and a well-behaved source shorter than n is reported with the EOF kind, a long enough one succeeds *)
Theorem copy_n_short_source_eof : forall rf n src rs,
  0 <= n -> plain rs = true ->
  let avail := Z.min (total rs) (Z.of_nat (length src)) in
  let r := copy_n rf None KCancelled n src rs [] in
  r_bytes r = firstn (Z.to_nat (Z.min n avail)) src /\ r_kind r = (if n <=? avail then KNil else KEOF).
Proof. exact copy_n_plain_l. Qed.
Print Assumptions copy_n_short_source_eof.

(* limited file reads refuse larger files with the 'too large' kind, without reading *)
Theorem limited_read_refuses_large : forall pre ck apply max size src rs,
  let r := limited_read pre ck apply max size src rs in
  prefix_of (r_bytes r) src /\ reads_ok (r_tr r) = true /\
  (pre = None -> apply = true -> max < size -> r_kind r = KTooLarge /\ r_tr r = [] /\ r_bytes r = []).
Proof. exact limited_read_sound. Qed.
Print Assumptions limited_read_refuses_large.

(* Under every reader / writer / context script the bytes delivered to the destination are a prefix of the source,
   the count returned is their number, and no Read of the source and no Write to the destination is issued after
   the context ended. *)
Theorem delivered_is_prefix : forall rf pre ck n src rs ws,
  (let r := copy_data rf pre ck src rs ws in
   prefix_of (r_bytes r) src /\ reads_ok (r_tr r) = true /\ r_count r = Z.of_nat (length (r_bytes r))) /\
  (let r := copy_n rf pre ck n src rs ws in
   prefix_of (r_bytes r) src /\ reads_ok (r_tr r) = true /\ r_count r = Z.of_nat (length (r_bytes r))).
Proof. intros. split; [apply copy_data_prefix | apply copy_n_prefix]. Qed.
Print Assumptions delivered_is_prefix.

(* context done at the call: the kind of the context, no stream operation at all *)
Theorem precancelled_touches_nothing : forall k ck max n rf apply size src rs ws,
  let untouched r := r_kind r = k /\ r_tr r = [] /\ r_bytes r = [] /\ r_count r = 0 in
  untouched (read_at_most (Some k) ck max src rs) /\ untouched (copy_data rf (Some k) ck src rs ws) /\
  untouched (copy_n rf (Some k) ck n src rs ws) /\ untouched (limited_read (Some k) ck apply max size src rs).
Proof. exact precancelled_streams_untouched. Qed.
Print Assumptions precancelled_touches_nothing.

(* The cause attached to a context never influences a result: two contexts ending the same way (cancellation /
   deadline) give identical results whatever their causes, and a context done at the call is reported as
   'cancelled' for a cancellation and 'timeout' for a deadline — never as its cause. *)
Theorem cause_is_irrelevant : forall (c1 c2 : ctxinfo) done rf max n apply size src rs ws,
  cx_deadline c1 = cx_deadline c2 ->
  read_at_most (pre_of done c1) (kind_of_ctx c1) max src rs = read_at_most (pre_of done c2) (kind_of_ctx c2) max src rs /\
  copy_data rf (pre_of done c1) (kind_of_ctx c1) src rs ws = copy_data rf (pre_of done c2) (kind_of_ctx c2) src rs ws /\
  copy_n rf (pre_of done c1) (kind_of_ctx c1) n src rs ws = copy_n rf (pre_of done c2) (kind_of_ctx c2) n src rs ws /\
  limited_read (pre_of done c1) (kind_of_ctx c1) apply max size src rs = limited_read (pre_of done c2) (kind_of_ctx c2) apply max size src rs /\
  r_kind (copy_data rf (pre_of true c1) (kind_of_ctx c1) src rs ws) = (if cx_deadline c1 then KTimeout else KCancelled).
Proof.
  intros c1 c2 done rf max n apply size src rs ws H.
  unfold pre_of, kind_of_ctx. cbn. rewrite H. repeat split; destruct (cx_deadline c2); reflexivity.
Qed.
Print Assumptions cause_is_irrelevant.

(* ---------- part (b): check-pointed loops ---------- *)

(* Whatever the run of an entry point looks like: after the context ends inside the k-th backend operation, the
   number of further backend operations is at most the longest check-free stretch of that run. *)
Theorem ops_after_cancel_le_longest_stretch : forall tr k, (ops_after k tr <= max_gap tr)%nat.
Proof. exact ops_after_le_max_gap. Qed.
Print Assumptions ops_after_cancel_le_longest_stretch.

(* The context ending inside the k-th backend operation of ANY run: either a check point follows and the call fails
   (cancelled / timeout), or no check point follows and every remaining operation is executed — the call never
   succeeds with part of the work left undone (no truncated listing, no partial copy reported as success).  The
   harness compares [errors_out] with the implementation for every modelled entry point and every k. *)
Theorem cancelled_inside_never_truncated_success : forall tr k, (1 <= k <= ops tr)%nat ->
  errors_out k tr = true \/ (k + ops_after k tr = ops tr)%nat.
Proof. exact success_is_complete. Qed.
Print Assumptions cancelled_inside_never_truncated_success.

(* FULL STATEMENT (DESIGN): for every context-accepting entry point f, every tree and every k, the operations after
   cancellation are bounded by a constant B_f.  PROVED here, over all trees and all k, for the walk family
   (WalkWithContext, LsRecursive*, ChmodRecursively, ChownRecursively, ChangeOwnershipRecursively: any callback cost),
   ListDirTree, RemoveWithContext / RemoveWithPrivileges (B = 40), CleanDirWithContext (40), CopyWithContext /
   CopyBetweenFS of a directory (30, deferred Close calls included) and MoveWithContext when Rename is refused (56).
   NOT covered by a theorem (measured sweeps of the harness only): zip, unzip, the exclusion-pattern variants, single
   file reads/writes; garbage collection is refuted below. *)
Theorem ops_after_cancel_bounded_partial : forall (e : epk) (t : tree) (k : nat),
  (ops_after k (ep_trace e t) <= ep_bound e)%nat.
Proof. intros e t k. eapply Nat.le_trans; [apply ops_after_le_max_gap | apply ep_gap]. Qed.
Print Assumptions ops_after_cancel_bounded_partial.

(* Garbage collection fans out one goroutine per entry, each testing the context only when it starts: with every
   goroutine past its test when the context ends, the operations after cancellation exceed ANY bound (D22; the
   harness replays this schedule on the implementation with the shim on every run). *)
Theorem gc_after_cancel_unbounded_refuted : forall B, exists cs, (gc_after_cancel_all_started cs > B)%nat.
Proof. exact gc_unbounded. Qed.
Print Assumptions gc_after_cancel_unbounded_refuted.

(* non-vacuity *)
Example c09_read_nonvacuous :
  r_bytes (read_at_most None KCancelled 4 [1;2;3;4;5;6] [mkRd 2 RNone false; mkRd 0 RNone false; mkRd 9 RNone false]) = [1;2;3;4].
Proof. reflexivity. Qed.
Example c09_cancel_nonvacuous :
  let r := copy_data false None KCancelled [1;2;3;4;5;6] [mkRd 2 RNone false; mkRd 2 RNone true; mkRd 2 RNone false] [] in
  r_bytes r = [1;2] /\ r_kind r = KCancelled /\ r_tr r = [EvRead false 2; EvWrite false 2 2; EvRead false 2].
Proof. repeat split. Qed.
Example c09_walk_nonvacuous : ops_after 2 (walk_entry 0 (D [F 1; D [F 1; F 1]])) = 9%nat /\ B_walk 0 = 10%nat.
Proof. split; reflexivity. Qed.
Example c09_remove_nonvacuous : ops_after 1 (ep_trace ERemove (D [])) = 39%nat /\ ops_after 3 (ep_trace ECopy (D [F 2])) = 11%nat.
Proof. split; reflexivity. Qed.
