(* C09 — checks on the regenerated skeletons (strings). *)
From Coq Require Import List String Bool.
Import ListNotations.
From GU Require Import C09.IR.
Local Open Scope string_scope.

(* RemoveWithPrivileges: each removal attempt is immediately followed by
   `if commonerrors.Any(err, nil, ErrTimeout, ErrCancelled) { return }` — a cancelled attempt never escalates *)
Fixpoint attempts_return_context_errors (l : list sk) : bool :=
  match l with
  | [] => true
  | SkCall f _ :: r =>
      if String.eqb f "VFS.RemoveWithContext"
      then match r with
           | SkIf c :: SkRet _ :: _ =>
               String.eqb c "commonerrors.Any(err,nil,commonerrors.ErrTimeout,commonerrors.ErrCancelled)" && attempts_return_context_errors r
           | _ => false
           end
      else attempts_return_context_errors r
  | _ :: r => attempts_return_context_errors r
  end.

