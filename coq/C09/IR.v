(* C09 — the vocabulary of the facts and programs that translator-c09/cmd/ckpt2coq extracts from the Go source on every
   run (coq/C09/Gen.v is written in these terms).  Definitions only. *)
From Coq Require Import List ZArith String Bool.
Import ListNotations.
Local Open Scope Z_scope.

(* ---------- safeio / parallelisation / commonerrors ---------- *)
Inductive cmp := CGt | CGe | CLt | CLe | CEq | CNe.
Definition cmp_eval (c : cmp) (a b : Z) : bool :=
  match c with CGt => b <? a | CGe => b <=? a | CLt => a <? b | CLe => a <=? b | CEq => a =? b | CNe => negb (a =? b) end.

(* the value handed to io.LimitReader, relative to ReadAtMost's parameter max *)
Inductive limarg := LimMax | LimMaxPlus (d : Z) | LimConst (c : Z).

(* default buffer capacity when none is given (bufferCapacity < 0) *)
Inductive caprule :=
| CapMinReadIfNegative_ConstIfAbove_ElseMax (cap : Z)   (* max<0 -> bytes.MinRead; max>cap -> cap; else max *)
| CapMinReadIfNegative_ElseMax                          (* the code before the fix of D14 *)
| CapOther.

Inductive ctxsrc := CtxErr | CtxCause | CtxOther.       (* what DetermineContextError reads from the context *)

Inductive errsym := EIoEOF | EIoUnexpectedEOF | EErrEOF | ECtxCanceled | ECtxDeadline | EErrCancelled | EErrTimeout | EOtherErr.
Definition errsym_eqb (a b : errsym) : bool :=
  match a, b with
  | EIoEOF, EIoEOF | EIoUnexpectedEOF, EIoUnexpectedEOF | EErrEOF, EErrEOF | ECtxCanceled, ECtxCanceled
  | ECtxDeadline, ECtxDeadline | EErrCancelled, EErrCancelled | EErrTimeout, EErrTimeout | EOtherErr, EOtherErr => true
  | _, _ => false
  end.

(* commonerrors.ConvertContextError: `if Any(err, from) { return into }`, in source order *)
Inductive ctxerr_rule := CRMap (from into : errsym).
(* safeio.ConvertIOError: newErr = ConvertContextError(err); then a switch whose cases are tried in order *)
Inductive ioerr_rule :=
| IRConvertContext                                  (* newErr = commonerrors.ConvertContextError(err) *)
| IRKeepIfAny (l : list errsym)                     (* case Any(newErr, l...): keep *)
| IRWrapIfAny (l : list errsym) (into : errsym).    (* case Any(newErr, l...): newErr = WrapError(into, newErr) *)

Record safeio_facts := mkSafeio {
  ram_cap_rule : caprule;
  ram_ctx_test_before_alloc : bool;   (* DetermineContextError(ctx) + return precede bytes.NewBuffer(make(...)) *)
  ram_guard : cmp * Z;                (* `max OP c` selects io.LimitReader *)
  ram_limarg : limarg;
  ram_else_unlimited : bool;          (* else: reader = src *)
  ram_src_wrapped : bool;             (* ReadFrom(NewContextualReader(ctx, reader)) *)
  ram_buf_wrapped : bool;             (* NewContextualReaderFrom(ctx, buf) *)
  ram_converts : bool;                (* err = ConvertIOError(err) right after ReadFrom *)
  ram_empty_rule : bool;              (* read == 0 -> ErrEmpty *)
  ram_content_set_after_error_return : bool;
  readall_args : Z * Z;               (* ReadAll = ReadAtMost(ctx, src, a, b) *)
  copy_ctx_test_first : bool;
  copy_src_wrapped : bool;            (* NewContextualReader(ctx, src) *)
  copy_dst_wrapped : bool;            (* ContextualWriter(ctx, dst) *)
  copydata_is_iocopy : bool;
  copyn_is_iocopyn_same_n : bool;     (* io.CopyN(dst, src, n) with the caller's n *)
  safecopy_converts : bool;
  cwriter_is_contextio : bool;        (* ContextualWriter = contextualCopier{contextio.NewWriter(ctx, writer)} *)
  cwriter_write_converts : bool;
  creader_is_contextio : bool;        (* NewContextualReader = contextio.NewReader(ctx, reader) *)
  ioerr_rules : list ioerr_rule;
  ctxerr_rules : list ctxerr_rule;
  dce_source : ctxsrc;
  dce_converts : bool                 (* ... wrapped in commonerrors.ConvertContextError *)
}.

(* filesystem.VFS.ReadFileContent: the refusal of files larger than the limit *)
Record rfc_facts := mkRfc {
  rfc_ctx_test_before_stat : bool;
  rfc_guard : cmp;                       (* fileSize OP max *)
  rfc_guard_needs_apply : bool;          (* limits.Apply() && ... *)
  rfc_guard_nesting : option (cmp * Z);  (* None: directly under `if err == nil` (Stat succeeded); Some (op, c): inside `if fileSize op c` *)
  rfc_guard_returns_toolarge : bool;
  rfc_max_default : Z;                   (* max when the limits do not apply *)
  rfc_max_from_limits_when_apply : bool; (* if limits.Apply() { max = limits.GetMaxFileSize() } *)
  rfc_reads_at_most_max : bool           (* safeio.ReadAtMost(ctx, file, max, bufferCapacity) *)
}.

Fixpoint convert_ctx (rules : list ctxerr_rule) (e : errsym) : errsym :=
  match rules with
  | [] => e
  | CRMap from into :: r => if errsym_eqb e from then into else convert_ctx r e
  end.

Fixpoint convert_io_cases (rules : list ioerr_rule) (cr : list ctxerr_rule) (e : errsym) : errsym :=
  match rules with
  | [] => e
  | IRConvertContext :: r => convert_io_cases r cr (convert_ctx cr e)
  | IRKeepIfAny l :: r => if existsb (errsym_eqb e) l then e else convert_io_cases r cr e
  | IRWrapIfAny l into :: r => if existsb (errsym_eqb e) l then into else convert_io_cases r cr e
  end.

(* ---------- filesystem: check-point structure ---------- *)

(* backend-touching helpers of the VFS *)
Inductive helper :=
| HLstat | HStat | HExists | HIsDir | HIsFile | HIsEmpty | HLs | HOpen | HClose | HReadDir
| HMkDir | HRemove | HRename | HCreate | HChmod | HChown | HChtimes | HWrite | HOtherMut
| HCallback               (* the function handed to a walk *)
| HCopyStream             (* safeio.CopyDataWithContext / CopyNWithContext / ReadAtMost: context-aware by themselves *)
| HOtherRead.

Definition mutating (h : helper) : bool :=
  match h with
  | HMkDir | HRemove | HRename | HCreate | HChmod | HChown | HChtimes | HWrite | HOtherMut => true
  | _ => false
  end.

(* what a helper is applied to *)
Inductive role := RSelf | RSelfEmptied | RChild | ROther.

(* conditions of the main path that depend on the entry (all error tests are false on the main path) *)
Inductive cnd := CIsDir | CIsFile | CDirNonEmpty | CIsEmptyDir | CTrue | CFalse.

(* families of mutually recursive functions; a call on an entry of the current directory *)
Inductive fam := FWalk | FListTree | FRemove.

Inductive item :=
| IChk                                  (* err = DetermineContextError(ctx); if err != nil { return } *)
| IOp (h : helper) (r : role)
| IIf (c : cnd) (th el : list item)
| IFor (body : list item)               (* over the entries of the current directory, in listing order *)
| ICallChild (f : fam)                  (* a call of family f on the entry of the enclosing loop, its error returned *)
| ICallChildDropsError (f : fam).       (* ... its error NOT returned *)

(* per function: what is reached before the first context test, on the main path *)
Record prelude := mkPrelude {
  p_name : string;
  p_before : list helper;      (* backend helpers called before the first context test (callees included) *)
  p_has_test : bool            (* a context test is reached at all (possibly in a callee) *)
}.

(* per loop over entries *)
Record loopfact := mkLoop {
  l_fn : string;
  l_range : string;
  l_test_dominates : bool;       (* a context test precedes every backend helper of the iteration (callees included) *)
  l_errors_returned : bool       (* the error of the iteration's context test / context-accepting callee is returned *)
}.

(* skeleton of a function: main-path events in source order, structure flattened with markers *)
Inductive sk :=
| SkChk | SkOp (h : helper) (arg : string) | SkCall (f : string) (returned : bool)
| SkLoop | SkEndLoop | SkIf (c : string) | SkElse | SkEndIf | SkDefer (what : string) | SkRet (what : string).
