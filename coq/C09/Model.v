(* C09 — executable model of the context-aware I/O helpers (utils/safeio) and of the check-pointed loops of the
   filesystem API (utils/filesystem/files.go, zip.go).  Definitions only.

   PART (a)  safeio.  One loop serves ReadAtMost, CopyDataWithContext and CopyNWithContext, because in Go they are
   the same loop: io.Copy's generic loop (io.go copyBuffer) resp. bytes.Buffer.ReadFrom, reading through
   contextio.reader (context tested BEFORE every Read, contextio/io.go:71-78) and io.LimitedReader (io.go Read:
   N<=0 => EOF without touching the source; p truncated to N), writing through contextio.writer (context tested
   BEFORE every Write, contextio/io.go:49-56).

   A READER SCRIPT is the list of answers the source gave, Read by Read: bytes returned, error, and whether the
   context ended during that Read.  A WRITER SCRIPT is the list of answers of the destination, Write by Write. *)
From Coq Require Import List ZArith Bool Lia.
Import ListNotations.
From GU Require Import C09.IR C09.Gen.
Local Open Scope Z_scope.

(* C09.Gen is REGENERATED from the Go source on every run (translator-c09/cmd/ckpt2coq).  The model below reads from it:
   the limit guard and the argument of io.LimitReader, which streams are wrapped in the contextual reader / writer, whether
   the context is tested first, the rules of ConvertIOError / ConvertContextError and what DetermineContextError consults
   (part a); the programs of the walk / listing / removal families from which the traces of part (b) are built. *)

Inductive kind := KNil | KCancelled | KTimeout | KEOF | KEmpty | KTooLarge | KOther.

Definition kind_eqb (a b : kind) : bool :=
  match a, b with
  | KNil, KNil | KCancelled, KCancelled | KTimeout, KTimeout | KEOF, KEOF | KEmpty, KEmpty
  | KTooLarge, KTooLarge | KOther, KOther => true
  | _, _ => false
  end.

Definition kind_of_errsym (e : errsym) : kind :=
  match e with EErrEOF => KEOF | EErrCancelled => KCancelled | EErrTimeout => KTimeout | _ => KOther end.
(* safeio.ConvertIOError applied to io.ErrUnexpectedEOF / io.EOF / the error of an ended context, by the generated rules *)
Definition io_kind (e : errsym) : kind := kind_of_errsym (convert_io_cases (ioerr_rules gen_safeio) (ctxerr_rules gen_safeio) e).
Definition unexp_kind : kind := io_kind EIoUnexpectedEOF.
Definition eof_kind : kind := io_kind EIoEOF.
(* kind reported when the context ends during the call (contextio returns ctx.Err(), converted by ConvertIOError) *)
Definition mid_kind (deadline : bool) : kind := io_kind (if deadline then ECtxDeadline else ECtxCanceled).

(* error returned by one source Read: none / io.EOF / io.ErrUnexpectedEOF / any other failure *)
Inductive rerr := RNone | REof | RUnexp | RFail.

Record rd := mkRd { rd_n : Z; rd_err : rerr; rd_cancel : bool }.
Record wr := mkWr { w_n : Z; w_err : bool; w_cancel : bool }.

(* what the instrumented streams see: a Read of the source (flag: was the context already done when it was
   issued; bytes returned), a Write to the destination (same flag; bytes offered; bytes accepted) *)
Inductive ev := EvRead (ctx_done : bool) (n : Z) | EvWrite (ctx_done : bool) (offered accepted : Z).

Record st := mkSt {
  s_lim : option Z;      (* io.LimitedReader.N, None = no limit reader *)
  s_ctx : bool;          (* context done *)
  s_src : list Z;        (* bytes the source has not delivered yet *)
  s_ws : list wr;        (* writer script left *)
  s_written : Z;         (* io.Copy's [written] / Buffer.ReadFrom's [n] *)
  s_dl : list Z;         (* bytes the destination holds *)
  s_tr : list ev         (* log of the instrumented streams *)
}.

Inductive next := Continue | Done (k : kind).

Definition room (lim : option Z) : Z := match lim with Some n => n | None => -1 end.
Definition lim_done (lim : option Z) : bool := match lim with Some n => n <=? 0 | None => false end.
Definition lim_dec (lim : option Z) (n : Z) : option Z := match lim with Some m => Some (m - n) | None => None end.

(* bytes a Read really returns: what the source answers, never more than it has, never more than the
   limit reader lets through (io.go LimitedReader.Read: p = p[0:N]) *)
Definition clamp (lim : option Z) (have n : Z) : Z :=
  let n1 := Z.max 0 (Z.min n have) in
  match lim with Some m => Z.min n1 (Z.max 0 m) | None => n1 end.

Definition next_write (n : Z) (ws : list wr) : Z * bool * bool * list wr :=
  match ws with
  | [] => (n, false, false, [])
  | w :: ws' => (Z.max 0 (Z.min (w_n w) n), w_err w, w_cancel w, ws')
  end.

Definition after_err (e : rerr) (s : st) : st * next :=
  match e with
  | RNone => (s, Continue)          (* io.Copy: er == nil -> next iteration (also for zero-length reads) *)
  | REof => (s, Done KNil)          (* er == EOF -> break, err = nil *)
  | RUnexp => (s, Done unexp_kind)  (* safeio/error.go: io.ErrUnexpectedEOF -> kind EOF, by the generated rules *)
  | RFail => (s, Done KOther)
  end.

(* One iteration of io.Copy's loop (io.go copyBuffer, "for { nr, er := src.Read(buf) ... }") once the guards of
   the wrapped reader have let the Read through.  [rf]: the destination absorbs the data itself
   (bytes.Buffer.ReadFrom in ReadAtMost, or a destination implementing io.ReaderFrom, contextio/io.go:85-88):
   then no contextual Write stands between the Read and the destination.  [ck]: kind the context reports. *)
Definition step (rf ww : bool) (ck : kind) (r : rd) (s : st) : st * next :=
  let n := clamp (s_lim s) (Z.of_nat (length (s_src s))) (rd_n r) in
  let data := firstn (Z.to_nat n) (s_src s) in
  let ctx1 := s_ctx s || rd_cancel r in
  let s1 := mkSt (lim_dec (s_lim s) n) ctx1 (skipn (Z.to_nat n) (s_src s)) (s_ws s) (s_written s) (s_dl s)
                 (s_tr s ++ [EvRead (s_ctx s) n]) in
  if 0 <? n then
    if rf then
      after_err (rd_err r) (mkSt (s_lim s1) ctx1 (s_src s1) (s_ws s1) (s_written s1 + n) (s_dl s1 ++ data) (s_tr s1))
    else if ww && ctx1 then (s1, Done ck)   (* [ww] the destination is wrapped: contextio.writer.Write: context done -> 0, ctx.Err() *)
    else
      let '(acc, werr, wc, ws') := next_write n (s_ws s1) in
      let s2 := mkSt (s_lim s1) (ctx1 || wc) (s_src s1) ws' (s_written s1 + acc)
                     (s_dl s1 ++ firstn (Z.to_nat acc) data) (s_tr s1 ++ [EvWrite ctx1 n acc]) in
      if werr then (s2, Done KOther)                 (* ew != nil -> break *)
      else if acc <? n then (s2, Done KOther)        (* io.ErrShortWrite *)
      else after_err (rd_err r) s2
  else after_err (rd_err r) s1.

(* the guards in front of every Read.  [ctx_first]: contextio.reader wraps the limit reader (ReadAtMost,
   read.go:51-57) — otherwise the limit reader wraps contextio.reader (io.CopyN called on the contextual
   reader, copy.go:18-19,26). *)
Definition guard (ctx_first rw : bool) (ck : kind) (s : st) : option kind :=   (* [rw]: the source is wrapped in the contextual reader *)
  if ctx_first then (if rw && s_ctx s then Some ck else if lim_done (s_lim s) then Some KNil else None)
  else (if lim_done (s_lim s) then Some KNil else if rw && s_ctx s then Some ck else None).

Record outcome := mkOut {
  o_st : st; o_kind : kind;
  o_left : list rd;        (* answers of the script not consumed *)
  o_starved : bool         (* the loop asked for a Read beyond the script (answered 0, EOF) *)
}.

Fixpoint loop (rf ctx_first rw ww : bool) (ck : kind) (rs : list rd) (s : st) : outcome :=
  match guard ctx_first rw ck s with
  | Some k => mkOut s k rs false
  | None =>
    match rs with
    | [] => mkOut (mkSt (s_lim s) (s_ctx s) (s_src s) (s_ws s) (s_written s) (s_dl s) (s_tr s ++ [EvRead (s_ctx s) 0]))
                  KNil [] true
    | r :: rs' =>
      match step rf ww ck r s with
      | (s', Continue) => loop rf ctx_first rw ww ck rs' s'
      | (s', Done k) => mkOut s' k rs' false
      end
    end
  end.

Definition init (lim : option Z) (src : list Z) (ws : list wr) : st := mkSt lim false src ws 0 [] [].
Definition init_done (lim : option Z) (src : list Z) (ws : list wr) : st := mkSt lim true src ws 0 [] [].

(* the limit reader ReadAtMost puts in front of the source, from the generated guard and argument *)
Definition limit_of (f : safeio_facts) (max : Z) : option Z :=
  if cmp_eval (fst (ram_guard f)) max (snd (ram_guard f))
  then Some (match ram_limarg f with LimMax => max | LimMaxPlus d => max + d | LimConst c => c end)
  else None.
(* the remaining generated facts, which have no counterpart in the executable model: they must hold as such *)
Definition safeio_facts_ok (f : safeio_facts) : bool :=
  match ram_cap_rule f with CapMinReadIfNegative_ConstIfAbove_ElseMax c => (0 <? c) && (c <=? 1073741824) | _ => false end
  && ram_else_unlimited f && ram_buf_wrapped f
  && (fst (readall_args f) =? -1) && (snd (readall_args f) =? -1)
  && copydata_is_iocopy f && cwriter_is_contextio f && cwriter_write_converts f && creader_is_contextio f && dce_converts f.

(* an error is reported with its kind only if it went through ConvertIOError *)
Definition converted (conv : bool) (k : kind) : kind := if conv then k else match k with KNil => KNil | _ => KOther end.

(* result of a helper: returned count, error kind, bytes handed out (content resp. destination), stream log *)
Record result := mkRes { r_count : Z; r_kind : kind; r_bytes : list Z; r_tr : list ev; r_left : list rd; r_wleft : list wr; r_starved : bool }.

Definition res_of (o : outcome) (count : Z) (k : kind) (bytes : list Z) : result :=
  mkRes count k bytes (s_tr (o_st o)) (o_left o) (s_ws (o_st o)) (o_starved o).

(* [pre] = the context is already done at the call, and reports this kind (parallelisation.go:20-22) *)
Definition refused (k : kind) (rs : list rd) (ws : list wr) : result := mkRes 0 k [] [] rs ws false.

(* safeio.CopyDataWithContext (copy.go): context test first, then io.Copy between the wrapped streams *)
Definition copy_data (rf : bool) (pre : option kind) (ck : kind) (src : list Z) (rs : list rd) (ws : list wr) : result :=
  let run st0 := let o := loop rf false (copy_src_wrapped gen_safeio) (copy_dst_wrapped gen_safeio) ck rs st0 in
                 res_of o (s_written (o_st o)) (converted (safecopy_converts gen_safeio) (o_kind o)) (s_dl (o_st o)) in
  match pre with
  | Some k => if copy_ctx_test_first gen_safeio then refused k rs ws else run (init_done None src ws)
  | None => run (init None src ws)
  end.

(* safeio.CopyNWithContext = io.CopyN through the same wrappers: written == n -> nil; written < n && err == nil -> EOF *)
Definition copy_n (rf : bool) (pre : option kind) (ck : kind) (n : Z) (src : list Z) (rs : list rd) (ws : list wr) : result :=
  let lim := if copyn_is_iocopyn_same_n gen_safeio then Some n else None in
  let run st0 := let o := loop rf false (copy_src_wrapped gen_safeio) (copy_dst_wrapped gen_safeio) ck rs st0 in
                 let w := s_written (o_st o) in
                 let k := if w =? n then KNil else if (w <? n) && kind_eqb (o_kind o) KNil then eof_kind else o_kind o in
                 res_of o (if w =? n then n else w) (converted (safecopy_converts gen_safeio) k) (s_dl (o_st o)) in
  match pre with
  | Some k => if copy_ctx_test_first gen_safeio then refused k rs ws else run (init_done lim src ws)
  | None => run (init lim src ws)
  end.

(* safeio.ReadAtMost (read.go); the capacity only sizes the buffer and has no observable effect.
   On any error the named result [content] is still nil; zero bytes read -> kind Empty. *)
Definition read_at_most (pre : option kind) (ck : kind) (max : Z) (src : list Z) (rs : list rd) : result :=
  let run st0 := let o := loop true true (ram_src_wrapped gen_safeio) true ck rs st0 in
            match converted (ram_converts gen_safeio) (o_kind o) with
            | KNil => if ram_empty_rule gen_safeio && (s_written (o_st o) =? 0) then res_of o 0 KEmpty [] else res_of o (s_written (o_st o)) KNil (s_dl (o_st o))
            | k => if ram_content_set_after_error_return gen_safeio then res_of o 0 k [] else res_of o (s_written (o_st o)) k (s_dl (o_st o))
            end in
  match pre with
  | Some k => if ram_ctx_test_before_alloc gen_safeio then refused k rs [] else run (init_done (limit_of gen_safeio max) src [])
  | None => run (init (limit_of gen_safeio max) src [])
  end.

(* filesystem.VFS.ReadFileContent (files.go): context test, Stat, refusal of a size above the maximum with the kind
   TooLarge — where the refusal stands and what it compares are GENERATED (gen_rfc) — else ReadAtMost(max) *)
Definition rfc_refuses (f : rfc_facts) (apply : bool) (max size : Z) : bool :=
  (if rfc_guard_needs_apply f then apply else true) && cmp_eval (rfc_guard f) size max
  && match rfc_guard_nesting f with None => true | Some (c, k) => cmp_eval c size k end.
Definition limited_read (pre : option kind) (ck : kind) (apply : bool) (max : Z) (size : Z) (src : list Z) (rs : list rd) : result :=
  let mx := if apply && rfc_max_from_limits_when_apply gen_rfc then max else rfc_max_default gen_rfc in
  let body := if rfc_refuses gen_rfc apply mx size
              then mkRes 0 (if rfc_guard_returns_toolarge gen_rfc then KTooLarge else KOther) [] [] rs [] false
              else read_at_most None ck (if rfc_reads_at_most_max gen_rfc then mx else -1) src rs in
  match pre with
  | Some k => if rfc_ctx_test_before_stat gen_rfc then refused k rs [] else body
  | None => body
  end.

(* A context as the helpers see it: how it ends (cancellation or deadline) and the CAUSE attached to it
   (context.WithCancelCause / WithDeadlineCause / WithTimeoutCause; None = no cause).  Only the way it ends decides the
   kind (parallelisation.go DetermineContextError = ConvertContextError(ctx.Err()): Canceled -> cancelled,
   DeadlineExceeded -> timeout); the cause is data the helpers never look at. *)
Record ctxinfo := mkCtx { cx_deadline : bool; cx_cause : option (list Z) }.
(* what DetermineContextError reports: from the generated source (ctx.Err() / context.Cause(ctx)) and conversion rules *)
Definition kind_of_ctx (c : ctxinfo) : kind :=
  let raw := if cx_deadline c then ECtxDeadline else ECtxCanceled in
  match dce_source gen_safeio, cx_cause c with
  | CtxErr, _ | CtxCause, None => if dce_converts gen_safeio then kind_of_errsym (convert_ctx (ctxerr_rules gen_safeio) raw) else KOther
  | _, _ => KOther      (* the cause itself: an arbitrary error *)
  end.
Definition pre_of (done_at_call : bool) (c : ctxinfo) : option kind := if done_at_call then Some (kind_of_ctx c) else None.

(* ---------- script classes used by the theorems ---------- *)

(* a source that only delivers data (any chunk sizes, zero-length reads allowed), never fails, never sees the
   context end; its end of stream is the end of the script or a final (n, EOF) *)
Definition plain_rd (r : rd) : bool :=
  (0 <=? rd_n r) && negb (rd_cancel r) && match rd_err r with RNone => true | _ => false end.
Definition plain (rs : list rd) : bool := forallb plain_rd rs.
Fixpoint total (rs : list rd) : Z := match rs with [] => 0 | r :: rs' => rd_n r + total rs' end.

Fixpoint reads_ok (tr : list ev) : bool :=      (* no Read of the source was issued with the context done *)
  match tr with
  | [] => true
  | EvRead c _ :: t => negb c && reads_ok t
  | EvWrite c _ _ :: t => negb c && reads_ok t   (* nor any Write to the destination *)
  end.

Fixpoint is_prefix (a b : list Z) : bool :=
  match a, b with
  | [], _ => true
  | x :: a', y :: b' => (x =? y) && is_prefix a' b'
  | _ :: _, [] => false
  end.

(* ================================================================================================
   PART (b)  check-pointed loops of the filesystem API.
   A run of an entry point is the sequence of its backend operations [Op] with the places where the code
   consults the context ([Chk] = parallelisation.DetermineContextError, or a contextual Read/Write guard).
   If the context ends inside the k-th backend operation, execution goes on until the next [Chk]. *)
(* [ChkD d]: a check point inside the scope of d deferred clean-up operations (deferred Close calls): when the run
   stops there, those d operations are still issued.  [Chk] = a check point outside any such scope. *)
Inductive bev := ChkD (d : nat) | Op.
Notation Chk := (ChkD 0).

Fixpoint ops (tr : list bev) : nat := match tr with [] => 0 | Op :: t => S (ops t) | ChkD _ :: t => ops t end.

(* operations executed before the next check point, plus the clean-up it triggers *)
Fixpoint head_run (tr : list bev) : nat := match tr with Op :: t => S (head_run t) | ChkD d :: _ => d | [] => 0 end.

(* the rest of the trace after its k-th backend operation (k >= 1) *)
Fixpoint after_kth (k : nat) (tr : list bev) : list bev :=
  match tr with
  | [] => []
  | ChkD _ :: t => after_kth k t
  | Op :: t => match k with 0 => tr | 1 => t | S k' => after_kth k' t end
  end%nat.

(* backend operations issued after the context ended inside the k-th one *)
Definition ops_after (k : nat) (tr : list bev) : nat := head_run (after_kth k tr).

(* the run ends with an error exactly when a check point follows the operation in which the context ended;
   otherwise every remaining operation is executed and the call succeeds *)
Fixpoint has_chk (tr : list bev) : bool := match tr with [] => false | ChkD _ :: _ => true | Op :: t => has_chk t end.
Definition errors_out (k : nat) (tr : list bev) : bool := has_chk (after_kth k tr).

(* longest stretch of backend operations without a check point (clean-up included) *)
Fixpoint max_gap_aux (cur : nat) (tr : list bev) : nat :=
  match tr with
  | [] => cur
  | ChkD d :: t => Nat.max (cur + d) (max_gap_aux 0 t)
  | Op :: t => max_gap_aux (S cur) t
  end.
Definition max_gap (tr : list bev) : nat := max_gap_aux 0 tr.

(* operations after the last check point *)
Fixpoint tail_run_aux (cur : nat) (tr : list bev) : nat :=
  match tr with [] => cur | ChkD _ :: t => tail_run_aux 0 t | Op :: t => tail_run_aux (S cur) t end.
Definition tail_run (tr : list bev) : nat := tail_run_aux 0 tr.

Definition opsn (n : nat) : list bev := repeat Op n.

(* trees: a file, or a directory with its children (in listing order) *)
Inductive tree := F (chunks : nat) | D (children : list tree).   (* a file: number of io.Copy buffer fills (32 KiB) *)

(* Primitive sequences of the VFS helpers on the in-memory back end, counted in backend operations
   (files.go): Exists = Stat (+ Open, Readdirnames, Close, Close for a directory, :637-670);
   IsDir/IsFile = Exists + Stat (:758-823); Ls = IsDir + Open + Readdirnames + Close + Close (:1245-1262);
   Lstat = 1. *)
Definition is_dir (t : tree) : bool := match t with D _ => true | F _ => false end.
Definition c_exists (t : tree) : nat := if is_dir t then 5 else 1.
Definition c_isdir (t : tree) : nat := c_exists t + 1.
Definition c_ls : nat := (5 + 1) + 4.

(* VFS.walk (files.go:167-219) with a callback issuing [cb] backend operations per visited entry:
   check (:172); callback (:176); for a directory Ls (:183) then, per child, check (:199), Lstat (:204), recurse *)
Fixpoint walk_tr (cb : nat) (t : tree) : list bev :=
  Chk :: opsn cb ++
  match t with
  | F _ => []
  | D cs => opsn c_ls ++ flat_map (fun c => Chk :: Op :: walk_tr cb c) cs
  end.

(* WalkWithContextAndExclusionPatterns (files.go:138-164): Lstat of the root, then walk *)
Definition walk_entry (cb : nat) (t : tree) : list bev := Op :: walk_tr cb t.

(* ChmodRecursively / ChownRecursively (files.go:975-991, :1064-1080) on a directory: check, IsFile (Exists + nothing
   more for a directory: Stat is only reached for existing paths — Exists, Stat), then the walk with a 1-operation callback *)
Definition chmod_entry (t : tree) : list bev :=
  Chk :: opsn (c_isdir t) ++ match t with F _ => [Op] | D _ => walk_entry 1 t end.   (* a file: one Chmod *)

(* ListDirTreeWithContextAndExclusionPatterns (files.go:1841-1873): check (:1842), Ls (:1851), per element:
   check (:1857), IsDir (:1864), recurse into directories *)
Fixpoint listtree_tr (t : tree) : list bev :=
  Chk :: opsn c_ls ++
  match t with
  | F _ => []            (* not a directory: the listing fails *)
  | D cs => flat_map (fun c => Chk :: opsn (c_isdir c) ++ (if is_dir c then listtree_tr c else [])) cs
  end.
Definition listtree_entry (t : tree) : list bev := Chk :: listtree_tr t.

(* bounds (longest check-free stretch) claimed for these entry points, as functions of the callback cost *)
Definition B_walk (cb : nat) : nat := cb + c_ls.
Definition B_listtree : nat := c_ls.


(* ---- removal, cleaning, copy, move (files.go on /repo HEAD; in-memory back end, no links, no exclusions) ---- *)
(* IsEmpty (files.go IsEmpty/isFileEmpty/isDirEmpty): Exists + IsFile + (file: Stat | empty directory: Open,
   Readdirnames, Close | non-empty directory: Open, Readdirnames, Close, Close) *)
Definition c_isempty (t : tree) : nat :=
  c_exists t + c_isdir t + match t with F _ => 1 | D [] => 3 | D _ => 4 end.
Definition c_isempty_emptied (t : tree) : nat :=     (* the same test once the content has been removed *)
  match t with F _ => c_isempty t | D _ => c_isempty (D []) end.

(* removeWithExclusionPatterns: Lstat (link test), Exists, IsDir, IsEmpty, [CleanDir], IsEmpty, CHECK, Remove.
   CleanDirWithContextAndExclusionPatterns: CHECK, Exists, IsEmpty, Ls, per entry: CHECK (removeFileWithContext), remove *)
Fixpoint remove_tr (t : tree) : list bev :=
  opsn (1 + c_exists t + c_isdir t + c_isempty t) ++
  match t with
  | D (c0 :: cs0) =>
      Chk :: opsn (c_exists t + c_isempty t + c_ls) ++ flat_map (fun c => Chk :: remove_tr c) (c0 :: cs0)
  | _ => []
  end ++ opsn (c_isempty_emptied t) ++ [Chk; Op].

Definition clean_entry (t : tree) : list bev :=
  match t with
  | D (c0 :: cs0) => Chk :: opsn (c_exists t + c_isempty t + c_ls) ++ flat_map (fun c => Chk :: remove_tr c) (c0 :: cs0)
  | D [] => Chk :: opsn (c_exists t + c_isempty t)
  | F _ => Chk :: opsn (c_exists t + c_isempty t + c_ls)     (* not a directory: the listing fails *)
  end.

(* copyFileBetweenFS...: CHECK, Open, Create, CopyDataWithContext (CHECK at the call, CHECK in contextio.copier.ReadFrom,
   then per chunk CHECK Read CHECK Write, and the final CHECK Read = EOF), Close x2, deferred Close x2 *)
Definition copyfile_tr (chunks : nat) : list bev :=   (* both files carry a deferred Close from Create to the end *)
  Chk :: Op :: Op :: ChkD 2 :: ChkD 2 :: flat_map (fun _ => [ChkD 2; Op; ChkD 2; Op]) (repeat tt chunks) ++ [ChkD 2; Op] ++ opsn 4.

(* MkDirAll: Exists, then MkdirAll when missing *)
Definition c_mkdir_missing : nat := 1 + 1.
Definition c_mkdir_existing : nat := 5.

(* CopyBetweenFSWithExclusionRegexes for an entry copied INTO the existing directory of its parent:
   CHECK, Exists(src), IsDir(src), Exists(dest dir), IsDir(dest dir); then for a directory copyFolder (CHECK,
   MkDir(dst) missing, IsEmpty(src), Ls(src), entries), for a file Exists(dst) (never a directory) and copyFile *)
Fixpoint copy_child_tr (t : tree) : list bev :=
  Chk :: opsn (c_exists t + c_isdir t + 5 + 6) ++
  match t with
  | F n => Op :: copyfile_tr n
  | D cs => Chk :: opsn (c_mkdir_missing + c_isempty t) ++
            match cs with [] => [] | _ => opsn c_ls ++ flat_map copy_child_tr cs end
  end.

(* CopyWithContext(src directory, missing destination): CHECK (patterns level), CHECK, Exists(src), IsDir(src),
   Exists(dest)=missing, MkDir(dest); copyFolder: CHECK, MkDir(dest) existing, IsEmpty, Ls, entries *)
Definition copy_entry (t : tree) : list bev :=
  match t with
  | F n => [Chk; Chk]   (* not used: the harness copies directories *)
  | D cs => Chk :: Chk :: opsn (c_exists t + c_isdir t + 1 + c_mkdir_missing) ++
            Chk :: opsn (c_mkdir_existing + c_isempty t) ++
            match cs with [] => [] | _ => opsn c_ls ++ flat_map copy_child_tr cs end
  end.

(* VFS.move when the back end refuses Rename: CHECK, MkDir(parent of dest), Rename (fails), IsDir(src);
   directory: moveFolder = CHECK, MkDir(dest) missing, IsEmpty(src), [Ls, entries], remove(src, now empty);
   file: moveFile = CHECK, CopyBetweenFSWithExclusionRegexes (CHECK, Exists, IsDir, Exists(dest)=missing,
   MkDir(parent) existing, Exists(dst)=missing, copyFile), Remove(src) *)
Fixpoint move_tr (parent_cost : nat) (t : tree) : list bev :=
  Chk :: opsn (parent_cost + 1 + c_isdir t) ++
  match t with
  | F n => Chk :: Chk :: opsn (c_exists t + c_isdir t + 1 + c_mkdir_existing + 1) ++ copyfile_tr n ++ [Op]
  | D cs => Chk :: opsn (c_mkdir_missing + c_isempty t) ++
            match cs with [] => [] | _ => opsn c_ls ++ flat_map (move_tr c_mkdir_existing) cs end ++
            remove_tr (D [])
  end.
(* MoveWithContext(directory, missing destination under a missing parent): CHECK, Exists(src), IsDir(src), Exists(dest),
   Exists(target), then move *)
Definition move_entry (t : tree) : list bev := Chk :: opsn (c_exists t + c_isdir t + 1 + 1) ++ move_tr c_mkdir_missing t.

Definition B_remove : nat := 40.
Definition B_copy : nat := 30.
Definition B_move : nat := 56.

Inductive epk := EWalk (cb : nat) | EChmod | EListTree | ERemove | EClean | ECopy | EMoveNoRename.
(* ---------- the traces of the walk / listing / removal / cleaning entry points, BUILT FROM THE GENERATED PROGRAMS ---------- *)
(* cost of a helper in backend operations of the in-memory back end, on the entry it is applied to *)
Definition cost (cb : nat) (h : helper) (r : role) (t : tree) : nat :=
  match h with
  | HExists => c_exists t
  | HIsDir | HIsFile => c_isdir t
  | HIsEmpty => match r with RSelfEmptied => c_isempty_emptied t | _ => c_isempty t end
  | HLs => c_ls
  | HCallback => cb
  | _ => 1
  end.

Definition evalc (c : cnd) (t : tree) : bool :=
  match c with
  | CIsDir => is_dir t
  | CIsFile => negb (is_dir t)
  | CDirNonEmpty => match t with D (_ :: _) => true | _ => false end
  | CIsEmptyDir => match t with D [] => true | _ => false end
  | CTrue => true
  | CFalse => false
  end.

(* the body of a loop, on one entry [t]; [rec f] = the run of family f on that entry *)
Fixpoint body_item (cb : nat) (rec : fam -> list bev) (t : tree) (i : item) {struct i} : list bev :=
  match i with
  | IChk => [Chk]
  | IOp h ro => opsn (cost cb h ro t)
  | IIf c th el =>
      let go := (fix go (l : list item) : list bev :=
                   match l with [] => [] | x :: r => body_item cb rec t x ++ go r end) in
      if evalc c t then go th else go el
  | IFor _ => []                                  (* no loop inside a loop in these programs *)
  | ICallChild f | ICallChildDropsError f => rec f
  end.
Definition body_items (cb : nat) (rec : fam -> list bev) (t : tree) (l : list item) : list bev :=
  flat_map (body_item cb rec t) l.

Definition gen_prog (f : fam) : list item :=
  match f with FWalk => gen_walk_body | FListTree => gen_listtree_body | FRemove => gen_remove_body end.

(* a program on the entry [t]; loops run over the children of t in listing order *)
Fixpoint interp (cb : nat) (t : tree) (l : list item) {struct t} : list bev :=
  let topi := (fix topi (i : item) : list bev :=
     match i with
     | IChk => [Chk]
     | IOp h ro => opsn (cost cb h ro t)
     | IIf c th el =>
         let go := (fix go (l : list item) : list bev := match l with [] => [] | x :: r => topi x ++ go r end) in
         if evalc c t then go th else go el
     | IFor b =>
         match t with
         | D cs => flat_map (fun c => body_items cb (fun f => interp cb c (gen_prog f)) c b) cs
         | F _ => []
         end
     | ICallChild _ | ICallChildDropsError _ => []   (* only meaningful inside a loop *)
     end) in
  flat_map topi l.

(* static condition on a program: on every path (dead branches included) a mutating helper is preceded by a context
   test since the start of the program / of the iteration, and no error of an entry is dropped.
   [guarded_item i seen] = (ok, a test has been seen after i) *)
Fixpoint guarded_item (i : item) (seen : bool) {struct i} : bool * bool :=
  let go := (fix go (l : list item) (seen : bool) : bool * bool :=
               match l with
               | [] => (true, seen)
               | x :: r => let '(o1, s1) := guarded_item x seen in let '(o2, s2) := go r s1 in (o1 && o2, s2)
               end) in
  match i with
  | IChk => (true, true)
  | IOp h _ => (negb (mutating h && negb seen), seen)
  | IIf _ th el => let '(o1, s1) := go th seen in let '(o2, s2) := go el seen in (o1 && o2, s1 && s2)
  | IFor b => let '(o1, _) := go b false in (o1, seen)
  | ICallChild _ => (true, seen)
  | ICallChildDropsError _ => (false, seen)
  end.
Fixpoint guarded_from (l : list item) (seen : bool) : bool :=
  match l with [] => true | x :: r => let '(o, s) := guarded_item x seen in o && guarded_from r s end.
Definition guarded (l : list item) : bool := guarded_from l false.

Definition ep_trace (e : epk) (t : tree) : list bev :=
  match e with
  | EWalk cb => interp cb t gen_walk_entry
  | EChmod => interp gen_chmod_callback_ops t gen_chmod_entry
  | EListTree => interp 0 t gen_listtree_entry
  | ERemove => interp 0 t gen_remove_entry
  | EClean => interp 0 t gen_clean_entry
  | ECopy => copy_entry t
  | EMoveNoRename => move_entry t
  end.
Definition ep_bound (e : epk) : nat :=
  match e with
  | EWalk cb => B_walk cb
  | EChmod => B_walk 1
  | EListTree => B_listtree
  | ERemove | EClean => B_remove
  | ECopy => B_copy
  | EMoveNoRename => B_move
  end.

(* garbage collection (files.go garbageCollect / garbageCollectDir) fans out one goroutine per directory entry
   (Parallelise) and each goroutine tests the context only when it STARTS: under the schedule "every goroutine
   passes its test, then the context ends", every one of the n goroutines still performs its Exists, Lstat (link
   test, deletePath = true) and IsDir operations before the next test. *)
Definition gc_worker (t : tree) : list bev := Chk :: opsn (c_exists t + 1 + c_isdir t) ++ [Chk].
Definition gc_after_cancel_all_started (cs : list tree) : nat :=
  fold_right (fun c acc => head_run (tl (tl (gc_worker c))) + acc)%nat 0%nat cs.
(* (tl (tl _)): the goroutine's test has passed and its first backend operation is in flight when the context ends) *)

(* the trees the harness builds: /t/src = a/b/c.txt, [big.bin], dNNN/fNNN.txt, eNNN/ (listing order) *)
(* zzz/ = a.txt and then, as LAST entry, the next level *)
Fixpoint deep_chain (n : nat) : list tree :=
  match n with O => [] | S m => [D (F 1 :: deep_chain m)] end.
Definition spec_tree (dirs files : nat) (big : nat) (empty : nat) (deep : nat) : tree :=   (* big = chunks of big.bin, 0: absent *)
  D ([D [D [F 1]]] ++ (match big with O => [] | _ => [F big] end) ++ repeat (D (repeat (F 1) files)) dirs ++ repeat (D []) empty
     ++ deep_chain deep).

(* ---------- correspondence ---------- *)
Inductive opk :=
| OpReadAtMost (max : Z)
| OpCopyData
| OpCopyN (n : Z)
| OpLimitedRead (apply : bool) (max size : Z)
| OpWalkTotal (cb : nat) (t : tree) (total : nat)             (* backend operations of an uncancelled walk *)
| OpWalkAfter (cb : nat) (t : tree) (k after : nat)           (* ... issued after cancelling inside the k-th *)
| OpChmodAfter (t : tree) (k after : nat)
| OpListTreeAfter (t : tree) (k after : nat)
| OpEpTotal (e : epk) (t : tree) (total : nat)               (* backend operations of an uncancelled run *)
| OpEpAfter (e : epk) (t : tree) (k after : nat)              (* ... issued after cancelling inside the k-th *)
| OpEpOutcome (e : epk) (t : tree) (k : nat) (errored : bool)  (* did the call cancelled inside the k-th operation fail? *)
| OpEpBound (e : epk) (observed_max : nat)
| OpGcAfter (fanout after : nat)                              (* flat directory of [fanout] files, barrier schedule *)
| OpBound (observed_max bound : nat).

Record case := mkCase {
  c_op : opk;
  c_rf : bool;                 (* destination implements io.ReaderFrom *)
  c_pre : option kind;         (* context already done at the call *)
  c_src : list Z;
  c_rs : list rd;              (* answers of the instrumented source, in order *)
  c_ws : list wr;              (* answers of the instrumented destination, in order *)
  c_kind : kind;               (* observed: error kind *)
  c_count : Z;                 (* observed: returned count (len(content) for reads) *)
  c_bytes : list Z;            (* observed: content returned / bytes held by the destination *)
  c_log : list ev;             (* observed: log of the instrumented streams *)
  c_ck : kind                  (* kind demanded when the context ends during the call: cancelled / timeout *)
}.

Fixpoint list_eqb (a b : list Z) : bool :=
  match a, b with
  | [], [] => true
  | x :: xs, y :: ys => (x =? y) && list_eqb xs ys
  | _, _ => false
  end.

Definition ev_eqb (a b : ev) : bool :=
  match a, b with
  | EvRead c n, EvRead c' n' => Bool.eqb c c' && (n =? n')
  | EvWrite c o a, EvWrite c' o' a' => Bool.eqb c c' && (o =? o') && (a =? a')
  | _, _ => false
  end.
Fixpoint evs_eqb (a b : list ev) : bool :=
  match a, b with
  | [], [] => true
  | x :: xs, y :: ys => ev_eqb x y && evs_eqb xs ys
  | _, _ => false
  end.

Definition agrees (c : case) (r : result) : bool :=
  kind_eqb (r_kind r) (c_kind c) && (r_count r =? c_count c) && list_eqb (r_bytes r) (c_bytes c)
  && evs_eqb (r_tr r) (c_log c)
  && match r_left r with [] => true | _ => false end      (* every observed Read is explained *)
  && match r_wleft r with [] => true | _ => false end     (* every observed Write is explained *)
  && negb (r_starved r).                                  (* and the model needs no Read that was not issued *)

Definition is_timeout (k : kind) : bool := match k with KTimeout => true | _ => false end.
(* the kinds demanded by the harness for an ended context are those the generated rules produce *)
Definition ctx_kinds_ok (c : case) : bool :=
  kind_eqb (c_ck c) (mid_kind (is_timeout (c_ck c)))
  && match c_pre c with Some k => kind_eqb k (kind_of_ctx (mkCtx (is_timeout k) None)) | None => true end.

Definition check_case (c : case) : bool :=
  ctx_kinds_ok c &&
  match c_op c with
  | OpReadAtMost max => agrees c (read_at_most (c_pre c) (c_ck c) max (c_src c) (c_rs c))
  | OpCopyData => agrees c (copy_data (c_rf c) (c_pre c) (c_ck c) (c_src c) (c_rs c) (c_ws c))
  | OpCopyN n => agrees c (copy_n (c_rf c) (c_pre c) (c_ck c) n (c_src c) (c_rs c) (c_ws c))
  | OpLimitedRead apply max size => agrees c (limited_read (c_pre c) (c_ck c) apply max size (c_src c) (c_rs c))
  | OpWalkTotal cb t total => Nat.eqb (ops (walk_entry cb t)) total
  | OpWalkAfter cb t k after => Nat.eqb (ops_after k (walk_entry cb t)) after
  | OpChmodAfter t k after => Nat.eqb (ops_after k (chmod_entry t)) after
  | OpListTreeAfter t k after => Nat.eqb (ops_after k (listtree_entry t)) after
  | OpEpTotal e t total => Nat.eqb (ops (ep_trace e t)) total
  | OpEpAfter e t k after => Nat.eqb (ops_after k (ep_trace e t)) after
  | OpEpOutcome e t k errored => Bool.eqb (errors_out k (ep_trace e t)) errored
  | OpEpBound e m => Nat.leb m (ep_bound e)
  | OpGcAfter n after =>   (* robust to harmless extra/fewer Stat calls: >= 1 per goroutine, <= 2x the model's count *)
      Nat.leb n after && Nat.leb after (2 * gc_after_cancel_all_started (repeat (F 1) n))
  | OpBound m b => Nat.leb m b
  end.
