(* C09 part (b): operations after the end of the context are bounded by the longest check-free stretch, and that
   stretch is bounded for every tree (walk family, listing, removal, cleaning, copy, move). *)
From Coq Require Import List ZArith Bool Lia PeanoNat.
Import ListNotations.
From GU Require Import C09.IR C09.Gen C09.Model C09.ProofsGen.

(* ---- generic: operations after cancellation never exceed the longest check-free stretch ---- *)

Lemma head_run_le_gap : forall tr cur, (cur + head_run tr <= max_gap_aux cur tr)%nat.
Proof.
  induction tr as [|e t IH]; intros cur; simpl; [lia|].
  destruct e; simpl; [lia|]. specialize (IH (S cur)). lia.
Qed.

Lemma gap_ge_cur : forall tr cur, (cur <= max_gap_aux cur tr)%nat.
Proof. intros. pose proof (head_run_le_gap tr cur). lia. Qed.

Lemma after_kth_le_gap : forall tr k cur, (head_run (after_kth k tr) <= max_gap_aux cur tr)%nat.
Proof.
  induction tr as [|e t IH]; intros k cur; simpl; [lia|].
  destruct e.
  - specialize (IH k 0%nat). lia.
  - destruct k as [|[|k']].
    + simpl. pose proof (head_run_le_gap t (S cur)). lia.
    + pose proof (head_run_le_gap t (S cur)). lia.
    + apply IH.
Qed.

Lemma ops_after_le_max_gap : forall tr k, (ops_after k tr <= max_gap tr)%nat.
Proof. intros. apply after_kth_le_gap. Qed.

(* ---- a run that is not stopped by a check point has executed everything ---- *)
Lemma no_chk_head_run : forall tr, has_chk tr = false -> head_run tr = ops tr.
Proof. induction tr as [|e t IH]; simpl; [reflexivity|]. destruct e; [discriminate|]. intros H. now rewrite IH. Qed.

Lemma ops_split : forall tr k, (1 <= k <= ops tr -> ops tr = k + ops (after_kth k tr))%nat.
Proof.
  induction tr as [|e t IH]; intros k H; simpl in *; [lia|].
  destruct e; [apply IH; exact H|].
  destruct k as [|[|k']]; [lia|lia|]. rewrite (IH (S k')); lia.
Qed.

Lemma success_is_complete : forall tr k, (1 <= k <= ops tr)%nat ->
  errors_out k tr = true \/ (k + ops_after k tr = ops tr)%nat.
Proof.
  intros tr k H. unfold errors_out, ops_after. destruct (has_chk (after_kth k tr)) eqn:E; [now left|right].
  rewrite (no_chk_head_run _ E). symmetry. now apply ops_split.
Qed.

(* ---- composition ---- *)

Lemma gap_opsn : forall n cur X, max_gap_aux cur (opsn n ++ X) = max_gap_aux (cur + n) X.
Proof.
  induction n as [|n IH]; intros cur X; simpl; [f_equal; lia|].
  unfold opsn in IH. rewrite IH. f_equal. lia.
Qed.

Lemma tail_opsn : forall n cur X, tail_run_aux cur (opsn n ++ X) = tail_run_aux (cur + n) X.
Proof.
  induction n as [|n IH]; intros cur X; simpl; [f_equal; lia|].
  unfold opsn in IH. rewrite IH. f_equal. lia.
Qed.

Lemma tail_app : forall a b cur, tail_run_aux cur (a ++ b) = tail_run_aux (tail_run_aux cur a) b.
Proof. induction a as [|e a IH]; intros b cur; simpl; [reflexivity|]. destruct e; apply IH. Qed.

Lemma gap_app : forall a b cur,
  (max_gap_aux cur (a ++ b) <= Nat.max (max_gap_aux cur a) (max_gap_aux (tail_run_aux cur a) b))%nat.
Proof.
  induction a as [|e a IH]; intros b cur; simpl.
  - pose proof (gap_ge_cur b cur). lia.
  - destruct e.
    + specialize (IH b 0%nat). lia.
    + apply IH.
Qed.

Arguments opsn : simpl never.

(* [K e B T X]: entered with at most e pending operations, the segment X keeps every stretch within B and leaves at
   most T pending operations *)
Definition K (e B T : nat) (X : list bev) : Prop :=
  forall cur, (cur <= e -> max_gap_aux cur X <= B /\ tail_run_aux cur X <= T)%nat.

Lemma K_nil e B T : (e <= B -> e <= T -> K e B T [])%nat.
Proof. intros H1 H2 cur H. simpl. lia. Qed.

Lemma K_op e B T X : K (S e) B T X -> K e B T (Op :: X).
Proof. intros H cur Hc. simpl. apply H. lia. Qed.

Lemma K_opsn n e B T X : K (e + n) B T X -> K e B T (opsn n ++ X).
Proof. intros H cur Hc. rewrite gap_opsn, tail_opsn. apply H. lia. Qed.

Lemma K_chk d e B T X : (e + d <= B)%nat -> K 0 B T X -> K e B T (ChkD d :: X).
Proof.
  intros Hd H cur Hc. destruct (H 0%nat (le_n _)) as [g t].
  change (max_gap_aux cur (ChkD d :: X)) with (Nat.max (cur + d) (max_gap_aux 0 X)).
  change (tail_run_aux cur (ChkD d :: X)) with (tail_run_aux 0 X). lia.
Qed.

Lemma K_app e B T1 T X Y : K e B T1 X -> K T1 B T Y -> K e B T (X ++ Y).
Proof.
  intros HX HY cur H. destruct (HX cur H) as [gx tx]. destruct (HY _ tx) as [gy ty].
  split; [pose proof (gap_app X Y cur); lia | rewrite tail_app; exact ty].
Qed.

Lemma K_weaken e B T e' B' T' X : (e' <= e /\ B <= B' /\ T <= T')%nat -> K e B T X -> K e' B' T' X.
Proof. intros H HK cur Hc. destruct (HK cur ltac:(lia)). lia. Qed.

(* a loop: every iteration may be entered with e pending operations and leaves at most T <= e *)
Lemma K_loop {A} e B T (g : A -> list bev) (l : list A) :
  (T <= e)%nat -> (e <= B)%nat -> Forall (fun c => K e B T (g c)) l -> K e B e (flat_map g l).
Proof.
  intros HT HB. induction 1 as [|c l Hc Hl IH]; simpl; [apply K_nil; lia|].
  eapply K_app; [exact Hc|]. eapply K_weaken; [|exact IH]. lia.
Qed.

Lemma K_loop_ne {A} e B T (g : A -> list bev) (c0 : A) (l : list A) :
  (T <= e)%nat -> (e <= B)%nat -> Forall (fun c => K e B T (g c)) (c0 :: l) -> K e B T (flat_map g (c0 :: l)).
Proof.
  intros HT HB H. revert c0 H. induction l as [|c1 l IH]; intros c0 H; inversion H as [|? ? Hc Hl]; subst; simpl.
  - rewrite app_nil_r. exact Hc.
  - eapply K_app; [exact Hc|]. eapply K_weaken; [|apply (IH c1 Hl)]. lia.
Qed.

Lemma K_gap e B T X : K e B T X -> (max_gap X <= B)%nat.
Proof. intros H. apply (H 0%nat). lia. Qed.

Ltac ksolve :=
  repeat first
    [ apply K_opsn | apply K_op
    | apply K_chk; [cbn; unfold B_remove, B_copy, B_move; cbn; lia|]
    | apply K_nil; cbn; unfold B_remove, B_copy, B_move; cbn; lia ].

(* ---- Walk ---- *)
Lemma walk_tr_F cb n : walk_tr cb (F n) = Chk :: opsn cb ++ [].
Proof. reflexivity. Qed.
Lemma walk_tr_D cb cs : walk_tr cb (D cs) = Chk :: opsn cb ++ opsn c_ls ++ flat_map (fun c => Chk :: Op :: walk_tr cb c) cs.
Proof. reflexivity. Qed.

Lemma walk_K : forall cb t, K (B_walk cb) (B_walk cb) (B_walk cb) (walk_tr cb t).
Proof.
  intros cb. induction t as [n|cs IH] using tree_ind'.
  - rewrite walk_tr_F. apply K_chk; [lia|]. apply K_opsn. apply K_nil; unfold B_walk; lia.
  - rewrite walk_tr_D. apply K_chk; [lia|]. apply K_opsn. apply K_opsn.
    eapply K_weaken; [|apply (K_loop (B_walk cb) (B_walk cb) (B_walk cb))]; [unfold B_walk, c_ls; lia|lia|lia|].
    eapply Forall_impl; [|exact IH]. intros c Hc.
    apply K_chk; [lia|]. apply K_op. eapply K_weaken; [|exact Hc]. unfold B_walk, c_ls. lia.
Qed.

Lemma walk_entry_gap : forall cb t, (max_gap (walk_entry cb t) <= B_walk cb)%nat.
Proof.
  intros. unfold walk_entry. eapply (K_gap 0 _ (B_walk cb)). apply K_op. eapply K_weaken; [|apply walk_K]. unfold B_walk, c_ls. lia.
Qed.

Lemma chmod_entry_gap : forall t, (max_gap (chmod_entry t) <= B_walk 1)%nat.
Proof.
  intros. unfold chmod_entry, walk_entry. eapply (K_gap 0 _ (B_walk 1)). apply K_chk; [lia|]. apply K_opsn.
  destruct t as [n|cs].
  - apply K_op. apply K_nil; unfold B_walk, c_ls; cbn; lia.
  - apply K_op. eapply K_weaken; [|apply walk_K]. unfold B_walk, c_ls. cbn. lia.
Qed.

(* ---- ListDirTree ---- *)
Lemma listtree_tr_F n : listtree_tr (F n) = Chk :: opsn c_ls ++ [].
Proof. reflexivity. Qed.
Lemma listtree_tr_D cs : listtree_tr (D cs) =
  Chk :: opsn c_ls ++ flat_map (fun c => Chk :: opsn (c_isdir c) ++ (if is_dir c then listtree_tr c else [])) cs.
Proof. reflexivity. Qed.

Lemma listtree_K : forall t, K B_listtree B_listtree B_listtree (listtree_tr t).
Proof.
  induction t as [n|cs IH] using tree_ind'.
  - rewrite listtree_tr_F. apply K_chk; [lia|]. apply K_opsn. apply K_nil; unfold B_listtree; lia.
  - rewrite listtree_tr_D. apply K_chk; [lia|]. apply K_opsn.
    eapply K_weaken; [|apply (K_loop B_listtree B_listtree B_listtree)]; [unfold B_listtree, c_ls; lia|lia|lia|].
    eapply Forall_impl; [|exact IH]. intros c Hc.
    apply K_chk; [lia|]. apply K_opsn. destruct (is_dir c) eqn:E.
    + eapply K_weaken; [|exact Hc]. unfold B_listtree, c_ls, c_isdir, c_exists. rewrite E. lia.
    + apply K_nil; unfold B_listtree, c_ls, c_isdir, c_exists; rewrite E; lia.
Qed.

Lemma listtree_entry_gap : forall t, (max_gap (listtree_entry t) <= B_listtree)%nat.
Proof.
  intros. unfold listtree_entry. eapply (K_gap 0 _ B_listtree). apply K_chk; [lia|]. eapply K_weaken; [|apply listtree_K]. lia.
Qed.

(* ---- removal and cleaning ---- *)
Lemma remove_tr_eq t : remove_tr t =
  opsn (1 + c_exists t + c_isdir t + c_isempty t) ++
  match t with
  | D (c0 :: cs0) => Chk :: opsn (c_exists t + c_isempty t + c_ls) ++ flat_map (fun c => Chk :: remove_tr c) (c0 :: cs0)
  | _ => []
  end ++ opsn (c_isempty_emptied t) ++ [Chk; Op].
Proof. destruct t; reflexivity. Qed.

Lemma remove_K : forall t, K 0 B_remove 1 (remove_tr t).
Proof.
  induction t as [n|cs IH] using tree_ind'.
  - rewrite remove_tr_eq. ksolve.
  - rewrite remove_tr_eq. destruct cs as [|c0 cs0]; [ksolve|].
    apply K_opsn. apply K_chk; [cbn; unfold B_remove; lia|].
    change ((opsn (c_exists (D (c0 :: cs0)) + c_isempty (D (c0 :: cs0)) + c_ls) ++ flat_map (fun c => Chk :: remove_tr c) (c0 :: cs0)) ++
            opsn (c_isempty_emptied (D (c0 :: cs0))) ++ [Chk; Op])
      with ((opsn 30 ++ flat_map (fun c => Chk :: remove_tr c) (c0 :: cs0)) ++ opsn 14 ++ [Chk; Op]).
    eapply (K_app 0 B_remove 1).
    + apply K_opsn. eapply K_weaken; [|apply (K_loop_ne 30 B_remove 1)]; [cbn; lia|lia|unfold B_remove; lia|].
      eapply Forall_impl; [|exact IH]. intros c Hc. apply K_chk; [unfold B_remove; lia|exact Hc].
    + ksolve.
Qed.

Lemma remove_gap : forall t, (max_gap (remove_tr t) <= B_remove)%nat.
Proof. intros. eapply K_gap. apply remove_K. Qed.

Lemma clean_entry_gap : forall t, (max_gap (clean_entry t) <= B_remove)%nat.
Proof.
  intros t. eapply (K_gap 0 _ 30). destruct t as [n|[|c0 cs0]]; unfold clean_entry; [ksolve|ksolve|].
  apply K_chk; [unfold B_remove; lia|].
  change (opsn (c_exists (D (c0 :: cs0)) + c_isempty (D (c0 :: cs0)) + c_ls)) with (opsn 30).
  apply K_opsn. apply (K_loop 30 B_remove 1); [lia|unfold B_remove; lia|].
  apply Forall_forall. intros c _. apply K_chk; [unfold B_remove; lia|apply remove_K].
Qed.

(* ---- copy ---- *)
Lemma copyfile_K : forall n e, (e <= 30)%nat -> K e B_copy 5 (copyfile_tr n).
Proof.
  intros n e He. unfold copyfile_tr. apply K_chk; [unfold B_copy; lia|]. apply K_op. apply K_op.
  apply K_chk; [unfold B_copy; lia|]. apply K_chk; [unfold B_copy; lia|].
  eapply (K_app 0 B_copy 1).
  - assert (L : K 1 B_copy 1 (flat_map (fun _ : unit => [ChkD 2; Op; ChkD 2; Op]) (repeat tt n))).
    { clear. induction n as [|n IH]; simpl; [apply K_nil; unfold B_copy; lia|].
      apply K_chk; [unfold B_copy; lia|]. apply K_op. apply K_chk; [unfold B_copy; lia|]. apply K_op. exact IH. }
    eapply K_weaken; [|exact L]. lia.
  - apply K_chk; [unfold B_copy; lia|]. apply K_op. change (opsn 4) with (opsn 4 ++ []). apply K_opsn. apply K_nil; unfold B_copy; lia.
Qed.

Lemma copy_child_eq t : copy_child_tr t =
  Chk :: opsn (c_exists t + c_isdir t + 5 + 6) ++
  match t with
  | F n => Op :: copyfile_tr n
  | D cs => Chk :: opsn (c_mkdir_missing + c_isempty t) ++
            match cs with [] => [] | _ => opsn c_ls ++ flat_map copy_child_tr cs end
  end.
Proof. destruct t; reflexivity. Qed.

Lemma copy_child_K : forall t, K 30 B_copy 16 (copy_child_tr t).
Proof.
  induction t as [n|cs IH] using tree_ind'.
  - rewrite copy_child_eq. apply K_chk; [unfold B_copy; lia|]. apply K_opsn. apply K_op.
    eapply K_weaken; [|apply (copyfile_K n 15)]; cbn; lia.
  - rewrite copy_child_eq. apply K_chk; [unfold B_copy; lia|]. apply K_opsn. apply K_chk; [cbn; unfold B_copy; lia|].
    destruct cs as [|c0 cs0].
    + apply K_opsn. apply K_nil; cbn; unfold B_copy; lia.
    + apply K_opsn. apply K_opsn.
      eapply K_weaken; [|apply (K_loop_ne 30 B_copy 16)]; [cbn; lia|lia|unfold B_copy; lia|exact IH].
Qed.

Lemma copy_entry_gap : forall t, (max_gap (copy_entry t) <= B_copy)%nat.
Proof.
  intros t. eapply (K_gap 0 _ 30). destruct t as [n|cs]; unfold copy_entry.
  - apply K_chk; [unfold B_copy; lia|]. apply K_chk; [unfold B_copy; lia|]. apply K_nil; unfold B_copy; lia.
  - apply K_chk; [unfold B_copy; lia|]. apply K_chk; [unfold B_copy; lia|]. apply K_opsn.
    apply K_chk; [cbn; unfold B_copy; lia|]. apply K_opsn.
    destruct cs as [|c0 cs0]; [apply K_nil; cbn; unfold B_copy; lia|].
    apply K_opsn. eapply K_weaken; [|apply (K_loop 30 B_copy 16)]; [cbn; lia|lia|unfold B_copy; lia|].
    apply Forall_forall. intros c _. apply copy_child_K.
Qed.

(* ---- move (Rename refused) ---- *)
Lemma move_tr_eq pc t : move_tr pc t =
  Chk :: opsn (pc + 1 + c_isdir t) ++
  match t with
  | F n => Chk :: Chk :: opsn (c_exists t + c_isdir t + 1 + c_mkdir_existing + 1) ++ copyfile_tr n ++ [Op]
  | D cs => Chk :: opsn (c_mkdir_missing + c_isempty t) ++
            match cs with [] => [] | _ => opsn c_ls ++ flat_map (move_tr c_mkdir_existing) cs end ++
            remove_tr (D [])
  end.
Proof. destruct t; reflexivity. Qed.

Lemma move_K : forall t pc, (pc <= 5)%nat -> K 30 B_move 6 (move_tr pc t).
Proof.
  induction t as [n|cs IH] using tree_ind'; intros pc Hpc.
  - rewrite move_tr_eq. apply K_chk; [unfold B_move; lia|]. apply K_opsn.
    apply K_chk; [cbn; unfold B_move; lia|]. apply K_chk; [unfold B_move; lia|]. apply K_opsn.
    eapply (K_app _ B_move 5).
    + eapply K_weaken; [|apply (copyfile_K n 10)]; [cbn; unfold B_move, B_copy; lia|lia].
    + apply K_op. apply K_nil; unfold B_move; lia.
  - rewrite move_tr_eq. apply K_chk; [unfold B_move; lia|]. apply K_opsn.
    apply K_chk; [cbn; unfold B_move; lia|].
    assert (R : K 16 B_move 6 (remove_tr (D []))).
    { rewrite remove_tr_eq. ksolve. }
    destruct cs as [|c0 cs0].
    + apply K_opsn. simpl app. eapply K_weaken; [|exact R]. cbn. lia.
    + apply K_opsn. rewrite <- app_assoc. apply K_opsn.
      eapply (K_app _ B_move 6).
      * eapply K_weaken; [|apply (K_loop_ne 30 B_move 6)]; [cbn; lia|lia|unfold B_move; lia|].
        eapply Forall_impl; [|exact IH]. intros c Hc. apply Hc. unfold c_mkdir_existing. lia.
      * eapply K_weaken; [|exact R]. lia.
Qed.

Lemma move_entry_gap : forall t, (max_gap (move_entry t) <= B_move)%nat.
Proof.
  intros t. unfold move_entry. eapply (K_gap 0 _ 6). apply K_chk; [unfold B_move; lia|]. apply K_opsn.
  eapply K_weaken; [|apply (move_K t c_mkdir_missing)]; [|unfold c_mkdir_missing; lia].
  unfold c_exists, c_isdir, c_exists. destruct (is_dir t); lia.
Qed.

Lemma ep_gap : forall e t, (max_gap (ep_trace e t) <= ep_bound e)%nat.
Proof.
  intros e t. rewrite ep_trace_is_hand. destruct e as [cb| | | | | |]; simpl;
  [apply walk_entry_gap | apply chmod_entry_gap | apply listtree_entry_gap | apply remove_gap
  | apply clean_entry_gap | apply copy_entry_gap | apply move_entry_gap].
Qed.

(* ---- garbage collection: the fan-out is not bounded ---- *)
Lemma gc_cons_F l : gc_after_cancel_all_started (F 1 :: l) = (3 + gc_after_cancel_all_started l)%nat.
Proof. reflexivity. Qed.
Lemma gc_flat : forall n, gc_after_cancel_all_started (repeat (F 1) n) = (3 * n)%nat.
Proof. induction n as [|n IH]; [reflexivity|]. change (repeat (F 1) (S n)) with (F 1 :: repeat (F 1) n). rewrite gc_cons_F, IH. lia. Qed.

Lemma gc_unbounded : forall B, exists cs, (gc_after_cancel_all_started cs > B)%nat.
Proof. intros B. exists (repeat (F 1) (S B)). rewrite gc_flat. lia. Qed.
