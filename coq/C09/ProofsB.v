(* C09 part (b): operations after the end of the context are bounded by the longest check-free stretch, and that
   stretch is bounded for every tree. *)
From Coq Require Import List ZArith Bool Lia PeanoNat.
Import ListNotations.
From GU Require Import C09.Model.

(* ---- generic: operations after cancellation never exceed the longest check-free stretch ---- *)

Lemma head_run_le_gap : forall tr cur, (cur + head_run tr <= max_gap_aux cur tr)%nat.
Proof.
  induction tr as [|e t IH]; intros cur; simpl; [lia|].
  destruct e; simpl; [lia|]. specialize (IH (S cur)). lia.
Qed.

Lemma gap_ge_cur : forall tr cur, (cur <= max_gap_aux cur tr)%nat.
Proof. intros. pose proof (head_run_le_gap tr cur). lia. Qed.

Lemma gap_mono : forall tr c1 c2, (c1 <= c2 -> max_gap_aux c1 tr <= max_gap_aux c2 tr)%nat.
Proof.
  induction tr as [|e t IH]; intros c1 c2 H; simpl; [lia|].
  destruct e; [lia|]. apply IH. lia.
Qed.

Lemma after_kth_le_gap : forall tr k cur, (head_run (after_kth k tr) <= max_gap_aux cur tr)%nat.
Proof.
  induction tr as [|e t IH]; intros k cur; simpl; [lia|].
  destruct e.
  - specialize (IH k 0%nat). lia.
  - destruct k as [|[|k']].
    + simpl. pose proof (head_run_le_gap t (S cur)). lia.
    + pose proof (head_run_le_gap t (S cur)). lia.
    + apply IH.
Qed.

Lemma ops_after_le_max_gap : forall tr k, (ops_after k tr <= max_gap tr)%nat.
Proof. intros. apply after_kth_le_gap. Qed.

(* ---- composition ---- *)

Lemma gap_opsn : forall n cur X, max_gap_aux cur (opsn n ++ X) = max_gap_aux (cur + n) X.
Proof.
  induction n as [|n IH]; intros cur X; simpl; [f_equal; lia|].
  unfold opsn in IH. rewrite IH. f_equal. lia.
Qed.

Lemma tail_opsn : forall n cur X, tail_run_aux cur (opsn n ++ X) = tail_run_aux (cur + n) X.
Proof.
  induction n as [|n IH]; intros cur X; simpl; [f_equal; lia|].
  unfold opsn in IH. rewrite IH. f_equal. lia.
Qed.

Lemma tail_app : forall a b cur, tail_run_aux cur (a ++ b) = tail_run_aux (tail_run_aux cur a) b.
Proof. induction a as [|e a IH]; intros b cur; simpl; [reflexivity|]. destruct e; apply IH. Qed.

Lemma gap_app : forall a b cur,
  (max_gap_aux cur (a ++ b) <= Nat.max (max_gap_aux cur a) (max_gap_aux (tail_run_aux cur a) b))%nat.
Proof.
  induction a as [|e a IH]; intros b cur; simpl.
  - pose proof (gap_ge_cur b cur). lia.
  - destruct e.
    + specialize (IH b 0%nat). lia.
    + apply IH.
Qed.

Arguments opsn : simpl never.
Arguments c_ls : simpl never.

(* a segment that keeps every stretch below B when entered with at most B pending operations *)
Definition keeps (B : nat) (X : list bev) : Prop :=
  forall cur, (cur <= B -> max_gap_aux cur X <= B /\ tail_run_aux cur X <= B)%nat.

Lemma keeps_nil B : keeps B [].
Proof. intros cur H; simpl; lia. Qed.

Lemma keeps_app B X Y : keeps B X -> keeps B Y -> keeps B (X ++ Y).
Proof.
  intros HX HY cur H. destruct (HX cur H) as [gx tx]. destruct (HY _ tx) as [gy ty].
  split; [pose proof (gap_app X Y cur); lia | rewrite tail_app; exact ty].
Qed.

Lemma keeps_chk B X : keeps B X -> keeps B (Chk :: X).
Proof. intros HX cur H. simpl. destruct (HX 0%nat ltac:(lia)). lia. Qed.

Lemma keeps_flat_map {A} B (g : A -> list bev) (l : list A) :
  Forall (fun c => keeps B (g c)) l -> keeps B (flat_map g l).
Proof.
  induction 1; simpl; [apply keeps_nil | apply keeps_app; assumption].
Qed.

(* a check point followed by n <= B operations *)
Lemma keeps_chk_ops B n X : (n <= B)%nat -> (forall cur, (cur <= B)%nat -> True) ->
  (forall cur, (cur <= B -> max_gap_aux n X <= B /\ tail_run_aux n X <= B)%nat) -> keeps B (Chk :: opsn n ++ X).
Proof.
  intros Hn _ HX cur H. simpl. rewrite gap_opsn, tail_opsn. simpl. destruct (HX cur H). lia.
Qed.

(* ---- nested induction over trees ---- *)
Fixpoint tree_ind' (P : tree -> Prop) (HF : P F) (HD : forall cs, Forall P cs -> P (D cs)) (t : tree) : P t :=
  match t with
  | F => HF
  | D cs => HD cs ((fix go (l : list tree) : Forall P l :=
                      match l with [] => Forall_nil _ | c :: l' => Forall_cons c (tree_ind' P HF HD c) (go l') end) cs)
  end.

(* ---- Walk ---- *)
Lemma keeps_chk0 B X : (max_gap_aux 0 X <= B /\ tail_run_aux 0 X <= B)%nat -> keeps B (Chk :: X).
Proof.
  intros [g t] cur H.
  change (max_gap_aux cur (Chk :: X)) with (Nat.max cur (max_gap_aux 0 X)).
  change (tail_run_aux cur (Chk :: X)) with (tail_run_aux 0 X). lia.
Qed.

Lemma walk_tr_F cb : walk_tr cb F = Chk :: opsn cb ++ [].
Proof. reflexivity. Qed.
Lemma walk_tr_D cb cs : walk_tr cb (D cs) = Chk :: opsn cb ++ opsn c_ls ++ flat_map (fun c => Chk :: Op :: walk_tr cb c) cs.
Proof. reflexivity. Qed.

Lemma walk_keeps : forall cb t, keeps (B_walk cb) (walk_tr cb t).
Proof.
  intros cb. induction t as [|cs IH] using tree_ind'.
  - rewrite walk_tr_F. apply keeps_chk0. rewrite gap_opsn, tail_opsn.
    change (max_gap_aux (0 + cb) []) with (0 + cb)%nat. change (tail_run_aux (0 + cb) []) with (0 + cb)%nat. unfold B_walk. lia.
  - rewrite walk_tr_D. apply keeps_chk0. rewrite !gap_opsn, !tail_opsn.
    assert (K : keeps (B_walk cb) (flat_map (fun c => Chk :: Op :: walk_tr cb c) cs)).
    { apply keeps_flat_map. eapply Forall_impl; [|exact IH]. intros c Hc.
      apply keeps_chk0.
      change (max_gap_aux 0 (Op :: walk_tr cb c)) with (max_gap_aux 1 (walk_tr cb c)).
      change (tail_run_aux 0 (Op :: walk_tr cb c)) with (tail_run_aux 1 (walk_tr cb c)).
      apply Hc. unfold B_walk, c_ls. lia. }
    apply K. unfold B_walk. lia.
Qed.

Lemma walk_entry_gap : forall cb t, (max_gap (walk_entry cb t) <= B_walk cb)%nat.
Proof.
  intros. unfold max_gap, walk_entry.
  change (max_gap_aux 0 (Op :: walk_tr cb t)) with (max_gap_aux 1 (walk_tr cb t)).
  apply walk_keeps. unfold B_walk, c_ls. lia.
Qed.

Lemma chmod_entry_gap : forall t, (max_gap (chmod_entry t) <= B_walk 1)%nat.
Proof.
  intros. unfold max_gap, chmod_entry.
  change (max_gap_aux 0 (Chk :: opsn (c_isdir t) ++ walk_entry 1 t)) with (Nat.max 0 (max_gap_aux 0 (opsn (c_isdir t) ++ walk_entry 1 t))).
  rewrite gap_opsn. unfold walk_entry.
  change (max_gap_aux (0 + c_isdir t) (Op :: walk_tr 1 t)) with (max_gap_aux (S (0 + c_isdir t)) (walk_tr 1 t)).
  assert (H : (S (0 + c_isdir t) <= B_walk 1)%nat) by (unfold B_walk, c_ls, c_isdir, c_exists; destruct (is_dir t); lia).
  destruct (walk_keeps 1 t _ H). lia.
Qed.

(* ---- ListDirTree ---- *)
Lemma listtree_tr_D cs : listtree_tr (D cs) = Chk :: opsn c_ls ++ flat_map (fun c => Chk :: opsn (c_isdir c) ++ listtree_tr c) cs.
Proof. reflexivity. Qed.

Lemma listtree_keeps : forall t, keeps B_listtree (listtree_tr t).
Proof.
  induction t as [|cs IH] using tree_ind'.
  - apply keeps_nil.
  - rewrite listtree_tr_D. apply keeps_chk0. rewrite gap_opsn, tail_opsn.
    assert (K : keeps B_listtree (flat_map (fun c => Chk :: opsn (c_isdir c) ++ listtree_tr c) cs)).
    { apply keeps_flat_map. eapply Forall_impl; [|exact IH]. intros c Hc.
      apply keeps_chk0. rewrite gap_opsn, tail_opsn.
      apply Hc. unfold B_listtree, c_ls, c_isdir, c_exists. destruct (is_dir c); lia. }
    apply K. unfold B_listtree. lia.
Qed.

Lemma listtree_entry_gap : forall t, (max_gap (listtree_entry t) <= B_listtree)%nat.
Proof.
  intros. unfold max_gap, listtree_entry.
  change (max_gap_aux 0 (Chk :: listtree_tr t)) with (Nat.max 0 (max_gap_aux 0 (listtree_tr t))).
  destruct (listtree_keeps t 0%nat); lia.
Qed.

(* ---- garbage collection: the fan-out is not bounded ---- *)
Lemma gc_cons_F l : gc_after_cancel_all_started (F :: l) = (3 + gc_after_cancel_all_started l)%nat.
Proof. reflexivity. Qed.
Lemma gc_flat : forall n, gc_after_cancel_all_started (repeat F n) = (3 * n)%nat.
Proof. induction n as [|n IH]; [reflexivity|]. change (repeat F (S n)) with (F :: repeat F n). rewrite gc_cons_F, IH. lia. Qed.

Lemma gc_unbounded : forall B, exists cs, (gc_after_cancel_all_started cs > B)%nat.
Proof. intros B. exists (repeat F (S B)). rewrite gc_flat. lia. Qed.
