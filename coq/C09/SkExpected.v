(* C09 — the skeletons of the copy and move functions AS ANALYSED BY HAND for copy_entry / move_entry (Model.v) and their
   bounds (ProofsB.v): context tests, backend helpers and calls on the main path, in source order.  Hand-maintained;
   compared with the regenerated skeletons (Gen.v) on every run: a difference means the hand traces of copy / move must
   be re-derived. *)
From Coq Require Import List String.
Import ListNotations.
From GU Require Import C09.IR.

Definition exp_sk_CopyBetweenFSWithExclusionPatterns : list sk := [
  SkChk;
  SkCall "CopyBetweenFSWithExclusionRegexes"%string true;
  SkRet "bare"%string
].
Definition exp_sk_CopyBetweenFSWithExclusionRegexes : list sk := [
  SkIf "IsPathExcluded(src,exclusionSrcFsRegexes...) || IsPathExcluded(dest,exclusionDestFsRegexes...)"%string;
  SkRet "bare"%string;
  SkEndIf;
  SkChk;
  SkIf "srcFs == destFs && src == dest"%string;
  SkRet "bare"%string;
  SkEndIf;
  SkIf "dest == ''"%string;
  SkRet "bare"%string;
  SkEndIf;
  SkOp HExists "src"%string;
  SkIf "!srcFs.Exists(src)"%string;
  SkRet "bare"%string;
  SkEndIf;
  SkOp HIsDir "src"%string;
  SkOp HExists "dest"%string;
  SkIf "destExists"%string;
  SkOp HIsDir "dest"%string;
  SkEndIf;
  SkIf "isSrcDir && srcFs == destFs"%string;
  SkIf "destExists && isDestDir"%string;
  SkEndIf;
  SkIf "isPathWithin(srcFs,src,target)"%string;
  SkRet "bare"%string;
  SkEndIf;
  SkIf "isPathWithin(srcFs,target,src)"%string;
  SkRet "bare"%string;
  SkEndIf;
  SkEndIf;
  SkIf "!destExists"%string;
  SkIf "isSrcDir"%string;
  SkOp HMkDir "dest"%string;
  SkElse;
  SkIf "EndsWithPathSeparator(destFs,dest)"%string;
  SkOp HMkDir "dest"%string;
  SkElse;
  SkOp HMkDir "filepath.Dir(dest)"%string;
  SkEndIf;
  SkEndIf;
  SkEndIf;
  SkIf "!(isSrcDir && !destExists) && isDestDir"%string;
  SkEndIf;
  SkIf "isSrcDir"%string;
  SkCall "copyFolderBetweenFSWithExclusionRegexes"%string true;
  SkElse;
  SkIf "srcFs == destFs && filepath.Clean(src) == filepath.Clean(dst)"%string;
  SkRet "bare"%string;
  SkEndIf;
  SkOp HExists "dst"%string;
  SkIf "destFs.Exists(dst)"%string;
  SkOp HIsDir "dst"%string;
  SkIf "isDstDir"%string;
  SkRet "bare"%string;
  SkEndIf;
  SkEndIf;
  SkCall "copyFileBetweenFSWithExclusionPatternsWithExclusionRegexes"%string true;
  SkEndIf;
  SkRet "bare"%string
].
Definition exp_sk_copyFolderBetweenFSWithExclusionRegexes : list sk := [
  SkIf "IsPathExcluded(src,exclusionSrcFsRegexes...) || IsPathExcluded(dest,exclusionDestFsRegexes...)"%string;
  SkRet "bare"%string;
  SkEndIf;
  SkChk;
  SkOp HMkDir "dest"%string;
  SkOp HIsEmpty "src"%string;
  SkIf "!empty"%string;
  SkOp HLs "src"%string;
  SkLoop;
  SkCall "CopyBetweenFSWithExclusionRegexes"%string true;
  SkEndLoop;
  SkEndIf;
  SkRet "bare"%string
].
Definition exp_sk_copyFileBetweenFSWithExclusionPatternsWithExclusionRegexes : list sk := [
  SkIf "IsPathExcluded(src,exclusionSrcFsRegexes...) || IsPathExcluded(dest,exclusionDestFsRegexes...)"%string;
  SkRet "bare"%string;
  SkEndIf;
  SkChk;
  SkOp HOpen "src"%string;
  SkDefer "_ = inputFile.Close()"%string;
  SkOp HCreate "dest"%string;
  SkDefer "_ = outputFile.Close()"%string;
  SkOp HCopyStream "safeio.CopyDataWithContext"%string;
  SkOp HClose "inputFile"%string;
  SkOp HClose "outputFile"%string;
  SkRet "bare"%string
].
Definition exp_sk_VFS_MoveWithContext : list sk := [
  SkChk;
  SkIf "src == dest"%string;
  SkRet "bare"%string;
  SkEndIf;
  SkIf "dest == ''"%string;
  SkRet "bare"%string;
  SkEndIf;
  SkOp HExists "src"%string;
  SkIf "!fs.Exists(src)"%string;
  SkRet "bare"%string;
  SkEndIf;
  SkOp HIsDir "src"%string;
  SkOp HExists "dest"%string;
  SkIf "fs.Exists(dest)"%string;
  SkOp HIsDir "dest"%string;
  SkEndIf;
  SkIf "isDestDir"%string;
  SkEndIf;
  SkIf "filepath.Clean(src) == filepath.Clean(target)"%string;
  SkRet "bare"%string;
  SkEndIf;
  SkIf "isPathWithin(fs,src,target)"%string;
  SkRet "bare"%string;
  SkEndIf;
  SkIf "isSrcDir"%string;
  SkOp HExists "target"%string;
  SkIf "fs.Exists(target)"%string;
  SkOp HIsDir "target"%string;
  SkIf "isTargetDir"%string;
  SkOp HIsEmpty "target"%string;
  SkIf "!empty"%string;
  SkRet "bare"%string;
  SkEndIf;
  SkEndIf;
  SkEndIf;
  SkEndIf;
  SkCall "VFS.move"%string true;
  SkRet "bare"%string
].
Definition exp_sk_VFS_move : list sk := [
  SkChk;
  SkIf "src == dest"%string;
  SkRet "bare"%string;
  SkEndIf;
  SkOp HMkDir "filepath.Dir(dest)"%string;
  SkOp HRename "src"%string;
  SkIf "err == nil"%string;
  SkRet "bare"%string;
  SkEndIf;
  SkOp HIsDir "src"%string;
  SkIf "isDir"%string;
  SkCall "VFS.moveFolder"%string true;
  SkElse;
  SkCall "VFS.moveFile"%string true;
  SkEndIf;
  SkRet "bare"%string
].
Definition exp_sk_VFS_moveFolder : list sk := [
  SkChk;
  SkOp HMkDir "dest"%string;
  SkOp HIsEmpty "src"%string;
  SkIf "!empty"%string;
  SkOp HLs "src"%string;
  SkLoop;
  SkCall "VFS.move"%string true;
  SkEndLoop;
  SkEndIf;
  SkCall "VFS.RemoveWithContext"%string true;
  SkRet "bare"%string
].
Definition exp_sk_VFS_moveFile : list sk := [
  SkChk;
  SkIf "src == dest"%string;
  SkRet "bare"%string;
  SkEndIf;
  SkCall "CopyBetweenFSWithExclusionRegexes"%string true;
  SkOp HRemove "src"%string;
  SkRet "bare"%string
].
Definition exp_sk_VFS_CopyToDirectoryWithContext : list sk := [
  SkChk;
  SkOp HMkDir "destDirectory"%string;
  SkCall "VFS.CopyWithContext"%string true;
  SkRet "bare"%string
].
Definition exp_sk_VFS_RemoveWithPrivileges : list sk := [
  SkIf "dir != ''"%string;
  SkEndIf;
  SkCall "VFS.RemoveWithContext"%string false;
  SkIf "commonerrors.Any(err,nil,commonerrors.ErrTimeout,commonerrors.ErrCancelled)"%string;
  SkRet "bare"%string;
  SkEndIf;
  SkOp HLstat "dir"%string;
  SkIf "lErr == nil && !IsSymLink(info)"%string;
  SkOp HChown "dir"%string;
  SkEndIf;
  SkIf "subErr == nil"%string;
  SkCall "VFS.RemoveWithContext"%string false;
  SkIf "commonerrors.Any(err,nil,commonerrors.ErrTimeout,commonerrors.ErrCancelled)"%string;
  SkRet "bare"%string;
  SkEndIf;
  SkEndIf;
  SkIf "ok"%string;
  SkOp HRemove "dir"%string;
  SkEndIf;
  SkRet "bare"%string
].
Definition exp_sk_VFS_ReadFileContent : list sk := [
  SkChk;
  SkIf "file == nil"%string;
  SkRet "bare"%string;
  SkEndIf;
  SkIf "limits == nil"%string;
  SkRet "bare"%string;
  SkEndIf;
  SkIf "limits.Apply()"%string;
  SkEndIf;
  SkOp HStat "file"%string;
  SkIf "err == nil"%string;
  SkIf "fileSize < 1e9"%string;
  SkEndIf;
  SkIf "limits.Apply() && fileSize > max"%string;
  SkRet "bare"%string;
  SkEndIf;
  SkEndIf;
  SkOp HCopyStream "safeio.ReadAtMost"%string;
  SkRet "bare"%string
].
