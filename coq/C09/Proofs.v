(* C09 part (a): the context-aware I/O helpers deliver exact prefixes, for every reader / writer / context script. *)
From Coq Require Import List ZArith Bool Lia.
Import ListNotations.
From GU Require Import C09.IR C09.Gen C09.Model.

(* the generated facts this file depends on, reduced to their values (each [change] fails to convert when a fact changes) *)
Ltac norm_gen :=
  change (copy_ctx_test_first gen_safeio) with true in *; change (copy_src_wrapped gen_safeio) with true in *;
  change (copy_dst_wrapped gen_safeio) with true in *; change (safecopy_converts gen_safeio) with true in *;
  change (copyn_is_iocopyn_same_n gen_safeio) with true in *; change (ram_src_wrapped gen_safeio) with true in *;
  change (ram_converts gen_safeio) with true in *; change (ram_empty_rule gen_safeio) with true in *;
  change (ram_content_set_after_error_return gen_safeio) with true in *; change (ram_ctx_test_before_alloc gen_safeio) with true in *;
  unfold converted in *.

Local Open Scope Z_scope.

(* the state of a running loop: nothing lost so far *)
Definition good (src0 : list Z) (s : st) : Prop :=
  s_dl s ++ s_src s = src0 /\ s_written s = Z.of_nat (length (s_dl s)) /\ reads_ok (s_tr s) = true.
(* a final state: the destination holds a prefix of the source *)
Definition fin (src0 : list Z) (s : st) : Prop :=
  (exists rest, s_dl s ++ rest = src0) /\ s_written s = Z.of_nat (length (s_dl s)) /\ reads_ok (s_tr s) = true.

Lemma good_fin src0 s : good src0 s -> fin src0 s.
Proof. intros (A & B & C). repeat split; eauto. Qed.

Lemma reads_ok_app a b : reads_ok (a ++ b) = reads_ok a && reads_ok b.
Proof. induction a as [|e a IH]; simpl; [reflexivity|]. destruct e; rewrite IH; now rewrite andb_assoc. Qed.

Lemma clamp_range lim have n : 0 <= have -> 0 <= clamp lim have n <= have.
Proof. intros H. unfold clamp. destruct lim; lia. Qed.

Lemma clamp_lim m have n : 0 <= clamp (Some m) have n <= Z.max 0 m.
Proof. unfold clamp. lia. Qed.

Lemma next_write_range n ws acc we wc ws' : 0 <= n -> next_write n ws = (acc, we, wc, ws') -> 0 <= acc <= n.
Proof. intros H. unfold next_write. destruct ws as [|w ws0]; intros E; inversion E; subst; lia. Qed.

Lemma after_err_st e s : fst (after_err e s) = s.
Proof. destruct e; reflexivity. Qed.

Lemma len_firstn_le {A} (l : list A) n : 0 <= n <= Z.of_nat (length l) -> Z.of_nat (length (firstn (Z.to_nat n) l)) = n.
Proof. intros H. rewrite firstn_length_le; lia. Qed.

(* one iteration keeps the invariant *)
Lemma step_good rf ck r src0 s :
  good src0 s -> s_ctx s = false ->
  match snd (step rf true ck r s) with
  | Continue => good src0 (fst (step rf true ck r s))
  | Done _ => fin src0 (fst (step rf true ck r s))
  end.
Proof.
  intros (A & B & C) Hc. unfold step.
  set (n := clamp (s_lim s) (Z.of_nat (length (s_src s))) (rd_n r)).
  assert (Hn : 0 <= n <= Z.of_nat (length (s_src s))) by (apply clamp_range; lia).
  set (data := firstn (Z.to_nat n) (s_src s)).
  assert (Hd : Z.of_nat (length data) = n) by (apply len_firstn_le; exact Hn).
  assert (Hsplit : data ++ skipn (Z.to_nat n) (s_src s) = s_src s) by apply firstn_skipn.
  assert (Ctr : reads_ok (s_tr s ++ [EvRead (s_ctx s) n]) = true)
    by (rewrite reads_ok_app, C, Hc; reflexivity).
  destruct (0 <? n) eqn:En.
  - destruct rf.
    + (* the destination absorbs the data itself *)
      assert (G : good src0 (mkSt (lim_dec (s_lim s) n) (s_ctx s || rd_cancel r) (skipn (Z.to_nat n) (s_src s)) (s_ws s)
                                 (s_written s + n) (s_dl s ++ data) (s_tr s ++ [EvRead (s_ctx s) n]))).
      { repeat split; simpl; [rewrite <- app_assoc, Hsplit; exact A | rewrite app_length; lia | exact Ctr]. }
      simpl. destruct (rd_err r); simpl; try exact G; apply good_fin; exact G.
    + destruct (s_ctx s || rd_cancel r) eqn:Ec.
      * (* the contextual writer refuses the data *)
        simpl. repeat split; simpl; [exists (s_src s); exact A | exact B | exact Ctr].
      * simpl. destruct (next_write n (s_ws s)) as [[[acc we] wc] ws'] eqn:Ew.
        assert (Ha : 0 <= acc <= n) by (eapply next_write_range; [|exact Ew]; lia).
        assert (Ctr2 : reads_ok ((s_tr s ++ [EvRead (s_ctx s) n]) ++ [EvWrite false n acc]) = true)
          by (rewrite reads_ok_app, Ctr; reflexivity).
        assert (Hla : Z.of_nat (length (firstn (Z.to_nat acc) data)) = acc) by (apply len_firstn_le; lia).
        assert (F : fin src0 (mkSt (lim_dec (s_lim s) n) (false || wc) (skipn (Z.to_nat n) (s_src s)) ws'
                                   (s_written s + acc) (s_dl s ++ firstn (Z.to_nat acc) data)
                                   ((s_tr s ++ [EvRead (s_ctx s) n]) ++ [EvWrite false n acc]))).
        { repeat split; simpl; [|rewrite app_length; lia | exact Ctr2].
          exists (skipn (Z.to_nat acc) data ++ skipn (Z.to_nat n) (s_src s)).
          rewrite <- app_assoc, (app_assoc (firstn _ data)), firstn_skipn, Hsplit. exact A. }
        destruct we; [exact F|].
        destruct (acc <? n) eqn:El; [exact F|].
        assert (acc = n) by lia. subst acc.
        assert (Eall : firstn (Z.to_nat n) data = data) by (apply firstn_all2; lia).
        rewrite Eall in *.
        assert (G : good src0 (mkSt (lim_dec (s_lim s) n) (false || wc) (skipn (Z.to_nat n) (s_src s)) ws'
                                   (s_written s + n) (s_dl s ++ data)
                                   ((s_tr s ++ [EvRead (s_ctx s) n]) ++ [EvWrite false n n]))).
        { repeat split; simpl; [rewrite <- app_assoc, Hsplit; exact A | rewrite app_length; lia | exact Ctr2]. }
        destruct (rd_err r); simpl; try exact G; apply good_fin; exact G.
  - (* zero-length read *)
    assert (n = 0) by lia.
    assert (G : good src0 (mkSt (lim_dec (s_lim s) n) (s_ctx s || rd_cancel r) (skipn (Z.to_nat n) (s_src s)) (s_ws s)
                               (s_written s) (s_dl s) (s_tr s ++ [EvRead (s_ctx s) n]))).
    { repeat split; simpl; [|exact B|exact Ctr]. replace (Z.to_nat n) with 0%nat by lia. exact A. }
    destruct (rd_err r); simpl; try exact G; apply good_fin; exact G.
Qed.

Lemma guard_none_ctx cf ck s : guard cf true ck s = None -> s_ctx s = false.
Proof. unfold guard. destruct cf, (s_ctx s), (lim_done (s_lim s)); simpl; congruence. Qed.

Lemma loop_fin rf cf ck src0 : forall rs s, good src0 s -> fin src0 (o_st (loop rf cf true true ck rs s)).
Proof.
  induction rs as [|r rs IH]; intros s G; simpl.
  - destruct (guard cf true ck s) eqn:Eg; simpl; [now apply good_fin|].
    destruct G as (A & B & C). repeat split; simpl; eauto.
    rewrite reads_ok_app, C, (guard_none_ctx _ _ _ Eg). reflexivity.
  - destruct (guard cf true ck s) eqn:Eg; simpl; [now apply good_fin|].
    pose proof (step_good rf ck r src0 s G (guard_none_ctx _ _ _ Eg)) as H.
    destruct (step rf true ck r s) as [s' o]. simpl in H. destruct o; simpl; [apply IH; exact H | exact H].
Qed.

(* ---- the limit reader ---- *)
Definition lim_inv (N : Z) (s : st) : Prop :=
  match s_lim s with Some m => 0 <= m /\ s_written s + m <= N | None => False end.

Lemma step_lim rf ck r N s : lim_inv N s -> lim_inv N (fst (step rf true ck r s)).
Proof.
  unfold lim_inv, step. destruct (s_lim s) as [m|] eqn:El.
  2:{ intros []. }
  intros [Hm Hw].
  set (n := clamp (Some m) (Z.of_nat (length (s_src s))) (rd_n r)).
  pose proof (clamp_lim m (Z.of_nat (length (s_src s))) (rd_n r)) as Hc. fold n in Hc.
  destruct (0 <? n) eqn:En.
  - destruct rf; [rewrite after_err_st; simpl; lia|].
    destruct (s_ctx s || rd_cancel r); [simpl; lia|].
    simpl. destruct (next_write n (s_ws s)) as [[[acc we] wc] ws'] eqn:Ew.
    assert (0 <= acc <= n) by (eapply next_write_range; [|exact Ew]; lia).
    destruct we; [simpl; lia|]. destruct (acc <? n); [simpl; lia|]. rewrite after_err_st. simpl. lia.
  - rewrite after_err_st. simpl. lia.
Qed.

Lemma loop_lim rf cf ck N : forall rs s, lim_inv N s -> lim_inv N (o_st (loop rf cf true true ck rs s)).
Proof.
  induction rs as [|r rs IH]; intros s H; simpl.
  - destruct (guard cf true ck s); simpl; exact H.
  - destruct (guard cf true ck s); simpl; [exact H|].
    pose proof (step_lim rf ck r N s H) as H'. destruct (step rf true ck r s) as [s' o]. simpl in H'.
    destruct o; simpl; [apply IH; exact H' | exact H'].
Qed.

Lemma init_good lim src ws : good src (init lim src ws).
Proof. repeat split. Qed.

Lemma prefix_is_firstn {A} (a rest l : list A) : a ++ rest = l -> a = firstn (length a) l.
Proof. intros <-. rewrite firstn_app, Nat.sub_diag, firstn_all. simpl. now rewrite app_nil_r. Qed.

(* ---- results of the helpers ---- *)

Definition prefix_of (a l : list Z) : Prop := exists rest, a ++ rest = l.

Lemma copy_data_prefix rf pre ck src rs ws :
  let r := copy_data rf pre ck src rs ws in
  prefix_of (r_bytes r) src /\ reads_ok (r_tr r) = true /\ r_count r = Z.of_nat (length (r_bytes r)).
Proof.
  unfold copy_data. destruct pre; simpl; [repeat split; exists src; reflexivity|].
  destruct (loop_fin rf false ck src rs _ (init_good None src ws)) as (P & W & T). auto.
Qed.

Lemma copy_n_prefix rf pre ck n src rs ws :
  let r := copy_n rf pre ck n src rs ws in
  prefix_of (r_bytes r) src /\ reads_ok (r_tr r) = true /\ r_count r = Z.of_nat (length (r_bytes r)).
Proof.
  unfold copy_n. destruct pre; simpl; [repeat split; exists src; reflexivity|].
  destruct (loop_fin rf false ck src rs _ (init_good (Some n) src ws)) as (P & W & T).
  repeat split; auto. destruct (_ =? n) eqn:E; lia.
Qed.

Lemma copy_n_exact rf ck n src rs ws :
  0 <= n ->
  let r := copy_n rf None ck n src rs ws in
  (r_count r <= n) /\
  (r_kind r = KNil -> r_count r = n /\ r_bytes r = firstn (Z.to_nat n) src).
Proof.
  intros Hn. unfold copy_n. simpl.
  destruct (loop_fin rf false ck src rs _ (init_good (Some n) src ws)) as ((rest & P) & W & T).
  assert (L : lim_inv n (o_st (loop rf false true true ck rs (init (Some n) src ws)))) by (apply loop_lim; unfold lim_inv; simpl; lia).
  set (o := loop rf false true true ck rs (init (Some n) src ws)) in *.
  assert (Hle : s_written (o_st o) <= n).
  { unfold lim_inv in L. destruct (s_lim (o_st o)); [lia|destruct L]. }
  split; [destruct (_ =? n) eqn:E; lia|].
  destruct (s_written (o_st o) =? n) eqn:E.
  - intros _. split; [reflexivity|]. apply Z.eqb_eq in E.
    rewrite (prefix_is_firstn _ _ _ P) at 1. f_equal. lia.
  - destruct ((s_written (o_st o) <? n) && kind_eqb (o_kind o) KNil) eqn:E2; [discriminate|].
    intros K. rewrite K in E2. simpl in E2. rewrite andb_true_r in E2. lia.
Qed.

Lemma prefix_nil l : prefix_of [] l.
Proof. exists l. reflexivity. Qed.

(* the limit reader of the generated ReadAtMost: `max >= 0` selects io.LimitReader(src, max) *)
Lemma limit_of_generated max : limit_of gen_safeio max = if max <? 0 then None else Some max.
Proof. unfold limit_of. cbn. destruct (0 <=? max) eqn:A, (max <? 0) eqn:B; try reflexivity; lia. Qed.

Lemma read_at_most_sound pre ck max src rs :
  let r := read_at_most pre ck max src rs in
  prefix_of (r_bytes r) src /\ reads_ok (r_tr r) = true /\ r_count r = Z.of_nat (length (r_bytes r)) /\
  (0 <= max -> Z.of_nat (length (r_bytes r)) <= max).
Proof.
  unfold read_at_most. norm_gen. rewrite limit_of_generated. destruct pre; simpl; [repeat split; try apply prefix_nil; simpl; lia|].
  set (lim := if max <? 0 then None else Some max).
  destruct (loop_fin true true ck src rs _ (init_good lim src [])) as (P & W & T).
  assert (Hmax : 0 <= max -> s_written (o_st (loop true true true true ck rs (init lim src []))) <= max).
  { intros H. assert (lim = Some max) as -> by (unfold lim; destruct (max <? 0) eqn:E; [lia|reflexivity]).
    assert (L : lim_inv max (o_st (loop true true true true ck rs (init (Some max) src [])))) by (apply loop_lim; unfold lim_inv; simpl; lia).
    unfold lim_inv in L. destruct (s_lim _); [lia|destruct L]. }
  set (o := loop true true true true ck rs (init lim src [])) in *.
  destruct (o_kind o); simpl; try (repeat split; try apply prefix_nil; simpl; auto; lia).
  destruct (s_written (o_st o) =? 0); simpl; repeat split; try apply prefix_nil; simpl; auto; lia.
Qed.

Lemma limited_read_sound pre ck apply max size src rs :
  let r := limited_read pre ck apply max size src rs in
  prefix_of (r_bytes r) src /\ reads_ok (r_tr r) = true /\
  (pre = None -> apply = true -> max < size -> r_kind r = KTooLarge /\ r_tr r = [] /\ r_bytes r = []).
Proof.
  unfold limited_read, rfc_refuses.
  change (rfc_ctx_test_before_stat gen_rfc) with true. change (rfc_guard_needs_apply gen_rfc) with true.
  change (rfc_guard gen_rfc) with CGt. change (rfc_guard_nesting gen_rfc) with (@None (cmp * Z)).
  change (rfc_guard_returns_toolarge gen_rfc) with true. change (rfc_max_default gen_rfc) with (-1).
  change (rfc_max_from_limits_when_apply gen_rfc) with true. change (rfc_reads_at_most_max gen_rfc) with true.
  cbv zeta. destruct pre.
  - simpl. repeat split; try apply prefix_nil; discriminate.
  - destruct (apply && cmp_eval CGt size (if apply && true then max else -1) && true) eqn:E.
    + simpl. repeat split; try apply prefix_nil; reflexivity.
    + destruct (read_at_most_sound None ck (if apply && true then max else -1) src rs) as (P & T & _).
      split; [exact P|]. split; [exact T|]. intros _ Ha Hlt. subst apply. simpl in E. lia.
Qed.

(* context done at the call: nothing is read, nothing is written, the kind of the context is reported *)
Lemma precancelled_streams_untouched k ck max n rf apply size src rs ws :
  let untouched r := r_kind r = k /\ r_tr r = [] /\ r_bytes r = [] /\ r_count r = 0 in
  untouched (read_at_most (Some k) ck max src rs) /\ untouched (copy_data rf (Some k) ck src rs ws) /\
  untouched (copy_n rf (Some k) ck n src rs ws) /\ untouched (limited_read (Some k) ck apply max size src rs).
Proof. simpl. repeat split. Qed.

(* ---- well-behaved streams: exact results ---- *)

Lemma total_nonneg rs : plain rs = true -> 0 <= total rs.
Proof.
  induction rs as [|r rs IH]; simpl; [lia|]. intros H. apply andb_true_iff in H as [Hr H].
  unfold plain_rd in Hr. apply andb_true_iff in Hr as [Hr _]. apply andb_true_iff in Hr as [Hr _].
  specialize (IH H). lia.
Qed.

Lemma step_plain rf ck r s :
  plain_rd r = true -> s_ctx s = false -> s_ws s = [] ->
  let n := clamp (s_lim s) (Z.of_nat (length (s_src s))) (rd_n r) in
  exists s', step rf true ck r s = (s', Continue) /\ s_written s' = s_written s + n /\
             s_src s' = skipn (Z.to_nat n) (s_src s) /\ s_lim s' = lim_dec (s_lim s) n /\
             s_ctx s' = false /\ s_ws s' = [].
Proof.
  intros Hp Hc Hw n. unfold plain_rd in Hp.
  apply andb_true_iff in Hp as [Hp He]. apply andb_true_iff in Hp as [Hn0 Hcan].
  apply negb_true_iff in Hcan. destruct (rd_err r) eqn:Ee; try discriminate.
  assert (Hn : 0 <= n <= Z.of_nat (length (s_src s))) by (apply clamp_range; lia).
  unfold step. fold n. rewrite Ee, Hc, Hcan, Hw. simpl.
  destruct (0 <? n) eqn:En.
  - destruct rf; simpl.
    + eexists; repeat split.
    + destruct (n <? n) eqn:E2; [lia|]. replace (Z.max 0 (Z.min n n)) with n by lia.
      eexists; repeat split.
  - eexists; split; [reflexivity|]. simpl. repeat split; lia.
Qed.

Definition lim_nonneg (s : st) : Prop := match s_lim s with Some m => 0 <= m | None => True end.
Definition take_of (s : st) (rs : list rd) : Z :=
  let avail := Z.min (total rs) (Z.of_nat (length (s_src s))) in
  match s_lim s with Some m => Z.min m avail | None => avail end.

Lemma loop_plain rf cf ck : forall rs s,
  plain rs = true -> s_ctx s = false -> s_ws s = [] -> lim_nonneg s ->
  let o := loop rf cf true true ck rs s in
  s_written (o_st o) = s_written s + take_of s rs /\ o_kind o = KNil.
Proof.
  induction rs as [|r rs IH]; intros s Hp Hc Hw Hl; simpl.
  - unfold guard, take_of, lim_nonneg in *. rewrite Hc. simpl total.
    destruct (s_lim s) as [m|]; simpl; [destruct (m <=? 0) eqn:E; destruct cf; simpl; split; try reflexivity; lia|].
    destruct cf; simpl; split; try reflexivity; lia.
  - simpl in Hp. apply andb_true_iff in Hp as [Hr Hp].
    pose proof (total_nonneg rs Hp) as Ht.
    assert (Hrn : 0 <= rd_n r) by (unfold plain_rd in Hr; apply andb_true_iff in Hr as [Hr _]; apply andb_true_iff in Hr as [Hr _]; lia).
    destruct (guard cf true ck s) eqn:Eg.
    + (* the limit is exhausted *)
      unfold guard in Eg. rewrite Hc in Eg. unfold take_of, lim_nonneg in *.
      destruct (s_lim s) as [m|]; simpl in Eg; [|destruct cf; discriminate].
      destruct (m <=? 0) eqn:E; [|destruct cf; discriminate].
      assert (k = KNil) by (destruct cf; congruence). subst k. simpl. split; [|reflexivity].
      simpl total. lia.
    + destruct (step_plain rf ck r s Hr Hc Hw) as (s' & Es & W & S & L & C & Wn).
      rewrite Es.
      set (n := clamp (s_lim s) (Z.of_nat (length (s_src s))) (rd_n r)) in *.
      assert (Hn : 0 <= n <= Z.of_nat (length (s_src s))) by (apply clamp_range; lia).
      assert (Hl' : lim_nonneg s').
      { unfold lim_nonneg in *. rewrite L. destruct (s_lim s) as [m|]; simpl; [|exact I].
        pose proof (clamp_lim m (Z.of_nat (length (s_src s))) (rd_n r)). fold n in H. lia. }
      destruct (IH s' Hp C Wn Hl') as [IW IK]. split; [|exact IK].
      rewrite IW, W. unfold take_of. rewrite S, L, skipn_length. simpl total.
      unfold lim_nonneg in Hl. unfold n, clamp in *. destruct (s_lim s) as [m|]; simpl; lia.
Qed.

Lemma loop_plain_bytes rf cf ck lim src rs :
  plain rs = true -> (match lim with Some m => 0 <= m | None => True end) ->
  let o := loop rf cf true true ck rs (init lim src []) in
  let avail := Z.min (total rs) (Z.of_nat (length src)) in
  let take := match lim with Some m => Z.min m avail | None => avail end in
  s_dl (o_st o) = firstn (Z.to_nat take) src /\ s_written (o_st o) = take /\ o_kind o = KNil.
Proof.
  intros Hp Hl. cbv zeta.
  destruct (loop_plain rf cf ck rs (init lim src []) Hp eq_refl eq_refl Hl) as [W K].
  destruct (loop_fin rf cf ck src rs _ (init_good lim src [])) as ((rest & P) & W2 & _).
  unfold take_of in W. simpl in W.
  split; [|split; [exact W | exact K]].
  rewrite (prefix_is_firstn _ _ _ P) at 1. f_equal. lia.
Qed.

Lemma read_at_most_exact_l max src rs :
  plain rs = true ->
  let avail := Z.min (total rs) (Z.of_nat (length src)) in
  let want := if max <? 0 then avail else Z.min max avail in
  let r := read_at_most None KCancelled max src rs in
  r_bytes r = firstn (Z.to_nat want) src /\ r_kind r = (if want =? 0 then KEmpty else KNil).
Proof.
  intros Hp. cbv zeta. unfold read_at_most. norm_gen. rewrite limit_of_generated. cbv zeta.
  assert (Hl : match (if max <? 0 then None else Some max) with Some m => 0 <= m | None => True end)
    by (destruct (max <? 0) eqn:E; [exact I|lia]).
  destruct (loop_plain_bytes true true KCancelled _ src rs Hp Hl) as (B & W & K).
  rewrite K, W.
  assert (E : (match (if max <? 0 then None else Some max) with
               | Some m => Z.min m (Z.min (total rs) (Z.of_nat (length src)))
               | None => Z.min (total rs) (Z.of_nat (length src)) end)
              = (if max <? 0 then Z.min (total rs) (Z.of_nat (length src)) else Z.min max (Z.min (total rs) (Z.of_nat (length src)))))
    by (destruct (max <? 0); reflexivity).
  rewrite E in *.
  destruct (_ =? 0) eqn:E0; simpl; [|split; [exact B|reflexivity]].
  split; [|reflexivity]. apply Z.eqb_eq in E0. rewrite E0. reflexivity.
Qed.

Lemma copy_n_plain_l rf n src rs :
  0 <= n -> plain rs = true ->
  let avail := Z.min (total rs) (Z.of_nat (length src)) in
  let r := copy_n rf None KCancelled n src rs [] in
  r_bytes r = firstn (Z.to_nat (Z.min n avail)) src /\ r_kind r = (if n <=? avail then KNil else KEOF).
Proof.
  intros Hn Hp. cbv zeta. unfold copy_n. norm_gen. cbv zeta.
  destruct (loop_plain_bytes rf false KCancelled (Some n) src rs Hp Hn) as (B & W & K).
  simpl. rewrite K, W. split; [exact B|].
  pose proof (total_nonneg rs Hp).
  destruct (Z.min n _ =? n) eqn:E1; destruct (n <=? Z.min (total rs) (Z.of_nat (length src))) eqn:E2; try reflexivity; try lia.
  destruct (Z.min n _ <? n) eqn:E3; simpl; [reflexivity|lia].
Qed.
