(* C09: the traces interpreted from the GENERATED programs (coq/C09/Gen.v, regenerated from files.go on every run) are
   the traces analysed by hand in ProofsB.v.  These equalities are re-checked on every run: a context test that
   moves or disappears, a helper that is added, removed or applied to another path, a changed branch — each changes
   a generated program and breaks the equality (and with it every bound that rests on it). *)
From Coq Require Import List ZArith Bool Lia PeanoNat.
Import ListNotations.
From GU Require Import C09.IR C09.Gen C09.Model.

(* ---- nested induction over trees ---- *)
Fixpoint tree_ind' (P : tree -> Prop) (HF : forall n, P (F n)) (HD : forall cs, Forall P cs -> P (D cs)) (t : tree) : P t :=
  match t with
  | F n => HF n
  | D cs => HD cs ((fix go (l : list tree) : Forall P l :=
                      match l with [] => Forall_nil _ | c :: l' => Forall_cons c (tree_ind' P HF HD c) (go l') end) cs)
  end.

Lemma flat_map_ext_Forall {A B} (f g : A -> list B) l : Forall (fun x => f x = g x) l -> flat_map f l = flat_map g l.
Proof. induction 1; simpl; [reflexivity|]. now f_equal. Qed.

Ltac peel := repeat match goal with
  | |- _ :: _ = _ :: _ => f_equal
  | |- _ ++ _ = _ ++ _ => f_equal
  end.

(* the hand-analysed trace of each entry point *)
Definition ep_hand (e : epk) (t : tree) : list bev :=
  match e with
  | EWalk cb => walk_entry cb t
  | EChmod => chmod_entry t
  | EListTree => listtree_entry t
  | ERemove => remove_tr t
  | EClean => clean_entry t
  | ECopy => copy_entry t
  | EMoveNoRename => move_entry t
  end.

Ltac fin := cbn in *; repeat rewrite app_nil_r in *; unfold opsn in *; try reflexivity.

Lemma interp_walk_body cb : forall t, interp cb t gen_walk_body = walk_tr cb t.
Proof.
  induction t as [n|cs IH] using tree_ind'; fin. peel.
  apply flat_map_ext_Forall. eapply Forall_impl; [|exact IH]. intros c Hc. fin. now rewrite Hc.
Qed.

Lemma interp_walk_entry cb t : interp cb t gen_walk_entry = walk_entry cb t.
Proof.
  pose proof (interp_walk_body cb) as B. unfold walk_entry. destruct t as [n|cs]; fin. peel.
  apply flat_map_ext_Forall. apply Forall_forall. intros c _. fin. now rewrite B.
Qed.

Lemma interp_chmod_entry t : interp gen_chmod_callback_ops t gen_chmod_entry = chmod_entry t.
Proof.
  pose proof (interp_walk_body 1) as B. unfold chmod_entry, walk_entry. destruct t as [n|cs]; fin. peel.
  apply flat_map_ext_Forall. apply Forall_forall. intros c _. fin. now rewrite <- B.
Qed.

Lemma interp_listtree_body : forall t, interp 0 t gen_listtree_body = listtree_tr t.
Proof.
  induction t as [n|cs IH] using tree_ind'; fin. peel.
  apply flat_map_ext_Forall. eapply Forall_impl; [|exact IH]. intros c Hc. fin.
  destruct c as [m|cs']; fin. now rewrite Hc.
Qed.

Lemma interp_listtree_entry t : interp 0 t gen_listtree_entry = listtree_entry t.
Proof.
  pose proof interp_listtree_body as B. unfold listtree_entry. destruct t as [n|cs]; fin. peel.
  apply flat_map_ext_Forall. apply Forall_forall. intros c _. fin.
  destruct c as [m|cs']; fin. specialize (B (D cs')). fin. now rewrite B.
Qed.

Lemma interp_remove_body : forall t, interp 0 t gen_remove_body = remove_tr t.
Proof.
  induction t as [n|cs IH] using tree_ind'; fin.
  destruct cs as [|c0 cs0]; fin. peel.
  - inversion IH; subst. fin. congruence.
  - apply flat_map_ext_Forall. inversion IH as [|? ? _ IH']; subst. eapply Forall_impl; [|exact IH']. intros c Hc. fin. now rewrite Hc.
Qed.

Lemma interp_remove_entry t : interp 0 t gen_remove_entry = remove_tr t.
Proof. rewrite <- interp_remove_body. reflexivity. Qed.

Lemma interp_clean_entry t : interp 0 t gen_clean_entry = clean_entry t.
Proof.
  pose proof interp_remove_body as B. unfold clean_entry. destruct t as [n|[|c0 cs0]]; fin. peel.
  - now rewrite B.
  - apply flat_map_ext_Forall. apply Forall_forall. intros c _. fin. now rewrite B.
Qed.

(* the traces built from the generated programs are the hand-analysed ones *)
Theorem ep_trace_is_hand : forall e t, ep_trace e t = ep_hand e t.
Proof.
  intros [cb| | | | | |] t; simpl;
  [apply interp_walk_entry | apply interp_chmod_entry | apply interp_listtree_entry | apply interp_remove_entry
  | apply interp_clean_entry | reflexivity | reflexivity].
Qed.

(* static conditions on the generated programs: every mutating helper — dead branches such as the symbolic-link branch
   of removeWithExclusionPatterns included — is preceded by a context test; no error of an entry is dropped *)
Lemma generated_programs_guarded :
  forallb guarded [gen_walk_body; gen_listtree_body; gen_remove_body; gen_walk_entry; gen_listtree_entry; gen_remove_entry;
                   gen_clean_entry; gen_chmod_entry; gen_chown_entry; gen_lsrecursive_entry] = true.
Proof. reflexivity. Qed.
