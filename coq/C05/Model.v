(* C05 — executable model of subprocess cancellation (code AS REPAIRED by fixes/C05-*.patch).
   OS side (assumptions in executable form): a process table with spawn / exit / SIGTERM to one pid /
   SIGKILL to a process group; Wait = reap the direct child, then wait until nobody alive holds the
   output pipes or the WaitDelay timer has closed them.
   Go side: utils/subprocess/executor.go (Start :197-232, Execute :240-262, stop :292-316),
   command_wrapper.go (Run :53-72, Stop :74-101), command_wrapper_linux.go (Cancel = kill(-pgid), WaitDelay),
   monitoring.go (runProcessMonitoring :74-82), os/exec's context watcher, proc/process.go:149-185.
   Definitions only; proofs are in Proofs.v. *)
From Coq Require Import List Bool Arith.
Import ListNotations.

(* ---------- process trees (what the command does) ---------- *)
(* T ign pipe away exits kids:  ign = ignores SIGTERM; pipe = started with the inherited output pipes (false: redirected);
   away = started through setsid (leaves the process group); exits = ends by itself once its children are spawned
   (false: blocks for ever — sleep / wait); kids = background children, spawned one by one. *)
Inductive tree := T (ign pipe away exits : bool) (kids : list tree).

Record proc := mkProc {
  alive : bool; ingrp : bool; holds : bool; lead : bool; pign : bool; pexits : bool; ptodo : list tree }.

Definition root_proc (t : tree) : proc :=
  match t with T ign _ _ ex kids => mkProc true true true true ign ex kids end.

(* fork: the child inherits group membership and the pipes unless it is started away / redirected *)
Definition child_of (p : proc) (t : tree) : proc :=
  match t with T ign pipe away ex kids =>
    mkProc true (ingrp p && negb away) (holds p && pipe) false ign ex kids end.

Definition set_dead (p : proc) : proc := mkProc false (ingrp p) (holds p) (lead p) (pign p) (pexits p) (ptodo p).
Definition set_todo (p : proc) (l : list tree) : proc := mkProc (alive p) (ingrp p) (holds p) (lead p) (pign p) (pexits p) l.

Fixpoint upd (i : nat) (q : proc) (l : list proc) : list proc :=
  match l, i with
  | [], _ => []
  | _ :: r, O => q :: r
  | p :: r, S j => p :: upd j q r
  end.

(* one step of process i: spawn its next child, or exit if it is of the exiting kind; blocked otherwise *)
Definition pstep (i : nat) (tb : list proc) : option (list proc) :=
  match nth_error tb i with
  | None => None
  | Some p =>
      if alive p then
        match ptodo p with
        | k :: ks => Some (upd i (set_todo p ks) tb ++ [child_of p k])
        | [] => if pexits p then Some (upd i (set_dead p) tb) else None
        end
      else None
  end.

(* kill(-pgid, SIGKILL): proc/ps_posix.go:36, command_wrapper_linux.go killProcessGroup *)
Definition kill_group (tb : list proc) : list proc := map (fun p => if ingrp p then set_dead p else p) tb.
(* SIGTERM to the direct child: process.go:161 *)
Definition term_leader (tb : list proc) : list proc :=
  map (fun p => if lead p && negb (pign p) then set_dead p else p) tb.

Definition leader_dead (tb : list proc) : bool := forallb (fun p => negb (lead p && alive p)) tb.
Definition no_holder (tb : list proc) : bool := forallb (fun p => negb (alive p && holds p)) tb.
Definition no_ingroup_alive (tb : list proc) : bool := forallb (fun p => negb (alive p && ingrp p)) tb.
Definition survivors (tb : list proc) : nat := length (filter (fun p => alive p && ingrp p) tb).

(* ---------- the Go side ---------- *)
Inductive start_mode := SExecute | SStart | SSupervisor.
Inductive stop_mode := KCtx | KDeadline | KCancel | KStop | KRestart.
Inductive owner := OMain | OUser | OMon.

(* Execute / Start (the supervisor loop runs Execute):
   M0 before mu.Lock; M1 locked, about to spawn; M2 in cmd.Wait before the direct child is reaped;
   M3 reaped, waiting for the pipes; M4 cmd.Run returned; MDone returned. *)
Inductive mpc := M0 | M1 | M2 | M3 | M4 | MDone.
(* Subprocess.stop (called by the user's Stop/Restart, or by the monitor goroutine) with cmdWrapper.Stop as repaired:
   P0 entry (IsOn?); P1 waiting for the lock (Check + Lock), IsOn re-checked under it; PT lookup + SIGTERM to the direct
   child; PK kill of the process group; P2 in cmd.Wait before the reap; P3 reaped, waiting for the pipes; P4 Wait returned;
   PDone returned. *)
Inductive spc := P0 | P1 | PT | PK | P2 | P3 | P4 | PDone.
(* the user: waiting to issue the request, or (Stop/Restart) inside stop, or done *)
Inductive upc := UIdle | UStop (p : spc) | UDone.
(* the monitor goroutine: not started, waiting for the process context, inside stop, finished *)
Inductive npc := NNone | NWait | NStop (p : spc) | NEnd.

Record st := mkSt {
  smode : start_mode; kmode : stop_mode; prog : tree;
  tbl : list proc;
  ctx_done : bool;          (* the process context is done *)
  mu : option owner;        (* Subprocess.mu (write side; readers only pass when it is free) *)
  is_running : bool; mon_on : bool;
  reaped : bool;            (* cmd.Process.Wait has returned *)
  rw_done : bool;           (* the watcher of cmdWrapper.Run has killed the group *)
  w_done : bool;            (* os/exec's context watcher has called cmd.Cancel *)
  gk : bool;                (* ghost: the group has been killed at least once *)
  fired : bool;             (* ghost: the user has issued the stop request *)
  mainpc : mpc; userpc : upc; monpc : npc }.

Definition init (sm : start_mode) (km : stop_mode) (t : tree) : st :=
  mkSt sm km t [] false None false false false false false false false M0 UIdle NNone.

Definition is_on (s : st) : bool := is_running s && mon_on s.   (* executor.go:191 *)
Definition executes (s : st) : bool := match smode s with SStart => false | _ => true end.
Definition cancels (s : st) : bool := match kmode s with KRestart => false | _ => true end. (* stop(cancel) *)

Inductive label := LMain | LUser | LMon | LWatch | LRunWatch | LProc (i : nat).

Definition mu_free (s : st) : bool := match mu s with None => true | _ => false end.

(* record update helpers *)
Definition with_tbl s v := mkSt (smode s) (kmode s) (prog s) v (ctx_done s) (mu s) (is_running s) (mon_on s) (reaped s) (rw_done s) (w_done s) (gk s) (fired s) (mainpc s) (userpc s) (monpc s).
Definition with_gkill s := mkSt (smode s) (kmode s) (prog s) (kill_group (tbl s)) (ctx_done s) (mu s) (is_running s) (mon_on s) (reaped s) (rw_done s) (w_done s) true (fired s) (mainpc s) (userpc s) (monpc s).
Definition with_ctx s v := mkSt (smode s) (kmode s) (prog s) (tbl s) v (mu s) (is_running s) (mon_on s) (reaped s) (rw_done s) (w_done s) (gk s) (fired s) (mainpc s) (userpc s) (monpc s).
Definition with_mu s v := mkSt (smode s) (kmode s) (prog s) (tbl s) (ctx_done s) v (is_running s) (mon_on s) (reaped s) (rw_done s) (w_done s) (gk s) (fired s) (mainpc s) (userpc s) (monpc s).
Definition with_running s v := mkSt (smode s) (kmode s) (prog s) (tbl s) (ctx_done s) (mu s) v (mon_on s) (reaped s) (rw_done s) (w_done s) (gk s) (fired s) (mainpc s) (userpc s) (monpc s).
Definition with_mon_on s v := mkSt (smode s) (kmode s) (prog s) (tbl s) (ctx_done s) (mu s) (is_running s) v (reaped s) (rw_done s) (w_done s) (gk s) (fired s) (mainpc s) (userpc s) (monpc s).
Definition with_reaped s := mkSt (smode s) (kmode s) (prog s) (tbl s) (ctx_done s) (mu s) (is_running s) (mon_on s) true (rw_done s) (w_done s) (gk s) (fired s) (mainpc s) (userpc s) (monpc s).
Definition with_rwdone s := mkSt (smode s) (kmode s) (prog s) (tbl s) (ctx_done s) (mu s) (is_running s) (mon_on s) (reaped s) true (w_done s) (gk s) (fired s) (mainpc s) (userpc s) (monpc s).
Definition with_wdone s := mkSt (smode s) (kmode s) (prog s) (tbl s) (ctx_done s) (mu s) (is_running s) (mon_on s) (reaped s) (rw_done s) true (gk s) (fired s) (mainpc s) (userpc s) (monpc s).
Definition with_fired s := mkSt (smode s) (kmode s) (prog s) (tbl s) (ctx_done s) (mu s) (is_running s) (mon_on s) (reaped s) (rw_done s) (w_done s) (gk s) true (mainpc s) (userpc s) (monpc s).
Definition with_main s v := mkSt (smode s) (kmode s) (prog s) (tbl s) (ctx_done s) (mu s) (is_running s) (mon_on s) (reaped s) (rw_done s) (w_done s) (gk s) (fired s) v (userpc s) (monpc s).
Definition with_user s v := mkSt (smode s) (kmode s) (prog s) (tbl s) (ctx_done s) (mu s) (is_running s) (mon_on s) (reaped s) (rw_done s) (w_done s) (gk s) (fired s) (mainpc s) v (monpc s).
Definition with_mon s v := mkSt (smode s) (kmode s) (prog s) (tbl s) (ctx_done s) (mu s) (is_running s) (mon_on s) (reaped s) (rw_done s) (w_done s) (gk s) (fired s) (mainpc s) (userpc s) v.

(* ---------- facts about the source (REGENERATED: coq/C05/Gen.v is written by translator-c05 from the working tree) ----------
   The statement lists are a closed IR: the translator matches every statement of the anchored functions against a closed
   list of shapes and fails otherwise.  The model below is parameterised by a record of these lists; what it needs of
   them is computed by the predicates that follow. *)
Inductive spval := SpTrue | SpFalse | SpExpr.                       (* value of SysProcAttr.Setpgid *)
Inductive chook := CHGroupKill | CHNone | CHOther.                   (* c.Cancel = func() error { return killProcessGroup(c.Process.Pid) } *)
Inductive sigk := SigKill | SigTerm | SigOther.
(* killProcessGroup: if pid <= 0 {return nil}; err := syscall.Kill(<neg?>pid, sig); if errors.Is(err, ESRCH) {...}; return err;
   any other early return is KGuardOther *)
Inductive kstmt := KGuardNonPositive | KGuardOther | KKill (neg : bool) (sg : sigk) | KMapEsrch | KReturnErr.
(* cmdWrapper.Run *)
Inductive rstmt := RLockR | RDeferUnlockR | RNilCheck | RRunPlain | RStart | RRetIfErr | RCapture | RWatcher | RWait
                 | RCloseDone | RPostKill | RFlush | RReturn.
(* cmdWrapper.Stop: the block  if subprocess != nil { ... }  is a list of kill steps, possibly scheduled for later *)
Inductive kstep := QPid | QLookup | QKillTreeIfFound | QGroupKill | QScheduled (l : list kstep).
Inductive sstmt := SLockR | SDeferUnlockR | SNilCheck | SGetProcess | SCtx | SDeferCancel | SIfProcess (l : list kstep)
                 | SWait | SFlush | SReturnNil.
(* Subprocess.Cancel *)
Inductive cstmt := CCancelMonitoring | CLock | CRLock | CDeferUnlock.
(* Subprocess.stop *)
Inductive ostmt := OIfNotOnReturn | OCheck | ORetIfErr | OLock | ODeferUnlock | ODeferCancelIf | OLogStopping | OCmdStop
                 | OCmdReset | ORunningFalse | OLogEnd | OReturn | OIfUndefinedReturn.
(* Subprocess.Execute *)
Inductive estmt := ECheck | ERetIfErr | ELock | EUnlock | EDeferUnlock | EDeferCancel | EIfOnConflict | EMonReset | ECmdReset
                 | ELogStart | ERunMonitoring | EGetCmd | ERunningTrue | ERun | ECtxErrWrap | ERunningFalse | ELogEnd | EReturn.
(* the monitor goroutine of subprocessMonitoring.runProcessMonitoring *)
(* MOnTrueSync / MLaunchClearsStopping: monitoringOn set, monitoringStopping cleared, by the launcher before the goroutine exists;
   MResetClearsStopping: subprocessMonitoring.Reset clears monitoringStopping (it must not: see mon_relaunch_ok) *)
Inductive mstmt := MOnTrue | MWaitCtx | MCancel | MStop | MStopGuarded | MOnFalse | MOnTrueSync | MLaunchClearsStopping | MResetClearsStopping.

(* Subprocess.Start *)
Inductive tstmt := TIfOnReturn | TLock | TUnlock | TDeferUnlock | TCheck | TRetIfErr | TReset | TRunMonitoring | TGetCmd | TCmdStart
                 | TFailStart | TPid | TRunningTrue | TSetPid | TLogStarted | TReturn.

Record facts := mkFacts {
  g_setpgid : list spval;            (* one per platform file that has the field (linux, darwin) *)
  g_cancel_hook : list chook;
  g_waitdelay : list bool;           (* WaitDelay assigned *)
  g_killgroup : list (list kstmt);
  g_run : list rstmt; g_stop : list sstmt; g_cancel : list cstmt; g_stop_outer : list ostmt;
  g_execute : list estmt; g_monitor : list mstmt;
  g_start : list tstmt;
  g_check_pure : bool               (* Subprocess.check / command.Check only test fields of the object (they call nothing that looks at the world) *) }.

Definition rcode (r : rstmt) : nat := match r with RLockR => 0 | RDeferUnlockR => 1 | RNilCheck => 2 | RRunPlain => 3 | RStart => 4
  | RRetIfErr => 5 | RCapture => 6 | RWatcher => 7 | RWait => 8 | RCloseDone => 9 | RPostKill => 10 | RFlush => 11 | RReturn => 12 end.
Definition ocode (o : ostmt) : nat := match o with OIfNotOnReturn => 0 | OCheck => 1 | ORetIfErr => 2 | OLock => 3 | ODeferUnlock => 4
  | ODeferCancelIf => 5 | OLogStopping => 6 | OCmdStop => 7 | OCmdReset => 8 | ORunningFalse => 9 | OLogEnd => 10 | OReturn => 11 | OIfUndefinedReturn => 12 end.
Definition ecode (e : estmt) : nat := match e with ECheck => 0 | ERetIfErr => 1 | ELock => 2 | EUnlock => 3 | EDeferUnlock => 4
  | EDeferCancel => 5 | EIfOnConflict => 6 | EMonReset => 7 | ECmdReset => 8 | ELogStart => 9 | ERunMonitoring => 10 | EGetCmd => 11
  | ERunningTrue => 12 | ERun => 13 | ECtxErrWrap => 14 | ERunningFalse => 15 | ELogEnd => 16 | EReturn => 17 end.
Definition mcode (m : mstmt) : nat := match m with MOnTrue => 0 | MWaitCtx => 1 | MCancel => 2 | MStop => 3 | MStopGuarded => 4 | MOnFalse => 5 | MOnTrueSync => 6 | MLaunchClearsStopping => 7 | MResetClearsStopping => 8 end.

(* [x] occurs in [l]; the part of [l] before / after the first [x] *)
Definition has (x : nat) (l : list nat) : bool := existsb (Nat.eqb x) l.
Fixpoint before (x : nat) (l : list nat) : list nat := match l with [] => [] | y :: r => if Nat.eqb x y then [] else y :: before x r end.
Fixpoint after (x : nat) (l : list nat) : list nat := match l with [] => [] | y :: r => if Nat.eqb x y then r else after x r end.

(* the kill reaches the whole group: the command leads its own group on every platform file, and killProcessGroup sends
   SIGKILL to -pid with no guard other than pid <= 0 in front of it *)
Fixpoint killgroup_ok (l : list kstmt) : bool :=
  match l with KGuardNonPositive :: r => killgroup_ok r | KKill true SigKill :: _ => true | _ => false end.
Definition kill_works (F : facts) : bool :=
  forallb (fun v => match v with SpTrue => true | _ => false end) (g_setpgid F) && forallb killgroup_ok (g_killgroup F).
Definition cancel_group (F : facts) : bool := forallb (fun h => match h with CHGroupKill => true | _ => false end) (g_cancel_hook F).
Definition no_waitdelay (F : facts) : bool := forallb negb (g_waitdelay F).
(* Run: Start, then the context watcher, then Wait; a kill after Wait when the context is done *)
Definition run_watches (F : facts) : bool :=
  let l := map rcode (g_run F) in has 7 (before 8 (after 4 l)).
Definition run_postkill (F : facts) : bool := has 10 (after 8 (map rcode (g_run F))).
(* Stop: the kill steps that run before Wait (not scheduled for later) *)
Definition kills_now (x : kstep) : bool := match x with QGroupKill => true | _ => false end.
Fixpoint stop_block (l : list sstmt) : list kstep :=
  match l with [] => [] | SWait :: _ => [] | SIfProcess k :: _ => k | _ :: r => stop_block r end.
Definition stop_kills_before_wait (F : facts) : bool := existsb kills_now (stop_block (g_stop F)).
Definition stop_terms (F : facts) : bool :=
  existsb (fun x => match x with QKillTreeIfFound => true | _ => false end) (stop_block (g_stop F)).
(* Subprocess.Cancel takes no lock of the object *)
Definition cancel_lockfree (F : facts) : bool :=
  forallb (fun c => match c with CCancelMonitoring => true | _ => false end) (g_cancel F) && negb (Nat.eqb (length (g_cancel F)) 0).
(* stop(): IsOn is tested again between Lock and the command's Stop; isRunning is cleared after it *)
Definition stop_rechecks (F : facts) : bool := let l := map ocode (g_stop_outer F) in has 0 (before 7 (after 3 l)).
Definition stop_clears_running (F : facts) : bool := has 9 (after 7 (map ocode (g_stop_outer F))).
(* Execute: Lock before Run and no Unlock other than the deferred one (the fact behind the known finding);
   isRunning set before Run and cleared after it *)
Definition exec_holds_lock (F : facts) : bool :=
  let l := map ecode (g_execute F) in has 2 (before 13 l) && negb (has 3 (before 13 (after 2 l))).
Definition exec_flags (F : facts) : bool :=
  let l := map ecode (g_execute F) in has 12 (before 13 l) && has 15 (after 13 l).
(* the monitor calls stop, unconditionally, once the process context is done *)
Definition mon_stops (F : facts) : bool := has 3 (after 1 (map mcode (g_monitor F))).

Definition tcode (t : tstmt) : nat := match t with TIfOnReturn => 0 | TLock => 1 | TUnlock => 2 | TDeferUnlock => 3 | TCheck => 4
  | TRetIfErr => 5 | TReset => 6 | TRunMonitoring => 7 | TGetCmd => 8 | TCmdStart => 9 | TFailStart => 10 | TPid => 11
  | TRunningTrue => 12 | TSetPid => 13 | TLogStarted => 14 | TReturn => 15 end.
(* Start: the mutex is taken before the command is started and only released by the deferred Unlock; IsOn is tested again
   between Lock and the start of the command *)
Definition start_locks (F : facts) : bool :=
  let l := map tcode (g_start F) in has 1 (before 9 l) && negb (has 2 (before 9 (after 1 l))).
Definition start_rechecks (F : facts) : bool := has 0 (before 9 (after 1 (map tcode (g_start F)))).
(* IsOn() = isRunning && monitoringOn: monitoringOn is set by the launcher, before the monitor goroutine exists, and not by
   the goroutine itself (else IsOn() is still false for a while after Start() returned) *)
Definition mon_on_sync (F : facts) : bool := let l := map mcode (g_monitor F) in has 6 l && negb (has 0 l).
(* a Start()/Execute() right after a Stop()/Cancel() must not take the finishing monitor for a live one: only the launcher of
   a new monitor ends the stopping phase, Reset does not.  (Needed for sequences of runs on one object, which the LTS below
   does not exhibit: required of the source, exercised by the harness's histories.) *)
Definition mon_relaunch_ok (F : facts) : bool := let l := map mcode (g_monitor F) in has 7 l && negb (has 8 l).
Definition start_ok (F : facts) : bool := start_locks F && start_rechecks F && mon_on_sync F.
(* stop() runs Check() before it kills anything: Check must not be able to fail on a running subprocess *)
Definition check_pure (F : facts) : bool := g_check_pure F.
Definition stop_checks_first (F : facts) : bool := has 1 (before 7 (map ocode (g_stop_outer F))).
Definition stop_never_gives_up (F : facts) : bool := check_pure F || negb (stop_checks_first F).

(* what cancel_kills_group needs of the source *)
Definition facts_ok (F : facts) : bool :=
  kill_works F && run_watches F && run_postkill F && stop_kills_before_wait F && cancel_lockfree F && stop_rechecks F &&
  stop_clears_running F && exec_holds_lock F && exec_flags F && mon_stops F && stop_never_gives_up F && mon_on_sync F &&
  mon_relaunch_ok F.

Definition kill_leader (tb : list proc) : list proc := map (fun p => if lead p then set_dead p else p) tb.   (* default cmd.Cancel: Process.Kill *)

Section Facts.
Variable F : facts.

(* a group kill as the source performs it *)
Definition gkill (s : st) : st := if kill_works F then with_gkill s else s.
(* with a WaitDelay, Wait gives up on the pipes (abstracted: it may return at once) *)
Definition pipes_free (s : st) : bool := no_holder (tbl s) || negb (no_waitdelay F).

(* Start :197-232 / Execute :240-262 (+ cmdWrapper.Run: Start; watcher; Wait; post-Wait kill) *)
Definition main_step (s : st) : option st :=
  match mainpc s with
  | M0 => if mu_free s then Some (with_main (with_mu s (Some OMain)) M1) else None
  | M1 => (* runProcessMonitoring; cmd.Start; isRunning = true;  Start() then unlocks and returns *)
      let s1 := with_mon (with_mon_on (with_running (with_tbl s [root_proc (prog s)]) (if executes s then exec_flags F else true)) (mon_on_sync F)) NWait in
      if executes s then Some (with_main (if exec_holds_lock F then s1 else with_mu s1 None) M2)
      else Some (with_main (with_mu s1 None) MDone)
  | M2 => if leader_dead (tbl s) then Some (with_main (with_reaped s) M3) else None
  | M3 => if pipes_free s then Some (with_main s M4) else None
  | M4 => (* Run: if ctx.Err() != nil { killProcessGroup };  Execute: isRunning = false; Unlock; deferred Cancel *)
      let s1 := if ctx_done s && run_postkill F then gkill s else s in
      Some (with_main (with_ctx (with_mu (with_running s1 (if exec_flags F then false else is_running s1)) None) true) MDone)
  | MDone => None
  end.

(* Subprocess.stop with cmdWrapper.Stop (kill the tree, then the group by id, then Wait), run by [who].
   [set] stores the new pc of the calling thread. *)
Definition stop_step (who : owner) (cancel : bool) (p : spc) (set : st -> spc -> st) (s : st) : option st :=
  match p with
  | P0 => (* if !IsOn() return; err = Check(); if err != nil return  — a Check that looks at the world may fail here *)
      if is_on s && stop_never_gives_up F then Some (set s P1) else Some (set s PDone)
  | P1 => if mu_free s then
            if is_on s || negb (stop_rechecks F) then Some (set (with_mu s (Some who)) PT)
            else Some (set (with_ctx s (ctx_done s || cancel)) PDone)
          else None
  | PT => Some (set (if stop_terms F then with_tbl s (term_leader (tbl s)) else s) PK)   (* FindProcess + KillWithChildren: SIGTERM first *)
  | PK => Some (set (if stop_kills_before_wait F then gkill s else s) P2)               (* killProcessGroup(pid), before Wait *)
  | P2 => if leader_dead (tbl s) then Some (set (with_reaped s) P3) else None
  | P3 => if pipes_free s then Some (set s P4) else None
  | P4 => Some (set (with_ctx (with_mu (with_running s (if stop_clears_running F then false else is_running s)) None) (ctx_done s || cancel)) PDone)
  | PDone => None
  end.

(* the user's request; it is only issued on a running subprocess (the property's premise).
   Cancel() must not need the object lock (Execute holds it). *)
Definition user_step (s : st) : option st :=
  match userpc s with
  | UIdle =>
      if is_running s then
        match kmode s with
        | KCtx | KDeadline => Some (with_user (with_fired (with_ctx s true)) UDone)
        | KCancel => if cancel_lockfree F || mu_free s then Some (with_user (with_fired (with_ctx s true)) UDone) else None
        | KStop | KRestart => Some (with_user (with_fired s) (UStop P0))
        end
      else None
  | UStop PDone => Some (with_user s UDone)
  | UStop p => stop_step OUser (cancels s) p (fun s' q => with_user s' (UStop q)) s
  | UDone => None
  end.

(* monitoring.go runProcessMonitoring *)
Definition mon_step (s : st) : option st :=
  match monpc s with
  | NNone => None
  | NWait => if ctx_done s then Some (with_mon s (NStop (if mon_stops F then P0 else PDone))) else None
  | NStop PDone => Some (with_mon (with_mon_on s false) NEnd)
  | NStop p => stop_step OMon true p (fun s' q => with_mon s' (NStop q)) s
  | NEnd => None
  end.

(* os/exec watchCtx calling cmd.Cancel: runs once the context is done, unless Wait has already seen the child exit.
   Without the hook, os/exec kills the direct child only. *)
Definition watch_step (s : st) : option st :=
  match mainpc s with
  | M0 | M1 => None   (* the watcher goroutine is created by cmd.Start *)
  | _ => if ctx_done s && negb (reaped s) && negb (w_done s)
         then Some (with_wdone (if cancel_group F then gkill s else with_tbl s (kill_leader (tbl s)))) else None
  end.

(* the watcher of cmdWrapper.Run: from cmd.Start until cmd.Wait has returned, kills the group when the context ends *)
Definition runwatch_step (s : st) : option st :=
  match mainpc s with
  | M2 | M3 => if run_watches F && ctx_done s && negb (rw_done s) then Some (with_rwdone (gkill s)) else None
  | _ => None
  end.

Definition proc_step (i : nat) (s : st) : option st :=
  match pstep i (tbl s) with Some tb => Some (with_tbl s tb) | None => None end.

Definition step (s : st) (l : label) : option st :=
  match l with
  | LMain => main_step s | LUser => user_step s | LMon => mon_step s | LWatch => watch_step s
  | LRunWatch => runwatch_step s | LProc i => proc_step i s
  end.

(* a schedule is any list of labels; choosing a disabled thread is a no-op *)
Definition exec1 (s : st) (l : label) : st := match step s l with Some s' => s' | None => s end.
Definition run (s : st) (sched : list label) : st := fold_left exec1 sched s.
Definition effective (s : st) (l : label) : bool := match step s l with Some _ => true | None => false end.
Fixpoint steps_taken (s : st) (sched : list label) : nat :=
  match sched with
  | [] => 0
  | l :: r => (if effective s l then 1 else 0) + steps_taken (exec1 s l) r
  end.

Definition terminal (s : st) : Prop := forall l, step s l = None.

(* what the property demands of the final state *)
Definition call_returned (s : st) : bool :=
  (if executes s then match mainpc s with MDone => true | _ => false end else true) &&
  match userpc s with UDone => true | _ => false end.
Definition good (s : st) : Prop :=
  no_ingroup_alive (tbl s) = true /\ call_returned s = true /\ is_on s = false.

(* Stop / Restart on a subprocess started with Execute are the documented limitation (known finding) *)
Definition supported (sm : start_mode) (km : stop_mode) : bool :=
  match sm, km with
  | SStart, _ => true
  | _, (KStop | KRestart) => false
  | _, _ => true
  end.


(* No process that has left the group (setsid, or a descendant of such a process) holds the inherited output pipes.
   [ok h g t]: t started by a parent that holds the pipes iff h and is in the group iff g. *)
Fixpoint ok (h g : bool) (t : tree) : bool :=
  match t with T _ pipe away _ kids =>
    let h' := h && pipe in let g' := g && negb away in
    implb h' g' && forallb (ok h' g') kids end.
Definition no_outside_holder (t : tree) : bool :=
  match t with T _ _ _ _ kids => forallb (ok true true) kids end.

(* ---------- correspondence ---------- *)
Fixpoint tree_size (t : tree) : nat :=
  match t with T _ _ _ _ kids => S ((fix go (l : list tree) := match l with [] => 0 | k :: r => tree_size k + go r end) kids) end.

(* canonical schedule: start, let the tree spawn k processes' worth of steps, issue the stop, then round-robin over every thread *)
Definition round (n : nat) : list label :=
  [LUser; LWatch; LRunWatch; LMon; LMain] ++ map LProc (seq 0 n).
Fixpoint repeat_sched (r : list label) (k : nat) : list label :=
  match k with O => [] | S j => r ++ repeat_sched r j end.
Definition canonical (t : tree) (k : nat) : list label :=
  let n := tree_size t in
  [LMain; LMain] ++ repeat_sched (map LProc (seq 0 n)) (Nat.min k n) ++ repeat_sched (round n) (2 * n + 24).

Record case := mkCase {
  c_tree : tree; c_start : start_mode; c_stop : stop_mode; c_spawned : nat;
  c_returned : bool; c_survivors : nat; c_ison : bool }.

(* the set of surviving in-group processes is compared by emptiness (its size depends on how far the tree got) *)
Definition surv_ok (a b : nat) : bool := Nat.eqb a b || (negb (Nat.eqb a 0) && negb (Nat.eqb b 0)).

Definition check_case (c : case) : bool :=
  let s := run (init (c_start c) (c_stop c) (c_tree c)) (canonical (c_tree c) (c_spawned c)) in
  Bool.eqb (call_returned s) (c_returned c) && surv_ok (survivors (tbl s)) (c_survivors c) && Bool.eqb (is_on s) (c_ison c).

End Facts.

(* ---------- concurrent Start() calls on one object (any number of callers, any interleaving) ----------
   A0: the unlocked  if s.IsOn() { return };  A1: waiting for s.mu;  A2: under the lock, IsOn tested again (if the source
   does);  A3: spawning (cmd.Start, isRunning = true), then the deferred Unlock. *)
Inductive apc := A0 | A1 | A2 | A3 | ADone.
Record ast := mkAst { a_lock : option nat; a_on : bool; a_count : nat (* instances spawned *); a_pc : nat -> apc }.
Definition a_init : ast := mkAst None false 0 (fun _ => A0).
Definition a_set (f : nat -> apc) (i : nat) (p : apc) : nat -> apc := fun j => if Nat.eqb j i then p else f j.

Section Starts.
Variable F : facts.
Definition a_step (s : ast) (i : nat) : option ast :=
  match a_pc s i with
  | A0 => Some (mkAst (a_lock s) (a_on s) (a_count s) (a_set (a_pc s) i (if a_on s then ADone else A1)))
  | A1 => if start_locks F then
            match a_lock s with
            | None => Some (mkAst (Some i) (a_on s) (a_count s) (a_set (a_pc s) i A2))
            | Some _ => None
            end
          else Some (mkAst (a_lock s) (a_on s) (a_count s) (a_set (a_pc s) i A2))
  | A2 => if start_rechecks F && a_on s
          then Some (mkAst (if start_locks F then None else a_lock s) (a_on s) (a_count s) (a_set (a_pc s) i ADone))
          else Some (mkAst (a_lock s) (a_on s) (a_count s) (a_set (a_pc s) i A3))
  | A3 => Some (mkAst (if start_locks F then None else a_lock s) (mon_on_sync F) (S (a_count s)) (a_set (a_pc s) i ADone))
  | ADone => None
  end.
Definition a_run (s : ast) (sched : list nat) : ast :=
  fold_left (fun s i => match a_step s i with Some s' => s' | None => s end) sched s.
End Starts.
