(* C05 — executable model of subprocess cancellation (code AS REPAIRED by fixes/C05-*.patch).
   OS side (assumptions in executable form): a process table with spawn / exit / SIGTERM to one pid /
   SIGKILL to a process group; Wait = reap the direct child, then wait until nobody alive holds the
   output pipes or the WaitDelay timer has closed them.
   Go side: utils/subprocess/executor.go (Start :197-232, Execute :240-262, stop :292-316),
   command_wrapper.go (Run :53-72, Stop :74-101), command_wrapper_linux.go (Cancel = kill(-pgid), WaitDelay),
   monitoring.go (runProcessMonitoring :74-82), os/exec's context watcher, proc/process.go:149-185.
   Definitions only; proofs are in Proofs.v. *)
From Coq Require Import List Bool Arith.
Import ListNotations.

(* ---------- process trees (what the command does) ---------- *)
(* T ign pipe away exits kids:  ign = ignores SIGTERM; pipe = started with the inherited output pipes (false: redirected);
   away = started through setsid (leaves the process group); exits = ends by itself once its children are spawned
   (false: blocks for ever — sleep / wait); kids = background children, spawned one by one. *)
Inductive tree := T (ign pipe away exits : bool) (kids : list tree).

Record proc := mkProc {
  alive : bool; ingrp : bool; holds : bool; lead : bool; pign : bool; pexits : bool; ptodo : list tree }.

Definition root_proc (t : tree) : proc :=
  match t with T ign _ _ ex kids => mkProc true true true true ign ex kids end.

(* fork: the child inherits group membership and the pipes unless it is started away / redirected *)
Definition child_of (p : proc) (t : tree) : proc :=
  match t with T ign pipe away ex kids =>
    mkProc true (ingrp p && negb away) (holds p && pipe) false ign ex kids end.

Definition set_dead (p : proc) : proc := mkProc false (ingrp p) (holds p) (lead p) (pign p) (pexits p) (ptodo p).
Definition set_todo (p : proc) (l : list tree) : proc := mkProc (alive p) (ingrp p) (holds p) (lead p) (pign p) (pexits p) l.

Fixpoint upd (i : nat) (q : proc) (l : list proc) : list proc :=
  match l, i with
  | [], _ => []
  | _ :: r, O => q :: r
  | p :: r, S j => p :: upd j q r
  end.

(* one step of process i: spawn its next child, or exit if it is of the exiting kind; blocked otherwise *)
Definition pstep (i : nat) (tb : list proc) : option (list proc) :=
  match nth_error tb i with
  | None => None
  | Some p =>
      if alive p then
        match ptodo p with
        | k :: ks => Some (upd i (set_todo p ks) tb ++ [child_of p k])
        | [] => if pexits p then Some (upd i (set_dead p) tb) else None
        end
      else None
  end.

(* kill(-pgid, SIGKILL): proc/ps_posix.go:36, command_wrapper_linux.go killProcessGroup *)
Definition kill_group (tb : list proc) : list proc := map (fun p => if ingrp p then set_dead p else p) tb.
(* SIGTERM to the direct child: process.go:161 *)
Definition term_leader (tb : list proc) : list proc :=
  map (fun p => if lead p && negb (pign p) then set_dead p else p) tb.

Definition leader_dead (tb : list proc) : bool := forallb (fun p => negb (lead p && alive p)) tb.
Definition no_holder (tb : list proc) : bool := forallb (fun p => negb (alive p && holds p)) tb.
Definition no_ingroup_alive (tb : list proc) : bool := forallb (fun p => negb (alive p && ingrp p)) tb.
Definition survivors (tb : list proc) : nat := length (filter (fun p => alive p && ingrp p) tb).

(* ---------- the Go side ---------- *)
Inductive start_mode := SExecute | SStart | SSupervisor.
Inductive stop_mode := KCtx | KDeadline | KCancel | KStop | KRestart.
Inductive owner := OMain | OUser | OMon.

(* Execute / Start (the supervisor loop runs Execute):
   M0 before mu.Lock; M1 locked, about to spawn; M2 in cmd.Wait before the direct child is reaped;
   M3 reaped, waiting for the pipes; M4 cmd.Run returned; MDone returned. *)
Inductive mpc := M0 | M1 | M2 | M3 | M4 | MDone.
(* Subprocess.stop (called by the user's Stop/Restart, or by the monitor goroutine) with cmdWrapper.Stop as repaired:
   P0 entry (IsOn?); P1 waiting for the lock (Check + Lock), IsOn re-checked under it; PT lookup + SIGTERM to the direct
   child; PK kill of the process group; P2 in cmd.Wait before the reap; P3 reaped, waiting for the pipes; P4 Wait returned;
   PDone returned. *)
Inductive spc := P0 | P1 | PT | PK | P2 | P3 | P4 | PDone.
(* the user: waiting to issue the request, or (Stop/Restart) inside stop, or done *)
Inductive upc := UIdle | UStop (p : spc) | UDone.
(* the monitor goroutine: not started, waiting for the process context, inside stop, finished *)
Inductive npc := NNone | NWait | NStop (p : spc) | NEnd.

Record st := mkSt {
  smode : start_mode; kmode : stop_mode; prog : tree;
  tbl : list proc;
  ctx_done : bool;          (* the process context is done *)
  mu : option owner;        (* Subprocess.mu (write side; readers only pass when it is free) *)
  is_running : bool; mon_on : bool;
  reaped : bool;            (* cmd.Process.Wait has returned *)
  rw_done : bool;           (* the watcher of cmdWrapper.Run has killed the group *)
  w_done : bool;            (* os/exec's context watcher has called cmd.Cancel *)
  gk : bool;                (* ghost: the group has been killed at least once *)
  fired : bool;             (* ghost: the user has issued the stop request *)
  mainpc : mpc; userpc : upc; monpc : npc }.

Definition init (sm : start_mode) (km : stop_mode) (t : tree) : st :=
  mkSt sm km t [] false None false false false false false false false M0 UIdle NNone.

Definition is_on (s : st) : bool := is_running s && mon_on s.   (* executor.go:191 *)
Definition executes (s : st) : bool := match smode s with SStart => false | _ => true end.
Definition cancels (s : st) : bool := match kmode s with KRestart => false | _ => true end. (* stop(cancel) *)

Inductive label := LMain | LUser | LMon | LWatch | LRunWatch | LProc (i : nat).

Definition mu_free (s : st) : bool := match mu s with None => true | _ => false end.
(* no WaitDelay: Wait returns only when nobody alive holds the output pipes *)
Definition pipes_free (s : st) : bool := no_holder (tbl s).

(* record update helpers *)
Definition with_tbl s v := mkSt (smode s) (kmode s) (prog s) v (ctx_done s) (mu s) (is_running s) (mon_on s) (reaped s) (rw_done s) (w_done s) (gk s) (fired s) (mainpc s) (userpc s) (monpc s).
Definition with_gkill s := mkSt (smode s) (kmode s) (prog s) (kill_group (tbl s)) (ctx_done s) (mu s) (is_running s) (mon_on s) (reaped s) (rw_done s) (w_done s) true (fired s) (mainpc s) (userpc s) (monpc s).
Definition with_ctx s v := mkSt (smode s) (kmode s) (prog s) (tbl s) v (mu s) (is_running s) (mon_on s) (reaped s) (rw_done s) (w_done s) (gk s) (fired s) (mainpc s) (userpc s) (monpc s).
Definition with_mu s v := mkSt (smode s) (kmode s) (prog s) (tbl s) (ctx_done s) v (is_running s) (mon_on s) (reaped s) (rw_done s) (w_done s) (gk s) (fired s) (mainpc s) (userpc s) (monpc s).
Definition with_running s v := mkSt (smode s) (kmode s) (prog s) (tbl s) (ctx_done s) (mu s) v (mon_on s) (reaped s) (rw_done s) (w_done s) (gk s) (fired s) (mainpc s) (userpc s) (monpc s).
Definition with_mon_on s v := mkSt (smode s) (kmode s) (prog s) (tbl s) (ctx_done s) (mu s) (is_running s) v (reaped s) (rw_done s) (w_done s) (gk s) (fired s) (mainpc s) (userpc s) (monpc s).
Definition with_reaped s := mkSt (smode s) (kmode s) (prog s) (tbl s) (ctx_done s) (mu s) (is_running s) (mon_on s) true (rw_done s) (w_done s) (gk s) (fired s) (mainpc s) (userpc s) (monpc s).
Definition with_rwdone s := mkSt (smode s) (kmode s) (prog s) (tbl s) (ctx_done s) (mu s) (is_running s) (mon_on s) (reaped s) true (w_done s) (gk s) (fired s) (mainpc s) (userpc s) (monpc s).
Definition with_wdone s := mkSt (smode s) (kmode s) (prog s) (tbl s) (ctx_done s) (mu s) (is_running s) (mon_on s) (reaped s) (rw_done s) true (gk s) (fired s) (mainpc s) (userpc s) (monpc s).
Definition with_fired s := mkSt (smode s) (kmode s) (prog s) (tbl s) (ctx_done s) (mu s) (is_running s) (mon_on s) (reaped s) (rw_done s) (w_done s) (gk s) true (mainpc s) (userpc s) (monpc s).
Definition with_main s v := mkSt (smode s) (kmode s) (prog s) (tbl s) (ctx_done s) (mu s) (is_running s) (mon_on s) (reaped s) (rw_done s) (w_done s) (gk s) (fired s) v (userpc s) (monpc s).
Definition with_user s v := mkSt (smode s) (kmode s) (prog s) (tbl s) (ctx_done s) (mu s) (is_running s) (mon_on s) (reaped s) (rw_done s) (w_done s) (gk s) (fired s) (mainpc s) v (monpc s).
Definition with_mon s v := mkSt (smode s) (kmode s) (prog s) (tbl s) (ctx_done s) (mu s) (is_running s) (mon_on s) (reaped s) (rw_done s) (w_done s) (gk s) (fired s) (mainpc s) (userpc s) v.

(* Start :197-232 / Execute :240-262 (+ cmdWrapper.Run: Start; watcher; Wait) *)
Definition main_step (s : st) : option st :=
  match mainpc s with
  | M0 => if mu_free s then Some (with_main (with_mu s (Some OMain)) M1) else None
  | M1 => (* runProcessMonitoring; cmd.Start; isRunning = true;  Start() then unlocks and returns *)
      let s1 := with_mon (with_mon_on (with_running (with_tbl s [root_proc (prog s)]) true) true) NWait in
      if executes s then Some (with_main s1 M2) else Some (with_main (with_mu s1 None) MDone)
  | M2 => if leader_dead (tbl s) then Some (with_main (with_reaped s) M3) else None
  | M3 => if pipes_free s then Some (with_main s M4) else None
  | M4 => (* Run: if ctx.Err() != nil { killProcessGroup };  Execute: isRunning = false; Unlock; deferred Cancel *)
      let s1 := if ctx_done s then with_gkill s else s in
      Some (with_main (with_ctx (with_mu (with_running s1 false) None) true) MDone)
  | MDone => None
  end.

(* Subprocess.stop :292-316 with cmdWrapper.Stop (as repaired: kill the tree, then the group by id, then Wait), run by [who].
   [set] stores the new pc of the calling thread. *)
Definition stop_step (who : owner) (cancel : bool) (p : spc) (set : st -> spc -> st) (s : st) : option st :=
  match p with
  | P0 => if is_on s then Some (set s P1) else Some (set s PDone)
  | P1 => if mu_free s then
            if is_on s then Some (set (with_mu s (Some who)) PT)
            else Some (set (with_ctx s (ctx_done s || cancel)) PDone)
          else None
  | PT => Some (set (with_tbl s (term_leader (tbl s))) PK)      (* FindProcess + KillWithChildren: SIGTERM first *)
  | PK => Some (set (with_gkill s) P2)                          (* ... group kill; killProcessGroup(pid) in any case *)
  | P2 => if leader_dead (tbl s) then Some (set (with_reaped s) P3) else None
  | P3 => if pipes_free s then Some (set s P4) else None
  | P4 => Some (set (with_ctx (with_mu (with_running s false) None) (ctx_done s || cancel)) PDone)
  | PDone => None
  end.

(* the user's request; it is only issued on a running subprocess (the property's premise) *)
Definition user_step (s : st) : option st :=
  match userpc s with
  | UIdle =>
      if is_running s then
        match kmode s with
        | KCtx | KDeadline | KCancel => Some (with_user (with_fired (with_ctx s true)) UDone)
        | KStop | KRestart => Some (with_user (with_fired s) (UStop P0))
        end
      else None
  | UStop PDone => Some (with_user s UDone)
  | UStop p => stop_step OUser (cancels s) p (fun s' q => with_user s' (UStop q)) s
  | UDone => None
  end.

(* monitoring.go:74-82 *)
Definition mon_step (s : st) : option st :=
  match monpc s with
  | NNone => None
  | NWait => if ctx_done s then Some (with_mon s (NStop P0)) else None
  | NStop PDone => Some (with_mon (with_mon_on s false) NEnd)
  | NStop p => stop_step OMon true p (fun s' q => with_mon s' (NStop q)) s
  | NEnd => None
  end.

(* os/exec watchCtx with the repaired cmd.Cancel: runs once the context is done, unless Wait has already seen the child exit *)
Definition watch_step (s : st) : option st :=
  match mainpc s with
  | M0 | M1 => None   (* the watcher goroutine is created by cmd.Start *)
  | _ => if ctx_done s && negb (reaped s) && negb (w_done s) then Some (with_wdone (with_gkill s)) else None
  end.

(* the watcher of cmdWrapper.Run: from cmd.Start until cmd.Wait has returned, kills the group when the context ends *)
Definition runwatch_step (s : st) : option st :=
  match mainpc s with
  | M2 | M3 => if ctx_done s && negb (rw_done s) then Some (with_rwdone (with_gkill s)) else None
  | _ => None
  end.

Definition proc_step (i : nat) (s : st) : option st :=
  match pstep i (tbl s) with Some tb => Some (with_tbl s tb) | None => None end.

Definition step (s : st) (l : label) : option st :=
  match l with
  | LMain => main_step s | LUser => user_step s | LMon => mon_step s | LWatch => watch_step s
  | LRunWatch => runwatch_step s | LProc i => proc_step i s
  end.

(* a schedule is any list of labels; choosing a disabled thread is a no-op *)
Definition exec1 (s : st) (l : label) : st := match step s l with Some s' => s' | None => s end.
Definition run (s : st) (sched : list label) : st := fold_left exec1 sched s.
Definition effective (s : st) (l : label) : bool := match step s l with Some _ => true | None => false end.
Fixpoint steps_taken (s : st) (sched : list label) : nat :=
  match sched with
  | [] => 0
  | l :: r => (if effective s l then 1 else 0) + steps_taken (exec1 s l) r
  end.

Definition terminal (s : st) : Prop := forall l, step s l = None.

(* what the property demands of the final state *)
Definition call_returned (s : st) : bool :=
  (if executes s then match mainpc s with MDone => true | _ => false end else true) &&
  match userpc s with UDone => true | _ => false end.
Definition good (s : st) : Prop :=
  no_ingroup_alive (tbl s) = true /\ call_returned s = true /\ is_on s = false.

(* Stop / Restart on a subprocess started with Execute are the documented limitation (known finding) *)
Definition supported (sm : start_mode) (km : stop_mode) : bool :=
  match sm, km with
  | SStart, _ => true
  | _, (KStop | KRestart) => false
  | _, _ => true
  end.


(* No process that has left the group (setsid, or a descendant of such a process) holds the inherited output pipes.
   [ok h g t]: t started by a parent that holds the pipes iff h and is in the group iff g. *)
Fixpoint ok (h g : bool) (t : tree) : bool :=
  match t with T _ pipe away _ kids =>
    let h' := h && pipe in let g' := g && negb away in
    implb h' g' && forallb (ok h' g') kids end.
Definition no_outside_holder (t : tree) : bool :=
  match t with T _ _ _ _ kids => forallb (ok true true) kids end.

(* ---------- correspondence ---------- *)
Fixpoint tree_size (t : tree) : nat :=
  match t with T _ _ _ _ kids => S ((fix go (l : list tree) := match l with [] => 0 | k :: r => tree_size k + go r end) kids) end.

(* canonical schedule: start, let the tree spawn k processes' worth of steps, issue the stop, then round-robin over every thread *)
Definition round (n : nat) : list label :=
  [LUser; LWatch; LRunWatch; LMon; LMain] ++ map LProc (seq 0 n).
Fixpoint repeat_sched (r : list label) (k : nat) : list label :=
  match k with O => [] | S j => r ++ repeat_sched r j end.
Definition canonical (t : tree) (k : nat) : list label :=
  let n := tree_size t in
  [LMain; LMain] ++ repeat_sched (map LProc (seq 0 n)) (Nat.min k n) ++ repeat_sched (round n) (2 * n + 24).

Record case := mkCase {
  c_tree : tree; c_start : start_mode; c_stop : stop_mode; c_spawned : nat;
  c_returned : bool; c_survivors : nat; c_ison : bool }.

(* the set of surviving in-group processes is compared by emptiness (its size depends on how far the tree got) *)
Definition surv_ok (a b : nat) : bool := Nat.eqb a b || (negb (Nat.eqb a 0) && negb (Nat.eqb b 0)).

Definition check_case (c : case) : bool :=
  let s := run (init (c_start c) (c_stop c) (c_tree c)) (canonical (c_tree c) (c_spawned c)) in
  Bool.eqb (call_returned s) (c_returned c) && surv_ok (survivors (tbl s)) (c_survivors c) && Bool.eqb (is_on s) (c_ison c).
