(* C05 — lemmas.  Part 1: the process table (OS rules).  Part 2: every run is bounded.  Part 3: invariants of the
   protocol and the analysis of terminal states. *)
From Coq Require Import List Bool Arith Lia.
Import ListNotations.
From GU Require Import C05.Model.

(* ------------------------------------------------------------------ part 1: process table *)
Lemma forallb_upd : forall f i q l, forallb f l = true -> f q = true -> forallb f (upd i q l) = true.
Proof.
  intros f i q l; revert i; induction l as [|p r IH]; intros [|j] H Hq; simpl in *; auto;
    apply andb_true_iff in H as [H1 H2]; apply andb_true_iff; split; auto.
Qed.

Lemma forallb_nth : forall f (l : list proc) i p, forallb f l = true -> nth_error l i = Some p -> f p = true.
Proof.
  intros f l; induction l as [|q r IH]; intros [|j] p H Hn; simpl in *; try discriminate;
    apply andb_true_iff in H as [H1 H2]; [inversion Hn; subst; auto | eauto].
Qed.

Lemma kill_group_no_ingroup : forall tb, no_ingroup_alive (kill_group tb) = true.
Proof.
  unfold no_ingroup_alive, kill_group; induction tb as [|p r IH]; simpl; auto.
  rewrite IH, andb_true_r. destruct (ingrp p) eqn:E; simpl; auto. rewrite E. now rewrite andb_false_r.
Qed.

(* after the group has been killed nothing in the group comes back: a spawn needs a live parent, and the children of
   processes outside the group are outside the group *)
Lemma pstep_no_ingroup : forall i tb tb', no_ingroup_alive tb = true -> pstep i tb = Some tb' -> no_ingroup_alive tb' = true.
Proof.
  unfold pstep, no_ingroup_alive; intros i tb tb' H Hs.
  destruct (nth_error tb i) as [p|] eqn:En; [|discriminate].
  pose proof (forallb_nth _ _ _ _ H En) as Hp. simpl in Hp.
  destruct (alive p) eqn:Ea; [|discriminate]. simpl in Hp.
  destruct (ptodo p) as [|k ks] eqn:Et.
  - destruct (pexits p); [|discriminate]. inversion Hs; subst. apply forallb_upd; auto.
  - inversion Hs; subst. rewrite forallb_app. apply andb_true_iff; split.
    + apply forallb_upd; auto. simpl. rewrite Ea. simpl. exact Hp.
    + simpl. destruct k; simpl. apply negb_true_iff in Hp. rewrite Hp. reflexivity.
Qed.

Definition leaders_in (tb : list proc) : bool := forallb (fun p => implb (lead p) (ingrp p)) tb.

Lemma pstep_leaders_in : forall i tb tb', leaders_in tb = true -> pstep i tb = Some tb' -> leaders_in tb' = true.
Proof.
  unfold pstep, leaders_in; intros i tb tb' H Hs.
  destruct (nth_error tb i) as [p|] eqn:En; [|discriminate].
  pose proof (forallb_nth _ _ _ _ H En) as Hp. simpl in Hp.
  destruct (alive p); [|discriminate].
  destruct (ptodo p) as [|k ks].
  - destruct (pexits p); [|discriminate]. inversion Hs; subst. apply forallb_upd; auto.
  - inversion Hs; subst. rewrite forallb_app. apply andb_true_iff; split.
    + apply forallb_upd; auto.
    + destruct k; reflexivity.
Qed.

Lemma map_forallb_same : forall (f : proc -> bool) (g : proc -> proc) l,
  (forall p, f p = true -> f (g p) = true) -> forallb f l = true -> forallb f (map g l) = true.
Proof.
  intros f g l Hg; induction l as [|p r IH]; simpl; auto. intros H; apply andb_true_iff in H as [H1 H2].
  apply andb_true_iff; split; auto.
Qed.

Lemma kill_group_leaders_in : forall tb, leaders_in tb = true -> leaders_in (kill_group tb) = true.
Proof. intros; apply map_forallb_same; auto. intros p Hp. destruct (ingrp p) eqn:E; unfold set_dead; simpl; auto. Qed.
Lemma term_leader_leaders_in : forall tb, leaders_in tb = true -> leaders_in (term_leader tb) = true.
Proof. intros; apply map_forallb_same; auto. intros p Hp. destruct (lead p && negb (pign p)); unfold set_dead; simpl; auto. Qed.
Lemma term_leader_no_ingroup : forall tb, no_ingroup_alive tb = true -> no_ingroup_alive (term_leader tb) = true.
Proof. intros; apply map_forallb_same; auto. intros p Hp. destruct (lead p && negb (pign p)); unfold set_dead; simpl; auto. Qed.
Lemma kill_group_no_ingroup' : forall tb, no_ingroup_alive tb = true -> no_ingroup_alive (kill_group tb) = true.
Proof. intros; apply kill_group_no_ingroup. Qed.

Lemma no_ingroup_leader_dead : forall tb, leaders_in tb = true -> no_ingroup_alive tb = true -> leader_dead tb = true.
Proof.
  unfold leaders_in, no_ingroup_alive, leader_dead; induction tb as [|p r IH]; simpl; auto.
  intros H1 H2. apply andb_true_iff in H1 as [A1 A2]. apply andb_true_iff in H2 as [B1 B2].
  rewrite IH by auto. rewrite andb_true_r.
  destruct (lead p), (ingrp p), (alive p); simpl in *; auto.
Qed.

(* dead leaders stay dead *)
Lemma pstep_leader_dead : forall i tb tb', leader_dead tb = true -> pstep i tb = Some tb' -> leader_dead tb' = true.
Proof.
  unfold pstep, leader_dead; intros i tb tb' H Hs.
  destruct (nth_error tb i) as [p|] eqn:En; [|discriminate].
  pose proof (forallb_nth _ _ _ _ H En) as Hp. simpl in Hp.
  destruct (alive p) eqn:Ea; [|discriminate].
  destruct (ptodo p) as [|k ks].
  - destruct (pexits p); [|discriminate]. inversion Hs; subst. apply forallb_upd; auto. simpl. now rewrite andb_false_r.
  - inversion Hs; subst. rewrite forallb_app. apply andb_true_iff; split.
    + apply forallb_upd; auto. simpl. now rewrite Ea.
    + destruct k; reflexivity.
Qed.
Lemma kill_group_leader_dead : forall tb, leader_dead tb = true -> leader_dead (kill_group tb) = true.
Proof. intros; apply map_forallb_same; auto. intros p Hp. destruct (ingrp p); auto. simpl. now rewrite andb_false_r. Qed.
Lemma term_leader_leader_dead : forall tb, leader_dead tb = true -> leader_dead (term_leader tb) = true.
Proof. intros; apply map_forallb_same; auto. intros p Hp. destruct (lead p && negb (pign p)); auto. simpl. now rewrite andb_false_r. Qed.

Lemma survivors_zero : forall tb, no_ingroup_alive tb = true -> survivors tb = 0.
Proof.
  unfold no_ingroup_alive, survivors; induction tb as [|p r IH]; simpl; auto.
  intros H; apply andb_true_iff in H as [H1 H2]. apply negb_true_iff in H1. rewrite H1. auto.
Qed.
