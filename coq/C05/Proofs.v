(* C05 — lemmas.  Part 1: the process table (OS rules).  Part 2: every run is bounded.  Part 3: invariants of the
   protocol and the analysis of terminal states. *)
From Coq Require Import List Bool Arith Lia.
Import ListNotations.
From GU Require Import C05.Model.

(* ------------------------------------------------------------------ part 1: process table *)
Lemma forallb_upd : forall f i q l, forallb f l = true -> f q = true -> forallb f (upd i q l) = true.
Proof.
  intros f i q l; revert i; induction l as [|p r IH]; intros [|j] H Hq; simpl in *; auto;
    apply andb_true_iff in H as [H1 H2]; apply andb_true_iff; split; auto.
Qed.

Lemma forallb_nth : forall f (l : list proc) i p, forallb f l = true -> nth_error l i = Some p -> f p = true.
Proof.
  intros f l; induction l as [|q r IH]; intros [|j] p H Hn; simpl in *; try discriminate;
    apply andb_true_iff in H as [H1 H2]; [inversion Hn; subst; auto | eauto].
Qed.

Lemma kill_group_no_ingroup : forall tb, no_ingroup_alive (kill_group tb) = true.
Proof.
  unfold no_ingroup_alive, kill_group; induction tb as [|p r IH]; simpl; auto.
  rewrite IH, andb_true_r. destruct (ingrp p) eqn:E; simpl; auto. rewrite E. now rewrite andb_false_r.
Qed.

(* after the group has been killed nothing in the group comes back: a spawn needs a live parent, and the children of
   processes outside the group are outside the group *)
Lemma pstep_no_ingroup : forall i tb tb', no_ingroup_alive tb = true -> pstep i tb = Some tb' -> no_ingroup_alive tb' = true.
Proof.
  unfold pstep, no_ingroup_alive; intros i tb tb' H Hs.
  destruct (nth_error tb i) as [p|] eqn:En; [|discriminate].
  pose proof (forallb_nth _ _ _ _ H En) as Hp. simpl in Hp.
  destruct (alive p) eqn:Ea; [|discriminate]. simpl in Hp.
  destruct (ptodo p) as [|k ks] eqn:Et.
  - destruct (pexits p); [|discriminate]. inversion Hs; subst. apply forallb_upd; auto.
  - inversion Hs; subst. rewrite forallb_app. apply andb_true_iff; split.
    + apply forallb_upd; auto. simpl. rewrite Ea. simpl. exact Hp.
    + simpl. destruct k; simpl. apply negb_true_iff in Hp. rewrite Hp. reflexivity.
Qed.

Definition leaders_in (tb : list proc) : bool := forallb (fun p => implb (lead p) (ingrp p)) tb.

Lemma pstep_leaders_in : forall i tb tb', leaders_in tb = true -> pstep i tb = Some tb' -> leaders_in tb' = true.
Proof.
  unfold pstep, leaders_in; intros i tb tb' H Hs.
  destruct (nth_error tb i) as [p|] eqn:En; [|discriminate].
  pose proof (forallb_nth _ _ _ _ H En) as Hp. simpl in Hp.
  destruct (alive p); [|discriminate].
  destruct (ptodo p) as [|k ks].
  - destruct (pexits p); [|discriminate]. inversion Hs; subst. apply forallb_upd; auto.
  - inversion Hs; subst. rewrite forallb_app. apply andb_true_iff; split.
    + apply forallb_upd; auto.
    + destruct k; reflexivity.
Qed.

Lemma map_forallb_same : forall (f : proc -> bool) (g : proc -> proc) l,
  (forall p, f p = true -> f (g p) = true) -> forallb f l = true -> forallb f (map g l) = true.
Proof.
  intros f g l Hg; induction l as [|p r IH]; simpl; auto. intros H; apply andb_true_iff in H as [H1 H2].
  apply andb_true_iff; split; auto.
Qed.

Lemma kill_group_leaders_in : forall tb, leaders_in tb = true -> leaders_in (kill_group tb) = true.
Proof. intros; apply map_forallb_same; auto. intros p Hp. destruct (ingrp p) eqn:E; unfold set_dead; simpl; rewrite ?E; auto. Qed.
Lemma term_leader_leaders_in : forall tb, leaders_in tb = true -> leaders_in (term_leader tb) = true.
Proof. intros; apply map_forallb_same; auto. intros p Hp. destruct (lead p && negb (pign p)); unfold set_dead; simpl; auto. Qed.
Lemma term_leader_no_ingroup : forall tb, no_ingroup_alive tb = true -> no_ingroup_alive (term_leader tb) = true.
Proof. intros; apply map_forallb_same; auto. intros p Hp. destruct (lead p && negb (pign p)); unfold set_dead; simpl; auto. Qed.
Lemma kill_group_no_ingroup' : forall tb, no_ingroup_alive tb = true -> no_ingroup_alive (kill_group tb) = true.
Proof. intros; apply kill_group_no_ingroup. Qed.

Lemma no_ingroup_leader_dead : forall tb, leaders_in tb = true -> no_ingroup_alive tb = true -> leader_dead tb = true.
Proof.
  unfold leaders_in, no_ingroup_alive, leader_dead; induction tb as [|p r IH]; simpl; auto.
  intros H1 H2. apply andb_true_iff in H1 as [A1 A2]. apply andb_true_iff in H2 as [B1 B2].
  rewrite IH by auto. rewrite andb_true_r.
  destruct (lead p), (ingrp p), (alive p); simpl in *; auto.
Qed.

(* dead leaders stay dead *)
Lemma pstep_leader_dead : forall i tb tb', leader_dead tb = true -> pstep i tb = Some tb' -> leader_dead tb' = true.
Proof.
  unfold pstep, leader_dead; intros i tb tb' H Hs.
  destruct (nth_error tb i) as [p|] eqn:En; [|discriminate].
  pose proof (forallb_nth _ _ _ _ H En) as Hp. simpl in Hp.
  destruct (alive p) eqn:Ea; [|discriminate].
  destruct (ptodo p) as [|k ks].
  - destruct (pexits p); [|discriminate]. inversion Hs; subst. apply forallb_upd; auto. simpl. now rewrite andb_false_r.
  - inversion Hs; subst. rewrite forallb_app. apply andb_true_iff; split.
    + apply forallb_upd; auto. simpl. now rewrite Ea.
    + destruct k; reflexivity.
Qed.
Lemma kill_group_leader_dead : forall tb, leader_dead tb = true -> leader_dead (kill_group tb) = true.
Proof. intros; apply map_forallb_same; auto. intros p Hp. destruct (ingrp p); auto. simpl. now rewrite andb_false_r. Qed.
Lemma term_leader_leader_dead : forall tb, leader_dead tb = true -> leader_dead (term_leader tb) = true.
Proof. intros; apply map_forallb_same; auto. intros p Hp. destruct (lead p && negb (pign p)); auto. simpl. now rewrite andb_false_r. Qed.

Lemma kill_leader_leaders_in : forall tb, leaders_in tb = true -> leaders_in (kill_leader tb) = true.
Proof. intros; apply map_forallb_same; auto. intros p Hp. destruct (lead p) eqn:E; unfold set_dead; simpl; rewrite ?E; auto. Qed.
Lemma kill_leader_no_ingroup : forall tb, no_ingroup_alive tb = true -> no_ingroup_alive (kill_leader tb) = true.
Proof. intros; apply map_forallb_same; auto. intros p Hp. destruct (lead p); unfold set_dead; simpl; auto. Qed.
Lemma kill_leader_leader_dead : forall tb, leader_dead (kill_leader tb) = true.
Proof.
  unfold leader_dead, kill_leader; induction tb as [|p r IH]; simpl; auto. rewrite IH, andb_true_r.
  destruct (lead p) eqn:E; simpl; rewrite ?E; auto; try (now rewrite andb_false_r).
Qed.

Lemma survivors_zero : forall tb, no_ingroup_alive tb = true -> survivors tb = 0.
Proof.
  unfold no_ingroup_alive, survivors; induction tb as [|p r IH]; simpl; auto.
  intros H; apply andb_true_iff in H as [H1 H2]. apply negb_true_iff in H1. rewrite H1. auto.
Qed.

(* holders of the pipes are in the group, now and for everything still to be spawned *)
Definition pok (p : proc) : bool := implb (holds p) (ingrp p) && forallb (ok (holds p) (ingrp p)) (ptodo p).
Definition tbl_ok (tb : list proc) : bool := forallb pok tb.

Lemma pstep_tbl_ok : forall i tb tb', tbl_ok tb = true -> pstep i tb = Some tb' -> tbl_ok tb' = true.
Proof.
  unfold pstep, tbl_ok; intros i tb tb' H Hs.
  destruct (nth_error tb i) as [p|] eqn:En; [|discriminate].
  pose proof (forallb_nth _ _ _ _ H En) as Hp.
  destruct (alive p); [|discriminate].
  destruct (ptodo p) as [|k ks] eqn:Et.
  - destruct (pexits p); [|discriminate]. inversion Hs; subst. apply forallb_upd; auto.
  - inversion Hs; subst. unfold pok in Hp. rewrite Et in Hp. simpl in Hp.
    apply andb_true_iff in Hp as [A B]. apply andb_true_iff in B as [B C].
    rewrite forallb_app. apply andb_true_iff; split.
    + apply forallb_upd; auto. unfold pok; simpl. now rewrite A, C.
    + simpl. rewrite andb_true_r. destruct k as [a b c d kids]. unfold pok; simpl. simpl in B. exact B.
Qed.
Lemma kill_group_tbl_ok : forall tb, tbl_ok tb = true -> tbl_ok (kill_group tb) = true.
Proof. intros; apply map_forallb_same; auto. intros p Hp. destruct (ingrp p) eqn:E; auto. Qed.
Lemma term_leader_tbl_ok : forall tb, tbl_ok tb = true -> tbl_ok (term_leader tb) = true.
Proof. intros; apply map_forallb_same; auto. intros p Hp. destruct (lead p && negb (pign p)); auto. Qed.
Lemma kill_leader_tbl_ok : forall tb, tbl_ok tb = true -> tbl_ok (kill_leader tb) = true.
Proof. intros; apply map_forallb_same; auto. intros p Hp. destruct (lead p); auto. Qed.
Lemma tbl_ok_no_holder : forall tb, tbl_ok tb = true -> no_ingroup_alive tb = true -> no_holder tb = true.
Proof.
  unfold tbl_ok, no_ingroup_alive, no_holder; induction tb as [|p r IH]; simpl; auto.
  intros H1 H2. apply andb_true_iff in H1 as [A1 A2]. apply andb_true_iff in H2 as [B1 B2].
  rewrite IH by auto. rewrite andb_true_r. unfold pok in A1. apply andb_true_iff in A1 as [A1 _].
  destruct (alive p), (holds p), (ingrp p); simpl in *; auto.
Qed.
Lemma root_tbl_ok : forall t, no_outside_holder t = true -> tbl_ok [root_proc t] = true.
Proof. intros [a b c d kids] H. unfold tbl_ok, pok; simpl. simpl in H. now rewrite H. Qed.

Lemma group_kill_is_final_l : forall tb acts,
  no_ingroup_alive (fold_left (fun t i => match pstep i t with Some t' => t' | None => t end) acts (kill_group tb)) = true.
Proof.
  intros tb acts. generalize (kill_group_no_ingroup tb). generalize (kill_group tb) as t.
  induction acts as [|i r IH]; intros t H; simpl; auto.
  apply IH. destruct (pstep i t) eqn:E; auto. eapply pstep_no_ingroup; eauto.
Qed.

(* ------------------------------------------------------------------ part 2: every run is bounded *)
Fixpoint tw (t : tree) : nat :=
  match t with T _ _ _ _ kids => 2 + (fix go (l : list tree) := match l with [] => 0 | k :: r => tw k + go r end) kids end.
Definition fw := fix go (l : list tree) : nat := match l with [] => 0 | k :: r => tw k + go r end.
Lemma tw_eq : forall a b c d kids, tw (T a b c d kids) = 2 + fw kids.
Proof. reflexivity. Qed.
Lemma fw_cons : forall k r, fw (k :: r) = tw k + fw r.
Proof. reflexivity. Qed.

Definition pw (p : proc) : nat := if alive p then 1 + fw (ptodo p) else 0.
Definition work (tb : list proc) : nat := fold_right (fun p a => pw p + a) 0 tb.

Lemma work_app : forall a b, work (a ++ b) = work a + work b.
Proof. induction a as [|p r IH]; intros; simpl; auto. rewrite IH. lia. Qed.
Lemma work_upd : forall i q tb p, nth_error tb i = Some p -> work (upd i q tb) + pw p = work tb + pw q.
Proof.
  intros i q tb; revert i; induction tb as [|x r IH]; intros [|j] p H; simpl in *; try discriminate.
  - inversion H; subst. lia.
  - specialize (IH _ _ H). lia.
Qed.
Lemma work_map_le : forall g tb, (forall p, pw (g p) <= pw p) -> work (map g tb) <= work tb.
Proof. intros g tb Hg; induction tb as [|p r IH]; simpl; auto. specialize (Hg p). lia. Qed.
Lemma work_kill_group : forall tb, work (kill_group tb) <= work tb.
Proof. intros; apply work_map_le. intros p. destruct (ingrp p); auto. unfold pw, set_dead; simpl. lia. Qed.
Lemma work_term_leader : forall tb, work (term_leader tb) <= work tb.
Proof. intros; apply work_map_le. intros p. destruct (lead p && negb (pign p)); auto. unfold pw, set_dead; simpl. lia. Qed.
Lemma work_kill_leader : forall tb, work (kill_leader tb) <= work tb.
Proof. intros; apply work_map_le. intros p. destruct (lead p); auto. unfold pw, set_dead; simpl. lia. Qed.
Lemma work_pstep : forall i tb tb', pstep i tb = Some tb' -> work tb' < work tb.
Proof.
  unfold pstep; intros i tb tb' H. destruct (nth_error tb i) as [p|] eqn:En; [|discriminate].
  destruct (alive p) eqn:Ea; [|discriminate].
  destruct (ptodo p) as [|k ks] eqn:Et.
  - destruct (pexits p); [|discriminate]. inversion H; subst.
    pose proof (work_upd i (set_dead p) tb p En) as W. unfold pw in W. simpl in W. rewrite Ea, Et in W. simpl in W. lia.
  - inversion H; subst. rewrite work_app. pose proof (work_upd i (set_todo p ks) tb p En) as W.
    unfold pw in W. simpl in W. rewrite Ea, Et in W. rewrite fw_cons in W.
    destruct k as [a b c d kids]. rewrite tw_eq in W. unfold work at 2. unfold pw, child_of. simpl. fold fw. lia.
Qed.

Definition stop_rem (p : spc) : nat := match p with P0 => 7 | P1 => 6 | PT => 5 | PK => 4 | P2 => 3 | P3 => 2 | P4 => 1 | PDone => 0 end.
Definition main_rem' (m : mpc) (t : tree) : nat :=
  match m with M0 => 17 + tw t | M1 => 16 + tw t | M2 => 4 | M3 => 3 | M4 => 2 | MDone => 0 end.
Definition main_rem (s : st) : nat := main_rem' (mainpc s) (prog s).
Definition user_rem (u : upc) : nat := match u with UIdle => 9 | UStop p => 1 + stop_rem p | UDone => 0 end.
Definition mon_rem (n : npc) : nat := match n with NNone => 10 | NWait => 9 | NStop p => 1 + stop_rem p | NEnd => 0 end.
Definition fuel (s : st) : nat :=
  main_rem s + user_rem (userpc s) + mon_rem (monpc s) +
  (if w_done s then 0 else 1) + (if rw_done s then 0 else 1) + work (tbl s).

Lemma work_root : forall t, work [root_proc t] <= tw t.
Proof. intros [a b c d kids]. rewrite tw_eq. unfold work, root_proc, pw; simpl. fold fw. lia. Qed.

Ltac crush_step :=
  repeat match goal with
  | H : Some _ = Some _ |- _ => inversion H; subst; clear H
  | H : None = Some _ |- _ => discriminate H
  | H : context [if ?b then _ else _] |- _ => destruct b eqn:?
  | H : context [match ?x with _ => _ end] |- _ => destruct x eqn:?
  end.

(* case analysis on the discriminee at the HEAD of the hypothesis only (no spurious splits on guards of other branches) *)
Ltac crush_head :=
  repeat (cbv zeta in *; match goal with
  | H : Some _ = Some _ |- _ => inversion H; subst; clear H
  | H : None = Some _ |- _ => discriminate H
  | H : (if ?b then _ else _) = Some _ |- _ => destruct b eqn:?
  | H : match ?x with _ => _ end = Some _ |- _ => destruct x eqn:?
  end).

Ltac use_eqs :=
  repeat match goal with
  | H : mainpc ?s = _ |- _ => rewrite H in *; clear H
  | H : userpc ?s = _ |- _ => rewrite H in *; clear H
  | H : monpc ?s = _ |- _ => rewrite H in *; clear H
  end.

Ltac fin :=
  unfold fuel, main_rem, gkill; simpl;
  repeat match goal with |- context [if ?b then _ else _] => destruct b; simpl in * end;
  use_eqs; simpl;
  try lia; try (rewrite ?andb_false_r in *; discriminate).

Section WithFacts.
Variable F : facts.
Local Notation step := (step F).
Local Notation run := (run F).
Local Notation exec1 := (exec1 F).
Local Notation steps_taken := (steps_taken F).

Lemma step_decreases : forall s l s', step s l = Some s' -> fuel s' < fuel s.
Proof.
  intros s l s' H.
  pose proof (work_root (prog s)) as WR. unfold work in WR. simpl in WR.
  destruct l; simpl in H;
    unfold main_step, user_step, mon_step, stop_step, watch_step, runwatch_step, proc_step, gkill in H.
  - crush_head; try (destruct (ctx_done s) eqn:?); pose proof (work_kill_group (tbl s)) as WK; pose proof (work_term_leader (tbl s)) as WT; pose proof (work_kill_leader (tbl s)) as WL; fin.
  - crush_head; try (destruct (ctx_done s) eqn:?); pose proof (work_kill_group (tbl s)) as WK; pose proof (work_term_leader (tbl s)) as WT; pose proof (work_kill_leader (tbl s)) as WL; fin.
  - crush_head; try (destruct (ctx_done s) eqn:?); pose proof (work_kill_group (tbl s)) as WK; pose proof (work_term_leader (tbl s)) as WT; pose proof (work_kill_leader (tbl s)) as WL; fin.
  - crush_head; try (destruct (ctx_done s) eqn:?); pose proof (work_kill_group (tbl s)) as WK; pose proof (work_term_leader (tbl s)) as WT; pose proof (work_kill_leader (tbl s)) as WL; fin.
  - crush_head; try (destruct (ctx_done s) eqn:?); pose proof (work_kill_group (tbl s)) as WK; pose proof (work_term_leader (tbl s)) as WT; pose proof (work_kill_leader (tbl s)) as WL; fin.
  - destruct (pstep i (tbl s)) eqn:E; [|discriminate]. inversion H; subst.
    apply work_pstep in E. unfold fuel, main_rem; simpl. lia.
Qed.

Lemma steps_bounded : forall sched s, steps_taken s sched + fuel (run s sched) <= fuel s.
Proof.
  induction sched as [|l r IH]; intros s; simpl; [lia|].
  unfold effective, exec1 at 1. specialize (IH (exec1 s l)). unfold exec1 in *.
  destruct (step s l) eqn:E; [apply step_decreases in E|]; simpl; lia.
Qed.

Lemma fuel_init : forall sm km t, fuel (init sm km t) = 38 + tw t.
Proof. intros; unfold fuel, main_rem; simpl. lia. Qed.

Lemma run_bounded_l : forall sm km t sched, steps_taken (init sm km t) sched <= 38 + tw t.
Proof. intros. pose proof (steps_bounded sched (init sm km t)). rewrite fuel_init in H. lia. Qed.

End WithFacts.
