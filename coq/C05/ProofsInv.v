(* C05 — lemmas, part 3: invariants of the protocol for Execute / supervisor stopped through the context, analysis of
   terminal states, and the refutation witness for Stop() on an Execute()d subprocess. *)
From Coq Require Import List Bool Arith Lia.
Import ListNotations.
From GU Require Import C05.Model C05.Proofs.

(* ------------------------------------------------------------------ part 3: Execute / supervisor, stopped through the context *)
Definition ctxk (k : stop_mode) : bool := match k with KCtx | KDeadline | KCancel => true | _ => false end.
Definition early (m : mpc) : bool := match m with M0 | M1 => true | _ => false end.
Definition locked (m : mpc) : bool := match m with M1 | M2 | M3 | M4 => true | _ => false end.
Definition unreaped (m : mpc) : bool := match m with M0 | M1 | M2 => true | _ => false end.
Definition mon_ok (n : npc) : bool := match n with NStop PT | NStop PK | NStop P2 | NStop P3 | NStop P4 => false | _ => true end.
Definition user_ok (u : upc) : bool := match u with UStop _ => false | _ => true end.

Definition Inv (s : st) : Prop :=
  (early (mainpc s) = true -> is_running s = false /\ fired s = false /\ gk s = false /\ monpc s = NNone) /\
  (locked (mainpc s) = true -> mu s = Some OMain) /\
  (locked (mainpc s) = false -> mu s = None) /\
  user_ok (userpc s) = true /\
  (fired s = true -> userpc s = UDone /\ ctx_done s = true) /\
  (userpc s = UDone -> fired s = true) /\
  mon_ok (monpc s) = true /\
  (rw_done s = true -> gk s = true) /\
  (unreaped (mainpc s) = true -> reaped s = false) /\
  (unreaped (mainpc s) = false -> reaped s = true) /\
  (gk s = true -> no_ingroup_alive (tbl s) = true) /\
  leaders_in (tbl s) = true /\
  tbl_ok (tbl s) = true /\
  (mainpc s = MDone -> is_running s = false /\ (fired s = true -> gk s = true)).

Lemma inv_init : forall sm km t, Inv (init sm km t).
Proof. intros; unfold Inv; simpl; repeat split; intros; try discriminate; auto. Qed.

(* replace the facts about the source by their values, and reduce *)
Ltac use_facts_with P H :=
  destruct P as (Hkw & Hrw & Hpk & Hsk & Hcl & Hsr & Hsc & Hel & Hef & Hms & Hcp & Hmo & Hmr);
  rewrite ?Hkw, ?Hrw, ?Hpk, ?Hsk, ?Hcl, ?Hsr, ?Hsc, ?Hel, ?Hef, ?Hms, ?Hcp, ?Hmo in H; cbn [negb] in H;
  rewrite ?orb_false_r, ?orb_true_l, ?andb_true_l, ?andb_true_r in H; cbv iota in H.

Ltac tbl_facts :=
  eauto using kill_leader_leaders_in, kill_leader_no_ingroup, kill_leader_tbl_ok, kill_group_no_ingroup, pstep_no_ingroup, term_leader_no_ingroup, pstep_leaders_in,
    kill_group_leaders_in, term_leader_leaders_in, pstep_tbl_ok, kill_group_tbl_ok, term_leader_tbl_ok, root_tbl_ok.

Ltac inv_solve :=
  repeat match goal with H : match mu ?s with _ => _ end = _ |- _ => destruct (mu s) eqn:?; try discriminate H end;
  repeat match goal with H : _ && _ = true |- _ => apply andb_true_iff in H; destruct H end;
  unfold Inv; simpl; use_eqs; simpl in *;
  repeat split; intros; simpl in *; try discriminate; try congruence; auto; try apply orb_true_r;
  try solve [intuition (try congruence; try discriminate)]; tbl_facts;
  try (match goal with |- context [root_proc ?t] => destruct t; reflexivity end);
  try solve [exfalso; match goal with x : st |- _ => destruct (mainpc x) eqn:?; simpl in *; intuition (try congruence; try discriminate) end].

Section WithFacts.
Variable F : facts.
Hypothesis HF : facts_ok F = true.
Local Notation step := (step F).

Lemma facts_all : kill_works F = true /\ run_watches F = true /\ run_postkill F = true /\ stop_kills_before_wait F = true /\
  cancel_lockfree F = true /\ stop_rechecks F = true /\ stop_clears_running F = true /\ exec_holds_lock F = true /\
  exec_flags F = true /\ mon_stops F = true /\ stop_never_gives_up F = true /\ mon_on_sync F = true /\ mon_relaunch_ok F = true.
Proof. pose proof HF as H0. unfold facts_ok in H0. do 12 (apply andb_true_iff in H0; destruct H0 as [H0 ?]). repeat split; assumption. Qed.

Lemma step_modes : forall s l s', step s l = Some s' -> smode s' = smode s /\ kmode s' = kmode s /\ prog s' = prog s.
Proof.
  intros s l s' H. destruct l; simpl in H;
    unfold main_step, user_step, mon_step, stop_step, watch_step, runwatch_step, proc_step, gkill in H;
    crush_head; simpl; auto;
    repeat match goal with |- context [if ?b then _ else _] => destruct b; simpl end; auto.
Qed.

Lemma inv_step : forall s l s', executes s = true -> ctxk (kmode s) = true -> no_outside_holder (prog s) = true ->
  Inv s -> step s l = Some s' -> Inv s'.
Proof.
  intros s l s' He Hk Hok I H. pose proof (root_tbl_ok _ Hok) as Hroot.
  destruct I as (I1 & I2 & I3 & I4 & I5 & I6 & I7 & I8 & I9 & I10 & I12 & I13 & I15 & I14).
  unfold is_on in *.
  destruct l; simpl in H;
    unfold main_step, user_step, mon_step, stop_step, watch_step, runwatch_step, proc_step, mu_free, is_on, gkill in H;
    use_facts_with facts_all H.
  - crush_head; try (destruct (ctx_done s) eqn:?); try (destruct (executes s) eqn:?); inv_solve.
  - crush_head; inv_solve.
  - crush_head; inv_solve.
  - crush_head; try (destruct (cancel_group F) eqn:?); inv_solve.
  - crush_head; inv_solve.
  - destruct (pstep i (tbl s)) eqn:E; [|discriminate]. inversion H; subst. inv_solve.
Qed.

End WithFacts.
