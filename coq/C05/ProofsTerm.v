(* C05 — lemmas, part 4: reachable states satisfy the invariant; terminal states are good; refutation witness. *)
From Coq Require Import List Bool Arith Lia.
Import ListNotations.
From GU Require Import C05.Model C05.Proofs C05.ProofsInv C05.ProofsStart.

Lemma run_inv : forall sched s, executes s = true -> ctxk (kmode s) = true -> no_outside_holder (prog s) = true -> Inv s ->
  Inv (run s sched) /\ executes (run s sched) = true /\ kmode (run s sched) = kmode s.
Proof.
  induction sched as [|l r IH]; intros s He Hk Hok I; [simpl; auto|].
  change (run s (l :: r)) with (run (exec1 s l) r).
  assert (Hs : Inv (exec1 s l) /\ executes (exec1 s l) = true /\ kmode (exec1 s l) = kmode s /\ prog (exec1 s l) = prog s).
  { unfold exec1. destruct (step s l) as [s1|] eqn:E; auto.
    destruct (step_modes _ _ _ E) as (A & B & C).
    split; [eapply inv_step; eauto|]. split; [unfold executes in *; rewrite A; exact He | split; [exact B | exact C]]. }
  destruct Hs as (X & Y & Z & W).
  destruct (IH (exec1 s l)) as (P & Q & R); auto; [now rewrite Z | now rewrite W |].
  split; [exact P|]. split; [exact Q|]. rewrite R. exact Z.
Qed.

Lemma terminal_good : forall s, executes s = true -> ctxk (kmode s) = true -> Inv s ->
  terminal s -> fired s = true -> good s.
Proof.
  intros s He Hk I T F.
  destruct I as (I1 & I2 & I3 & I4 & I5 & I6 & I7 & I8 & I9 & I10 & I11 & I12 & I13 & I15 & I14).
  pose proof (T LMain) as TM. pose proof (T LWatch) as TW. pose proof (T LRunWatch) as TD.
  simpl in TM, TW, TD. unfold main_step in TM. unfold watch_step in TW. unfold runwatch_step in TD.
  destruct (I5 F) as [U C].
  destruct (mainpc s) eqn:Em; simpl in *.
  - destruct I1 as (_ & X & _); auto. congruence.
  - destruct I1 as (_ & X & _); auto. congruence.
  - destruct (leader_dead (tbl s)) eqn:L; [discriminate|].
    rewrite C, (I9 eq_refl) in TW. simpl in TW. destruct (w_done s) eqn:W; [|discriminate].
    rewrite (no_ingroup_leader_dead (tbl s) I13 (I12 (I11 eq_refl))) in L. discriminate.
  - destruct (pipes_free s) eqn:Pf; [discriminate|]. unfold pipes_free in Pf.
    rewrite C in TD. simpl in TD. destruct (rw_done s) eqn:W; [|discriminate].
    rewrite (tbl_ok_no_holder (tbl s) I15 (I12 (I8 eq_refl))) in Pf. discriminate.
  - discriminate.
  - destruct (I14 eq_refl) as [R G]. unfold good, call_returned, is_on. rewrite He, Em, U, R. repeat split; auto.
Qed.

Lemma cancel_kills_group_l : forall sm km t sched,
  sm <> SStart -> ctxk km = true -> no_outside_holder t = true ->
  let s := run (init sm km t) sched in terminal s -> fired s = true -> good s.
Proof.
  intros sm km t sched Hs Hk Hok s T F.
  assert (He : executes (init sm km t) = true) by (destruct sm; auto; congruence).
  destruct (run_inv sched (init sm km t) He Hk Hok (inv_init sm km t)) as (I & E & K).
  apply terminal_good; auto. unfold s. rewrite K. exact Hk.
Qed.

(* all start modes x stop modes, except Stop()/Restart() on an Execute()d subprocess *)
Lemma cancel_kills_group_full_l : forall sm km t sched,
  supported sm km = true -> no_outside_holder t = true ->
  let s := run (init sm km t) sched in terminal s -> fired s = true -> good s.
Proof.
  intros sm km t sched Hs Hok s T F.
  destruct sm.
  - assert (K : ctxk km = true) by (destruct km; simpl in *; auto; discriminate).
    apply cancel_kills_group_l; auto; discriminate.
  - destruct (runS_inv sched (init SStart km t) eq_refl Hok (invS_init SStart km t)) as (I & E).
    apply terminalS_good; auto.
  - assert (K : ctxk km = true) by (destruct km; simpl in *; auto; discriminate).
    apply cancel_kills_group_l; auto; discriminate.
Qed.

(* Stop() on a subprocess started with Execute(): a reachable state in which nothing can move, the request has been
   issued, the tree is alive, the call has not returned and IsOn() is true *)
Definition leaf_tree := T false true false false [].
Lemma stop_on_execute_refuted_l :
  let s := run (init SExecute KStop leaf_tree) [LMain; LMain; LUser; LUser] in
  terminal s /\ fired s = true /\ no_ingroup_alive (tbl s) = false /\ call_returned s = false /\ is_on s = true.
Proof.
  cbv zeta. repeat split; try reflexivity.
  intros l; destruct l; try reflexivity. destruct i as [|[|i]]; reflexivity.
Qed.

(* a descendant that left the group keeps the pipes: Execute stays in Wait although the group is dead (known finding) *)
Definition away_tree := T false true false false [T false true true false []].
Lemma outside_holder_refuted_l :
  let s := run (init SExecute KCtx away_tree) [LMain; LMain; LProc 0; LUser; LWatch; LRunWatch; LMain; LMon; LMon] in
  terminal s /\ fired s = true /\ no_ingroup_alive (tbl s) = true /\ call_returned s = false /\ is_on s = true.
Proof.
  cbv zeta. repeat split; try reflexivity.
  intros l; destruct l; try reflexivity. destruct i as [|[|[|i]]]; reflexivity.
Qed.

(* runs that are not cancelled are unchanged: Run returns only when nobody alive holds the output pipes *)
Lemma run_waits_for_pipes_l : forall s s', mainpc s = M3 -> step s LMain = Some s' -> no_holder (tbl s) = true.
Proof.
  intros s s' Hm H. simpl in H. unfold main_step in H. rewrite Hm in H. unfold pipes_free in H.
  destruct (no_holder (tbl s)); [reflexivity | discriminate].
Qed.
Lemma tw_size : forall t, tw t = 2 * tree_size t.
Proof.
  fix IH 1. intros [a b c d kids]. rewrite tw_eq. simpl tree_size.
  assert (H : fw kids = 2 * (fix go (l : list tree) : nat := match l with [] => 0 | k :: r => tree_size k + go r end) kids).
  { clear a b c d. revert kids. fix IHl 1. intros [|k r]; [reflexivity|].
    rewrite fw_cons, (IHl r), (IH k). lia. }
  lia.
Qed.

Lemma cancel_bounded_l : forall sm km t sched, steps_taken (init sm km t) sched <= 38 + 2 * tree_size t.
Proof. intros. rewrite <- tw_size. apply run_bounded_l. Qed.
