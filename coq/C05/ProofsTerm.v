(* C05 — lemmas, part 4: reachable states satisfy the invariant; terminal states are good; the combined theorem.
   Everything is proved for EVERY record of source facts F with [facts_ok F = true]; Props.v instantiates F with the
   record generated from the working tree (GU.C05.Gen.gen_facts) and discharges facts_ok by computation. *)
From Coq Require Import List Bool Arith Lia.
Import ListNotations.
From GU Require Import C05.Model C05.Proofs C05.ProofsInv C05.ProofsStart C05.ProofsStartTerm.

Section WithFacts.
Variable F : facts.
Hypothesis HF : facts_ok F = true.
Local Notation step := (step F).
Local Notation run := (run F).
Local Notation exec1 := (exec1 F).
Local Notation terminal := (terminal F).

Lemma run_inv : forall sched s, executes s = true -> ctxk (kmode s) = true -> no_outside_holder (prog s) = true -> Inv s ->
  Inv (run s sched) /\ executes (run s sched) = true /\ kmode (run s sched) = kmode s.
Proof.
  induction sched as [|l r IH]; intros s He Hk Hok I; [simpl; auto|].
  change (run s (l :: r)) with (run (exec1 s l) r).
  assert (Hs : Inv (exec1 s l) /\ executes (exec1 s l) = true /\ kmode (exec1 s l) = kmode s /\ prog (exec1 s l) = prog s).
  { unfold Model.exec1. destruct (step s l) as [s1|] eqn:E; auto.
    destruct (step_modes F _ _ _ E) as (A & B & C).
    split; [eapply inv_step; eauto|]. split; [unfold executes in *; rewrite A; exact He | split; [exact B | exact C]]. }
  destruct Hs as (X & Y & Z & W).
  destruct (IH (exec1 s l)) as (P & Q & R); auto; [now rewrite Z | now rewrite W |].
  split; [exact P|]. split; [exact Q|]. rewrite R. exact Z.
Qed.

Lemma terminal_good : forall s, executes s = true -> ctxk (kmode s) = true -> Inv s ->
  terminal s -> fired s = true -> good s.
Proof.
  intros s He Hk I T Fi.
  destruct (facts_all F HF) as (Hkw & Hrw & Hpk & Hsk & Hcl & Hsr & Hsc & Hel & Hef & Hms & Hcp & Hmo & Hmr).
  destruct I as (I1 & I2 & I3 & I4 & I5 & I6 & I7 & I8 & I9 & I10 & I12 & I13 & I15 & I14).
  pose proof (T LMain) as TM. pose proof (T LRunWatch) as TD.
  simpl in TM, TD. unfold main_step in TM. unfold runwatch_step in TD.
  destruct (I5 Fi) as [U C].
  destruct (mainpc s) eqn:Em; simpl in *.
  - destruct I1 as (_ & X & _); auto. congruence.
  - destruct I1 as (_ & X & _); auto. congruence.
  - (* in Wait, the direct child alive: the watcher of Run is enabled until it has killed the group *)
    destruct (leader_dead (tbl s)) eqn:L; [discriminate|].
    rewrite Hrw, C in TD. simpl in TD. destruct (rw_done s) eqn:W; [|discriminate].
    rewrite (no_ingroup_leader_dead (tbl s) I13 (I12 (I8 eq_refl))) in L. discriminate.
  - destruct (pipes_free F s) eqn:Pf; [discriminate|]. unfold pipes_free in Pf. apply orb_false_iff in Pf as [Pf _].
    rewrite Hrw, C in TD. simpl in TD. destruct (rw_done s) eqn:W; [|discriminate].
    rewrite (tbl_ok_no_holder (tbl s) I15 (I12 (I8 eq_refl))) in Pf. discriminate.
  - discriminate.
  - destruct (I14 eq_refl) as [R G]. unfold good, call_returned, is_on. rewrite He, Em, U, R. repeat split; auto.
Qed.

Lemma cancel_kills_group_l : forall sm km t sched,
  sm <> SStart -> ctxk km = true -> no_outside_holder t = true ->
  let s := run (init sm km t) sched in terminal s -> fired s = true -> good s.
Proof.
  intros sm km t sched Hs Hk Hok s T Fi.
  assert (He : executes (init sm km t) = true) by (destruct sm; auto; congruence).
  destruct (run_inv sched (init sm km t) He Hk Hok (inv_init sm km t)) as (I & E & K).
  apply terminal_good; auto. unfold s. rewrite K. exact Hk.
Qed.

(* all start modes x stop modes, except Stop()/Restart() on an Execute()d subprocess *)
Lemma cancel_kills_group_full_l : forall sm km t sched,
  supported sm km = true -> no_outside_holder t = true ->
  let s := run (init sm km t) sched in terminal s -> fired s = true -> good s.
Proof.
  intros sm km t sched Hs Hok s T Fi.
  destruct sm.
  - assert (K : ctxk km = true) by (destruct km; simpl in *; auto; discriminate).
    apply cancel_kills_group_l; auto; discriminate.
  - destruct (runS_inv F HF sched (init SStart km t) eq_refl Hok (invS_init SStart km t)) as (I & E).
    apply (terminalS_good F); auto.
  - assert (K : ctxk km = true) by (destruct km; simpl in *; auto; discriminate).
    apply cancel_kills_group_l; auto; discriminate.
Qed.

End WithFacts.

Definition leaf_tree := T false true false false [].
Definition away_tree := T false true false false [T false true true false []].

(* runs that are not cancelled are unchanged: with no WaitDelay in the source, Run returns only when nobody alive holds
   the output pipes *)
Lemma run_waits_for_pipes_l : forall F, no_waitdelay F = true ->
  forall s s', mainpc s = M3 -> step F s LMain = Some s' -> no_holder (tbl s) = true.
Proof.
  intros F Hw s s' Hm H. simpl in H. unfold main_step in H. rewrite Hm in H. unfold pipes_free in H. rewrite Hw in H.
  simpl in H. rewrite orb_false_r in H. destruct (no_holder (tbl s)); [reflexivity | discriminate].
Qed.

Lemma tw_size : forall t, tw t = 2 * tree_size t.
Proof.
  fix IH 1. intros [a b c d kids]. rewrite tw_eq. simpl tree_size.
  assert (H : fw kids = 2 * (fix go (l : list tree) : nat := match l with [] => 0 | k :: r => tree_size k + go r end) kids).
  { clear a b c d. revert kids. fix IHl 1. intros [|k r]; [reflexivity|].
    rewrite fw_cons, (IHl r), (IH k). lia. }
  lia.
Qed.

Lemma cancel_bounded_l : forall F sm km t sched, steps_taken F (init sm km t) sched <= 38 + 2 * tree_size t.
Proof. intros. rewrite <- tw_size. apply run_bounded_l. Qed.

(* ---------- concurrent Start() calls: at most one instance is ever spawned ---------- *)
Definition a_inside (p : apc) : bool := match p with A2 | A3 => true | _ => false end.
Definition AInv (s : ast) : Prop :=
  (forall i, a_inside (a_pc s i) = true -> a_lock s = Some i) /\
  (forall i, a_lock s = Some i -> a_inside (a_pc s i) = true) /\
  (a_on s = true -> a_count s = 1) /\ (a_on s = false -> a_count s = 0) /\
  (forall i, a_pc s i = A3 -> a_on s = false).

Lemma a_set_same : forall f i p, a_set f i p i = p.
Proof. intros; unfold a_set. now rewrite Nat.eqb_refl. Qed.
Lemma a_set_other : forall f i p j, j <> i -> a_set f i p j = f j.
Proof. intros; unfold a_set. apply Nat.eqb_neq in H. now rewrite H. Qed.

Ltac aset_goal I1 I2 I5 i :=
  let j := fresh "j" in let Hj := fresh "Hj" in let N := fresh "N" in
  intros j Hj; destruct (Nat.eq_dec j i) as [->|N];
  [rewrite ?a_set_same in * | rewrite ?a_set_other in * by auto];
  try discriminate; try congruence; auto;
  try (specialize (I1 _ Hj); congruence);
  try (specialize (I2 _ Hj); congruence);
  try (specialize (I5 _ Hj); congruence);
  try (assert (X : a_lock _ = Some j) by (apply I1; first [exact Hj | rewrite Hj; reflexivity]); congruence);
  try (inversion Hj; subst; rewrite ?a_set_same; reflexivity).

Lemma ainv_step : forall F s i s', start_ok F = true -> AInv s -> a_step F s i = Some s' -> AInv s'.
Proof.
  intros F s i s' HF (I1 & I2 & I3 & I4 & I5) H.
  unfold start_ok in HF. apply andb_true_iff in HF as [HF Hs]. apply andb_true_iff in HF as [Hl Hr].
  unfold a_step in H. rewrite Hl, Hr, Hs in H. simpl in H.
  destruct (a_pc s i) eqn:Ep.
  - (* A0 *) inversion H; subst; clear H. unfold AInv; simpl.
    split; [|split; [|split; [|split]]]; auto.
    + intros j Hj. destruct (Nat.eq_dec j i) as [->|N]; [rewrite a_set_same in Hj; destruct (a_on s); discriminate|].
      rewrite a_set_other in Hj by auto. auto.
    + intros j Hj. destruct (Nat.eq_dec j i) as [->|N]; [specialize (I2 _ Hj); rewrite Ep in I2; discriminate|].
      rewrite a_set_other by auto. auto.
    + intros j Hj. destruct (Nat.eq_dec j i) as [->|N]; [rewrite a_set_same in Hj; destruct (a_on s); discriminate|].
      rewrite a_set_other in Hj by auto. eauto.
  - (* A1 *) destruct (a_lock s) eqn:El; [discriminate|]. inversion H; subst; clear H. unfold AInv; simpl.
    split; [|split; [|split; [|split]]]; auto.
    + aset_goal I1 I2 I5 i.
    + aset_goal I1 I2 I5 i.
    + aset_goal I1 I2 I5 i.
  - (* A2 *) assert (L : a_lock s = Some i) by (apply I1; rewrite Ep; reflexivity).
    destruct (a_on s) eqn:Eo; inversion H; subst; clear H; unfold AInv; simpl;
      (split; [|split; [|split; [|split]]]); auto; try congruence; try (aset_goal I1 I2 I5 i).
  - (* A3 *) assert (L : a_lock s = Some i) by (apply I1; rewrite Ep; reflexivity).
    pose proof (I5 _ Ep) as Off. inversion H; subst; clear H. unfold AInv; simpl.
    split; [|split; [|split; [|split]]]; auto; try discriminate; try (aset_goal I1 I2 I5 i).
  - discriminate.
Qed.

Lemma at_most_one_instance_l : forall F, start_ok F = true -> forall sched, a_count (a_run F a_init sched) <= 1.
Proof.
  intros F HF sched.
  assert (G : forall s, AInv s -> AInv (a_run F s sched)).
  { induction sched as [|i r IH]; intros s I; simpl; auto. apply IH.
    destruct (a_step F s i) eqn:E; auto. eapply ainv_step; eauto. }
  assert (I0 : AInv a_init) by (unfold AInv, a_init; simpl; repeat split; intros; try discriminate; auto).
  destruct (G _ I0) as (_ & _ & I3 & I4 & _).
  destruct (a_on (a_run F a_init sched)); [rewrite I3 | rewrite I4]; auto.
Qed.
