(* C05 — lemmas, part 5: start mode Start (Start() returns at once; the tree is stopped by the monitor goroutine when the
   context ends, or by the user's Stop()/Restart()): invariants for all five stop modes and analysis of terminal states. *)
From Coq Require Import List Bool Arith Lia.
Import ListNotations.
From GU Require Import C05.Model C05.Proofs C05.ProofsInv.

Definition startpc (m : mpc) : bool := match m with M0 | M1 | MDone => true | _ => false end.
Definition m1 (m : mpc) : bool := match m with M1 => true | _ => false end.
Definition slk (p : spc) : bool := match p with PT | PK | P2 | P3 | P4 => true | _ => false end.   (* holds the lock *)
Definition spast (p : spc) : bool := match p with P2 | P3 | P4 => true | _ => false end.          (* past the group kill *)
Definition ulk (u : upc) : bool := match u with UStop p => slk p | _ => false end.
Definition mlk (n : npc) : bool := match n with NStop p => slk p | _ => false end.
Definition upast (u : upc) : bool := match u with UStop p => spast p | _ => false end.
Definition mpast (n : npc) : bool := match n with NStop p => spast p | _ => false end.
Definition mon_live (n : npc) : bool := match n with NWait | NStop _ => true | _ => false end.
Definition mon_over (n : npc) : bool := match n with NStop PDone | NEnd => true | _ => false end.
Definition user_over (u : upc) : bool := match u with UStop PDone | UDone => true | _ => false end.
Definition user_idle (u : upc) : bool := match u with UIdle => true | _ => false end.

Definition InvS (s : st) : Prop :=
  (early (mainpc s) = true ->
     is_running s = false /\ fired s = false /\ gk s = false /\ w_done s = false /\ monpc s = NNone /\ userpc s = UIdle /\ ctx_done s = false) /\
  startpc (mainpc s) = true /\
  (mu s = None -> ulk (userpc s) = false /\ mlk (monpc s) = false /\ m1 (mainpc s) = false) /\
  (ulk (userpc s) = true -> mlk (monpc s) = false /\ m1 (mainpc s) = false) /\
  (mlk (monpc s) = true -> m1 (mainpc s) = false) /\
  (forall o, mu s = Some o -> ulk (userpc s) || mlk (monpc s) || m1 (mainpc s) = true) /\
  (gk s = true -> no_ingroup_alive (tbl s) = true) /\
  leaders_in (tbl s) = true /\
  tbl_ok (tbl s) = true /\
  (upast (userpc s) = true -> gk s = true) /\
  (mpast (monpc s) = true -> gk s = true) /\
  (mainpc s = MDone -> is_running s = false -> gk s = true) /\
  (mon_live (monpc s) = true -> mon_on s = true) /\
  (mainpc s = MDone -> mon_on s = false -> monpc s = NEnd) /\
  (mainpc s = MDone -> monpc s <> NNone) /\
  (mon_over (monpc s) = true -> is_running s = false) /\
  (fired s = true -> user_idle (userpc s) = false) /\
  (ctxk (kmode s) = true -> user_ok (userpc s) = true /\ (fired s = true -> ctx_done s = true)) /\
  (ctxk (kmode s) = false -> user_over (userpc s) = true -> is_running s = false).

Lemma invS_init : forall sm km t, InvS (init sm km t).
Proof. intros; unfold InvS; simpl; repeat split; intros; try discriminate; auto. Qed.

Ltac use_all_eqs :=
  repeat match goal with H : ?p ?x = ?v |- _ =>
    match type of x with st => is_var x; first [rewrite H in * | idtac]; clear H end end.

Ltac invS_solve :=
  repeat match goal with H : match mu ?s with _ => _ end = _ |- _ => destruct (mu s) eqn:?; try discriminate H end;
  repeat match goal with H : _ && _ = true |- _ => apply andb_true_iff in H; destruct H end;
  repeat match goal with H : _ && _ = false |- _ => apply andb_false_iff in H end;
  unfold InvS; simpl; use_eqs; simpl in *;
  repeat match goal with H : ?a = ?a -> _ |- _ => specialize (H eq_refl) end;
  repeat match goal with H : _ /\ _ |- _ => destruct H end;
  use_eqs; simpl in *;
  repeat split; intros; simpl in *; try discriminate; try congruence; auto; try apply orb_true_r;
  use_all_eqs; simpl in *;
  repeat match goal with H : ?a = ?a -> _ |- _ => specialize (H eq_refl) end;
  repeat match goal with H : _ /\ _ |- _ => destruct H end;
  use_all_eqs; simpl in *;
  repeat split; intros; simpl in *; try discriminate; try congruence; auto; try apply orb_true_r;
  try assumption; try (rewrite ?orb_true_r; simpl; reflexivity);
  try solve [intuition (try congruence; try discriminate)]; tbl_facts;
  try (match goal with |- context [root_proc ?t] => destruct t; reflexivity end);
  try solve [match goal with |- ?b = false => destruct b eqn:?; [exfalso|reflexivity]; intuition (try congruence; try discriminate) end];
  try solve [exfalso; match goal with x : st |- _ => destruct (mainpc x) eqn:?; simpl in *; intuition (try congruence; try discriminate) end];
  try solve [match goal with x : st |- _ => destruct (mainpc x) eqn:?; simpl in *; intuition (try congruence);
               use_all_eqs; simpl in *; intuition (try congruence) end].

Section WithFacts.
Variable F : facts.
Hypothesis HF : facts_ok F = true.
Local Notation step := (step F).

Lemma invS_main : forall s s', executes s = false -> no_outside_holder (prog s) = true ->
  InvS s -> step s LMain = Some s' -> InvS s'.
Proof.
  intros s s' He Hok I H. pose proof (root_tbl_ok _ Hok) as Hroot.
  destruct I as (I1 & I2 & I3 & I4 & I5 & I6 & I8 & I9 & I10 & I11 & I12 & I13 & I14 & I15 & I16 & I17 & I18 & I19 & I20).
  unfold is_on in *. simpl in H.
  unfold main_step, user_step, mon_step, Model.stop_step, watch_step, runwatch_step, proc_step, mu_free, is_on, gkill in H;
    use_facts_with (facts_all F HF) H.
  crush_head; try (destruct (ctx_done s) eqn:?); try (destruct (executes s) eqn:?); invS_solve.
Qed.

Lemma invS_user : forall s s', executes s = false -> no_outside_holder (prog s) = true ->
  InvS s -> step s LUser = Some s' -> InvS s'.
Proof.
  intros s s' He Hok I H. pose proof (root_tbl_ok _ Hok) as Hroot.
  destruct I as (I1 & I2 & I3 & I4 & I5 & I6 & I8 & I9 & I10 & I11 & I12 & I13 & I14 & I15 & I16 & I17 & I18 & I19 & I20).
  unfold is_on in *. simpl in H.
  unfold main_step, user_step, mon_step, Model.stop_step, watch_step, runwatch_step, proc_step, mu_free, is_on, gkill in H;
    use_facts_with (facts_all F HF) H.
  crush_head; try (destruct (stop_terms F) eqn:?); invS_solve.
Qed.

End WithFacts.
