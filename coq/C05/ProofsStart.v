(* C05 — lemmas, part 5: start mode Start (Start() returns at once; the tree is stopped by the monitor goroutine when the
   context ends, or by the user's Stop()/Restart()): invariants for all five stop modes and analysis of terminal states. *)
From Coq Require Import List Bool Arith Lia.
Import ListNotations.
From GU Require Import C05.Model C05.Proofs C05.ProofsInv.

Definition startpc (m : mpc) : bool := match m with M0 | M1 | MDone => true | _ => false end.
Definition m1 (m : mpc) : bool := match m with M1 => true | _ => false end.
Definition slk (p : spc) : bool := match p with PT | PK | P2 | P3 | P4 => true | _ => false end.   (* holds the lock *)
Definition spast (p : spc) : bool := match p with P2 | P3 | P4 => true | _ => false end.          (* past the group kill *)
Definition ulk (u : upc) : bool := match u with UStop p => slk p | _ => false end.
Definition mlk (n : npc) : bool := match n with NStop p => slk p | _ => false end.
Definition upast (u : upc) : bool := match u with UStop p => spast p | _ => false end.
Definition mpast (n : npc) : bool := match n with NStop p => spast p | _ => false end.
Definition mon_live (n : npc) : bool := match n with NWait | NStop _ => true | _ => false end.
Definition mon_over (n : npc) : bool := match n with NStop PDone | NEnd => true | _ => false end.
Definition user_over (u : upc) : bool := match u with UStop PDone | UDone => true | _ => false end.
Definition user_idle (u : upc) : bool := match u with UIdle => true | _ => false end.

Definition InvS (s : st) : Prop :=
  (early (mainpc s) = true ->
     is_running s = false /\ fired s = false /\ gk s = false /\ w_done s = false /\ monpc s = NNone /\ userpc s = UIdle /\ ctx_done s = false) /\
  startpc (mainpc s) = true /\
  (mu s = None -> ulk (userpc s) = false /\ mlk (monpc s) = false /\ m1 (mainpc s) = false) /\
  (ulk (userpc s) = true -> mlk (monpc s) = false /\ m1 (mainpc s) = false) /\
  (mlk (monpc s) = true -> m1 (mainpc s) = false) /\
  (forall o, mu s = Some o -> ulk (userpc s) || mlk (monpc s) || m1 (mainpc s) = true) /\
  (gk s = true -> no_ingroup_alive (tbl s) = true) /\
  leaders_in (tbl s) = true /\
  tbl_ok (tbl s) = true /\
  (upast (userpc s) = true -> gk s = true) /\
  (mpast (monpc s) = true -> gk s = true) /\
  (mainpc s = MDone -> is_running s = false -> gk s = true) /\
  (mon_live (monpc s) = true -> mon_on s = true) /\
  (mainpc s = MDone -> mon_on s = false -> monpc s = NEnd) /\
  (mainpc s = MDone -> monpc s <> NNone) /\
  (mon_over (monpc s) = true -> is_running s = false) /\
  (fired s = true -> user_idle (userpc s) = false) /\
  (ctxk (kmode s) = true -> user_ok (userpc s) = true /\ (fired s = true -> ctx_done s = true)) /\
  (ctxk (kmode s) = false -> user_over (userpc s) = true -> is_running s = false).

Lemma invS_init : forall sm km t, InvS (init sm km t).
Proof. intros; unfold InvS; simpl; repeat split; intros; try discriminate; auto. Qed.

Ltac use_all_eqs :=
  repeat match goal with H : ?p ?x = ?v |- _ =>
    match type of x with st => is_var x; first [rewrite H in * | idtac]; clear H end end.

Ltac invS_solve :=
  repeat match goal with H : match mu ?s with _ => _ end = _ |- _ => destruct (mu s) eqn:?; try discriminate H end;
  repeat match goal with H : _ && _ = true |- _ => apply andb_true_iff in H; destruct H end;
  repeat match goal with H : _ && _ = false |- _ => apply andb_false_iff in H end;
  unfold InvS; simpl; use_eqs; simpl in *;
  repeat match goal with H : ?a = ?a -> _ |- _ => specialize (H eq_refl) end;
  repeat match goal with H : _ /\ _ |- _ => destruct H end;
  use_eqs; simpl in *;
  repeat split; intros; simpl in *; try discriminate; try congruence; auto; try apply orb_true_r;
  use_all_eqs; simpl in *;
  repeat match goal with H : ?a = ?a -> _ |- _ => specialize (H eq_refl) end;
  repeat match goal with H : _ /\ _ |- _ => destruct H end;
  use_all_eqs; simpl in *;
  repeat split; intros; simpl in *; try discriminate; try congruence; auto; try apply orb_true_r;
  try assumption; try (rewrite ?orb_true_r; simpl; reflexivity);
  try solve [intuition (try congruence; try discriminate)]; tbl_facts;
  try (match goal with |- context [root_proc ?t] => destruct t; reflexivity end);
  try solve [match goal with |- ?b = false => destruct b eqn:?; [exfalso|reflexivity]; intuition (try congruence; try discriminate) end];
  try solve [exfalso; match goal with x : st |- _ => destruct (mainpc x) eqn:?; simpl in *; intuition (try congruence; try discriminate) end];
  try solve [match goal with x : st |- _ => destruct (mainpc x) eqn:?; simpl in *; intuition (try congruence);
               use_all_eqs; simpl in *; intuition (try congruence) end].

Section WithFacts.
Variable F : facts.
Hypothesis HF : facts_ok F = true.
Local Notation step := (step F).
Local Notation run := (run F).
Local Notation exec1 := (exec1 F).
Local Notation terminal := (terminal F).
Local Notation stop_step := (stop_step F).

Lemma invS_step : forall s l s', executes s = false -> no_outside_holder (prog s) = true ->
  InvS s -> step s l = Some s' -> InvS s'.
Proof.
  intros s l s' He Hok I H. pose proof (root_tbl_ok _ Hok) as Hroot.
  destruct I as (I1 & I2 & I3 & I4 & I5 & I6 & I8 & I9 & I10 & I11 & I12 & I13 & I14 & I15 & I16 & I17 & I18 & I19 & I20).
  unfold is_on in *.
  destruct l; simpl in H;
    unfold main_step, user_step, mon_step, Model.stop_step, watch_step, runwatch_step, proc_step, mu_free, is_on, gkill in H;
    use_facts_with (facts_all F HF) H.
  - crush_head; try (destruct (ctx_done s) eqn:?); try (destruct (executes s) eqn:?); invS_solve.
  - crush_head; invS_solve.
  - crush_head; invS_solve.
  - crush_head; try (destruct (cancel_group F) eqn:?); invS_solve.
  - crush_head; invS_solve.
  - destruct (pstep i (tbl s)) eqn:E; [|discriminate]. inversion H; subst. invS_solve.
Qed.

Lemma runS_inv : forall sched s, executes s = false -> no_outside_holder (prog s) = true -> InvS s ->
  InvS (run s sched) /\ executes (run s sched) = false.
Proof.
  induction sched as [|l r IH]; intros s He Hok I; [simpl; auto|].
  change (run s (l :: r)) with (run (exec1 s l) r).
  assert (Hs : InvS (exec1 s l) /\ executes (exec1 s l) = false /\ prog (exec1 s l) = prog s).
  { unfold exec1. destruct (step s l) as [s1|] eqn:E; auto.
    destruct (step_modes _ _ _ E) as (A & B & C).
    split; [eapply invS_step; eauto|]. split; [unfold executes in *; rewrite A; exact He | exact C]. }
  destruct Hs as (X & Y & W). apply IH; auto. now rewrite W.
Qed.

Lemma gk_facts : forall s, InvS s -> gk s = true -> leader_dead (tbl s) = true /\ pipes_free s = true.
Proof.
  intros s I G. destruct I as (_ & _ & _ & _ & _ & _ & I8 & I9 & I10 & _).
  split; [apply no_ingroup_leader_dead; auto | unfold pipes_free; apply tbl_ok_no_holder; auto].
Qed.

(* a thread inside stop that holds the lock can always move *)
Lemma locked_stopper_moves : forall who c p set s, InvS s -> slk p = true -> (spast p = true -> gk s = true) ->
  stop_step who c p set s <> None.
Proof.
  intros who c p set s I L G. destruct p; simpl in *; try discriminate;
    try (destruct (gk_facts s I (G eq_refl)) as [A B]; rewrite ?A, ?B); discriminate.
Qed.

Lemma terminalS_good : forall s, executes s = false -> InvS s -> terminal s -> fired s = true -> good s.
Proof.
  intros s He I T F. pose proof I as I0.
  destruct I as (I1 & I2 & I3 & I4 & I5 & I6 & I8 & I9 & I10 & I11 & I12 & I13 & I14 & I15 & I16 & I17 & I18 & I19 & I20).
  pose proof (T LUser) as TU. pose proof (T LMon) as TM. simpl in TU, TM.
  specialize (I18 F).
  (* Start() has returned *)
  assert (Em : mainpc s = MDone).
  { destruct (mainpc s) eqn:Em; simpl in *; try discriminate; auto;
      destruct (I1 eq_refl) as (_ & _ & _ & _ & _ & U & _); rewrite U in I18; discriminate. }
  rewrite Em in *. simpl in *.
  (* the user's call has returned *)
  assert (Eu : userpc s = UDone).
  { unfold user_step in TU. destruct (userpc s) as [|p|] eqn:Eu; simpl in *; try discriminate; auto.
    destruct (slk p) eqn:Lp.
    - exfalso. assert (X := locked_stopper_moves OUser (cancels s) p (fun s' q => with_user s' (UStop q)) s I0 Lp I11).
      destruct p; simpl in *; try discriminate; auto.
    - destruct p; simpl in *; try discriminate.
      + unfold stop_step in TU. destruct (is_on s); discriminate.
      + unfold stop_step, mu_free in TU. destruct (mu s) as [o|] eqn:Emu; [|destruct (is_on s); discriminate].
        specialize (I6 o eq_refl). simpl in I6. rewrite orb_false_r in I6.
        unfold mon_step in TM. destruct (monpc s) as [| |q|] eqn:En; simpl in *; try discriminate.
        exfalso. assert (X := locked_stopper_moves OMon true q (fun s' q0 => with_mon s' (NStop q0)) s I0 I6 I12).
        destruct q; simpl in *; try discriminate; auto. }
  rewrite Eu in *. simpl in *.
  (* the monitor is waiting (Stop/Restart only) or finished; in both cases the subprocess is off *)
  assert (R : is_running s = false).
  { unfold mon_step in TM. destruct (monpc s) as [| |q|] eqn:En; simpl in *; auto.
    - exfalso. apply I16; auto.
    - destruct (ctxk (kmode s)) eqn:Ek.
      + destruct (I19 eq_refl) as [_ C]. rewrite (C F) in TM. discriminate.
      + apply I20; auto.
    - destruct (slk q) eqn:Lq.
      + exfalso. assert (X := locked_stopper_moves OMon true q (fun s' q0 => with_mon s' (NStop q0)) s I0 Lq I12).
        destruct q; simpl in *; try discriminate; auto.
      + destruct q; simpl in *; try discriminate.
        * unfold stop_step in TM. destruct (is_on s); discriminate.
        * unfold stop_step, mu_free in TM. destruct (mu s) as [o|] eqn:Emu; [|destruct (is_on s); discriminate].
          specialize (I6 o eq_refl). simpl in I6. discriminate. }
  unfold good, call_returned, is_on. rewrite He, Eu, R. repeat split; auto.
Qed.

End WithFacts.
