(* C05 — lemmas, part 5b: start mode Start: preservation of InvS by the monitor, the watchers and the processes. *)
From Coq Require Import List Bool Arith Lia.
Import ListNotations.
From GU Require Import C05.Model C05.Proofs C05.ProofsInv C05.ProofsStart.

Section WithFacts.
Variable F : facts.
Hypothesis HF : facts_ok F = true.
Local Notation step := (step F).

Lemma invS_mon : forall s s', executes s = false -> no_outside_holder (prog s) = true ->
  InvS s -> step s LMon = Some s' -> InvS s'.
Proof.
  intros s s' He Hok I H. pose proof (root_tbl_ok _ Hok) as Hroot.
  destruct I as (I1 & I2 & I3 & I4 & I5 & I6 & I8 & I9 & I10 & I11 & I12 & I13 & I14 & I15 & I16 & I17 & I18 & I19 & I20).
  unfold is_on in *. simpl in H.
  unfold main_step, user_step, mon_step, Model.stop_step, watch_step, runwatch_step, proc_step, mu_free, is_on, gkill in H;
    use_facts_with (facts_all F HF) H.
  crush_head; try (destruct (stop_terms F) eqn:?); invS_solve.
Qed.

Lemma invS_watch : forall s s', executes s = false -> no_outside_holder (prog s) = true ->
  InvS s -> step s LWatch = Some s' -> InvS s'.
Proof.
  intros s s' He Hok I H. pose proof (root_tbl_ok _ Hok) as Hroot.
  destruct I as (I1 & I2 & I3 & I4 & I5 & I6 & I8 & I9 & I10 & I11 & I12 & I13 & I14 & I15 & I16 & I17 & I18 & I19 & I20).
  unfold is_on in *. simpl in H.
  unfold main_step, user_step, mon_step, Model.stop_step, watch_step, runwatch_step, proc_step, mu_free, is_on, gkill in H;
    use_facts_with (facts_all F HF) H.
  crush_head; try (destruct (cancel_group F) eqn:?); invS_solve.
Qed.

Lemma invS_runwatch : forall s s', executes s = false -> no_outside_holder (prog s) = true ->
  InvS s -> step s LRunWatch = Some s' -> InvS s'.
Proof.
  intros s s' He Hok I H. pose proof (root_tbl_ok _ Hok) as Hroot.
  destruct I as (I1 & I2 & I3 & I4 & I5 & I6 & I8 & I9 & I10 & I11 & I12 & I13 & I14 & I15 & I16 & I17 & I18 & I19 & I20).
  unfold is_on in *. simpl in H.
  unfold main_step, user_step, mon_step, Model.stop_step, watch_step, runwatch_step, proc_step, mu_free, is_on, gkill in H;
    use_facts_with (facts_all F HF) H.
  crush_head; invS_solve.
Qed.

Lemma invS_proc : forall s i s', executes s = false -> no_outside_holder (prog s) = true ->
  InvS s -> step s (LProc i) = Some s' -> InvS s'.
Proof.
  intros s i s' He Hok I H. pose proof (root_tbl_ok _ Hok) as Hroot.
  destruct I as (I1 & I2 & I3 & I4 & I5 & I6 & I8 & I9 & I10 & I11 & I12 & I13 & I14 & I15 & I16 & I17 & I18 & I19 & I20).
  unfold is_on in *. simpl in H.
  unfold main_step, user_step, mon_step, Model.stop_step, watch_step, runwatch_step, proc_step, mu_free, is_on, gkill in H;
    use_facts_with (facts_all F HF) H.
  destruct (pstep i (tbl s)) eqn:E; [|discriminate]. inversion H; subst. invS_solve.
Qed.

Lemma invS_step : forall s l s', executes s = false -> no_outside_holder (prog s) = true ->
  InvS s -> step s l = Some s' -> InvS s'.
Proof.
  intros s l s' He Hok I H. destruct l;
    [eapply invS_main | eapply (invS_user F HF) | eapply invS_mon | eapply invS_watch | eapply invS_runwatch | eapply invS_proc]; eauto.
Qed.

End WithFacts.
