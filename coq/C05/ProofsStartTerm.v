(* C05 — lemmas, part 6: start mode Start: reachable states satisfy InvS; terminal states are good. *)
From Coq Require Import List Bool Arith Lia.
Import ListNotations.
From GU Require Import C05.Model C05.Proofs C05.ProofsInv C05.ProofsStart C05.ProofsStartB.

Section WithFacts.
Variable F : facts.
Hypothesis HF : facts_ok F = true.
Local Notation step := (step F).
Local Notation run := (run F).
Local Notation exec1 := (exec1 F).
Local Notation terminal := (terminal F).
Local Notation stop_step := (stop_step F).
Local Notation pipes_free := (pipes_free F).
Local Notation user_step := (user_step F).
Local Notation mon_step := (mon_step F).

Lemma runS_inv : forall sched s, executes s = false -> no_outside_holder (prog s) = true -> InvS s ->
  InvS (run s sched) /\ executes (run s sched) = false.
Proof.
  induction sched as [|l r IH]; intros s He Hok I; [simpl; auto|].
  change (run s (l :: r)) with (run (exec1 s l) r).
  assert (Hs : InvS (exec1 s l) /\ executes (exec1 s l) = false /\ prog (exec1 s l) = prog s).
  { unfold exec1. destruct (step s l) as [s1|] eqn:E; auto.
    destruct (step_modes F _ _ _ E) as (A & B & C).
    split; [eapply invS_step; eauto|]. split; [unfold executes in *; rewrite A; exact He | exact C]. }
  destruct Hs as (X & Y & W). apply IH; auto. now rewrite W.
Qed.

Lemma gk_facts : forall s, InvS s -> gk s = true -> leader_dead (tbl s) = true /\ pipes_free s = true.
Proof.
  intros s I G. destruct I as (_ & _ & _ & _ & _ & _ & I8 & I9 & I10 & _).
  split; [apply no_ingroup_leader_dead; auto | unfold Model.pipes_free; rewrite tbl_ok_no_holder; auto].
Qed.

(* a thread inside stop that holds the lock can always move *)
Lemma locked_stopper_moves : forall who c p set s, InvS s -> slk p = true -> (spast p = true -> gk s = true) ->
  stop_step who c p set s <> None.
Proof.
  intros who c p set s I L G. destruct p; simpl in *; try discriminate;
    try (destruct (gk_facts s I (G eq_refl)) as [A B]; rewrite ?A, ?B); discriminate.
Qed.

Lemma terminalS_good : forall s, executes s = false -> InvS s -> terminal s -> fired s = true -> good s.
Proof.
  intros s He I T Fi. pose proof I as I0.
  destruct I as (I1 & I2 & I3 & I4 & I5 & I6 & I8 & I9 & I10 & I11 & I12 & I13 & I14 & I15 & I16 & I17 & I18 & I19 & I20).
  pose proof (T LUser) as TU. pose proof (T LMon) as TM. simpl in TU, TM.
  specialize (I18 Fi).
  (* Start() has returned *)
  assert (Em : mainpc s = MDone).
  { destruct (mainpc s) eqn:Em; simpl in *; try discriminate; auto;
      destruct (I1 eq_refl) as (_ & _ & _ & _ & _ & U & _); rewrite U in I18; discriminate. }
  rewrite Em in *. simpl in *.
  (* the user's call has returned *)
  assert (Eu : userpc s = UDone).
  { unfold Model.user_step in TU. destruct (userpc s) as [|p|] eqn:Eu; simpl in *; try discriminate; auto.
    destruct (slk p) eqn:Lp.
    - exfalso. assert (X := locked_stopper_moves OUser (cancels s) p (fun s' q => with_user s' (UStop q)) s I0 Lp I11).
      destruct p; simpl in *; try discriminate; auto.
    - destruct p; simpl in *; try discriminate.
      + unfold Model.stop_step in TU. destruct (is_on s && stop_never_gives_up F); discriminate.
      + unfold Model.stop_step, mu_free in TU. destruct (mu s) as [o|] eqn:Emu; [|destruct (is_on s || negb (stop_rechecks F)); discriminate].
        specialize (I6 o eq_refl). simpl in I6. rewrite orb_false_r in I6.
        unfold Model.mon_step in TM. destruct (monpc s) as [| |q|] eqn:En; simpl in *; try discriminate.
        exfalso. assert (X := locked_stopper_moves OMon true q (fun s' q0 => with_mon s' (NStop q0)) s I0 I6 I12).
        destruct q; simpl in *; try discriminate; auto. }
  rewrite Eu in *. simpl in *.
  (* the monitor is waiting (Stop/Restart only) or finished; in both cases the subprocess is off *)
  assert (R : is_running s = false).
  { unfold Model.mon_step in TM. destruct (monpc s) as [| |q|] eqn:En; simpl in *; auto.
    - exfalso. apply I16; auto.
    - destruct (ctxk (kmode s)) eqn:Ek.
      + destruct (I19 eq_refl) as [_ C]. rewrite (C Fi) in TM. discriminate.
      + apply I20; auto.
    - destruct (slk q) eqn:Lq.
      + exfalso. assert (X := locked_stopper_moves OMon true q (fun s' q0 => with_mon s' (NStop q0)) s I0 Lq I12).
        destruct q; simpl in *; try discriminate; auto.
      + destruct q; simpl in *; try discriminate.
        * unfold Model.stop_step in TM. destruct (is_on s && stop_never_gives_up F); discriminate.
        * unfold Model.stop_step, mu_free in TM. destruct (mu s) as [o|] eqn:Emu; [|destruct (is_on s || negb (stop_rechecks F)); discriminate].
          specialize (I6 o eq_refl). simpl in I6. discriminate. }
  unfold good, call_returned, is_on. rewrite He, Eu, R. repeat split; auto.
Qed.

End WithFacts.
