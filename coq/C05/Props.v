(* C05 — Cancelling a subprocess terminates its whole process tree, promptly.
   Property theorems only.  Model: GU.C05.Model — the subprocess package AS REPAIRED by fixes/C05-*.patch (group Cancel; Run
   watches its context until Wait returns; Stop kills the tree and the group before waiting; NO WaitDelay) over an executable model of the OS rules (process table,
   SIGTERM / SIGKILL of a group, Wait = reap + pipes) — tied to the code by the runs of harness/cmd/c05 on real trees.
   A schedule is ANY list of thread labels (Execute/Start, user, monitor goroutine, os/exec's context watcher, the watcher
   of cmdWrapper.Run, every process of the tree); a disabled choice is a no-op. *)
From Coq Require Import List Bool Arith.
Import ListNotations.
From GU Require Import C05.Model C05.Proofs C05.ProofsInv C05.ProofsStart C05.ProofsTerm.

(* OS rule used by every path: a kill of the process group leaves nothing of the group alive, for EVERY process table
   (any forest, any flags: TERM-ignoring, pipe holders, exited parents), and nothing of the group comes back afterwards,
   whatever the processes do next. *)
Theorem group_kill_is_final : forall tb acts,
  no_ingroup_alive (fold_left (fun t i => match pstep i t with Some t' => t' | None => t end) acts (kill_group tb)) = true.
Proof. exact group_kill_is_final_l. Qed.
Print Assumptions group_kill_is_final.

(* Bounded: for every tree, every start mode, every stop mode and EVERY schedule, at most 38 + 2*|tree| steps are ever
   taken: no thread can spin, and whatever can happen has happened after that many effective steps. *)
Theorem cancel_bounded : forall sm km t sched, steps_taken (init sm km t) sched <= 38 + 2 * tree_size t.
Proof. exact cancel_bounded_l. Qed.
Print Assumptions cancel_bounded.

(* cancel_kills_group (DESIGN): for EVERY tree in which no process that left the group holds the output pipes, every start
   mode in {Execute, Start, supervisor}, every stop mode in {context cancel, deadline, Cancel(), Stop(), Restart()} — with
   the one documented exception  Stop()/Restart() on a subprocess started with Execute()  ([supported], refuted just
   below) — and EVERY schedule: once nothing can move and the stop request has been issued, no process of the group is
   alive, Execute()/Stop()/Restart() have returned and IsOn() is false.  Together with cancel_bounded: that state is
   reached after at most 38 + 2*|tree| steps, whatever the interleaving.
   (The supervisor's restart loop is modelled as one Execute; Restart()'s second half, the new Start, is not modelled.) *)
Theorem cancel_kills_group : forall sm km t sched,
  supported sm km = true -> no_outside_holder t = true ->
  let s := run (init sm km t) sched in
  terminal s -> fired s = true -> good s.
Proof. exact cancel_kills_group_full_l. Qed.
Print Assumptions cancel_kills_group.

(* The full statement is FALSE for Stop()/Restart() on a subprocess started with Execute() (known finding): a reachable
   state where nothing can move, the request has been issued, the tree is alive, no call has returned, IsOn is true. *)
Theorem stop_on_execute_refuted : exists t sched,
  let s := run (init SExecute KStop t) sched in
  terminal s /\ fired s = true /\ ~ good s.
Proof.
  exists leaf_tree, [LMain; LMain; LUser; LUser].
  destruct stop_on_execute_refuted_l as (A & B & C & D & E). cbv zeta. repeat split; auto.
  intros (G & _). rewrite G in C. discriminate.
Qed.
Print Assumptions stop_on_execute_refuted.

(* Without a WaitDelay, a descendant that has LEFT the group and holds the output pipes keeps Execute in Wait although the
   whole group is dead (the property does not ask for its death, but does ask for the return): known finding. *)
Theorem outside_holder_refuted : exists t sched,
  let s := run (init SExecute KCtx t) sched in
  terminal s /\ fired s = true /\ no_ingroup_alive (tbl s) = true /\ ~ good s.
Proof.
  exists away_tree, [LMain; LMain; LProc 0; LUser; LWatch; LRunWatch; LMain; LMon; LMon].
  destruct outside_holder_refuted_l as (A & B & C & D & E). cbv zeta. repeat split; auto.
  intros (_ & G & _). rewrite G in D. discriminate.
Qed.
Print Assumptions outside_holder_refuted.

(* Runs that are not cancelled are unchanged by the repair: in every state, Run (Execute) leaves Wait only when no live
   process holds the output pipes — it waits for a descendant that is still writing, whether or not the child has exited. *)
Theorem run_waits_for_pipes : forall s s', mainpc s = M3 -> step s LMain = Some s' -> no_holder (tbl s) = true.
Proof. exact run_waits_for_pipes_l. Qed.
Print Assumptions run_waits_for_pipes.

(* The exception is exactly: *)
Example supported_table : map (fun sm => map (supported sm) [KCtx; KDeadline; KCancel; KStop; KRestart]) [SExecute; SStart; SSupervisor]
  = [[true; true; true; false; false]; [true; true; true; true; true]; [true; true; true; false; false]].
Proof. reflexivity. Qed.

(* Non-vacuity: for the tree of D17 (sh -c "sleep & sleep & wait") under Execute + context cancel the canonical schedule
   does reach a terminal state with the request issued — and it is good, within the bound. *)
Example c05_nonvacuous :
  let t := T false true false false [leaf_tree; leaf_tree] in
  let s := run (init SExecute KCtx t) (canonical t 3) in
  no_outside_holder t = true /\ terminal s /\ fired s = true /\ survivors (tbl s) = 0 /\ call_returned s = true /\ is_on s = false.
Proof.
  cbv zeta. repeat split; try (vm_compute; reflexivity).
  intros l; destruct l; try (vm_compute; reflexivity). destruct i as [|[|[|[|i]]]]; vm_compute; reflexivity.
Qed.

Example c05_nonvacuous_start_stop :
  let t := T false true false true [leaf_tree; T true false false false [leaf_tree]] in   (* parent exits first; a TERM-ignoring, redirected child *)
  let s := run (init SStart KStop t) (canonical t 4) in
  no_outside_holder t = true /\ terminal s /\ fired s = true /\ survivors (tbl s) = 0 /\ call_returned s = true /\ is_on s = false.
Proof.
  cbv zeta. repeat split; try (vm_compute; reflexivity).
  intros l; destruct l; try (vm_compute; reflexivity). destruct i as [|[|[|[|[|i]]]]]; vm_compute; reflexivity.
Qed.
