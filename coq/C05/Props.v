(* C05 — Cancelling a subprocess terminates its whole process tree, promptly.
   Property theorems only.  Model: GU.C05.Model — a small-step model of the subprocess package over an executable model of
   the OS rules (process table, SIGTERM / SIGKILL of a group, Wait = reap + pipes), PARAMETERISED by a record of facts
   about the source; the theorems are stated for the model instantiated with the record REGENERATED from the working
   tree on every run (GU.C05.Gen.gen_facts, written by translator-c05): Setpgid, the Cancel hook, WaitDelay, the body
   of killProcessGroup, of cmdWrapper.Run / Stop, of Subprocess.Cancel / stop / Execute and of the monitor goroutine.
   They are proved for EVERY record satisfying the condition each of them needs (facts_ok / no_waitdelay / none), and the
   condition is discharged on the generated record by computation: a changed fact breaks exactly the theorems that need it.
   A schedule is ANY list of thread labels (Execute/Start, user, monitor goroutine, os/exec's context watcher, the watcher
   of cmdWrapper.Run, every process of the tree); a disabled choice is a no-op. *)
From Coq Require Import List Bool Arith.
Import ListNotations.
From GU Require Import C05.Model C05.Gen C05.Proofs C05.ProofsInv C05.ProofsStart C05.ProofsStartTerm C05.ProofsTerm.

Notation G := gen_facts.

(* OS rule used by every path: a kill of the process group leaves nothing of the group alive, for EVERY process table
   (any forest, any flags: TERM-ignoring, pipe holders, exited parents), and nothing of the group comes back afterwards,
   whatever the processes do next.  (Independent of the source facts.) *)
Theorem group_kill_is_final : forall tb acts,
  no_ingroup_alive (fold_left (fun t i => match pstep i t with Some t' => t' | None => t end) acts (kill_group tb)) = true.
Proof. exact group_kill_is_final_l. Qed.
Print Assumptions group_kill_is_final.

(* Bounded: for every tree, every start mode, every stop mode and EVERY schedule, at most 38 + 2*|tree| steps are ever
   taken.  (Proved for every record of facts: no edit of the anchored functions within the translated fragment can make
   a thread spin.) *)
Theorem cancel_bounded : forall sm km t sched, steps_taken G (init sm km t) sched <= 38 + 2 * tree_size t.
Proof. exact (cancel_bounded_l G). Qed.
Print Assumptions cancel_bounded.

(* Runs that are not cancelled are not cut short: since the source sets no WaitDelay, Run (Execute) leaves Wait only when
   no live process holds the output pipes — it waits for a descendant that is still writing. *)
Theorem run_waits_for_pipes : forall s s', mainpc s = M3 -> step G s LMain = Some s' -> no_holder (tbl s) = true.
Proof. apply run_waits_for_pipes_l. vm_compute. reflexivity. Qed.
Print Assumptions run_waits_for_pipes.

(* Concurrent Start() calls on one object: for ANY number of callers and ANY interleaving of their steps (the unlocked IsOn
   test, the wait for the mutex, the IsOn test repeated under it, the spawn), at most one instance of the command is ever
   spawned — so none can be left untracked.  Needs of the generated source: in Start() the mutex is held from before
   cmd.Start to the deferred Unlock and IsOn is tested again under it; monitoringOn is set by the launcher of the monitor,
   before its goroutine exists (mon_on_sync). *)
Theorem at_most_one_instance : forall sched, a_count (a_run G a_init sched) <= 1.
Proof. apply at_most_one_instance_l. vm_compute. reflexivity. Qed.
Print Assumptions at_most_one_instance.

(* cancel_kills_group (DESIGN): for EVERY tree in which no process that left the group holds the output pipes, every start
   mode in {Execute, Start, supervisor}, every stop mode in {context cancel, deadline, Cancel(), Stop(), Restart()} — with
   the one documented exception  Stop()/Restart() on a subprocess started with Execute()  ([supported], refuted just
   below) — and EVERY schedule: once nothing can move and the stop request has been issued, no process of the group is
   alive, Execute()/Stop()/Restart() have returned and IsOn() is false.  Together with cancel_bounded: that state is
   reached after at most 38 + 2*|tree| steps, whatever the interleaving.  Needs facts_ok of the generated record.
   (The supervisor's restart loop is modelled as one Execute; Restart()'s second half, the new Start, is not modelled.) *)
Theorem cancel_kills_group : forall sm km t sched,
  supported sm km = true -> no_outside_holder t = true ->
  let s := run G (init sm km t) sched in
  terminal G s -> fired s = true -> good s.
Proof. apply cancel_kills_group_full_l. vm_compute. reflexivity. Qed.
Print Assumptions cancel_kills_group.

(* what the generated record must satisfy for cancel_kills_group: the command leads its own group on every platform file
   and killProcessGroup sends SIGKILL to -pid unguarded; Run = Start, context watcher, Wait, kill if the context is done;
   Stop kills the group before Wait; Cancel() takes no object lock; stop() re-checks IsOn under the lock and clears
   isRunning; Execute holds the lock for the whole run and maintains isRunning; the monitor calls stop() on context end *)
Example generated_facts_ok : facts_ok G = true.
Proof. vm_compute. reflexivity. Qed.

(* The full statement is FALSE for Stop()/Restart() on a subprocess started with Execute() (known finding) — the fact behind
   it is [exec_holds_lock]: Execute keeps the object mutex for the whole run. *)
Theorem stop_on_execute_refuted : exec_holds_lock G = true /\ exists t sched,
  let s := run G (init SExecute KStop t) sched in
  terminal G s /\ fired s = true /\ ~ good s.
Proof.
  split; [vm_compute; reflexivity|].
  exists leaf_tree, [LMain; LMain; LUser; LUser]. cbv zeta. repeat split; try (vm_compute; reflexivity).
  - intros l; destruct l; try (vm_compute; reflexivity). destruct i as [|[|i]]; vm_compute; reflexivity.
  - intros (_ & C & _). vm_compute in C. discriminate.
Qed.
Print Assumptions stop_on_execute_refuted.

(* Without a WaitDelay, a descendant that has LEFT the group and holds the output pipes keeps Execute in Wait although the
   whole group is dead (the property does not ask for its death, but does ask for the return): known finding. *)
Theorem outside_holder_refuted : exists t sched,
  let s := run G (init SExecute KCtx t) sched in
  terminal G s /\ fired s = true /\ no_ingroup_alive (tbl s) = true /\ ~ good s.
Proof.
  exists away_tree, [LMain; LMain; LProc 0; LUser; LWatch; LRunWatch; LMain; LMon; LMon].
  cbv zeta. repeat split; try (vm_compute; reflexivity).
  - intros l; destruct l; try (vm_compute; reflexivity). destruct i as [|[|[|i]]]; vm_compute; reflexivity.
  - intros (_ & C & _). vm_compute in C. discriminate.
Qed.
Print Assumptions outside_holder_refuted.

(* The exception is exactly: *)
Example supported_table : map (fun sm => map (supported sm) [KCtx; KDeadline; KCancel; KStop; KRestart]) [SExecute; SStart; SSupervisor]
  = [[true; true; true; false; false]; [true; true; true; true; true]; [true; true; true; false; false]].
Proof. reflexivity. Qed.

(* Non-vacuity: for the tree of D17 (sh -c "sleep & sleep & wait") under Execute + context cancel the canonical schedule
   does reach a terminal state with the request issued — and it is good, within the bound. *)
Example c05_nonvacuous :
  let t := T false true false false [leaf_tree; leaf_tree] in
  let s := run G (init SExecute KCtx t) (canonical t 3) in
  no_outside_holder t = true /\ terminal G s /\ fired s = true /\ survivors (tbl s) = 0 /\ call_returned s = true /\ is_on s = false.
Proof.
  cbv zeta. repeat split; try (vm_compute; reflexivity).
  intros l; destruct l; try (vm_compute; reflexivity). destruct i as [|[|[|[|i]]]]; vm_compute; reflexivity.
Qed.

Example c05_nonvacuous_start_stop :
  let t := T false true false true [leaf_tree; T true false false false [leaf_tree]] in   (* parent exits first; a TERM-ignoring, redirected child *)
  let s := run G (init SStart KStop t) (canonical t 4) in
  no_outside_holder t = true /\ terminal G s /\ fired s = true /\ survivors (tbl s) = 0 /\ call_returned s = true /\ is_on s = false.
Proof.
  cbv zeta. repeat split; try (vm_compute; reflexivity).
  intros l; destruct l; try (vm_compute; reflexivity). destruct i as [|[|[|[|[|i]]]]]; vm_compute; reflexivity.
Qed.

(* ... and the re-check is what it hangs on: the same Start() without it lets two callers that entered together spawn twice *)
Example start_without_recheck_spawns_twice :
  let F' := mkFacts (g_setpgid G) (g_cancel_hook G) (g_waitdelay G) (g_killgroup G) (g_run G) (g_stop G) (g_cancel G)
                    (g_stop_outer G) (g_execute G) (g_monitor G)
                    [TIfOnReturn; TLock; TDeferUnlock; TCheck; TRetIfErr; TReset; TRunMonitoring; TGetCmd; TCmdStart; TRunningTrue; TReturn]
                    (g_check_pure G) in
  start_locks F' = true /\ start_rechecks F' = false /\ a_count (a_run F' a_init [0; 1; 0; 0; 0; 1; 1; 1]) = 2.
Proof. vm_compute. repeat split; reflexivity. Qed.
