From Coq Require Import List ZArith Bool Lia.
Import ListNotations.
From GU Require Import C20.Model.

Lemma feed_all_data : forall s a, all_data s = true -> feed a s = (a ++ delivered s, Success).
Proof.
  induction s as [|e s IH]; intros a H; simpl.
  - now rewrite app_nil_r.
  - destruct e; simpl in H; try discriminate. rewrite IH by exact H. now rewrite app_assoc.
Qed.

Lemma feed_success_delivered : forall s a a', feed a s = (a', Success) -> a' = a ++ delivered s /\ all_data s = true.
Proof.
  induction s as [|e s IH]; intros a a' H; simpl in *.
  - inversion H; subst. now rewrite app_nil_r.
  - destruct e; try discriminate. apply IH in H as [-> Hd]. now rewrite app_assoc.
Qed.

Lemma feed_prefix : forall s a a' o, feed a s = (a', o) -> a' = a ++ delivered s.
Proof.
  induction s as [|e s IH]; intros a a' o H; simpl in *.
  - inversion H; subst. now rewrite app_nil_r.
  - destruct e.
    + apply IH in H. subst. now rewrite app_assoc.
    + inversion H; subst; reflexivity.
    + inversion H; subst. now rewrite app_nil_r.
Qed.

(* with the reset at the start, the state left by any history is irrelevant *)
Lemma calc_reset_ignores_state st s : calc true st s = calc true [] s.
Proof. reflexivity. Qed.

Lemma history_independent_l hist s content :
  feed [] s = (content, Success) ->
  fst (calc true (run_hist true [] hist) s) = Some content.
Proof. intros H. unfold calc. now rewrite H. Qed.

Lemma chunking_independent_l st1 st2 s1 s2 :
  all_data s1 = true -> all_data s2 = true -> delivered s1 = delivered s2 ->
  fst (calc true st1 s1) = fst (calc true st2 s2) /\ fst (calc true st1 s1) = Some (delivered s1).
Proof.
  intros H1 H2 E. unfold calc. rewrite !feed_all_data by assumption. simpl. now rewrite E.
Qed.

Lemma success_digests_delivered st s d :
  fst (calc true st s) = Some d -> d = delivered s /\ all_data s = true.
Proof.
  unfold calc. destruct (feed [] s) as [a o] eqn:E. destruct o; simpl; try discriminate.
  intros H; inversion H; subst. apply feed_success_delivered in E. simpl in E. exact E.
Qed.

(* without the reset (the code before the fix) a failed calculation poisons the next one *)
Lemma no_reset_refuted :
  exists hist s, all_data s = true /\
    fst (calc false (run_hist false [] hist) s) <> Some (delivered s).
Proof.
  exists [[DataErr [1%Z]]], [Data [2%Z]]. split; [reflexivity|]. simpl. discriminate.
Qed.

(* after ANY calculation with the reset-first code the next one starts clean; after a success the object is empty *)
Lemma state_after_success rf st s d : fst (calc rf st s) = Some d -> snd (calc rf st s) = [].
Proof. unfold calc. destruct (feed _ s) as [a o]; destruct o; simpl; congruence. Qed.

Lemma file_hash_is_content_hash_l st c chunking :
  all_data (chunking c) = true -> delivered (chunking c) = c ->
  fst (file_calc true st (FFile c) chunking) = Some c.
Proof. intros H1 H2. simpl. unfold calc. rewrite feed_all_data by assumption. simpl. now rewrite H2. Qed.

(* ---- the generated bodies (Gen.v) are the model ---- *)
From GU Require Import C20.Gen.

Lemma generated_calc_is_calc st s : gen_calc calculate_body st s = calc true st s.
Proof.
  unfold gen_calc, calculate_body, calc. cbn [exec].
  destruct (feed [] s) as [a o]. destruct o; reflexivity.
Qed.

Lemma generated_run_hist hist : forall st, run_hist_body calculate_body st hist = run_hist true st hist.
Proof.
  induction hist as [|s r IH]; intros st; [reflexivity|].
  cbn [run_hist_body run_hist]. rewrite generated_calc_is_calc. apply IH.
Qed.

Lemma generated_file_calc_is_file_calc st n chunking :
  gen_file_calc calculate_file_body calculate_body st n chunking = file_calc true st n chunking.
Proof.
  unfold gen_file_calc, calculate_file_body, file_calc.
  destruct n as [c| |]; cbn [fexec]; [apply generated_calc_is_calc | reflexivity | reflexivity].
Qed.

(* ---- back ends whose handles share a reading position ---- *)
Lemma sh_step_content rw f o : sh_content (sh_step rw f o) = sh_content f.
Proof. destruct o; destruct rw; reflexivity. Qed.

Lemma sh_run_content rw ops : forall f, sh_content (fold_left (sh_step rw) ops f) = sh_content f.
Proof.
  induction ops as [|o r IH]; intros f; [reflexivity|].
  cbn [fold_left]. rewrite IH. apply sh_step_content.
Qed.

Lemma sh_rewound_handle_delivers_content f : fst (sh_read_all (sh_open true f)) = sh_content f.
Proof. unfold sh_read_all, sh_read, sh_open. cbn. apply firstn_all. Qed.

(* without the rewind: after one complete read nothing is left for the next handle *)
Lemma sh_unrewound_refuted :
  exists c, c <> [] /\ fst (sh_read_all (sh_open false (sh_step false (mkSh c 0) ShHash))) = [].
Proof. exists [1%Z; 2%Z]. split; [discriminate | reflexivity]. Qed.

(* ---- the string entry point is a calculation over the one-chunk reader of the text ---- *)
Lemma generated_string_hash_is_calc st text :
  gen_string_hash string_hash_body calculate_body st text = calc true st [Data text].
Proof.
  unfold gen_string_hash, string_hash_body. cbn [sexec]. rewrite generated_calc_is_calc.
  destruct (calc true st [Data text]) as [[d|] st'] eqn:E; reflexivity.
Qed.
