(* C20 — executable model of hashing.hashingAlgo.CalculateWithContext (utils/hashing/hash.go:44-56) and of
   filesystem.fileHashing.calculateFile (utils/filesystem/filehash.go:44-59).
   The underlying hash.Hash is an ABSORBING MACHINE: Write appends to the absorbed bytes, Sum reads them,
   Reset empties them.  The model's output is the byte string that gets digested, so no hash function has to be
   implemented in Coq: digest = H(absorbed) for an arbitrary H (a Section variable in Proofs.v). *)
From Coq Require Import List ZArith Bool.
Import ListNotations.

(* What the reader handed to the calculation does, read by read (io.Copy loop through the contextio wrappers):
   [Data b]        Read returns b, nil            -> b is written to the hash
   [DataErr b]     Read returns b, some error     -> io.Copy writes b, then stops with the error
   [CancelDuring b] the context ends during this Read -> the contextual writer refuses b; copy stops (cancelled)
   end of list     Read returns 0, io.EOF         -> success *)
Inductive ev := Data (b : list Z) | DataErr (b : list Z) | CancelDuring (b : list Z).
Inductive outcome := Success | Failed | Cancelled.

Fixpoint feed (absorbed : list Z) (s : list ev) : list Z * outcome :=
  match s with
  | [] => (absorbed, Success)
  | Data b :: r => feed (absorbed ++ b) r
  | DataErr b :: _ => (absorbed ++ b, Failed)
  | CancelDuring _ :: _ => (absorbed, Cancelled)
  end.

(* CalculateWithContext.  [reset_first] = the hash is Reset before copying (true for the repaired code,
   false for the code before the fix, where Reset happened on the success path only). *)
Definition calc (reset_first : bool) (st : list Z) (s : list ev) : option (list Z) * list Z :=
  let st0 := if reset_first then [] else st in
  match feed st0 s with
  | (a, Success) => (Some a, [])       (* hex(Sum(nil)) of the absorbed bytes; then Reset *)
  | (a, _) => (None, a)                (* error path: whatever was absorbed stays in the object *)
  end.

(* a history of earlier calculations on the same hasher object *)
Fixpoint run_hist (reset_first : bool) (st : list Z) (hist : list (list ev)) : list Z :=
  match hist with
  | [] => st
  | s :: r => run_hist reset_first (snd (calc reset_first st s)) r
  end.

(* bytes a script delivers to the hasher, in order *)
Fixpoint delivered (s : list ev) : list Z :=
  match s with
  | [] => []
  | Data b :: r => b ++ delivered r
  | DataErr b :: _ => b
  | CancelDuring _ :: _ => []
  end.

Definition all_data (s : list ev) : bool := forallb (fun e => match e with Data _ => true | _ => false end) s.

(* file hashing: IsFile, open, hash the bytes read from the handle, close *)
Inductive fnode := FFile (content : list Z) | FDir | FMissing.
Definition file_calc (reset_first : bool) (st : list Z) (n : fnode) (chunking : list Z -> list ev) : option (list Z) * list Z :=
  match n with
  | FFile c => calc reset_first st (chunking c)
  | _ => (None, st)
  end.

(* ------------------------------------------------------------------------------------------------
   The statement-level IR into which translator-c20/cmd/hash2coq translates the bodies of
   hashingAlgo.CalculateWithContext and fileHashing.calculateFile on every run (coq/C20/Gen.v), and its
   interpreter over the absorbing machine.  The property theorems are stated about the GENERATED bodies. *)
Inductive stmt :=
  | SNilCheck        (* if r == nil { err = ErrUndefined; return }     (readers of the model are non-nil) *)
  | SReset           (* h.Hash.Reset() *)
  | SCopy            (* _, err = safeio.CopyDataWithContext(ctx, r, h.Hash) *)
  | SReturnIfErr     (* if err != nil { return } *)
  | SSumHex          (* hashN = hex.EncodeToString(h.Hash.Sum(nil)) *)
  | SReturn.         (* return  (named results) *)

(* st: absorbed bytes of the hash object; err: the named result err is non-nil; res: the named result hashN *)
Fixpoint exec (body : list stmt) (st : list Z) (err : bool) (res : option (list Z)) (s : list ev)
  : option (list Z) * list Z :=
  match body with
  | [] => ((if err then None else res), st)
  | SNilCheck :: b => exec b st err res s
  | SReset :: b => exec b [] err res s
  | SCopy :: b => let '(a, o) := feed st s in
                  exec b a (match o with Success => false | _ => true end) res s
  | SReturnIfErr :: b => if err then (None, st) else exec b st err res s
  | SSumHex :: b => exec b st err (Some st) s
  | SReturn :: _ => ((if err then None else res), st)
  end.

Definition gen_calc (body : list stmt) (st : list Z) (s : list ev) : option (list Z) * list Z :=
  exec body st false None s.

Fixpoint run_hist_body (body : list stmt) (st : list Z) (hist : list (list ev)) : list Z :=
  match hist with
  | [] => st
  | s :: r => run_hist_body body (snd (gen_calc body st s)) r
  end.

Inductive fstmt :=
  | FIsFile                        (* ok, err := fs.IsFile(path) *)
  | FRejectNonFile                 (* if err != nil || !ok { ... return "", err } *)
  | FOpen                          (* f, err := fs.GenericOpen(path) *)
  | FReturnIfErr                   (* if err != nil { return "", err } *)
  | FDeferCloseIgnoringItsError    (* defer func() { _ = f.Close() }() *)
  | FHashOpenedHandle.             (* return hashFunc(h, f)   with hashFunc = Calculate[WithContext] of the same object *)

(* isfile: result of the IsFile test once made; handle: content readable through the opened handle *)
Fixpoint fexec (fbody : list fstmt) (body : list stmt) (st : list Z) (n : fnode) (chunking : list Z -> list ev)
         (isfile : option bool) (handle : option (list Z)) : option (list Z) * list Z :=
  match fbody with
  | [] => (None, st)
  | FIsFile :: b => fexec b body st n chunking (Some (match n with FFile _ => true | _ => false end)) handle
  | FRejectNonFile :: b => match isfile with
                           | Some true => fexec b body st n chunking isfile handle
                           | _ => (None, st)
                           end
  | FOpen :: b => fexec b body st n chunking isfile (match n with FFile c => Some c | _ => None end)
  | FReturnIfErr :: b => match handle with
                         | Some _ => fexec b body st n chunking isfile handle
                         | None => (None, st)
                         end
  | FDeferCloseIgnoringItsError :: b => fexec b body st n chunking isfile handle
  | FHashOpenedHandle :: _ => match handle with
                              | Some c => gen_calc body st (chunking c)
                              | None => (None, st)
                              end
  end.

Definition gen_file_calc (fbody : list fstmt) (body : list stmt) st n chunking := fexec fbody body st n chunking None None.

(* --- the string entry points: hashing.CalculateStringHash(hasher, text) (and CalculateHash / CalculateMD5Hash, which
   build a fresh hasher and call it) — translated statement by statement like the two functions above.  The result "" of
   the Go function (nil hasher, or the calculation failed) is None here. *)
Inductive sstmt :=
  | SSNilHasher          (* if hashingAlgo == nil { return "" }                   (hashers of the model are non-nil) *)
  | SSCalcStringReader   (* hash, err := hashingAlgo.Calculate(strings.NewReader(text)) *)
  | SSEmptyOnErr         (* if err != nil { return "" } *)
  | SSReturnHash.        (* return hash *)

Fixpoint sexec (sb : list sstmt) (body : list stmt) (st : list Z) (text : list Z)
         (res : option (option (list Z) * list Z)) : option (list Z) * list Z :=
  match sb with
  | [] => (None, match res with Some r => snd r | None => st end)
  | SSNilHasher :: b => sexec b body st text res
  | SSCalcStringReader :: b => sexec b body st text (Some (gen_calc body st [Data text]))
  | SSEmptyOnErr :: b => match res with
                         | Some (None, st') => (None, st')
                         | _ => sexec b body st text res
                         end
  | SSReturnHash :: _ => match res with Some r => r | None => (None, st) end
  end.

Definition gen_string_hash (sb : list sstmt) (body : list stmt) (st : list Z) (text : list Z) := sexec sb body st text None.

(* --- back ends whose handles of one file SHARE a reading position ---
   afero's tarfs copies its file object on Open: every handle of a file reads through the same reader, so the bytes a
   handle sees are those nobody has consumed yet — unless the handle is rewound when it is opened.  [sh_pos] = number of
   bytes already consumed through any handle of the file. *)
Record shfile := mkSh { sh_content : list Z; sh_pos : nat }.

Inductive shop :=
  | ShRead (k : nat)      (* an earlier user opens the file and reads k bytes of it (ReadFile: all of them) *)
  | ShHash.               (* an earlier hash calculation of the same file *)

Definition sh_open (rewinds : bool) (f : shfile) : shfile := if rewinds then mkSh (sh_content f) 0 else f.

Definition sh_read (k : nat) (f : shfile) : list Z * shfile :=
  let got := firstn k (skipn (sh_pos f) (sh_content f)) in
  (got, mkSh (sh_content f) (sh_pos f + length got)).

Definition sh_read_all (f : shfile) : list Z * shfile := sh_read (length (sh_content f)) f.

Definition sh_step (rewinds : bool) (f : shfile) (o : shop) : shfile :=
  match o with
  | ShRead k => snd (sh_read k (sh_open rewinds f))
  | ShHash => snd (sh_read_all (sh_open rewinds f))
  end.

(* hashing the file: calculateFile opens a handle and hashes what that handle delivers up to its end *)
Definition sh_file_hash (rewinds : bool) (fbody : list fstmt) (body : list stmt) (st : list Z) (f : shfile)
           (chunking : list Z -> list ev) : option (list Z) * list Z :=
  gen_file_calc fbody body st (FFile (fst (sh_read_all (sh_open rewinds f)))) chunking.

(* --- correspondence ---
   The harness runs a history and then a final successful calculation on the real hasher (six algorithms) and
   searches the smallest L such that  observed digest = reference digest (last L bytes ever delivered before ++ content).
   [c_obs_L] = Some L, or None when no L matches / the call failed. *)
Record case := mkCase {
  c_hist : list (list ev);
  c_final : list ev;
  c_obs_L : option Z
}.

Fixpoint list_eqb (a b : list Z) : bool :=
  match a, b with
  | [], [] => true
  | x :: xs, y :: ys => Z.eqb x y && list_eqb xs ys
  | _, _ => false
  end.

Definition check_case (c : case) : bool :=
  let st := run_hist true [] (c_hist c) in
  let prev := flat_map delivered (c_hist c) in
  match fst (calc true st (c_final c)), c_obs_L c with
  | Some digested, Some L =>
      list_eqb digested (skipn (length prev - Z.to_nat L) prev ++ delivered (c_final c))
  | None, None => true
  | _, _ => false
  end.
