(* C20 — A digest depends only on the algorithm and the bytes.
   digest = H (bytes digested) for the algorithm's function H; the theorems determine the bytes digested. *)
From Coq Require Import List ZArith Bool.
Import ListNotations.
From GU Require Import C20.Model C20.Gen C20.Proofs.

Section WithH.
Variable D : Type.
Variable H : list Z -> D.     (* the reference digest function of the selected algorithm *)

Definition digest_of (r : option (list Z) * list Z) : option D := option_map H (fst r).

(* For EVERY history of earlier calculations on the same hasher (successful, failed at byte k, cancelled at byte k —
   any number, any scripts), every content and every chunking of the reader: a successful calculation returns
   H(content). *)
Theorem digest_history_independent : forall (hist : list (list ev)) (chunks : list ev) (content : list Z),
  all_data chunks = true -> delivered chunks = content ->
  digest_of (calc true (run_hist true [] hist) chunks) = Some (H content).
Proof.
  intros hist chunks content Hd Hc. unfold digest_of.
  rewrite (history_independent_l hist chunks content); [reflexivity|].
  rewrite feed_all_data by exact Hd. now rewrite Hc.
Qed.

Theorem digest_chunking_independent : forall st1 st2 s1 s2,
  all_data s1 = true -> all_data s2 = true -> delivered s1 = delivered s2 ->
  digest_of (calc true st1 s1) = digest_of (calc true st2 s2).
Proof. intros. unfold digest_of. now destruct (chunking_independent_l st1 st2 s1 s2) as [-> _]. Qed.

(* a calculation that reports a digest has seen the whole stream and nothing else (no digest of a partial read) *)
Theorem digest_only_of_complete_stream : forall st s d,
  fst (calc true st s) = Some d -> d = delivered s /\ all_data s = true.
Proof. exact success_digests_delivered. Qed.

Theorem file_hash_is_content_hash : forall st c chunking,
  all_data (chunking c) = true -> delivered (chunking c) = c ->
  digest_of (file_calc true st (FFile c) chunking) = Some (H c).
Proof. intros. unfold digest_of. now rewrite file_hash_is_content_hash_l. Qed.

(* ---- The same statements about the code AS TRANSLATED FROM THE SOURCE on this run (coq/C20/Gen.v: the bodies of
   hashingAlgo.CalculateWithContext and fileHashing.calculateFile as statement lists).  An edit of those functions
   changes [calculate_body] / [calculate_file_body] (or makes the translator fail), so these are re-proved against
   what the code says now. *)
Theorem generated_digest_history_independent : forall (hist : list (list ev)) (chunks : list ev) (content : list Z),
  all_data chunks = true -> delivered chunks = content ->
  digest_of (gen_calc calculate_body (run_hist_body calculate_body [] hist) chunks) = Some (H content).
Proof.
  intros hist chunks content Hd Hc. rewrite generated_calc_is_calc, generated_run_hist.
  now apply digest_history_independent.
Qed.

Theorem generated_digest_only_of_complete_stream : forall st s d,
  fst (gen_calc calculate_body st s) = Some d -> d = delivered s /\ all_data s = true.
Proof. intros st s d. rewrite generated_calc_is_calc. apply success_digests_delivered. Qed.

Theorem generated_file_hash_is_content_hash : forall st c chunking,
  all_data (chunking c) = true -> delivered (chunking c) = c ->
  digest_of (gen_file_calc calculate_file_body calculate_body st (FFile c) chunking) = Some (H c).
Proof. intros. rewrite generated_file_calc_is_file_calc. now apply file_hash_is_content_hash. Qed.

(* a path that is not a regular file yields an error and leaves the hasher untouched *)
Theorem generated_file_hash_rejects_non_files : forall st n chunking,
  match n with FFile _ => False | _ => True end ->
  gen_file_calc calculate_file_body calculate_body st n chunking = (None, st).
Proof. intros st n chunking Hn. destruct n; [destruct Hn| |]; reflexivity. Qed.

(* The string entry point CalculateStringHash(hasher, text) AS TRANSLATED FROM THE SOURCE (Gen.v string_hash_body; the
   translator also checks that CalculateHash / CalculateMD5Hash build a fresh hasher and call it, and that hashingAlgo has
   no method besides CalculateWithContext / Calculate / GetType through which a digest could be computed another way):
   after every history on the same hasher it returns H(text). *)
Theorem generated_string_hash_history_independent : forall (hist : list (list ev)) (text : list Z),
  digest_of (gen_string_hash string_hash_body calculate_body (run_hist_body calculate_body [] hist) text) = Some (H text).
Proof.
  intros hist text. rewrite generated_string_hash_is_calc, generated_run_hist.
  apply digest_history_independent; [reflexivity | apply app_nil_r].
Qed.

(* "... on every filesystem backend": a back end whose handles of one file share a reading position (the tar file system:
   afero's tarfs).  Whatever was read from the file before — any list of earlier partial reads, complete reads and hash
   calculations — the hash of the file is H of ALL its bytes, because the library's tar adapter hands out rewound handles:
   [tar_open_rewinds] is regenerated from utils/filesystem/tarfs.go on every run (Gen.v). *)
Theorem generated_file_hash_on_shared_handle_backend : forall (ops : list shop) (f : shfile) st chunking,
  (forall c, all_data (chunking c) = true /\ delivered (chunking c) = c) ->
  digest_of (sh_file_hash tar_open_rewinds calculate_file_body calculate_body st
               (fold_left (sh_step tar_open_rewinds) ops f) chunking) = Some (H (sh_content f)).
Proof.
  intros ops f st chunking Hc. change tar_open_rewinds with true. unfold sh_file_hash.
  rewrite sh_rewound_handle_delivers_content, sh_run_content.
  destruct (Hc (sh_content f)) as [H1 H2]. now apply generated_file_hash_is_content_hash.
Qed.

End WithH.
Print Assumptions generated_file_hash_on_shared_handle_backend.
Print Assumptions generated_string_hash_history_independent.
Print Assumptions digest_history_independent.
Print Assumptions digest_chunking_independent.
Print Assumptions digest_only_of_complete_stream.
Print Assumptions file_hash_is_content_hash.
Print Assumptions generated_digest_history_independent.
Print Assumptions generated_digest_only_of_complete_stream.
Print Assumptions generated_file_hash_is_content_hash.
Print Assumptions generated_file_hash_rejects_non_files.

(* The code before the fix (Reset on the success path only) violates the property: kept as documentation of the
   defect that was repaired (known_findings.json, "fixed"); the harness replays this witness on every run. *)
Theorem digest_after_failure_refuted_without_reset :
  exists hist s, all_data s = true /\ fst (calc false (run_hist false [] hist) s) <> Some (delivered s).
Proof. exact no_reset_refuted. Qed.
Print Assumptions digest_after_failure_refuted_without_reset.

(* Handles that are NOT rewound (the tar adapter before its repair, known_findings.json "fixed"): after one hash
   calculation the next handle of the same file delivers nothing, the "hash of the file" is H of the empty content. *)
Theorem file_hash_on_shared_handle_backend_refuted_without_rewind :
  exists c, c <> [] /\ fst (sh_read_all (sh_open false (sh_step false (mkSh c 0) ShHash))) = [].
Proof. exact sh_unrewound_refuted. Qed.
Print Assumptions file_hash_on_shared_handle_backend_refuted_without_rewind.

Example c20_shared_handle_nonvacuous :
  fst (sh_file_hash tar_open_rewinds calculate_file_body calculate_body [9]%Z
         (fold_left (sh_step tar_open_rewinds) [ShRead 1; ShHash; ShRead 5] (mkSh [4;5;6]%Z 0)) (fun c => [Data c]))
  = Some [4;5;6]%Z.
Proof. reflexivity. Qed.

Example c20_nonvacuous :
  fst (calc true (run_hist true [] [[Data [1;2]%Z; DataErr [3]%Z]; [CancelDuring [9]%Z]; [Data [7]%Z]])
            [Data [4]%Z; Data []; Data [5;6]%Z]) = Some [4;5;6]%Z.
Proof. reflexivity. Qed.
