(* C01 — the FACTS of utils/filesystem/lockfile.go that the model depends on.  A value of [lockfacts] is regenerated from
   the source on every run (translator-c01/cmd/lock2coq -> coq/C01/Gen.v); the model (Model.v) is parameterised by it,
   the theorems are proved for every record satisfying the conditions below and instantiated with the generated one. *)
From Coq Require Import List Bool Arith.
Import ListNotations.

Inductive mkdir_kind := MkExclusive | MkAll.                 (* fs.vfs.Mkdir / MkdirAll (or fs.MkDir) *)
Inductive errk := EExists | ELocked | EStaleLock | ETimeout | ECancelled | EOtherErr.   (* commonerrors sentinels *)
Inductive cmpop := OpGt | OpGe | OpLt | OpLe.
Inductive period_field := PHeartBeat | PPoll.                (* l.lockHeartBeatPeriod / l.timeBetweenLockTries *)
Inductive release_kind := RelIfStale | RelUnlock.            (* what the override branch of TryLock calls *)
Inductive hbstmt :=                                          (* statements of the heartBeat loop *)
| HCtxCheckReturn           (* if err := DetermineContextError(ctx); err != nil { return } *)
| HNow                      (* now := time.Now() *)
| HWriteIgnoreErr           (* _ = fs.WriteFile(filepath, ...) *)
| HWriteReturnOnErr         (* if err := fs.WriteFile(...); err != nil { return } *)
| HChtimesIgnoreErr         (* _ = fs.Chtimes(filepath, now, now) *)
| HSleepPeriodMinusMs (ms : nat).   (* parallelisation.SleepWithContext(ctx, period - ms*time.Millisecond) *)

Record lockfacts := {
  (* NewGenericRemoteLockFile *)
  poll_ms : nat;                       (* timeBetweenLockTries *)
  hb_period_ms : nat;                  (* lockHeartBeatPeriod *)
  (* TryLock *)
  tl_ctx_check_first : bool;
  tl_mkdir : mkdir_kind;
  tl_held_error : errk;                (* the error kind that means "somebody holds it" *)
  tl_stale_test_is_IsStale : bool;     (* the held branch asks l.IsStale() (not negated) *)
  tl_override_flag_positive : bool;    (* if l.overrideStaleLock (not negated) *)
  tl_override_call : release_kind;
  tl_override_retries_trylock : bool;  (* err = l.TryLock(ctx); return err *)
  tl_stale_no_override_result : errk;
  tl_not_stale_result : errk;
  tl_other_error_returned : bool;      (* if err != nil { return } after the held branch *)
  tl_chtimes_dir : bool;
  tl_hb_after_error_checks : bool;     (* the heartbeat is started only after the two error tests *)
  tl_hb_ctx_with_cancel_of_ctx : bool; (* subctx, cancel := context.WithCancel(ctx); go heartBeat(subctx, ...) *)
  tl_hb_cancel_registered : bool;      (* l.cancelStore.RegisterCancelFunction(cancel) *)
  tl_hb_period : period_field;
  tl_hb_file_from_id : bool;           (* <lockPath>/<l.id>.lock *)
  tl_success_returns_nil : bool;
  (* ReleaseIfStale *)
  ris_rechecks_stale : bool;           (* if l.IsStale() { return l.Unlock(ctx) }; return nil *)
  (* IsStale / areHeartBeatFilesAllStale / isStale *)
  is_ls_error_stale : bool;
  is_empty_test_len_zero : bool;
  is_empty_stat_error_stale : bool;
  is_empty_period : period_field;
  is_files_period : period_field;
  is_file_stat_error_stale : bool;
  is_files_all : bool;                 (* collection.All *)
  thr_nil_stale : bool;
  thr_op : cmpop;                      (* time.Since(ModTime).Milliseconds() OP mult * period.Milliseconds() *)
  thr_mult : nat;
  thr_ms_both_sides : bool;
  (* Lock *)
  lk_ctx_check_first : bool;
  lk_retry_error : errk;
  lk_success_returns_nil : bool;
  lk_other_returns_err : bool;
  (* LockWithTimeout *)
  lwt_runs_lock_with_cancel_store : bool;
  lwt_unlock_on_timeout : bool;
  (* parallelisation.RunActionWithTimeoutAndCancelStore *)
  lwt_registers_cancels_in_store : bool;   (* store.RegisterCancelFunction(timeoutCancel) and (actionCancel) *)
  lwt_timeout_cancels_store : bool;        (* timeout branch: store.Cancel() instead of actionCancel(); timeoutCancel() *)
  lwt_success_keeps_action_context : bool; (* the success path does not cancel the action's context (the heartbeat's parent) *)
  (* Unlock *)
  ul_cancel_first : bool;
  ul_rm_lockpath : bool;
  ul_rm_error_retried : bool;
  ul_recheck_exists : bool;
  ul_attempts : nat;
  ul_retry_context : bool;
  (* heartBeat *)
  hb_body : list hbstmt;
  (* files.go VFS.Exists / checkDirExists *)
  ex_stat_error_means_absent : bool;   (* Exists answers false whenever its Stat fails, whatever the error *)
  ex_dir_double_check : bool;          (* a directory is confirmed by checkDirExists (Open + Readdirnames(1)) *)
  ex_open_error_means_absent : bool;
  ex_readdir_error_other_than_notexist_means_present : bool;
  (* files.go removeWithExclusionPatterns *)
  rm_lstat_failure_fails : bool }.    (* a failed Lstat (other than "does not exist") makes the removal fail, nothing is removed *)

(* what the hand-written parts of the model and of the harness assume *)
Definition expected_facts : lockfacts := {|
  poll_ms := 10; hb_period_ms := 50;
  tl_ctx_check_first := true; tl_mkdir := MkExclusive; tl_held_error := EExists; tl_stale_test_is_IsStale := true;
  tl_override_flag_positive := true; tl_override_call := RelIfStale; tl_override_retries_trylock := true;
  tl_stale_no_override_result := EStaleLock; tl_not_stale_result := ELocked; tl_other_error_returned := true;
  tl_chtimes_dir := true; tl_hb_after_error_checks := true; tl_hb_ctx_with_cancel_of_ctx := true;
  tl_hb_cancel_registered := true; tl_hb_period := PHeartBeat; tl_hb_file_from_id := true; tl_success_returns_nil := true;
  ris_rechecks_stale := true;
  is_ls_error_stale := false; is_empty_test_len_zero := true; is_empty_stat_error_stale := false;
  is_empty_period := PHeartBeat; is_files_period := PHeartBeat; is_file_stat_error_stale := false; is_files_all := true;
  thr_nil_stale := false; thr_op := OpGt; thr_mult := 2; thr_ms_both_sides := true;
  lk_ctx_check_first := true; lk_retry_error := ELocked; lk_success_returns_nil := true; lk_other_returns_err := true;
  lwt_runs_lock_with_cancel_store := true; lwt_unlock_on_timeout := false;
  lwt_registers_cancels_in_store := true; lwt_timeout_cancels_store := false; lwt_success_keeps_action_context := true;
  ul_cancel_first := true; ul_rm_lockpath := true; ul_rm_error_retried := true; ul_recheck_exists := true;
  ul_attempts := 10; ul_retry_context := true;
  hb_body := [HCtxCheckReturn; HNow; HWriteIgnoreErr; HChtimesIgnoreErr; HSleepPeriodMinusMs 1];
  ex_stat_error_means_absent := true; ex_dir_double_check := true; ex_open_error_means_absent := true;
  ex_readdir_error_other_than_notexist_means_present := true; rm_lstat_failure_fails := true |}.

Scheme Equality for mkdir_kind.
Scheme Equality for errk.
Scheme Equality for cmpop.
Scheme Equality for period_field.
Scheme Equality for release_kind.

(* ---------- staleness arithmetic (lockfile.go isStale) ---------- *)
Definition period_of (F : lockfacts) (p : period_field) : nat :=
  match p with PHeartBeat => hb_period_ms F | PPoll => poll_ms F end.

Definition cmp (o : cmpop) (a b : nat) : bool :=
  match o with OpGt => Nat.ltb b a | OpGe => Nat.leb b a | OpLt => Nat.ltb a b | OpLe => Nat.leb a b end.

(* isStale(info, period) for a time stamp that is [age] ms old *)
Definition thr (F : lockfacts) (p : period_field) (age : nat) : bool := cmp (thr_op F) age (thr_mult F * period_of F p).

(* the canonical verdict the harness, the ghost windows and the oracle hypothesis use: older than 2 x 50 ms *)
Definition canon (age : nat) : bool := Nat.ltb 100 age.

(* the code's verdict "stale" on the field p implies the canonical one *)
Definition thr_sound (F : lockfacts) (p : period_field) : bool :=
  match thr_op F with
  | OpGt => Nat.leb 100 (thr_mult F * period_of F p)
  | OpGe => Nat.leb 101 (thr_mult F * period_of F p)
  | _ => false
  end.

Definition hb_stops_on_write_error (F : lockfacts) : bool :=
  existsb (fun s => match s with HWriteReturnOnErr => true | _ => false end) (hb_body F).

(* ---------- the conditions the theorems need ---------- *)
(* an acquire reports success only through a successful exclusive mkdir of the same call *)
Definition cond_acquire (F : lockfacts) : bool :=
  mkdir_kind_beq (tl_mkdir F) MkExclusive && errk_beq (tl_held_error F) EExists && tl_other_error_returned F &&
  tl_hb_after_error_checks F && tl_success_returns_nil F && tl_override_retries_trylock F &&
  errk_beq (lk_retry_error F) ELocked && lk_success_returns_nil F && lk_other_returns_err F &&
  lwt_runs_lock_with_cancel_store F.

(* the lock directory is removed only inside an Unlock call or after a time stamp older than two periods was read *)
Definition cond_release (F : lockfacts) : bool :=
  negb (lwt_unlock_on_timeout F) && tl_stale_test_is_IsStale F && tl_override_flag_positive F &&
  negb (is_ls_error_stale F) && negb (is_empty_stat_error_stale F) && negb (is_file_stat_error_stale F) &&
  negb (thr_nil_stale F) && thr_ms_both_sides F &&
  thr_sound F (is_empty_period F) && thr_sound F (is_files_period F).

(* the verdict of the code IS "older than 100 ms" *)
Definition cond_threshold (F : lockfacts) : bool :=
  cmpop_beq (thr_op F) OpGt && Nat.eqb (thr_mult F * hb_period_ms F) 100 &&
  period_field_beq (is_empty_period F) PHeartBeat && period_field_beq (is_files_period F) PHeartBeat && thr_ms_both_sides F.

(* a holder's heartbeat writer is ended by an Unlock on its lock object (or the death of the process) and by nothing
   else: a timed-out LockWithTimeout on the same object cancels only its own contexts, a successful one keeps the context
   its heartbeat derives from, the heartbeat loop goes on after a failed write and checks its context once per period *)
Definition cond_heartbeat (F : lockfacts) : bool :=
  negb (lwt_timeout_cancels_store F) && lwt_success_keeps_action_context F && negb (lwt_unlock_on_timeout F) &&
  negb (hb_stops_on_write_error F) && tl_hb_ctx_with_cancel_of_ctx F && tl_hb_cancel_registered F.

(* the existence test the model's [exists_] mirrors: a failed Stat / Open means absent, a failed Readdirnames other than
   "does not exist" means present *)
Definition cond_exists (F : lockfacts) : bool :=
  ex_stat_error_means_absent F && ex_dir_double_check F && ex_open_error_means_absent F &&
  ex_readdir_error_other_than_notexist_means_present F.
