(* C01 — a live holder's heartbeat writer keeps running: which events end it.  With several API threads sharing ONE
   lock object (one cancel store), a timed-out LockWithTimeout / any failed acquire on the object does not end it. *)
From Coq Require Import List Bool Arith Lia.
Import ListNotations.
From GU Require Import C01.Facts C01.Model C01.Proofs.

Lemma nth_set_nth_other {A} (l : list A) o o' v d : o <> o' -> nth o' (set_nth l o v) d = nth o' l d.
Proof. revert o o'; induction l as [|h t IH]; intros [|o] [|o'] H; simpl; auto; try congruence. Qed.

Lemma set_nth_last {A} (l : list A) h k h' :
  (k < length l /\ exists l', set_nth (l ++ [h]) k h' = l' ++ [h] /\ length l' = length l) \/
  (k = length l /\ set_nth (l ++ [h]) k h' = l ++ [h']) \/
  (k > length l /\ set_nth (l ++ [h]) k h' = l ++ [h]).
Proof.
  revert k; induction l as [|a t IH]; intros [|k]; simpl.
  - right; left; auto.
  - right; right. split; [lia|]. destruct k; reflexivity.
  - left. split; [lia|]. exists (h' :: t). auto.
  - destruct (IH k) as [(H & l' & E & L)|[(H & E)|(H & E)]].
    + left. split; [lia|]. exists (a :: l'). simpl. rewrite E, L. auto.
    + right; left. split; [lia|]. rewrite E. reflexivity.
    + right; right. split; [lia|]. rewrite E. reflexivity.
Qed.

Lemma nth_error_app_last {A} (l : list A) h k x : nth_error (l ++ [h]) k = Some x -> (k < length l) \/ (k = length l /\ x = h).
Proof.
  intros H. destruct (Nat.lt_ge_cases k (length l)) as [Hl|Hl]; [left; exact Hl|right].
  rewrite nth_error_app2 in H by exact Hl. destruct (k - length l) as [|n] eqn:E; simpl in H.
  - inversion H. split; [lia|reflexivity].
  - destruct n; discriminate.
Qed.

Section WithFacts.
Variable F : lockfacts.
Hypothesis Hrel : cond_release F = true.
Hypothesis Hhb : cond_heartbeat F = true.
Local Notation exec := (Model.exec F).
Local Notation run := (Model.run F).
Local Notation finish := (Model.finish F).
Local Opaque Model.prog_of.

Lemma hb_facts : lwt_timeout_cancels_store F = false /\ hb_stops_on_write_error F = false.
Proof.
  unfold cond_heartbeat in Hhb. repeat (apply andb_true_iff in Hhb as [Hhb ?]).
  repeat match goal with H : negb _ = true |- _ => apply negb_true_iff in H end. auto.
Qed.

(* the events of one item, as far as holders, heartbeat writers and cancel epochs are concerned *)
Definition view (s s' : state) (c : nat) (x x2 : cst) : Prop :=
  (alive x2 = true -> alive x = true) /\
  ( (ce s' = ce s /\ holds x2 = holds x /\ hbs x2 = hbs x)
  \/ (ce s' = ce s /\ holds x2 = true /\ hbs x2 = hbs x ++ [{| pc := HbOpen; born := epoch s (obj_of s c) |}])
  \/ (holds x = true /\ alive x = true /\ holds x2 = false /\ hbs x2 = hbs x)                       (* Unlock begins *)
  \/ (ce s' = (if lwt_timeout_cancels_store F then bump (ce s) (obj_of s c) else ce s) /\ holds x2 = holds x /\ hbs x2 = hbs x)
  \/ (ce s' = ce s /\ holds x2 = holds x /\ exists k h h', nth_error (hbs x) k = Some h /\ hbs x2 = set_nth (hbs x) k h' /\
        born h' = born h /\ pc h <> HbDone /\
        (pc h' = HbDone -> (pc h = HbCht /\ hb_cancelled s c h = true) \/ hb_stops_on_write_error F = true)) ).

Lemma finish_hbs x a v e x2 ret : finish x a v e = (x2, ret) ->
  alive x2 = alive x /\
  ((holds x2 = holds x /\ hbs x2 = hbs x) \/ (holds x2 = true /\ hbs x2 = hbs x ++ [{| pc := HbOpen; born := e |}])).
Proof. unfold Model.finish. intros H. destruct a, v; inversion H; subst; clear H; simpl; auto. Qed.

Lemma exec_view s it s' o : exec s it = Some (s', o) ->
  exists c x x2, nth_error (cs s) c = Some x /\ cs s' = set_nth (cs s) c x2 /\ lob s' = lob s /\ view s s' c x x2.
Proof.
  unfold view. destruct it as [c a|c [k|] st fl|c|c]; simpl; intros H.
  - destruct (nth_error (cs s) c) as [x|] eqn:Hx; [|discriminate].
    destruct (cur x) eqn:Hcur; [discriminate|]. destruct (alive x) eqn:Hal; [|discriminate]. simpl in H.
    destruct (obj_busy s c); [discriminate|]. destruct (is_acquire a).
    + destruct (holds x) eqn:Hh; [discriminate|]. inversion H; subst; clear H. simpl.
      exists c, x. eexists. split; [exact Hx|]. split; [reflexivity|]. split; [reflexivity|]. split; [simpl; auto|]. left. simpl. auto.
    + destruct (holds x) eqn:Hh; [|discriminate]. simpl in H. inversion H; subst; clear H. simpl.
      exists c, x. eexists. split; [exact Hx|]. split; [reflexivity|]. split; [reflexivity|]. split; [simpl; auto|]. right; right; left. simpl. auto.
  - destruct (nth_error (cs s) c) as [x|] eqn:Hx; [|discriminate].
    destruct (alive x) eqn:Hal; [|discriminate]. simpl in H.
    destruct (nth_error (hbs x) k) as [h|] eqn:Hh; [|discriminate].
    destruct (pc h) eqn:Hpc; [| |discriminate].
    + destruct (fs s) as [d|] eqn:Hfs; simpl in H; inversion H; subst; clear H; simpl;
      (exists c, x; eexists; split; [exact Hx|]; split; [reflexivity|]; split; [reflexivity|]; split; [simpl; auto|]);
      right; right; right; right; simpl; (split; [reflexivity|]); (split; [reflexivity|]);
      exists k, h; eexists; (split; [exact Hh|]); (split; [reflexivity|]); simpl;
      (split; [reflexivity|]); (split; [congruence|]); intros Hd; right;
      try discriminate Hd; destruct (hb_stops_on_write_error F); auto; discriminate.
    + assert (forall (P : Prop), (forall f' r, sem c (ngen s) st FNone (fs s) (OChtimes PHb) = (f', r) -> P) -> P) as Hs.
      { intros P HP. destruct (sem c (ngen s) st FNone (fs s) (OChtimes PHb)) as [f' r] eqn:E. eapply HP. reflexivity. }
      destruct (fs s) as [d|] eqn:Hfs; simpl in H.
      * destruct (hbf d); inversion H; subst; clear H; simpl;
        (exists c, x; eexists; split; [exact Hx|]; split; [reflexivity|]; split; [reflexivity|]; split; [simpl; auto|]);
        right; right; right; right; simpl; (split; [reflexivity|]); (split; [reflexivity|]);
        exists k, h; eexists; (split; [exact Hh|]); (split; [reflexivity|]); simpl;
        (split; [reflexivity|]); (split; [congruence|]); intros Hd; left; (split; [exact Hpc|]);
        destruct (hb_cancelled s c h); [reflexivity|discriminate|reflexivity|discriminate].
      * inversion H; subst; clear H; simpl;
        (exists c, x; eexists; split; [exact Hx|]; split; [reflexivity|]; split; [reflexivity|]; split; [simpl; auto|]);
        right; right; right; right; simpl; (split; [reflexivity|]); (split; [reflexivity|]);
        exists k, h; eexists; (split; [exact Hh|]); (split; [reflexivity|]); simpl;
        (split; [reflexivity|]); (split; [congruence|]); intros Hd; left; (split; [exact Hpc|]);
        destruct (hb_cancelled s c h); [reflexivity|discriminate].
  - destruct (nth_error (cs s) c) as [x|] eqn:Hx; [|discriminate].
    destruct (cur x) as [[a p]|] eqn:Hcur; [|discriminate]. destruct p as [v|op k|k0]; [discriminate| |discriminate].
    destruct (sem c (ngen s) st fl (fs s) op) as [f' r] eqn:Hsem.
    match goal with H : context [match nxt a (k r) with Ret v => Model.finish F ?X a v ?E | Do _ _ => (?Y, None) | Chk _ => _ end] |- _ =>
      destruct (match nxt a (k r) with Ret v => Model.finish F X a v E | Do _ _ => (Y, None) | Chk _ => (Y, None) end) as [x2 ret] eqn:Hx2 end.
    inversion H; subst; clear H. simpl. exists c, x, x2. split; [exact Hx|]. split; [reflexivity|]. split; [reflexivity|].
    destruct (nxt a (k r)) as [v|o' k'|k'].
    + apply finish_hbs in Hx2 as [Ha [[Hh Hb]|[Hh Hb]]]; simpl in *.
      * split; [congruence|]. left. auto.
      * split; [congruence|]. right; left. auto.
    + inversion Hx2; subst; simpl. split; [auto|]. left. auto.
    + inversion Hx2; subst; simpl. split; [auto|]. left. auto.
  - destruct (nth_error (cs s) c) as [x|] eqn:Hx; [|discriminate].
    destruct (cur x) eqn:Hcur; [discriminate|].
    destruct (alive x && holds x) eqn:E; [|discriminate]. inversion H; subst; clear H. simpl.
    exists c, x. eexists. split; [exact Hx|]. split; [reflexivity|]. split; [reflexivity|]. split; [simpl; discriminate|]. left. simpl. auto.
  - destruct (nth_error (cs s) c) as [x|] eqn:Hx; [|discriminate].
    destruct (cur x) as [[a p]|] eqn:Hcur; [|discriminate]. destruct a; try discriminate.
    inversion H; subst; clear H. simpl.
    exists c, x. eexists. split; [exact Hx|]. split; [reflexivity|]. split; [reflexivity|]. split; [simpl; auto|]. right; right; right; left. simpl. auto.
Qed.

(* the last heartbeat writer of every live holder is running and its context is not cancelled *)
Definition hb_ok (s : state) : Prop :=
  forall c x, nth_error (cs s) c = Some x -> holds x = true -> alive x = true ->
    exists l h, hbs x = l ++ [h] /\ pc h <> HbDone /\ hb_cancelled s c h = false.

Definition Inv3 (s : state) : Prop := Inv s /\ (bad s = false -> hb_ok s).

Lemma bad_mono s it s' o : exec s it = Some (s', o) -> bad s' = false -> bad s = false.
Proof.
  intros He Hb. destruct it as [c a|c [k|] st fl|c|c].
  - destruct (exec_other_inv F s _ s' o He ltac:(discriminate)) as (? & ? & _ & _ & Hbad & _). congruence.
  - destruct (exec_other_inv F s _ s' o He ltac:(discriminate)) as (? & ? & _ & _ & Hbad & _). congruence.
  - apply exec_main_inv in He. apply mstep_x2 in He as (? & ? & ? & ? & ? & ? & _ & _ & _ & _ & Hbad & _).
    rewrite Hbad in Hb. apply orb_false_iff in Hb. tauto.
  - destruct (exec_other_inv F s _ s' o He ltac:(discriminate)) as (? & ? & _ & _ & Hbad & _). congruence.
  - destruct (exec_other_inv F s _ s' o He ltac:(discriminate)) as (? & ? & _ & _ & Hbad & _). congruence.
Qed.

Lemma Inv3_exec s it s' o : Inv3 s -> exec s it = Some (s', o) -> Inv3 s'.
Proof.
  intros [HI Hok] He. split; [exact (Inv_exec F Hrel s it s' o HI He)|]. intros Hb'.
  pose proof (bad_mono s it s' o He Hb') as Hb. specialize (Hok Hb).
  destruct hb_facts as [Hto Hst].
  destruct HI as (Hex & Hhe & _). specialize (Hex Hb).
  destruct (exec_view s it s' o He) as (c & x & x2 & Hx & Hcs & Hlob & Hal & Hcase).
  assert (forall d, obj_of s' d = obj_of s d) as Hobj by (intros d; unfold obj_of; rewrite Hlob; reflexivity).
  intros c' y Hy Hh Ha. rewrite Hcs in Hy.
  apply nth_set_nth in Hy as [[<- ->]|[Hne Hy]].
  - (* the contender that moved *)
    destruct Hcase as [(Hce & Hhs & Hbs)|[(Hce & Hhs & Hbs)|[(_ & _ & Hhs & _)|[(Hce & Hhs & Hbs)|(Hce & Hhs & k & h & h' & Hk & Hbs & Hborn & Hnd & Hdone)]]]].
    + rewrite Hhs in Hh. destruct (Hok c x Hx Hh (Hal Ha)) as (l & h & El & Hp & Hc).
      exists l, h. rewrite Hbs. split; [exact El|]. split; [exact Hp|].
      unfold hb_cancelled, epoch in *. rewrite Hobj, Hce. exact Hc.
    + eexists; eexists. split; [exact Hbs|]. split; [discriminate|].
      unfold hb_cancelled, epoch. simpl. rewrite Hobj, Hce. apply Nat.ltb_irrefl.
    + congruence.
    + rewrite Hhs in Hh. destruct (Hok c x Hx Hh (Hal Ha)) as (l & h & El & Hp & Hc).
      exists l, h. rewrite Hbs. split; [exact El|]. split; [exact Hp|].
      unfold hb_cancelled, epoch in *. rewrite Hobj, Hce, Hto. exact Hc.
    + rewrite Hhs in Hh. destruct (Hok c x Hx Hh (Hal Ha)) as (l & h0 & El & Hp & Hc).
      rewrite Hbs, El. rewrite El in Hk.
      destruct (set_nth_last l h0 k h') as [(Hlt & l' & E & _)|[(Heq & E)|(Hgt & E)]]; rewrite E.
      * exists l', h0. split; [reflexivity|]. split; [exact Hp|].
        unfold hb_cancelled, epoch in *. rewrite Hobj, Hce. exact Hc.
      * apply nth_error_app_last in Hk as [Hk|[_ ->]]; [lia|].
        exists l, h'. split; [reflexivity|]. split.
        -- intros Hd. destruct (Hdone Hd) as [[_ Hcc]|Hs']; congruence.
        -- unfold hb_cancelled, epoch in *. rewrite Hobj, Hce, Hborn. exact Hc.
      * exists l, h0. split; [reflexivity|]. split; [exact Hp|].
        unfold hb_cancelled, epoch in *. rewrite Hobj, Hce. exact Hc.
  - (* another contender: only an Unlock on its object could cancel its writer — but then there would be two live holders *)
    destruct (Hok c' y Hy Hh Ha) as (l & h & El & Hp & Hc). exists l, h. split; [exact El|]. split; [exact Hp|].
    unfold hb_cancelled, epoch in *. rewrite Hobj.
    destruct Hcase as [(Hce & _)|[(Hce & _)|[(Hhx & Hax & _)|[(Hce & _)|(Hce & _)]]]]; try (rewrite Hce; exact Hc).
    + (* Unlock begins for c, who holds and is alive: c' holds and is alive too — impossible without a destroyed lock *)
      exfalso. apply Hne.
      destruct (eng x) as [g|] eqn:Ex; [|exact (False_ind _ (Hhe c x Hx Hhx Ex))].
      destruct (eng y) as [g'|] eqn:Ey; [|exact (False_ind _ (Hhe c' y Hy Hh Ey))].
      destruct (Hex c x g Hx Hax Ex) as (d & Hd & _ & Ho). destruct (Hex c' y g' Hy Ha Ey) as (d' & Hd' & _ & Ho'). congruence.
    + rewrite Hce, Hto. exact Hc.
Qed.

Lemma Inv3_init ovrs objs : Inv3 (init ovrs objs).
Proof.
  split; [apply Inv_init|]. intros _ c x Hx Hh. apply init_nth in Hx as [o ->]. discriminate.
Qed.

Lemma holder_heartbeat_l ovrs objs its s os :
  run (init ovrs objs) its = Some (s, os) -> bad s = false -> hb_ok s.
Proof.
  intros H. exact (proj2 (run_inv F Inv3 Inv3_exec its (init ovrs objs) s os (Inv3_init ovrs objs) H)).
Qed.

End WithFacts.
