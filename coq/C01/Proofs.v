(* C01 — proofs about the file-lock model (coq/C01/Model.v). *)
From Coq Require Import List Bool Arith Lia.
Import ListNotations.
From GU Require Import C01.Facts C01.Model.


(* ---------- lists ---------- *)
Lemma nth_set_nth_eq {A} (l : list A) n a x : nth_error l n = Some x -> nth_error (set_nth l n a) n = Some a.
Proof. revert n; induction l as [|h t IH]; intros [|n] H; simpl in *; try discriminate; auto. Qed.

Lemma nth_set_nth_neq {A} (l : list A) n m a : n <> m -> nth_error (set_nth l n a) m = nth_error l m.
Proof. revert n m; induction l as [|h t IH]; intros [|n] [|m] H; simpl; auto; try congruence. Qed.

Lemma nth_set_nth {A} (l : list A) n m a y :
  nth_error (set_nth l n a) m = Some y -> (n = m /\ y = a) \/ (n <> m /\ nth_error l m = Some y).
Proof.
  destruct (Nat.eq_dec n m) as [->|Hne].
  - intros H. left. split; auto.
    destruct (nth_error l m) eqn:E.
    + rewrite (nth_set_nth_eq l m a a0 E) in H. congruence.
    + exfalso. revert m H E. induction l as [|h t IH]; intros [|m] H E; simpl in *; try discriminate. eauto.
  - rewrite nth_set_nth_neq by auto. auto.
Qed.

Lemma filter_le1 {A} (P : A -> bool) (l : list A) :
  (forall i j x y, nth_error l i = Some x -> nth_error l j = Some y -> P x = true -> P y = true -> i = j) ->
  length (filter P l) <= 1.
Proof.
  induction l as [|h t IH]; intros H; simpl; [lia|].
  destruct (P h) eqn:E; simpl.
  - assert (filter P t = []) as ->; [|simpl; lia].
    destruct (filter P t) as [|y r] eqn:F; auto. exfalso.
    assert (In y (filter P t)) as Hin by (rewrite F; left; auto).
    apply filter_In in Hin as [Hin Py]. apply In_nth_error in Hin as [j Hj].
    specialize (H 0 (S j) h y eq_refl Hj E Py). discriminate.
  - apply IH. intros i j x y Hi Hj Px Py. specialize (H (S i) (S j) x y Hi Hj Px Py). lia.
Qed.

(* ---------- one backend operation ---------- *)
Definition same_dir (f f' : fsstate) : Prop :=
  match f, f' with
  | None, None => True
  | Some d, Some d' => gen d = gen d' /\ owner d = owner d'
  | _, _ => False
  end.

Lemma sem0_cases c ng st f o f' r : sem0 c ng st f o = (f', r) ->
  (o = OMkdir /\ r = ROk /\ f = None /\ f' = Some {| gen := ng; owner := c; hbf := false |}) \/
  (o = ORemove PDir /\ r = ROk /\ (exists d, f = Some d) /\ f' = None) \/
  (~ (o = OMkdir /\ r = ROk) /\ ~ (o = ORemove PDir /\ r = ROk) /\ same_dir f f').
Proof.
  unfold sem0. intros H.
  destruct o as [|p|p|p|p|h one|one| |p]; try destruct p; destruct f as [d|]; simpl in H;
    repeat match type of H with context [if ?b then _ else _] => destruct b eqn:? end;
    inversion H; subst; clear H;
    try (left; repeat split; reflexivity);
    try (right; left; repeat split; eauto; reflexivity);
    right; right; (split; [intros [? ?]; congruence|]); (split; [intros [? ?]; congruence|]); simpl; auto.
Qed.

(* an injected fault replaces a read-side operation: nothing is created, nothing removed *)
Lemma sem_cases c ng st fl f o f' r : sem c ng st fl f o = (f', r) ->
  (o = OMkdir /\ r = ROk /\ f = None /\ f' = Some {| gen := ng; owner := c; hbf := false |}) \/
  (o = ORemove PDir /\ r = ROk /\ (exists d, f = Some d) /\ f' = None) \/
  (~ (o = OMkdir /\ r = ROk) /\ ~ (o = ORemove PDir /\ r = ROk) /\ same_dir f f').
Proof.
  assert (same_dir f f) as Hsd by (destruct f; simpl; auto).
  unfold sem. destruct fl; [apply sem0_cases| |]; (destruct (is_read o) eqn:E; [|apply sem0_cases]);
    intros H; inversion H; subst; right; right;
    (split; [intros [-> _]; discriminate|]); (split; [intros [-> _]; discriminate|]); exact Hsd.
Qed.

(* ---------- Hoare-style safety of programs w.r.t. the ghost of a call ---------- *)
Section SafeDef.
Variable A : Type.
Inductive Safe (Q : ghost -> A -> Prop) : ghost -> prog A -> Prop :=
| SafeRet w v : Q w v -> Safe Q w (Ret v)
| SafeDo w o k : (o = ORemove PDir -> win w = true) -> (forall r, Safe Q (upd w o r) (k r)) -> Safe Q w (Do o k)
| SafeChk w k : Safe Q w k -> Safe Q w (Chk k).
End SafeDef.
Arguments Safe {A} Q _ _.
Arguments SafeRet {A Q} w v _.
Arguments SafeDo {A Q} w o k _ _.
Arguments SafeChk {A Q} w k _.

Lemma Safe_weaken {A} (Q Q' : ghost -> A -> Prop) w p : (forall w' a, Q w' a -> Q' w' a) -> Safe Q w p -> Safe Q' w p.
Proof. intros HQ H. induction H; constructor; auto. Qed.

Lemma Safe_bind {A B} (Q1 : ghost -> A -> Prop) (Q : ghost -> B -> Prop) w p (f : A -> prog B) :
  Safe Q1 w p -> (forall w' a, Q1 w' a -> Safe Q w' (f a)) -> Safe Q w (bind p f).
Proof. intros H Hf. induction H; simpl; [auto| |]; constructor; auto. Qed.

(* ghosts only move forward: mk is kept, an open window stays open (as long as no Mkdir is attempted) *)
Definition le (w w' : ghost) : Prop := mk w' = mk w /\ (win w = true -> win w' = true).
Lemma le_refl w : le w w. Proof. split; auto. Qed.
Lemma le_trans a b c : le a b -> le b c -> le a c.
Proof. intros [? ?] [? ?]. split; [congruence|auto]. Qed.

Lemma le_upd w o r : o <> OMkdir -> le w (upd w o r).
Proof.
  intros Ho. destruct o; try congruence; destruct r; simpl; try apply le_refl;
  try destruct (canon age); simpl; split; auto.
Qed.

Definition RO {A} (p : prog A) : Prop := forall w, Safe (fun w' _ => le w w') w p.

Ltac ro_do := constructor; [discriminate | intros ?r].
Ltac ro_ret := constructor; eauto using le_refl, le_trans, le_upd.

Lemma RO_step {A} w0 w o (k : res -> prog A) :
  o <> OMkdir -> o <> ORemove PDir -> le w0 w ->
  (forall r w', le w0 w' -> Safe (fun w'' _ => le w0 w'') w' (k r)) ->
  Safe (fun w'' _ => le w0 w'') w (Do o k).
Proof.
  intros H1 H2 Hle Hk. constructor; [congruence|]. intros r. apply Hk.
  eapply le_trans; [exact Hle|]. apply le_upd; auto.
Qed.

Lemma RO_ret {A} w0 w (a : A) : le w0 w -> Safe (fun w'' _ => le w0 w'') w (Ret a).
Proof. intros. constructor. auto. Qed.

Lemma RO_use {A B} w0 w (p : prog A) (f : A -> prog B) :
  RO p -> le w0 w ->
  (forall a w', le w0 w' -> Safe (fun w'' _ => le w0 w'') w' (f a)) ->
  Safe (fun w'' _ => le w0 w'') w (bind p f).
Proof.
  intros Hp Hle Hf. eapply Safe_bind; [apply Hp|]. simpl. intros w' a Hw. apply Hf. eapply le_trans; eauto.
Qed.

Lemma RO_intro {A} (p : prog A) : (forall w0 w, le w0 w -> Safe (fun w'' _ => le w0 w'') w p) -> RO p.
Proof. intros H w. apply H, le_refl. Qed.

Create HintDb ro.

Ltac ro :=
  repeat first
    [ apply RO_ret; assumption
    | match goal with |- Safe _ _ (bind _ _) => apply RO_use end; [solve [auto with ro] | assumption | intros ?a ?w ?Hle; cbv beta iota ]
    | match goal with |- Safe _ _ (Do _ _) => apply RO_step end; [discriminate | discriminate | assumption | intros ?r ?w ?Hle; try destruct r; cbv beta iota ]
    | match goal with |- context [if ?b then _ else _] => destruct b end
    | match goal with |- context [match ?x with Ok _ => _ | Err => _ end] => destruct x; cbv beta iota end
    | match goal with |- context [match ?x with 0 => _ | S _ => _ end] => destruct x; cbv beta iota end ].
Ltac ro_start f := apply RO_intro; intros ?w0 ?w ?Hle; unfold f.

Lemma RO_exists p : RO (exists_ p).
Proof. ro_start exists_. ro. Qed.
#[export] Hint Resolve RO_exists : ro.

Lemma RO_is_dir p : RO (is_dir p).
Proof. ro_start is_dir. ro. Qed.
#[export] Hint Resolve RO_is_dir : ro.

Lemma RO_is_file p : RO (is_file p).
Proof. ro_start is_file. ro. Qed.
#[export] Hint Resolve RO_is_file : ro.

Lemma RO_is_empty p : RO (is_empty p).
Proof. ro_start is_empty. ro. Qed.
#[export] Hint Resolve RO_is_empty : ro.

Lemma RO_ls_dir : RO ls_dir.
Proof. ro_start ls_dir. ro. Qed.
#[export] Hint Resolve RO_ls_dir : ro.

(* programs that may remove the lock directory, run with the window open *)
Definition ROW {A} (p : prog A) : Prop :=
  forall w0 w, win w0 = true -> le w0 w -> Safe (fun w'' _ => le w0 w'') w p.

Lemma RO_ROW {A} (p : prog A) : RO p -> ROW p.
Proof.
  intros H w0 w _ Hle. eapply Safe_weaken; [|apply H]. simpl. intros. eapply le_trans; eauto.
Qed.

Lemma ROW_step {A} w0 w o (k : res -> prog A) :
  o <> OMkdir -> win w0 = true -> le w0 w ->
  (forall r w', le w0 w' -> Safe (fun w'' _ => le w0 w'') w' (k r)) ->
  Safe (fun w'' _ => le w0 w'') w (Do o k).
Proof.
  intros H1 Hw Hle Hk. constructor; [intros _; apply Hle; exact Hw|]. intros r. apply Hk.
  eapply le_trans; [exact Hle|]. apply le_upd; auto.
Qed.

Lemma ROW_use {A B} w0 w (p : prog A) (f : A -> prog B) :
  ROW p -> win w0 = true -> le w0 w ->
  (forall a w', le w0 w' -> Safe (fun w'' _ => le w0 w'') w' (f a)) ->
  Safe (fun w'' _ => le w0 w'') w (bind p f).
Proof. intros Hp Hw Hle Hf. eapply Safe_bind; [apply (Hp w0 w Hw Hle)|]. simpl. intros w' a Hw'. apply Hf. assumption. Qed.

Ltac row :=
  repeat first
    [ apply RO_ret; assumption
    | apply ROW_step; [discriminate | assumption | assumption | intros ?r ?w ?Hle; try destruct r; simpl ]
    | apply RO_use; [solve [auto with ro] | assumption | intros ?a ?w ?Hle; simpl ]
    | match goal with |- context [if ?b then _ else _] => destruct b end
    | match goal with |- context [match ?x with Ok _ => _ | Err => _ end] => destruct x; simpl end
    | match goal with |- context [match ?x with 0 => _ | S _ => _ end] => destruct x; simpl end ].

Lemma ROW_rm_body clean p : ROW clean -> ROW (rm_body clean p).
Proof.
  intros Hc w0 w Hw Hle. unfold rm_body.
  apply RO_use; [auto with ro|assumption|]. intros e w1 Hle1. destruct (negb e); [apply RO_ret; assumption|].
  apply RO_use; [auto with ro|assumption|]. intros d w2 Hle2. destruct d as [isdir|]; [|apply RO_ret; assumption].
  apply RO_use; [auto with ro|assumption|]. intros em w3 Hle3. destruct em as [isempty|]; [|apply RO_ret; assumption].
  apply ROW_use; [destruct (isdir && negb isempty); [exact Hc|intros ? ? ? ?; apply RO_ret; assumption]|assumption|assumption|].
  intros cl w4 Hle4. destruct cl; [|apply RO_ret; assumption].
  apply RO_use; [auto with ro|assumption|]. intros em2 w5 Hle5. destruct em2 as [isempty2|]; [|apply RO_ret; assumption].
  destruct (isdir && negb isempty2); [apply RO_ret; assumption|].
  apply ROW_step; [discriminate|assumption|assumption|]. intros r w6 Hle6. destruct r; apply RO_ret; assumption.
Qed.

Lemma ROW_rm_with clean p : ROW clean -> ROW (rm_with clean p).
Proof.
  intros Hc w0 w Hw Hle0. unfold rm_with.
  apply RO_step; [discriminate|discriminate|assumption|]. intros r0 w00 Hle.
  destruct r0; try (apply RO_ret; assumption); apply (ROW_rm_body clean p Hc w0 w00 Hw Hle).
Qed.

Lemma ROW_rm_hb : ROW rm_hb.
Proof. apply ROW_rm_with. intros ? ? ? ?. apply RO_ret. assumption. Qed.

Lemma ROW_clean_dir : ROW clean_dir.
Proof.
  intros w0 w Hw Hle. unfold clean_dir.
  apply RO_use; [auto with ro|assumption|]. intros e w1 Hle1. destruct (negb e); [apply RO_ret; assumption|].
  apply RO_use; [auto with ro|assumption|]. intros em w2 Hle2. destruct em as [[|]|]; try (apply RO_ret; assumption).
  apply RO_use; [auto with ro|assumption|]. intros l w3 Hle3. destruct l as [[|n]|]; try (apply RO_ret; assumption).
  apply ROW_rm_hb; assumption.
Qed.

Lemma ROW_rm_dir : ROW rm_dir.
Proof. apply ROW_rm_with, ROW_clean_dir. Qed.

(* ================= the programs that depend on the facts read from lockfile.go ================= *)
Lemma thr_sound_canon F p a : thr_sound F p = true -> thr F p a = true -> canon a = true.
Proof.
  unfold thr_sound, thr, canon, cmp. destruct (thr_op F); try discriminate; intros H1 H2.
  - apply Nat.leb_le in H1. apply Nat.ltb_lt in H2. apply Nat.ltb_lt. lia.
  - apply Nat.leb_le in H1. apply Nat.leb_le in H2. apply Nat.ltb_lt. lia.
Qed.

Section WithFacts.
Variable F : lockfacts.
Hypothesis Hrel : cond_release F = true.

Local Notation is_stale := (Model.is_stale F).
Local Notation unlock_attempts := (Model.unlock_attempts F).
Local Notation unlock := (Model.unlock F).
Local Notation try_lock := (Model.try_lock F).
Local Notation prog_of := (Model.prog_of F).
Local Notation finish := (Model.finish F).
Local Notation exec := (Model.exec F).
Local Notation run := (Model.run F).

Lemma rel_facts :
  is_ls_error_stale F = false /\ is_empty_stat_error_stale F = false /\ is_file_stat_error_stale F = false /\
  thr_sound F (is_empty_period F) = true /\ thr_sound F (is_files_period F) = true.
Proof.
  unfold cond_release in Hrel. repeat (apply andb_true_iff in Hrel as [Hrel ?]).
  repeat match goal with H : negb _ = true |- _ => apply negb_true_iff in H end. auto.
Qed.

(* is_stale answers true only after a Stat that returned a time stamp older than two periods: the release window is open *)
Lemma safe_is_stale w : Safe (fun w' b => le w w' /\ (b = true -> win w' = true)) w is_stale.
Proof.
  destruct rel_facts as (H1 & H2 & H3 & H4 & H5).
  unfold Model.is_stale. eapply Safe_bind; [apply RO_ls_dir|]. simpl. intros w' l Hle.
  assert (forall p pf e, thr_sound F pf = true -> e = false ->
            Safe (fun w'' b => le w w'' /\ (b = true -> win w'' = true)) w'
            (Do (OStat p) (fun r => match r with RIsDir a | RIsFile a => Ret (thr F pf a) | _ => Ret e end))) as Hstat.
  { intros p pf e Hs ->. constructor; [discriminate|]. intros r.
    assert (le w (upd w' (OStat p) r)) by (eapply le_trans; [exact Hle|apply le_upd; discriminate]).
    destruct r; try (constructor; split; [assumption|discriminate]);
      (constructor; split; [assumption|]); intros Ht; simpl; rewrite (thr_sound_canon F pf age Hs Ht); reflexivity. }
  destruct l as [[|n]|]; [apply Hstat; assumption|apply Hstat; assumption|].
  constructor. split; [assumption|]. rewrite H1. discriminate.
Qed.

Lemma unlock_S m : unlock_attempts (S m) =
  (r <- rm_dir ;; match r with Err => unlock_attempts m
                  | Ok _ => if ul_recheck_exists F
                            then e <- exists_ PDir ;; if e then unlock_attempts m else Ret AOk
                            else Ret AOk end).
Proof. reflexivity. Qed.

Lemma ROW_unlock_attempts n : ROW (unlock_attempts n).
Proof.
  induction n as [|n IH]; intros w0 w Hw Hle; [apply RO_ret; assumption|]. rewrite unlock_S.
  apply ROW_use; [apply ROW_rm_dir|assumption|assumption|]. intros r w1 Hle1. destruct r; [|apply IH; assumption].
  destruct (ul_recheck_exists F); [|apply RO_ret; assumption].
  apply RO_use; [auto with ro|assumption|]. intros e w2 Hle2. destruct e; [apply IH; assumption|apply RO_ret; assumption].
Qed.

(* an acquire reports success only after a Mkdir of the same call succeeded; the directory is removed only while the
   window is open *)
Definition Qacq (w : ghost) (v : ares) : Prop := v = AOk -> mk w = true.

Lemma try_lock_eq fuel ovr wt : try_lock fuel ovr wt =
  Do OMkdir (fun r => match r with
    | RExist =>
        s <- is_stale ;;
        if s then
          if ovr then
            match fuel with
            | 0 => Ret AOther
            | S f =>
                s2 <- (match tl_override_call F with
                       | RelIfStale => if ris_rechecks_stale F then is_stale else Ret true
                       | RelUnlock => Ret true end) ;;
                if s2 then
                  if wt then Ret ACancelled
                  else (_ <- unlock ;; Chk (try_lock f ovr wt))
                else Chk (try_lock f ovr wt)
            end
          else Ret AStale
        else Ret ALocked
    | ROk => Do (OChtimes PDir) (fun _ => Ret AOk)
    | _ => Ret AOther end).
Proof. destruct fuel; reflexivity. Qed.

Lemma safe_try_lock ovr wt fuel : forall w, Safe Qacq w (try_lock fuel ovr wt).
Proof.
  assert (forall w v, v <> AOk -> Safe Qacq w (Ret v)) as Hne by (intros; constructor; intros ?; congruence).
  induction fuel as [|f IH]; intros w; rewrite try_lock_eq; (constructor; [discriminate|]); intros r;
    destruct r; try (apply Hne; discriminate).
  - constructor; [discriminate|]. intros r. constructor. intros _. destruct r; reflexivity.
  - eapply Safe_bind; [apply safe_is_stale|]. cbv beta. intros w' s [_ _].
    destruct s; [destruct ovr|]; apply Hne; discriminate.
  - constructor; [discriminate|]. intros r. constructor. intros _. destruct r; reflexivity.
  - eapply Safe_bind; [apply safe_is_stale|]. cbv beta. intros w' s [_ Hs].
    destruct s; [|apply Hne; discriminate].
    destruct ovr; [|apply Hne; discriminate].
    (* the release: through ReleaseIfStale with its second look, or at once — the window is open either way *)
    assert (Safe (fun w'' (b : bool) => b = true -> win w'' = true) w'
              (match tl_override_call F with
               | RelIfStale => if ris_rechecks_stale F then is_stale else Ret true
               | RelUnlock => Ret true end)) as Hrelease.
    { destruct (tl_override_call F); [destruct (ris_rechecks_stale F)|].
      - eapply Safe_weaken; [|apply safe_is_stale]. cbv beta. intros ? ? [_ ?]. assumption.
      - constructor. auto.
      - constructor. auto. }
    eapply Safe_bind; [exact Hrelease|]. cbv beta. intros w'' s2 Hs2.
    destruct s2; [|constructor; apply IH].
    destruct wt; [apply Hne; discriminate|].
    eapply Safe_bind; [apply (ROW_unlock_attempts (ul_attempts F) w'' w'' (Hs2 eq_refl) (le_refl w''))|]. cbv beta. intros w3 _ _. constructor. apply IH.
Qed.

Lemma safe_unlock w : win w = true -> Safe (fun _ _ => True) w unlock.
Proof.
  intros Hw. apply Safe_weaken with (Q := fun w'' (_ : ares) => le w w''); [intros; exact I|].
  exact (ROW_unlock_attempts (ul_attempts F) w w Hw (le_refl w)).
Qed.

Definition Qof (a : api) : ghost -> ares -> Prop := if is_acquire a then Qacq else fun _ _ => True.

Lemma safe_prog_of_acquire a ovr w : is_acquire a = true -> Safe (Qof a) w (prog_of a ovr).
Proof. intros H. destruct a; try discriminate H; unfold Qof, Model.prog_of; cbn [is_acquire]; apply safe_try_lock. Qed.

Lemma safe_prog_of_unlock ovr w : win w = true -> Safe (Qof Unlock) w (prog_of Unlock ovr).
Proof. intros H. unfold Qof. cbn [is_acquire]. exact (safe_unlock w H). Qed.

(* ---------- the interleaving semantics, in relational form ---------- *)
Local Opaque Model.prog_of.

Definition with_cur (x : cst) (c : option (api * prog ares)) : cst :=
  {| ovr := ovr x; cur := c; holds := holds x; alive := alive x; eng := eng x; hbs := hbs x; gh := gh x |}.

Lemma finish_props x a v e x2 ret : finish x a v e = (x2, ret) ->
  eng x2 = eng x /\ alive x2 = alive x /\ gh x2 = gh x /\ ovr x2 = ovr x /\
  (holds x2 = holds x \/ (holds x2 = true /\ is_acquire a = true /\ v = AOk)) /\
  (cur x2 = None \/ (cur x2 = Some (a, prog_of a (ovr x)) /\ is_acquire a = true)).
Proof.
  unfold finish. intros H.
  destruct a, v; inversion H; subst; clear H; simpl; repeat split; auto.
Qed.

Inductive mstep (s : state) (c : nat) (stale : nat) (fl : fault) (s' : state) : Prop :=
| MStep x a o k f' r x2 ret
    (Hx : nth_error (cs s) c = Some x)
    (Hcur : cur x = Some (a, Do o k))
    (Hsem : sem c (ngen s) stale fl (fs s) o = (f', r))
    (Hx2 : let x1 := {| ovr := ovr x; cur := Some (a, nxt a (k r)); holds := holds x; alive := alive x;
                        eng := (match o, r with OMkdir, ROk => Some (ngen s) | _, _ => eng x end);
                        hbs := hbs x; gh := upd (gh x) o r |} in
           (x2, ret) = match nxt a (k r) with Ret v => finish x1 a v (epoch s (obj_of s c)) | _ => (x1, None) end)
    (Hfs : fs s' = f')
    (Hbad : bad s' = bad s || ((match o, r with ORemove PDir, ROk => true | _, _ => false end) && live_owner (fs s) (cs s)))
    (Hcs : cs s' = set_nth (cs s) c x2).

Lemma exec_main_inv s c stale fl s' ob : exec s (IStep c None stale fl) = Some (s', ob) -> mstep s c stale fl s'.
Proof.
  unfold exec. destruct (nth_error (cs s) c) as [x|] eqn:Hx; [|discriminate].
  destruct (cur x) as [[a p]|] eqn:Hcur; [|discriminate]. destruct p as [v|o k|k0]; [discriminate| |discriminate].
  destruct (sem c (ngen s) stale fl (fs s) o) as [f' r] eqn:Hsem.
  match goal with |- context [match nxt a (k r) with Ret v => finish ?X a v ?E | Do _ _ => (?Y, None) | Chk _ => _ end] =>
    destruct (match nxt a (k r) with Ret v => finish X a v E | Do _ _ => (Y, None) | Chk _ => (Y, None) end) as [x2 ret] eqn:Hx2 end.
  intros H. inversion H; subst; clear H.
  eapply MStep with (x2 := x2) (ret := ret); eauto; simpl.
  all: try (rewrite <- Hx2; destruct o; try reflexivity; destruct r; reflexivity).
  all: try (destruct o as [|[]|?|?|?|? ?|?| |?]; try reflexivity; destruct r; reflexivity).
Qed.

(* what a step of the API thread does to the contender that takes it *)
Lemma mstep_x2 s c stale fl s' : mstep s c stale fl s' ->
  exists x a o k r x2, nth_error (cs s) c = Some x /\ cur x = Some (a, Do o k) /\
    sem c (ngen s) stale fl (fs s) o = (fs s', r) /\ cs s' = set_nth (cs s) c x2 /\
    bad s' = bad s || ((match o, r with ORemove PDir, ROk => true | _, _ => false end) && live_owner (fs s) (cs s)) /\
    alive x2 = alive x /\ ovr x2 = ovr x /\ gh x2 = upd (gh x) o r /\
    eng x2 = (match o, r with OMkdir, ROk => Some (ngen s) | _, _ => eng x end) /\
    (holds x2 = holds x \/ (holds x2 = true /\ is_acquire a = true /\ nxt a (k r) = Ret AOk)) /\
    (cur x2 = None \/ (cur x2 = Some (a, nxt a (k r))) \/ (cur x2 = Some (a, prog_of a (ovr x)) /\ is_acquire a = true)).
Proof.
  intros [x a o k f' r x2 ret Hx Hcur Hsem Hx2 Hfs Hbad Hcs].
  exists x, a, o, k, r, x2. subst f'. repeat (split; [assumption|]).
  cbv zeta in Hx2. destruct (nxt a (k r)) as [v|o' k'|k'] eqn:Hk.
  - symmetry in Hx2. apply finish_props in Hx2. simpl in Hx2.
    destruct Hx2 as (He & Ha & Hg & Ho & Hh & Hc). repeat (split; [assumption|]). split.
    + destruct Hh as [Hh|(Hh & Hacq & Hv)]; [left; exact Hh|right; subst v; auto].
    + destruct Hc as [Hc|[Hc Hacq]]; [left; exact Hc|right; right; auto].
  - inversion Hx2; subst; simpl. repeat (split; [reflexivity|]). split; [left; reflexivity|right; left; reflexivity].
  - inversion Hx2; subst; simpl. repeat (split; [reflexivity|]). split; [left; reflexivity|right; left; reflexivity].
Qed.

(* every other item changes one contender record and at most the heartbeat file *)
Definition item_c (it : item) : nat := match it with ICall c _ | IStep c _ _ _ | IKill c | IDeadline c => c end.

Lemma exec_other_inv s it s' ob : exec s it = Some (s', ob) ->
  (forall c st fl, it <> IStep c None st fl) ->
  exists x x2, nth_error (cs s) (item_c it) = Some x /\ cs s' = set_nth (cs s) (item_c it) x2 /\
    bad s' = bad s /\ same_dir (fs s) (fs s') /\ ovr x2 = ovr x /\
    ( (exists a, it = ICall (item_c it) a /\ is_acquire a = true /\ cur x = None /\ holds x = false /\ alive x = true /\
          alive x2 = true /\ eng x2 = eng x /\ holds x2 = false /\ cur x2 = Some (a, prog_of a (ovr x)) /\
          gh x2 = {| mk := false; win := false |})
    \/ (it = ICall (item_c it) Unlock /\ cur x = None /\ holds x = true /\ alive x = true /\
          alive x2 = true /\ eng x2 = None /\ holds x2 = false /\ cur x2 = Some (Unlock, prog_of Unlock (ovr x)) /\
          gh x2 = {| mk := false; win := true |})
    \/ (it = IKill (item_c it) /\ cur x = None /\ alive x2 = false /\ eng x2 = eng x /\ holds x2 = holds x /\ cur x2 = None /\ gh x2 = gh x)
    \/ (alive x2 = alive x /\ eng x2 = eng x /\ holds x2 = holds x /\ gh x2 = gh x /\
        (cur x2 = cur x \/ exists p, cur x = Some (LockWT, p) /\ cur x2 = Some (LockWTX, p))) ).
Proof.
  assert (forall f, same_dir f f) as Hsd by (intros [d|]; simpl; auto).
  Ltac pre5 Hsd := eexists; eexists; (split; [eassumption || reflexivity|]); (split; [reflexivity|]); (split; [reflexivity|]);
        (split; [simpl; auto|]); (split; [reflexivity|]).
  destruct it as [c a|c [k|] st fl|c|c]; simpl; intros H Hnot.
  - destruct (nth_error (cs s) c) as [x|] eqn:Hx; [|discriminate].
    destruct (cur x) eqn:Hcur; [discriminate|]. destruct (alive x) eqn:Hal; [|discriminate]. simpl in H.
    destruct (obj_busy s c); [discriminate|].
    destruct (is_acquire a) eqn:Hacq.
    + destruct (holds x) eqn:Hh; [discriminate|]. inversion H; subst; clear H. simpl. pre5 Hsd.
      left. exists a. simpl. repeat split; auto.
    + destruct (holds x) eqn:Hh; [|discriminate]. simpl in H. inversion H; subst; clear H. simpl.
      destruct a; try discriminate Hacq. pre5 Hsd.
      right; left. simpl. repeat split; auto.
  - destruct (nth_error (cs s) c) as [x|] eqn:Hx; [|discriminate].
    destruct (alive x) eqn:Hal; [|discriminate]. simpl in H.
    destruct (nth_error (hbs x) k) as [h|] eqn:Hh; [|discriminate].
    destruct (pc h); [| |discriminate].
    + destruct (fs s) as [d|] eqn:Hfs; simpl in H; inversion H; subst; clear H; simpl;
      pre5 Hsd; right; right; right; simpl; repeat split; auto.
    + destruct (fs s) as [d|] eqn:Hfs; simpl in H; [destruct (hbf d)|]; inversion H; subst; clear H; simpl;
      pre5 Hsd; right; right; right; simpl; repeat split; auto.
  - exfalso. eapply Hnot; reflexivity.
  - destruct (nth_error (cs s) c) as [x|] eqn:Hx; [|discriminate].
    destruct (cur x) eqn:Hcur; [discriminate|].
    destruct (alive x && holds x) eqn:E; [|discriminate]. inversion H; subst; clear H. simpl. pre5 Hsd.
    right; right; left. simpl. repeat split; auto.
  - destruct (nth_error (cs s) c) as [x|] eqn:Hx; [|discriminate].
    destruct (cur x) as [[a p]|] eqn:Hcur; [|discriminate]. destruct a; try discriminate.
    inversion H; subst; clear H. simpl. pre5 Hsd.
    right; right; right. simpl. repeat split; auto. right. exists p. auto.
Qed.

(* ---------- invariants of EVERY run (no restriction on the schedule) ---------- *)
Definition excl (s : state) : Prop :=
  forall c x g, nth_error (cs s) c = Some x -> alive x = true -> eng x = Some g ->
    exists d, fs s = Some d /\ gen d = g /\ owner d = c.
Definition holder_eng (s : state) : Prop :=
  forall c x, nth_error (cs s) c = Some x -> holds x = true -> eng x <> None.
Definition progs_safe (s : state) : Prop :=
  forall c x a p, nth_error (cs s) c = Some x -> cur x = Some (a, p) ->
    Safe (Qof a) (gh x) p /\ (is_acquire a = true -> mk (gh x) = true -> eng x <> None).
Definition Inv (s : state) : Prop := (bad s = false -> excl s) /\ holder_eng s /\ progs_safe s.

Lemma mk_upd w o r : mk (upd w o r) = true -> (o = OMkdir /\ r = ROk) \/ mk w = true.
Proof. destruct o, r; simpl; auto; destruct (canon age); simpl; auto. Qed.

Lemma eng_not_created (o : op) (r : res) (A : Type) (a b : A) :
  ~ (o = OMkdir /\ r = ROk) -> match o, r with OMkdir, ROk => a | _, _ => b end = b.
Proof. intros H. destruct o; try reflexivity. destruct r; try reflexivity. exfalso; auto. Qed.

Lemma live_owner_true f l c x g d :
  f = Some d -> gen d = g -> owner d = c -> nth_error l c = Some x -> alive x = true -> eng x = Some g ->
  live_owner f l = true.
Proof. intros -> <- <- Hx Ha He. simpl. rewrite Hx, Ha, He. simpl. apply Nat.eqb_refl. Qed.

Lemma Safe_Do_inv {A} (Q : ghost -> A -> Prop) w o k :
  Safe Q w (Do o k) -> (o = ORemove PDir -> win w = true) /\ forall r, Safe Q (upd w o r) (k r).
Proof. intros H. inversion H; subst. auto. Qed.

Lemma Safe_nxt a w p : Safe (Qof a) w p -> Safe (Qof a) w (nxt a p).
Proof.
  unfold nxt. intros H. induction H; simpl; try (constructor; assumption).
  destruct (expired a) eqn:E; [|assumption].
  destruct a; try discriminate E. constructor. unfold Qof. simpl. unfold Qacq. discriminate.
Qed.

Lemma Inv_mstep s c st fl s' : Inv s -> mstep s c st fl s' -> Inv s'.
Proof.
  intros (Hex & Hhe & Hps) Hm.
  apply mstep_x2 in Hm as (x & a & o & k & r & x2 & Hx & Hcur & Hsem & Hcs & Hbad & Hal & Hov & Hgh & Heng & Hho & Hcu).
  destruct (Hps c x a (Do o k) Hx Hcur) as [Hsafe Hmk]. apply Safe_Do_inv in Hsafe as [Hguard Hsafe].
  assert (mk (gh x2) = true -> is_acquire a = true -> eng x2 <> None) as Hmk2.
  { rewrite Hgh, Heng. intros H Hacq. apply mk_upd in H as [[-> ->]|H]; [discriminate|].
    specialize (Hmk Hacq H). destruct o; auto. destruct r; auto. discriminate. }
  split; [|split].
  - (* excl *)
    intros Hb. assert (bad s = false) as Hb0 by (rewrite Hbad in Hb; apply orb_false_iff in Hb; tauto).
    specialize (Hex Hb0). intros c' x' g Hx' Ha' He'. rewrite Hcs in Hx'.
    destruct (sem_cases c (ngen s) st fl (fs s) o (fs s') r Hsem) as [(-> & -> & Hf & Hf')|[(-> & -> & [d Hf] & Hf')|(Hnc & Hnr & Hsd)]].
    + apply nth_set_nth in Hx' as [[<- ->]|[Hne Hx']].
      * rewrite Heng in He'. inversion He'; subst. rewrite Hf'. eexists; split; [reflexivity|]. simpl; auto.
      * destruct (Hex c' x' g Hx' Ha' He') as (d & Hd & _). congruence.
    + exfalso. rewrite Hbad in Hb. apply orb_false_iff in Hb as [_ Hb]. simpl in Hb.
      apply nth_set_nth in Hx' as [[<- ->]|[Hne Hx']].
      * rewrite Hal in Ha'. simpl in Heng. rewrite Heng in He'.
        destruct (Hex c x g Hx Ha' He') as (d' & Hd' & Hg & Ho).
        rewrite (live_owner_true (fs s) (cs s) _ _ _ _ Hd' Hg Ho Hx Ha' He') in Hb. discriminate.
      * destruct (Hex c' x' g Hx' Ha' He') as (d' & Hd' & Hg & Ho).
        rewrite (live_owner_true (fs s) (cs s) _ _ _ _ Hd' Hg Ho Hx' Ha' He') in Hb. discriminate.
    + assert (exists x'', nth_error (cs s) c' = Some x'' /\ alive x'' = true /\ eng x'' = Some g) as (x'' & Hx'' & Ha'' & He'').
      { apply nth_set_nth in Hx' as [[<- ->]|[Hne Hx']].
        - exists x. rewrite Hal in Ha'. rewrite Heng, (eng_not_created o r _ _ _ Hnc) in He'. auto.
        - exists x'. auto. }
      destruct (Hex c' x'' g Hx'' Ha'' He'') as (d & Hd & Hg & Ho).
      unfold same_dir in Hsd. rewrite Hd in Hsd. destruct (fs s') as [d'|]; [|contradiction].
      destruct Hsd as [Hg' Ho']. exists d'. split; [reflexivity|]. split; congruence.
  - (* holder_eng *)
    intros c' x' Hx' Hh'. rewrite Hcs in Hx'. apply nth_set_nth in Hx' as [[<- ->]|[Hne Hx']]; [|eauto].
    destruct Hho as [Hho|(_ & Hacq & Hret)].
    + rewrite Hho in Hh'. specialize (Hhe c x Hx Hh'). rewrite Heng. destruct o; auto. destruct r; auto. discriminate.
    + apply Hmk2; [|exact Hacq]. specialize (Hsafe r). apply Safe_nxt in Hsafe. rewrite Hret in Hsafe. inversion Hsafe; subst.
      unfold Qof in *. rewrite Hacq in *. rewrite Hgh. auto.
  - (* progs_safe *)
    intros c' x' a' p' Hx' Hcur'. rewrite Hcs in Hx'. apply nth_set_nth in Hx' as [[<- ->]|[Hne Hx']]; [|eauto].
    destruct Hcu as [Hcu|[Hcu|[Hcu Hacq]]]; rewrite Hcu in Hcur'; [discriminate| |]; inversion Hcur'; subst; clear Hcur'.
    + split; [rewrite Hgh; apply Safe_nxt, Hsafe|auto].
    + split; [apply safe_prog_of_acquire; exact Hacq|auto].
Qed.

Lemma Inv_other s it s' ob : Inv s -> exec s it = Some (s', ob) -> (forall c st fl, it <> IStep c None st fl) -> Inv s'.
Proof.
  intros (Hex & Hhe & Hps) He Hnot.
  destruct (exec_other_inv s it s' ob He Hnot) as (x & x2 & Hx & Hcs & Hbad & Hsd & Hov & Hcase).
  set (c := item_c it) in *.
  assert (alive x2 = true -> alive x = true) as Hal.
  { destruct Hcase as [(a & _ & _ & _ & _ & Ha & _)|[(_ & _ & _ & Ha & _)|[(_ & _ & Ha & _)|(Ha & _)]]]; try congruence. }
  assert (forall g, eng x2 = Some g -> eng x = Some g) as Hen.
  { destruct Hcase as [(a & _ & _ & _ & _ & _ & _ & Ha & _)|[(_ & _ & _ & _ & _ & Ha & _)|[(_ & _ & _ & Ha & _)|(_ & Ha & _)]]]; congruence. }
  split; [|split].
  - intros Hb. rewrite Hbad in Hb. specialize (Hex Hb). intros c' x' g Hx' Ha' He'. rewrite Hcs in Hx'.
    assert (exists x'', nth_error (cs s) c' = Some x'' /\ alive x'' = true /\ eng x'' = Some g) as (x'' & Hx'' & Ha'' & He'').
    { apply nth_set_nth in Hx' as [[<- ->]|[Hne Hx']]; [exists x; auto|exists x'; auto]. }
    destruct (Hex c' x'' g Hx'' Ha'' He'') as (d & Hd & Hg & Ho).
    unfold same_dir in Hsd. rewrite Hd in Hsd. destruct (fs s') as [d'|]; [|contradiction].
    destruct Hsd as [Hg' Ho']. exists d'. split; [reflexivity|]. split; congruence.
  - intros c' x' Hx' Hh'. rewrite Hcs in Hx'. apply nth_set_nth in Hx' as [[<- ->]|[Hne Hx']]; [|eauto].
    destruct Hcase as [(a & _ & _ & _ & _ & _ & _ & _ & Hh & _)|[(_ & _ & _ & _ & _ & _ & Hh & _)|[(_ & _ & _ & Hee & Hh & _)|(_ & Hee & Hh & _)]]];
      try congruence; rewrite Hee; apply (Hhe c x Hx); congruence.
  - intros c' x' a' p' Hx' Hcur'. rewrite Hcs in Hx'. apply nth_set_nth in Hx' as [[<- ->]|[Hne Hx']]; [|eauto].
    destruct Hcase as [(a & _ & Hacq & _ & _ & _ & _ & _ & _ & Hc & Hg)|[(_ & _ & _ & _ & _ & _ & _ & Hc & Hg)|[(_ & _ & _ & _ & _ & Hc & _)|(_ & Hee & _ & Hg & Hc)]]].
    + rewrite Hc in Hcur'. inversion Hcur'; subst. rewrite Hg. split; [apply safe_prog_of_acquire; exact Hacq|simpl; discriminate].
    + rewrite Hc in Hcur'. inversion Hcur'; subst. rewrite Hg. split; [apply safe_prog_of_unlock; reflexivity|simpl; discriminate].
    + congruence.
    + rewrite Hg, Hee. destruct Hc as [Hc|(p & Hc & Hc2)].
      * rewrite Hc in Hcur'. apply (Hps c x a' p' Hx Hcur').
      * rewrite Hc2 in Hcur'. inversion Hcur'; subst. exact (Hps c x LockWT p' Hx Hc).
Qed.

Lemma Inv_exec s it s' ob : Inv s -> exec s it = Some (s', ob) -> Inv s'.
Proof.
  intros HI He. destruct it as [c a|c [k|] st fl|c|c].
  - eapply Inv_other; eauto. discriminate.
  - eapply Inv_other; eauto. discriminate.
  - eapply Inv_mstep; eauto. eapply exec_main_inv; eauto.
  - eapply Inv_other; eauto. discriminate.
  - eapply Inv_other; eauto. discriminate.
Qed.

Lemma run_inv (P : state -> Prop) :
  (forall s it s' ob, P s -> exec s it = Some (s', ob) -> P s') ->
  forall its s s' os, P s -> run s its = Some (s', os) -> P s'.
Proof.
  intros Hstep. induction its as [|it r IH]; intros s s' os HP H; simpl in H.
  - inversion H; subst; auto.
  - destruct (exec s it) as [[s1 o]|] eqn:E; [|discriminate].
    destruct (run s1 r) as [[s2 os2]|] eqn:R; [|discriminate]. inversion H; subst. eauto.
Qed.

Lemma init_nth ovrs objs c x : nth_error (cs (init ovrs objs)) c = Some x -> exists o, x = init_c o.
Proof. simpl. intros H. apply nth_error_In, in_map_iff in H as (o & <- & _). eauto. Qed.

Lemma Inv_init ovrs objs : Inv (init ovrs objs).
Proof.
  split; [|split].
  - intros _ c x g Hx _ He. apply init_nth in Hx as [o ->]. discriminate.
  - intros c x Hx Hh. apply init_nth in Hx as [o ->]. discriminate.
  - intros c x a p Hx Hc. apply init_nth in Hx as [o ->]. discriminate.
Qed.

Lemma Inv_run ovrs objs its s os : run (init ovrs objs) its = Some (s, os) -> Inv s.
Proof. intros H. eapply (run_inv Inv Inv_exec); [apply Inv_init|exact H]. Qed.

(* at most one live holder, from [excl] *)
Lemma excl_holders s : excl s -> holder_eng s -> live_holders s <= 1.
Proof.
  intros Hex Hhe. unfold live_holders. apply filter_le1. intros i j x y Hi Hj Hx Hy.
  apply andb_true_iff in Hx as [Hhx Hax]. apply andb_true_iff in Hy as [Hhy Hay].
  destruct (eng x) as [g|] eqn:Ex; [|exfalso; eapply (Hhe i x); eauto].
  destruct (eng y) as [g'|] eqn:Ey; [|exfalso; eapply (Hhe j y); eauto].
  destruct (Hex i x g Hi Hax Ex) as (d & Hd & _ & Ho). destruct (Hex j y g' Hj Hay Ey) as (d' & Hd' & _ & Ho'). congruence.
Qed.

Lemma mkdir_exclusive_l ovrs objs its s os :
  run (init ovrs objs) its = Some (s, os) -> bad s = false -> live_holders s <= 1.
Proof. intros H Hb. destruct (Inv_run ovrs objs its s os H) as (Hex & Hhe & _). apply excl_holders; auto. Qed.

End WithFacts.
