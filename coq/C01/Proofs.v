(* C01 — proofs about the file-lock model (coq/C01/Model.v). *)
From Coq Require Import List Bool Arith Lia.
Import ListNotations.
From GU Require Import C01.Model.


(* ---------- lists ---------- *)
Lemma nth_set_nth_eq {A} (l : list A) n a x : nth_error l n = Some x -> nth_error (set_nth l n a) n = Some a.
Proof. revert n; induction l as [|h t IH]; intros [|n] H; simpl in *; try discriminate; auto. Qed.

Lemma nth_set_nth_neq {A} (l : list A) n m a : n <> m -> nth_error (set_nth l n a) m = nth_error l m.
Proof. revert n m; induction l as [|h t IH]; intros [|n] [|m] H; simpl; auto; try congruence. Qed.

Lemma nth_set_nth {A} (l : list A) n m a y :
  nth_error (set_nth l n a) m = Some y -> (n = m /\ y = a) \/ (n <> m /\ nth_error l m = Some y).
Proof.
  destruct (Nat.eq_dec n m) as [->|Hne].
  - intros H. left. split; auto.
    destruct (nth_error l m) eqn:E.
    + rewrite (nth_set_nth_eq l m a a0 E) in H. congruence.
    + exfalso. revert m H E. induction l as [|h t IH]; intros [|m] H E; simpl in *; try discriminate. eauto.
  - rewrite nth_set_nth_neq by auto. auto.
Qed.

Lemma filter_le1 {A} (P : A -> bool) (l : list A) :
  (forall i j x y, nth_error l i = Some x -> nth_error l j = Some y -> P x = true -> P y = true -> i = j) ->
  length (filter P l) <= 1.
Proof.
  induction l as [|h t IH]; intros H; simpl; [lia|].
  destruct (P h) eqn:E; simpl.
  - assert (filter P t = []) as ->; [|simpl; lia].
    destruct (filter P t) as [|y r] eqn:F; auto. exfalso.
    assert (In y (filter P t)) as Hin by (rewrite F; left; auto).
    apply filter_In in Hin as [Hin Py]. apply In_nth_error in Hin as [j Hj].
    specialize (H 0 (S j) h y eq_refl Hj E Py). discriminate.
  - apply IH. intros i j x y Hi Hj Px Py. specialize (H (S i) (S j) x y Hi Hj Px Py). lia.
Qed.

(* ---------- one backend operation ---------- *)
Definition same_dir (f f' : fsstate) : Prop :=
  match f, f' with
  | None, None => True
  | Some d, Some d' => gen d = gen d' /\ owner d = owner d'
  | _, _ => False
  end.

Lemma sem_cases c ng st f o f' r : sem c ng st f o = (f', r) ->
  (o = OMkdir /\ r = ROk /\ f = None /\ f' = Some {| gen := ng; owner := c; hbf := false |}) \/
  (o = ORemove PDir /\ r = ROk /\ (exists d, f = Some d) /\ f' = None) \/
  (~ (o = OMkdir /\ r = ROk) /\ ~ (o = ORemove PDir /\ r = ROk) /\ same_dir f f').
Proof.
  unfold sem. intros H.
  destruct o as [|p|p|p|h one|one| |p]; try destruct p; destruct f as [d|]; simpl in H;
    repeat match type of H with context [if ?b then _ else _] => destruct b eqn:? end;
    inversion H; subst; clear H;
    try (left; repeat split; reflexivity);
    try (right; left; repeat split; eauto; reflexivity);
    right; right; (split; [intros [? ?]; congruence|]); (split; [intros [? ?]; congruence|]); simpl; auto.
Qed.

(* ---------- Hoare-style safety of programs w.r.t. the ghost of a call ---------- *)
Section SafeDef.
Variable A : Type.
Inductive Safe (Q : ghost -> A -> Prop) : ghost -> prog A -> Prop :=
| SafeRet w v : Q w v -> Safe Q w (Ret v)
| SafeDo w o k : (o = ORemove PDir -> win w = true) -> (forall r, Safe Q (upd w o r) (k r)) -> Safe Q w (Do o k).
End SafeDef.
Arguments Safe {A} Q _ _.
Arguments SafeRet {A Q} w v _.
Arguments SafeDo {A Q} w o k _ _.

Lemma Safe_weaken {A} (Q Q' : ghost -> A -> Prop) w p : (forall w' a, Q w' a -> Q' w' a) -> Safe Q w p -> Safe Q' w p.
Proof. intros HQ H. induction H; constructor; auto. Qed.

Lemma Safe_bind {A B} (Q1 : ghost -> A -> Prop) (Q : ghost -> B -> Prop) w p (f : A -> prog B) :
  Safe Q1 w p -> (forall w' a, Q1 w' a -> Safe Q w' (f a)) -> Safe Q w (bind p f).
Proof. intros H Hf. induction H; simpl; [auto|]. constructor; auto. Qed.

(* ghosts only move forward: mk is kept, an open window stays open (as long as no Mkdir is attempted) *)
Definition le (w w' : ghost) : Prop := mk w' = mk w /\ (win w = true -> win w' = true).
Lemma le_refl w : le w w. Proof. split; auto. Qed.
Lemma le_trans a b c : le a b -> le b c -> le a c.
Proof. intros [? ?] [? ?]. split; [congruence|auto]. Qed.

Lemma le_upd w o r : o <> OMkdir -> le w (upd w o r).
Proof.
  intros Ho. destruct o; try congruence; destruct r; simpl; try apply le_refl;
  try destruct stale; simpl; split; auto.
Qed.

Definition RO {A} (p : prog A) : Prop := forall w, Safe (fun w' _ => le w w') w p.

Ltac ro_do := constructor; [discriminate | intros ?r].
Ltac ro_ret := constructor; eauto using le_refl, le_trans, le_upd.

Lemma RO_step {A} w0 w o (k : res -> prog A) :
  o <> OMkdir -> o <> ORemove PDir -> le w0 w ->
  (forall r w', le w0 w' -> Safe (fun w'' _ => le w0 w'') w' (k r)) ->
  Safe (fun w'' _ => le w0 w'') w (Do o k).
Proof.
  intros H1 H2 Hle Hk. constructor; [congruence|]. intros r. apply Hk.
  eapply le_trans; [exact Hle|]. apply le_upd; auto.
Qed.

Lemma RO_ret {A} w0 w (a : A) : le w0 w -> Safe (fun w'' _ => le w0 w'') w (Ret a).
Proof. intros. constructor. auto. Qed.

Lemma RO_use {A B} w0 w (p : prog A) (f : A -> prog B) :
  RO p -> le w0 w ->
  (forall a w', le w0 w' -> Safe (fun w'' _ => le w0 w'') w' (f a)) ->
  Safe (fun w'' _ => le w0 w'') w (bind p f).
Proof.
  intros Hp Hle Hf. eapply Safe_bind; [apply Hp|]. simpl. intros w' a Hw. apply Hf. eapply le_trans; eauto.
Qed.

Lemma RO_intro {A} (p : prog A) : (forall w0 w, le w0 w -> Safe (fun w'' _ => le w0 w'') w p) -> RO p.
Proof. intros H w. apply H, le_refl. Qed.

Create HintDb ro.

Ltac ro :=
  repeat first
    [ apply RO_ret; assumption
    | match goal with |- Safe _ _ (bind _ _) => apply RO_use end; [solve [auto with ro] | assumption | intros ?a ?w ?Hle; cbv beta iota ]
    | match goal with |- Safe _ _ (Do _ _) => apply RO_step end; [discriminate | discriminate | assumption | intros ?r ?w ?Hle; try destruct r; cbv beta iota ]
    | match goal with |- context [if ?b then _ else _] => destruct b end
    | match goal with |- context [match ?x with Ok _ => _ | Err => _ end] => destruct x; cbv beta iota end
    | match goal with |- context [match ?x with 0 => _ | S _ => _ end] => destruct x; cbv beta iota end ].
Ltac ro_start f := apply RO_intro; intros ?w0 ?w ?Hle; unfold f.

Lemma RO_exists p : RO (exists_ p).
Proof. ro_start exists_. ro. Qed.
#[export] Hint Resolve RO_exists : ro.

Lemma RO_is_dir p : RO (is_dir p).
Proof. ro_start is_dir. ro. Qed.
#[export] Hint Resolve RO_is_dir : ro.

Lemma RO_is_file p : RO (is_file p).
Proof. ro_start is_file. ro. Qed.
#[export] Hint Resolve RO_is_file : ro.

Lemma RO_is_empty p : RO (is_empty p).
Proof. ro_start is_empty. ro. Qed.
#[export] Hint Resolve RO_is_empty : ro.

Lemma RO_ls_dir : RO ls_dir.
Proof. ro_start ls_dir. ro. Qed.
#[export] Hint Resolve RO_ls_dir : ro.

(* is_stale answers true only after a Stat that returned a stale time stamp: the release window is open *)
Lemma safe_is_stale w : Safe (fun w' b => le w w' /\ (b = true -> win w' = true)) w is_stale.
Proof.
  unfold is_stale. eapply Safe_bind; [apply RO_ls_dir|]. simpl. intros w' l Hle.
  assert (forall p, Safe (fun w'' b => le w w'' /\ (b = true -> win w'' = true)) w'
            (Do (OStat p) (fun r => match r with RIsDir s | RIsFile s => Ret s | _ => Ret false end))) as Hstat.
  { intros p. constructor; [discriminate|]. intros r.
    assert (le w (upd w' (OStat p) r)) by (eapply le_trans; [exact Hle|apply le_upd; discriminate]).
    destruct r; try (constructor; split; [assumption|discriminate]);
      destruct stale; constructor; (split; [assumption|]); simpl; auto; discriminate. }
  destruct l as [[|n]|]; [apply Hstat|apply Hstat|]. constructor. split; [assumption|discriminate].
Qed.

(* programs that may remove the lock directory, run with the window open *)
Definition ROW {A} (p : prog A) : Prop :=
  forall w0 w, win w0 = true -> le w0 w -> Safe (fun w'' _ => le w0 w'') w p.

Lemma RO_ROW {A} (p : prog A) : RO p -> ROW p.
Proof.
  intros H w0 w _ Hle. eapply Safe_weaken; [|apply H]. simpl. intros. eapply le_trans; eauto.
Qed.

Lemma ROW_step {A} w0 w o (k : res -> prog A) :
  o <> OMkdir -> win w0 = true -> le w0 w ->
  (forall r w', le w0 w' -> Safe (fun w'' _ => le w0 w'') w' (k r)) ->
  Safe (fun w'' _ => le w0 w'') w (Do o k).
Proof.
  intros H1 Hw Hle Hk. constructor; [intros _; apply Hle; exact Hw|]. intros r. apply Hk.
  eapply le_trans; [exact Hle|]. apply le_upd; auto.
Qed.

Lemma ROW_use {A B} w0 w (p : prog A) (f : A -> prog B) :
  ROW p -> win w0 = true -> le w0 w ->
  (forall a w', le w0 w' -> Safe (fun w'' _ => le w0 w'') w' (f a)) ->
  Safe (fun w'' _ => le w0 w'') w (bind p f).
Proof. intros Hp Hw Hle Hf. eapply Safe_bind; [apply (Hp w0 w Hw Hle)|]. simpl. intros w' a Hw'. apply Hf. assumption. Qed.

Ltac row :=
  repeat first
    [ apply RO_ret; assumption
    | apply ROW_step; [discriminate | assumption | assumption | intros ?r ?w ?Hle; try destruct r; simpl ]
    | apply RO_use; [solve [auto with ro] | assumption | intros ?a ?w ?Hle; simpl ]
    | match goal with |- context [if ?b then _ else _] => destruct b end
    | match goal with |- context [match ?x with Ok _ => _ | Err => _ end] => destruct x; simpl end
    | match goal with |- context [match ?x with 0 => _ | S _ => _ end] => destruct x; simpl end ].

Lemma ROW_rm_with clean p : ROW clean -> ROW (rm_with clean p).
Proof.
  intros Hc w0 w Hw Hle. unfold rm_with.
  apply RO_use; [auto with ro|assumption|]. intros e w1 Hle1. destruct (negb e); [apply RO_ret; assumption|].
  apply RO_use; [auto with ro|assumption|]. intros d w2 Hle2. destruct d as [isdir|]; [|apply RO_ret; assumption].
  apply RO_use; [auto with ro|assumption|]. intros em w3 Hle3. destruct em as [isempty|]; [|apply RO_ret; assumption].
  apply ROW_use; [destruct (isdir && negb isempty); [exact Hc|intros ? ? ? ?; apply RO_ret; assumption]|assumption|assumption|].
  intros cl w4 Hle4. destruct cl; [|apply RO_ret; assumption].
  apply RO_use; [auto with ro|assumption|]. intros em2 w5 Hle5. destruct em2 as [isempty2|]; [|apply RO_ret; assumption].
  destruct (isdir && negb isempty2); [apply RO_ret; assumption|].
  apply ROW_step; [discriminate|assumption|assumption|]. intros r w6 Hle6. destruct r; apply RO_ret; assumption.
Qed.

Lemma ROW_rm_hb : ROW rm_hb.
Proof. apply ROW_rm_with. intros ? ? ? ?. apply RO_ret. assumption. Qed.

Lemma ROW_clean_dir : ROW clean_dir.
Proof.
  intros w0 w Hw Hle. unfold clean_dir.
  apply RO_use; [auto with ro|assumption|]. intros e w1 Hle1. destruct (negb e); [apply RO_ret; assumption|].
  apply RO_use; [auto with ro|assumption|]. intros em w2 Hle2. destruct em as [[|]|]; try (apply RO_ret; assumption).
  apply RO_use; [auto with ro|assumption|]. intros l w3 Hle3. destruct l as [[|n]|]; try (apply RO_ret; assumption).
  apply ROW_rm_hb; assumption.
Qed.

Lemma ROW_rm_dir : ROW rm_dir.
Proof. apply ROW_rm_with, ROW_clean_dir. Qed.

Lemma unlock_S m : unlock_attempts (S m) =
  (r <- rm_dir ;; match r with Err => unlock_attempts m
                  | Ok _ => e <- exists_ PDir ;; if e then unlock_attempts m else Ret AOk end).
Proof. reflexivity. Qed.

Lemma ROW_unlock_attempts n : ROW (unlock_attempts n).
Proof.
  induction n as [|n IH]; intros w0 w Hw Hle; [apply RO_ret; assumption|]. rewrite unlock_S.
  apply ROW_use; [apply ROW_rm_dir|assumption|assumption|]. intros r w1 Hle1. destruct r; [|apply IH; assumption].
  apply RO_use; [auto with ro|assumption|]. intros e w2 Hle2. destruct e; [apply IH; assumption|apply RO_ret; assumption].
Qed.

(* an acquire reports success only after a Mkdir of the same call succeeded; the directory is removed only while the
   window is open *)
Definition Qacq (w : ghost) (v : ares) : Prop := v = AOk -> mk w = true.

Lemma try_lock_eq fuel ovr wt : try_lock fuel ovr wt =
  Do OMkdir (fun r => match r with
    | RExist =>
        s <- is_stale ;;
        if s then
          if ovr then
            match fuel with
            | 0 => Ret AOther
            | S f =>
                s2 <- is_stale ;;
                if s2 then
                  if wt then Ret ACancelled
                  else (_ <- unlock ;; try_lock f ovr wt)
                else try_lock f ovr wt
            end
          else Ret AStale
        else Ret ALocked
    | ROk => Do (OChtimes PDir) (fun _ => Ret AOk)
    | _ => Ret AOther end).
Proof. destruct fuel; reflexivity. Qed.

Lemma safe_try_lock ovr wt fuel : forall w, Safe Qacq w (try_lock fuel ovr wt).
Proof.
  assert (forall w v, v <> AOk -> Safe Qacq w (Ret v)) as Hne by (intros; constructor; intros ?; congruence).
  induction fuel as [|f IH]; intros w; rewrite try_lock_eq; (constructor; [discriminate|]); intros r;
    destruct r; try (apply Hne; discriminate).
  - constructor; [discriminate|]. intros r. constructor. intros _. destruct r; reflexivity.
  - eapply Safe_bind; [apply safe_is_stale|]. cbv beta. intros w' s [_ _].
    destruct s; [destruct ovr|]; apply Hne; discriminate.
  - constructor; [discriminate|]. intros r. constructor. intros _. destruct r; reflexivity.
  - eapply Safe_bind; [apply safe_is_stale|]. cbv beta. intros w' s [_ _].
    destruct s; [|apply Hne; discriminate].
    destruct ovr; [|apply Hne; discriminate].
    eapply Safe_bind; [apply safe_is_stale|]. cbv beta. intros w'' s2 [_ Hs2].
    destruct s2; [|apply IH].
    destruct wt; [apply Hne; discriminate|].
    eapply Safe_bind; [apply (ROW_unlock_attempts 10 w'' w'' (Hs2 eq_refl) (le_refl w''))|]. cbv beta. intros w3 _ _. apply IH.
Qed.

Lemma safe_unlock w : win w = true -> Safe (fun _ _ => True) w unlock.
Proof.
  intros Hw. apply Safe_weaken with (Q := fun w'' (_ : ares) => le w w''); [intros; exact I|].
  exact (ROW_unlock_attempts 10 w w Hw (le_refl w)).
Qed.

Definition Qof (a : api) : ghost -> ares -> Prop := if is_acquire a then Qacq else fun _ _ => True.

Lemma safe_prog_of_acquire a ovr w : is_acquire a = true -> Safe (Qof a) w (prog_of a ovr).
Proof. destruct a; simpl; try discriminate; intros _; apply safe_try_lock. Qed.
