(* C01 — mutual exclusion under the atomic-release hypothesis (restricted relation [rrun] of Model.v). *)
From Coq Require Import List Bool Arith Lia.
Import ListNotations.
From GU Require Import C01.Facts C01.Model C01.Proofs.

Lemma live_owner_inv f l : live_owner f l = true ->
  exists d y, f = Some d /\ nth_error l (owner d) = Some y /\ alive y = true /\ eng y = Some (gen d).
Proof.
  unfold live_owner. destruct f as [d|]; [|discriminate]. destruct (nth_error l (owner d)) as [y|] eqn:E; [|discriminate].
  intros H. apply andb_true_iff in H as [Ha He]. destruct (eng y) as [g|] eqn:Eg; [|discriminate].
  apply Nat.eqb_eq in He. subst. eauto 8.
Qed.

(* live_owner can only become true through a change of the directory's identity or of somebody's (alive, eng) *)
Lemma live_owner_le f l f' l' : same_dir f f' ->
  (forall i y' g, nth_error l' i = Some y' -> alive y' = true -> eng y' = Some g ->
     exists y, nth_error l i = Some y /\ alive y = true /\ eng y = Some g) ->
  live_owner f' l' = true -> live_owner f l = true.
Proof.
  intros Hsd Hl H. apply live_owner_inv in H as (d' & y' & -> & Hy' & Ha & He).
  destruct f as [d|]; simpl in Hsd; [|contradiction]. destruct Hsd as [Hg Ho].
  destruct (Hl _ _ _ Hy' Ha He) as (y & Hy & Hay & Hey).
  eapply live_owner_true; eauto.
Qed.

Lemma win_upd w o r : win (upd w o r) = true ->
  o <> OMkdir /\ (win w = true \/ ((exists p, o = OStat p) /\ exists a, canon a = true /\ (r = RIsDir a \/ r = RIsFile a))).
Proof.
  destruct o; simpl; try (split; [discriminate|]); auto; destruct r; simpl; auto; try discriminate;
    destruct (canon age) eqn:E; simpl; auto; right; split; eauto.
Qed.

Lemma sem_stale c ng st fl f o f' r a : (exists p, o = OStat p) -> sem c ng st fl f o = (f', r) -> (r = RIsDir a \/ r = RIsFile a) -> st = a.
Proof.
  unfold sem. intros [p ->] H Hr.
  destruct fl; simpl in H; try (inversion H; subst; destruct Hr; discriminate). unfold sem0 in H.
  destruct p; destruct f as [d|]; simpl in H;
    repeat match type of H with context [if ?b then _ else _] => destruct b eqn:? end;
    inversion H; subst; destruct Hr as [Hr|Hr]; try discriminate; inversion Hr; auto.
Qed.

Lemma others_closed_spec l : forall c d y, others_closed l c = true -> d <> c -> nth_error l d = Some y -> window_open y = false.
Proof.
  induction l as [|x t IH]; intros c d y H Hne Hd; [destruct d; discriminate|].
  destruct c as [|c]; simpl in H.
  - destruct d as [|d]; [congruence|]. simpl in Hd. rewrite forallb_forall in H.
    apply nth_error_In in Hd. specialize (H y Hd). now apply negb_true_iff in H.
  - apply andb_true_iff in H as [Hx Ht]. destruct d as [|d]; simpl in Hd.
    + inversion Hd; subst. now apply negb_true_iff in Hx.
    + apply (IH c d y Ht); [intros e; apply Hne; congruence|exact Hd].
Qed.

Definition WInv (s : state) : Prop :=
  forall c x, nth_error (cs s) c = Some x -> window_open x = true -> live_owner (fs s) (cs s) = false.

Definition Inv2 (s : state) : Prop := Inv s /\ bad s = false /\ WInv s.

Section Oracle.
Variable F : lockfacts.
Hypothesis Hrel : cond_release F = true.
Local Notation exec := (Model.exec F).
Local Notation rrun := (Model.rrun F).
Local Notation mstep := (Proofs.mstep F).
Variable judge : state -> bool.
(* the staleness oracle never judges stale a directory whose creator is engaged with it and alive *)
Hypothesis judge_sound : forall s, judge s = true -> live_owner (fs s) (cs s) = false.

Lemma Inv2_mstep s c st fl s' : Inv2 s -> allowedb judge s (IStep c None st fl) = true -> mstep s c st fl s' -> Inv2 s'.
Proof.
  intros (HI & Hb & HW) Hall Hm. pose proof (Inv_mstep F Hrel s c st fl s' HI Hm) as HI'.
  destruct HI as (Hex & Hhe & Hps). specialize (Hex Hb).
  apply mstep_x2 in Hm as (x & a & o & k & r & x2 & Hx & Hcur & Hsem & Hcs & Hbad & Hal & Hov & Hgh & Heng & Hho & Hcu).
  destruct (Hps c x a (Do o k) Hx Hcur) as [Hsafe _]. apply Safe_Do_inv in Hsafe as [Hguard _].
  assert (o <> OMkdir -> window_open x = win (gh x)) as Hwo.
  { intros Ho. unfold window_open, at_mkdir. rewrite Hcur. destruct o; try congruence; apply andb_true_r. }
  simpl in Hall. rewrite Hx in Hall. apply andb_true_iff in Hall as [Hjudge Hmk].
  split; [exact HI'|]. split.
  - (* no destructive removal *)
    rewrite Hbad, Hb. simpl. destruct o as [|[]| | | | | | |]; try reflexivity. destruct r; try reflexivity. simpl.
    apply (HW c x Hx). rewrite Hwo by discriminate. apply Hguard. reflexivity.
  - intros c' y' Hy' Hwin. rewrite Hcs in Hy'.
    destruct (sem_cases c (ngen s) st fl (fs s) o (fs s') r Hsem) as [(-> & -> & Hf & Hf')|[(-> & -> & [d Hf] & Hf')|(Hnc & Hnr & Hsd)]].
    + (* Mkdir succeeded: no other window is open, and the own window closes *)
      exfalso. unfold at_mkdir in Hmk. rewrite Hcur, Hf in Hmk. simpl in Hmk.
      apply nth_set_nth in Hy' as [[<- ->]|[Hne Hy']].
      * unfold window_open in Hwin. rewrite Hgh in Hwin. simpl in Hwin. destruct (cur x2); discriminate.
      * rewrite (others_closed_spec (cs s) c c' y' Hmk (fun e => Hne (eq_sym e)) Hy') in Hwin. discriminate.
    + rewrite Hf'. reflexivity.
    + assert (live_owner (fs s) (cs s) = false) as Hbefore.
      { apply nth_set_nth in Hy' as [[<- ->]|[Hne Hy']]; [|exact (HW c' y' Hy' Hwin)].
        assert (win (gh x2) = true) as Hw2.
        { unfold window_open in Hwin. destruct (cur x2); [|discriminate]. apply andb_true_iff in Hwin. tauto. }
        rewrite Hgh in Hw2. apply win_upd in Hw2 as [Hno [Hw|[Hp (a0 & Hca & Hr)]]].
        - apply (HW c x Hx). rewrite Hwo by exact Hno. exact Hw.
        - apply judge_sound. rewrite (sem_stale c (ngen s) st fl (fs s) o (fs s') r a0 Hp Hsem Hr), Hca in Hjudge. exact Hjudge. }
      destruct (live_owner (fs s') (cs s')) eqn:E; [|reflexivity]. rewrite <- Hbefore. symmetry.
      eapply live_owner_le; [exact Hsd| |exact E].
      intros i z g Hz Haz Hez. rewrite Hcs in Hz. apply nth_set_nth in Hz as [[<- ->]|[Hne Hz]]; [|eauto].
      exists x. rewrite Hal in Haz. rewrite Heng, (eng_not_created o r _ _ _ Hnc) in Hez. auto.
Qed.

Lemma Inv2_other s it s' ob : Inv2 s -> exec s it = Some (s', ob) -> (forall c st fl, it <> IStep c None st fl) -> Inv2 s'.
Proof.
  intros (HI & Hb & HW) He Hnot. pose proof (Inv_other F Hrel s it s' ob HI He Hnot) as HI'.
  destruct HI as (Hex & Hhe & Hps). specialize (Hex Hb).
  destruct (exec_other_inv F s it s' ob He Hnot) as (x & x2 & Hx & Hcs & Hbad & Hsd & Hov & Hcase).
  set (c := item_c it) in *.
  split; [exact HI'|]. split; [congruence|].
  assert (alive x2 = true -> alive x = true) as Hal.
  { destruct Hcase as [(a & _ & _ & _ & _ & Ha & _)|[(_ & _ & _ & Ha & _)|[(_ & _ & Ha & _)|(Ha & _)]]]; try congruence. }
  assert (forall g, eng x2 = Some g -> eng x = Some g) as Hen.
  { destruct Hcase as [(a & _ & _ & _ & _ & _ & _ & Ha & _)|[(_ & _ & _ & _ & _ & Ha & _)|[(_ & _ & _ & Ha & _)|(_ & Ha & _)]]]; congruence. }
  assert (live_owner (fs s') (cs s') = true -> live_owner (fs s) (cs s) = true) as Hle.
  { apply live_owner_le; [exact Hsd|]. intros i z g Hz Haz Hez. rewrite Hcs in Hz.
    apply nth_set_nth in Hz as [[<- ->]|[Hne Hz]]; [exists x; auto|eauto]. }
  intros c' y' Hy' Hwin. rewrite Hcs in Hy'.
  destruct (live_owner (fs s') (cs s')) eqn:E; [|reflexivity]. exfalso.
  apply nth_set_nth in Hy' as [[<- ->]|[Hne Hy']].
  - destruct Hcase as [(a & _ & _ & _ & _ & _ & _ & _ & _ & Hc & Hg)|[(_ & _ & Hh & Ha & _ & Hee & _ & _ & _)|[(_ & _ & _ & _ & _ & Hc & _)|(_ & _ & _ & Hg & Hc)]]].
    + unfold window_open in Hwin. rewrite Hc, Hg in Hwin. discriminate.
    + (* Unlock begins: the holder's own directory is the one on disk, and it is no longer engaged *)
      destruct (eng x) as [gx|] eqn:Ex; [|exact (Hhe c x Hx Hh Ex)].
      destruct (Hex c x gx Hx Ha Ex) as (d & Hd & Hgd & Hod).
      apply live_owner_inv in E as (d' & z & Hd' & Hz & Haz & Hez).
      unfold same_dir in Hsd. rewrite Hd, Hd' in Hsd. destruct Hsd as [Hg' Ho'].
      rewrite Hcs, <- Ho', Hod in Hz. rewrite (nth_set_nth_eq (cs s) c x2 x Hx) in Hz. inversion Hz; subst. congruence.
    + unfold window_open in Hwin. rewrite Hc in Hwin. discriminate.
    + assert (window_open x = true) as Hw.
      { destruct Hc as [Hc|(p & Hc & Hc2)]; unfold window_open, at_mkdir in *.
        - rewrite <- Hc, <- Hg; exact Hwin.
        - rewrite Hc2, Hg in Hwin. rewrite Hc. exact Hwin. }
      rewrite (HW c x Hx Hw) in Hle. specialize (Hle eq_refl). discriminate.
  - rewrite (HW c' y' Hy' Hwin) in Hle. specialize (Hle eq_refl). discriminate.
Qed.

Lemma Inv2_rrun its : forall s s', Inv2 s -> rrun judge s its = Some s' -> Inv2 s'.
Proof.
  induction its as [|it r IH]; intros s s' HI H; simpl in H; [inversion H; subst; exact HI|].
  destruct (allowedb judge s it) eqn:Hall; [|discriminate].
  destruct (exec s it) as [[s1 o]|] eqn:E; [|discriminate].
  apply (IH s1 s'); [|exact H].
  destruct it as [c a|c [k|] st fl|c|c].
  - eapply Inv2_other; eauto. discriminate.
  - eapply Inv2_other; eauto. discriminate.
  - eapply Inv2_mstep; eauto. eapply (exec_main_inv F); eauto.
  - eapply Inv2_other; eauto. discriminate.
  - eapply Inv2_other; eauto. discriminate.
Qed.

Lemma Inv2_init ovrs objs : Inv2 (init ovrs objs).
Proof.
  split; [apply Inv_init|]. split; [reflexivity|]. intros c x Hx Hw. reflexivity.
Qed.

Lemma mutex_under_atomic_release_l ovrs objs its s :
  rrun judge (init ovrs objs) its = Some s ->
  live_holders s <= 1 /\ bad s = false /\
  (forall c x g, nth_error (cs s) c = Some x -> alive x = true -> eng x = Some g ->
     exists d, fs s = Some d /\ gen d = g /\ owner d = c).
Proof.
  intros H. destruct (Inv2_rrun its (init ovrs objs) s (Inv2_init ovrs objs) H) as ((Hex & Hhe & _) & Hb & _).
  split; [apply excl_holders; auto|]. split; [exact Hb|]. exact (Hex Hb).
Qed.

End Oracle.

