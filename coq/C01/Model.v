(* C01 — executable model of the file lock, utils/filesystem/lockfile.go (RemoteLockFile) and of the parts of
   utils/filesystem/files.go its calls go through, at the granularity of INDIVIDUAL BACKEND OPERATIONS
   (every call crossing the afero.Fs boundary that reads or changes the lock directory or the heartbeat file:
   Mkdir, Remove, Stat, Open, Readdirnames, OpenFile(create), Chtimes).

   The library functions are written as programs in a free monad over those operations, mirroring the Go
   functions statement by statement; a contender's state is the continuation of the API call it is executing.
   One step of the interleaving semantics executes ONE backend operation of ONE thread (API thread of a
   contender, or one of its heartbeat writers) atomically on the shared state.

   Backend semantics: POSIX directory (the OS back end, filesystem.NewExtendedOsFs): mkdir fails on an existing
   directory, rmdir fails on a non-empty one, creating a file in a missing directory fails, reading a directory
   handle whose directory has been removed gives ENOENT.  Context checks are no-ops (contexts are never
   cancelled inside the scheduled part of a scenario) except for the cancel store of LockWithTimeout (see
   [try_lock]).  Staleness: the verdict "the modification time just read is older than two heartbeat periods"
   (lockfile.go:115 isStale) is an INPUT of every step (part of the schedule), not a function of a clock; the harness
   presents a modification time of a chosen logical age and lets the library's arithmetic decide, the verdict of the
   case being "age > 100 ms".  The firing of a LockWithTimeout deadline is an input as well ([IDeadline], [Chk]). *)
From Coq Require Import List Bool Arith.
Import ListNotations.
From GU Require Import C01.Facts.

(* ---------- shared state: the one lock path ---------- *)
Inductive path := PDir | PHb.      (* <dir>/lockfile-<id>  and  <dir>/lockfile-<id>/<id>.lock *)

Record dirst := { gen : nat;       (* ghost: generation, = number of earlier successful Mkdirs *)
                  owner : nat;     (* ghost: contender whose Mkdir created it *)
                  hbf : bool }.    (* the heartbeat file exists *)

Inductive op :=
| OMkdir                            (* l.fs.vfs.Mkdir(lockPath)            lockfile.go:137 *)
| ORemove (p : path)                (* fs.vfs.Remove                       files.go:778 *)
| OStat (p : path)                  (* fs.vfs.Stat                         files.go:475 *)
| OLstat (p : path)                 (* fs.vfs.LstatIfPossible              files.go:255 (VFS.Lstat) *)
| OOpen (p : path)                  (* fs.vfs.Open                         files.go:661, 897, 1278 (GenericOpen :281) *)
| OReaddir (h : nat) (one : bool)   (* f.Readdirnames(1) / (-1) on a handle of generation h *)
| OReaddirF (one : bool)            (* f.Readdirnames on a handle of the heartbeat FILE (isDirEmpty reached through a race) *)
| OOpenHb                           (* OpenFile(hb, O_WRONLY|O_CREATE|O_TRUNC) + Write + Close   files.go:437 *)
| OChtimes (p : path).              (* fs.vfs.Chtimes                      files.go:1052 *)

Inductive res :=
| ROk | RExist | RNotExist | RNotEmpty | ROther
| RIsDir (age : nat) | RIsFile (age : nat)         (* Stat: kind + age (ms) of the ModTime presented *)
| RHandle (h : nat) | RFileHandle
| RNames (n : nat) (eof : bool).

Definition fsstate := option dirst.

(* one backend operation by contender [c]; [ng] = next generation number; [age] = logical age (ms) of the time stamp a
   Stat of this step presents (an input of the schedule) *)
Definition sem0 (c ng : nat) (age : nat) (fs : fsstate) (o : op) : fsstate * res :=
  match o, fs with
  | OMkdir, None => (Some {| gen := ng; owner := c; hbf := false |}, ROk)
  | OMkdir, Some _ => (fs, RExist)
  | ORemove PDir, None => (fs, RNotExist)
  | ORemove PDir, Some d => if hbf d then (fs, RNotEmpty) else (None, ROk)
  | ORemove PHb, Some d => if hbf d then (Some {| gen := gen d; owner := owner d; hbf := false |}, ROk) else (fs, RNotExist)
  | ORemove PHb, None => (fs, RNotExist)
  | OStat PDir, None => (fs, RNotExist)
  | OStat PDir, Some _ => (fs, RIsDir age)
  | OStat PHb, Some d => if hbf d then (fs, RIsFile age) else (fs, RNotExist)
  | OStat PHb, None => (fs, RNotExist)
  | OLstat PDir, None => (fs, RNotExist)
  | OLstat PDir, Some _ => (fs, RIsDir 0)
  | OLstat PHb, Some d => if hbf d then (fs, RIsFile 0) else (fs, RNotExist)
  | OLstat PHb, None => (fs, RNotExist)
  | OOpen PDir, None => (fs, RNotExist)
  | OOpen PDir, Some d => (fs, RHandle (gen d))
  | OOpen PHb, Some d => if hbf d then (fs, RFileHandle) else (fs, RNotExist)
  | OOpen PHb, None => (fs, RNotExist)
  | OReaddirF _, _ => (fs, ROther)                     (* ENOTDIR *)
  | OReaddir h one, Some d =>
      if Nat.eqb (gen d) h then
        (if hbf d then (fs, RNames 1 false) else (fs, RNames 0 one))
      else (fs, RNotExist)                             (* handle of a removed directory *)
  | OReaddir _ _, None => (fs, RNotExist)
  | OOpenHb, None => (fs, RNotExist)
  | OOpenHb, Some d => (Some {| gen := gen d; owner := owner d; hbf := true |}, ROk)
  | OChtimes PDir, None => (fs, RNotExist)
  | OChtimes PDir, Some _ => (fs, ROk)
  | OChtimes PHb, Some d => if hbf d then (fs, ROk) else (fs, RNotExist)
  | OChtimes PHb, None => (fs, RNotExist)
  end.

(* A backend FAULT injected by the schedule on a READ-side operation (Stat, Lstat, Open, Readdirnames): the operation is
   not executed and reports an error — something other than "does not exist" (EACCES, EPERM, EIO), or the lie "does not
   exist".  Mutating operations are never faulted. *)
Inductive fault := FNone | FErr | FGone.
Definition is_read (o : op) : bool :=
  match o with OStat _ | OLstat _ | OOpen _ | OReaddir _ _ | OReaddirF _ => true | _ => false end.
Definition sem (c ng : nat) (age : nat) (fl : fault) (fs : fsstate) (o : op) : fsstate * res :=
  match fl with
  | FNone => sem0 c ng age fs o
  | FErr => if is_read o then (fs, ROther) else sem0 c ng age fs o
  | FGone => if is_read o then (fs, RNotExist) else sem0 c ng age fs o
  end.

(* ---------- programs ---------- *)
(* [Chk k] = a context check (parallelisation.DetermineContextError(ctx)) that is not a backend operation: it costs no
   step; if the context of the call has been cancelled (deadline of LockWithTimeout) the call ends there, else it
   goes on with k (see [nxt]). *)
Inductive prog (A : Type) := Ret (a : A) | Do (o : op) (k : res -> prog A) | Chk (k : prog A).
Arguments Ret {A} a.
Arguments Do {A} o k.
Arguments Chk {A} k.

Fixpoint bind {A B} (p : prog A) (f : A -> prog B) : prog B :=
  match p with Ret a => f a | Do o k => Do o (fun r => bind (k r) f) | Chk k => Chk (bind k f) end.
Notation "x <- p ;; q" := (bind p (fun x => q)) (at level 61, p at next level, right associativity).

Inductive result (A : Type) := Ok (a : A) | Err.      (* error kinds do not influence the lock's control flow *)
Arguments Ok {A} a.
Arguments Err {A}.

(* VFS.Exists + checkDirExists, files.go:642-677 *)
Definition exists_ (p : path) : prog bool :=
  Do (OStat p) (fun r => match r with
    | RIsDir _ => Do (OOpen p) (fun r => match r with
        | RHandle h => Do (OReaddir h true) (fun r => match r with RNotExist => Ret false | _ => Ret true end)
        | RFileHandle => Do (OReaddirF true) (fun r => match r with RNotExist => Ret false | _ => Ret true end)
        | _ => Ret false end)
    | RIsFile _ => Ret true
    | _ => Ret false end).

(* VFS.IsDir, files.go:836-850 *)
Definition is_dir (p : path) : prog (result bool) :=
  e <- exists_ p ;;
  if negb e then Ret Err else
  Do (OStat p) (fun r => match r with RIsDir _ => Ret (Ok true) | RIsFile _ => Ret (Ok false) | _ => Ret Err end).

(* VFS.IsFile, files.go:786-800 *)
Definition is_file (p : path) : prog (result bool) :=
  e <- exists_ p ;;
  if negb e then Ret (Ok false) else
  Do (OStat p) (fun r => match r with RIsFile _ => Ret (Ok true) | RIsDir _ => Ret (Ok false) | _ => Ret Err end).

(* VFS.IsEmpty / isFileEmpty / isDirEmpty, files.go:864-916.  The heartbeat file is never observed with size 0
   (create+write+close is one step of the heartbeat writer). *)
Definition is_empty (p : path) : prog (result bool) :=
  e <- exists_ p ;;
  if negb e then Ret (Ok true) else
  f <- is_file p ;;
  match f with
  | Err => Ret Err
  | Ok true => Do (OStat p) (fun r => match r with RIsFile _ | RIsDir _ => Ret (Ok false) | _ => Ret Err end)
  | Ok false => Do (OOpen p) (fun r => match r with
      | RHandle h => Do (OReaddir h true) (fun r => match r with
          | RNames _ true | RNotExist => Ret (Ok true)
          | _ => Ret (Ok false) end)
      | RFileHandle => Do (OReaddirF true) (fun r => match r with
          | RNames _ true | RNotExist => Ret (Ok true)
          | _ => Ret (Ok false) end)
      | _ => Ret Err end)
  end.

(* LsWithExclusionPatterns (no patterns), files.go:1273-1290: number of names (0 or 1) *)
Definition ls_dir : prog (result nat) :=
  d <- is_dir PDir ;;
  match d with
  | Ok true => Do (OOpen PDir) (fun r => match r with
      | RHandle h => Do (OReaddir h false) (fun r => match r with RNames n _ => Ret (Ok n) | _ => Ret Err end)
      | RFileHandle => Do (OReaddirF false) (fun r => match r with RNames n _ => Ret (Ok n) | _ => Ret Err end)
      | _ => Ret Err end)
  | _ => Ret Err
  end.

(* RemoveWithContextAndExclusionPatterns / removeWithExclusionPatterns (no patterns), files.go:716-780 (line numbers as of the tree with the C04/C08 repairs of Rm); [clean] = the
   call of CleanDirWithContextAndExclusionPatterns made when the path is a non-empty directory.  The first operation
   is the Lstat of the symbolic-link test (never a link here): if it FAILS with anything but "does not exist" the removal
   fails closed (it is not known whether the path is a link) — files.go:768-773. *)
Definition rm_body (clean : prog (result unit)) (p : path) : prog (result unit) :=
  e <- exists_ p ;;
  if negb e then Ret (Ok tt) else
  d <- is_dir p ;;
  match d with Err => Ret Err | Ok isdir =>
  em <- is_empty p ;;
  match em with Err => Ret Err | Ok isempty =>
  cl <- (if isdir && negb isempty then clean else Ret (Ok tt)) ;;
  match cl with Err => Ret Err | Ok _ =>
  em2 <- is_empty p ;;
  match em2 with Err => Ret Err | Ok isempty2 =>
  if isdir && negb isempty2 then Ret (Ok tt)         (* "some files may have been ignored": returns nil, nothing removed *)
  else Do (ORemove p) (fun r => match r with ROk => Ret (Ok tt) | _ => Ret Err end)
  end end end end.
Definition rm_with (clean : prog (result unit)) (p : path) : prog (result unit) :=
  Do (OLstat p) (fun r => match r with ROther => Ret Err | _ => rm_body clean p end).

Definition rm_hb : prog (result unit) := rm_with (Ret (Ok tt)) PHb.

(* CleanDirWithContextAndExclusionPatterns + removeFileWithContext, files.go:590-636 *)
Definition clean_dir : prog (result unit) :=
  e <- exists_ PDir ;;
  if negb e then Ret (Ok tt) else
  em <- is_empty PDir ;;
  match em with Err => Ret Err | Ok true => Ret (Ok tt) | Ok false =>
  l <- ls_dir ;;
  match l with Err => Ret Err | Ok 0 => Ret (Ok tt) | Ok (S _) => rm_hb end
  end.

(* fs.Rm(l.lockPath()) *)
Definition rm_dir : prog (result unit) := rm_with clean_dir PDir.

(* ================= from here on everything depends on the facts read from lockfile.go ================= *)
Section WithFacts.
Variable F : lockfacts.

(* RemoteLockFile.IsStale + areHeartBeatFilesAllStale + StatTimes + isStale, lockfile.go:80-120; the results on the error
   paths, the period each age is compared with and the comparison itself come from the facts *)
Definition is_stale : prog bool :=
  l <- ls_dir ;;
  match l with
  | Err => Ret (is_ls_error_stale F)
  | Ok 0 => Do (OStat PDir) (fun r => match r with
              | RIsDir a | RIsFile a => Ret (thr F (is_empty_period F) a)
              | _ => Ret (is_empty_stat_error_stale F) end)
  | Ok (S _) => Do (OStat PHb) (fun r => match r with
              | RIsDir a | RIsFile a => Ret (thr F (is_files_period F) a)
              | _ => Ret (is_file_stat_error_stale F) end)
  end.

Inductive ares := AOk | ALocked | AStale | ACancelled | AOther.

(* Unlock, lockfile.go:200-218: retry.Do with 10 attempts of { Rm; Exists } (the cancel of the heartbeat is
   done by the semantics when the call starts) *)
Fixpoint unlock_attempts (n : nat) : prog ares :=
  match n with
  | 0 => Ret AOther
  | S m => r <- rm_dir ;;
           match r with
           | Err => unlock_attempts m
           | Ok _ => if ul_recheck_exists F
                     then e <- exists_ PDir ;; if e then unlock_attempts m else Ret AOk
                     else Ret AOk
           end
  end.
Definition unlock : prog ares := unlock_attempts (ul_attempts F).

(* TryLock, lockfile.go:130-165 (+ ReleaseIfStale :122-127).  [fuel] bounds the recursion TryLock -> TryLock
   of the override path.  [wt] = the call comes from LockWithTimeout: the context of the action is registered in
   the lock's own cancel store (parallelisation.go:186-189), so the Unlock inside ReleaseIfStale cancels it —
   retry.Do then returns at once without removing anything and the recursive TryLock reports cancellation. *)
Fixpoint try_lock (fuel : nat) (ovr wt : bool) : prog ares :=
  Do OMkdir (fun r => match r with
    | RExist =>
        s <- is_stale ;;
        if s then
          if ovr then
            match fuel with
            | 0 => Ret AOther
            | S f =>
                (* ReleaseIfStale (which asks IsStale again) or, if the facts say so, Unlock at once *)
                s2 <- (match tl_override_call F with
                       | RelIfStale => if ris_rechecks_stale F then is_stale else Ret true
                       | RelUnlock => Ret true end) ;;
                if s2 then
                  if wt then Ret ACancelled
                  else (_ <- unlock ;; Chk (try_lock f ovr wt))
                else Chk (try_lock f ovr wt)         (* TryLock again: lockfile.go:131 context check first *)
            end
          else Ret AStale
        else Ret ALocked
    | ROk => Do (OChtimes PDir) (fun _ => Ret AOk)   (* then: go heartBeat(...) — spawned by the semantics *)
    | _ => Ret AOther end).

(* ---------- threads and global state ---------- *)
(* LockWTX = a LockWithTimeout call whose deadline has fired while its action (Lock) is still running:
   RunActionWithTimeoutAndCancelStore (parallelisation.go:207-212) has taken the timeout branch, cancelled the action's
   context and waits for the action; whatever the current TryLock round returns, the call reports the timeout — and
   performs no further backend operation. *)
Inductive api := TryLock | Lock | LockWT | Unlock | LockWTX.
Definition is_acquire (a : api) : bool := match a with Unlock => false | _ => true end.
Definition expired (a : api) : bool := match a with LockWTX => true | _ => false end.

(* resolve the context checks at the head of a continuation *)
Fixpoint norm (x : bool) (p : prog ares) : prog ares :=
  match p with Chk k => if x then Ret ACancelled else norm x k | _ => p end.
Definition nxt (a : api) (p : prog ares) : prog ares := norm (expired a) p.

Definition fuel0 := 120.
Definition prog_of (a : api) (ovr : bool) : prog ares :=
  match a with
  | TryLock | Lock => try_lock fuel0 ovr false
  | LockWT | LockWTX => try_lock fuel0 ovr true
  | Unlock => unlock
  end.

(* heartBeat, lockfile.go:61-74: { ctx check; WriteFile; Chtimes; sleep } *)
Inductive hbpc := HbOpen | HbCht | HbDone.
(* [born] = cancel epoch of the lock object's cancel store when the writer was started: the writer's context is
   cancelled as soon as the store has been cancelled since (see [hb_cancelled]) *)
Record hbst := { pc : hbpc; born : nat }.

(* ghost of one API call, used only by the theorems: [mk] a Mkdir of this call succeeded; [win] the release window
   of the call is open (it observed a stale time stamp, or it is an Unlock call, and has not attempted a Mkdir since) *)
Record ghost := { mk : bool; win : bool }.

Definition upd (w : ghost) (o : op) (r : res) : ghost :=
  match o, r with
  | OMkdir, ROk => {| mk := true; win := false |}
  | OMkdir, _ => {| mk := mk w; win := false |}
  | OStat _, RIsDir a | OStat _, RIsFile a => if canon a then {| mk := mk w; win := true |} else w
  | _, _ => w
  end.

Record cst := {
  ovr : bool;                          (* overrideStaleLock of the lock object *)
  cur : option (api * prog ares);      (* the API call in progress *)
  holds : bool;                        (* ghost: an acquire returned success and no Unlock has begun since *)
  alive : bool;                        (* false: the process died (dead holder) *)
  eng : option nat;                    (* ghost: generation this contender created and has not begun to release *)
  hbs : list hbst;                     (* its heartbeat writers, one per successful acquire *)
  gh : ghost }.

Record state := {
  fs : fsstate;
  ngen : nat;
  cs : list cst;
  ce : list nat;                       (* per lock OBJECT: how many times its cancel store has been cancelled *)
  lob : list nat;                      (* lock object used by each contender (several API threads may share one object) *)
  bad : bool }.                        (* ghost: a Remove destroyed a directory whose creator was engaged and alive *)

Definition init_c (o : bool) : cst :=
  {| ovr := o; cur := None; holds := false; alive := true; eng := None; hbs := []; gh := {| mk := false; win := false |} |}.
(* [objs]: object of each contender; a contender beyond the end of the list uses its own object (= its index) *)
Definition init (ovrs : list bool) (objs : list nat) : state :=
  {| fs := None; ngen := 0; cs := map init_c ovrs; bad := false; ce := map (fun _ => 0) ovrs; lob := objs |}.

Definition obj_of (s : state) (c : nat) : nat := nth c (lob s) c.
Definition epoch (s : state) (o : nat) : nat := nth o (ce s) 0.
(* the context of heartbeat writer h of contender c is cancelled *)
Definition hb_cancelled (s : state) (c : nat) (h : hbst) : bool := Nat.ltb (born h) (epoch s (obj_of s c)).

Fixpoint set_nth {A} (l : list A) (n : nat) (a : A) : list A :=
  match l, n with
  | [], _ => []
  | _ :: t, 0 => a :: t
  | h :: t, S m => h :: set_nth t m a
  end.

(* store.Cancel() on lock object o *)
Definition bump (l : list nat) (o : nat) : list nat := set_nth l o (S (nth o l 0)).

(* another API thread is inside a call on the lock object of contender c *)
Definition obj_busy (s : state) (c : nat) : bool :=
  existsb (fun dx => Nat.eqb (obj_of s (fst dx)) (obj_of s c) && match cur (snd dx) with Some _ => true | None => false end)
          (combine (seq 0 (length (cs s))) (cs s)).

(* the creator of the present directory is engaged with it and alive *)
Definition live_owner (f : fsstate) (l : list cst) : bool :=
  match f with
  | None => false
  | Some d => match nth_error l (owner d) with
              | Some x => alive x && match eng x with Some g => Nat.eqb g (gen d) | None => false end
              | None => false end
  end.

(* ---------- observations ---------- *)
Inductive opc := CMkdir | CRemove (p : path) | CStat (p : path) | CLstat (p : path) | COpen (p : path) | CReaddir (one : bool) | CReaddirF (one : bool) | CUnknown
               | COpenFile | CChtimes (p : path).
Inductive resc := QOk | QExist | QNotExist | QNotEmpty | QOther | QIsDir | QIsFile | QNames (n : nat) (eof : bool).

Definition opc_of (o : op) : opc :=
  match o with
  | OMkdir => CMkdir | ORemove p => CRemove p | OStat p => CStat p | OLstat p => CLstat p | OOpen p => COpen p
  | OReaddir _ one => CReaddir one | OReaddirF one => CReaddirF one | OOpenHb => COpenFile | OChtimes p => CChtimes p end.
Definition resc_of (r : res) : resc :=
  match r with
  | ROk | RHandle _ | RFileHandle => QOk | RExist => QExist | RNotExist => QNotExist | RNotEmpty => QNotEmpty | ROther => QOther
  | RIsDir _ => QIsDir | RIsFile _ => QIsFile | RNames n e => QNames n e end.

Record obs := { o_op : opc; o_res : resc; o_ret : option ares }.

(* ---------- items of a schedule ---------- *)
Inductive item :=
| ICall (c : nat) (a : api)                 (* contender c starts an API call *)
| IStep (c : nat) (hb : option nat) (age : nat) (fl : fault)
                                            (* one backend operation of c's API thread / k-th heartbeat writer;
                                               age = logical age (ms) of the time stamp if it is a Stat;
                                               fl = fault injected if it is a read-side operation of the API thread *)
| IKill (c : nat)                           (* contender c dies while holding (its heartbeat stops) *)
| IDeadline (c : nat).                      (* the deadline of c's LockWithTimeout call fires (at any point of the call) *)

(* what happens when the program of an API call reaches [Ret v] *)
Definition finish (x : cst) (a : api) (v : ares) (e : nat) : cst * option ares :=
  match a, v with
  | LockWTX, _ =>
      (* timed out: the result of the action is discarded (also a success: the directory then stays behind, its
         heartbeat writer finds its context cancelled and never writes; the caller does not hold) *)
      ({| ovr := ovr x; cur := None; holds := holds x; alive := alive x; eng := eng x; hbs := hbs x; gh := gh x |}, Some ACancelled)
  | Unlock, _ => ({| ovr := ovr x; cur := None; holds := holds x; alive := alive x; eng := eng x; hbs := hbs x; gh := gh x |}, Some v)
  | _, AOk => ({| ovr := ovr x; cur := None; holds := true; alive := alive x; eng := eng x;
                 hbs := hbs x ++ [{| pc := HbOpen; born := e |}]; gh := gh x |}, Some AOk)
  | Lock, ALocked | LockWT, ALocked =>
      (* Lock, lockfile.go:172-189: wait timeBetweenLockTries, TryLock again *)
      ({| ovr := ovr x; cur := Some (a, prog_of a (ovr x)); holds := holds x; alive := alive x; eng := eng x; hbs := hbs x; gh := gh x |}, None)
  | _, _ => ({| ovr := ovr x; cur := None; holds := holds x; alive := alive x; eng := eng x; hbs := hbs x; gh := gh x |}, Some v)
  end.

Definition exec (s : state) (it : item) : option (state * option obs) :=
  match it with
  | ICall c a =>
      match nth_error (cs s) c with
      | Some x =>
          match cur x with
          | Some _ => None
          | None =>
            if negb (alive x) then None else
            if obj_busy s c then None else          (* one API thread at a time inside a call on one lock object *)
            if is_acquire a then
              if holds x then None else
              Some ({| fs := fs s; ngen := ngen s; bad := bad s; ce := ce s; lob := lob s;
                       cs := set_nth (cs s) c {| ovr := ovr x; cur := Some (a, prog_of a (ovr x)); holds := false; alive := true;
                                                 eng := eng x; hbs := hbs x; gh := {| mk := false; win := false |} |} |}, None)
            else
              if negb (holds x) then None else
              (* Unlock begins: l.cancelStore.Cancel() — every heartbeat writer started through this lock OBJECT is
                 cancelled; the holder has begun to release *)
              Some ({| fs := fs s; ngen := ngen s; bad := bad s; lob := lob s;
                       ce := (if ul_cancel_first F then bump (ce s) (obj_of s c) else ce s);
                       cs := set_nth (cs s) c {| ovr := ovr x; cur := Some (a, prog_of a (ovr x)); holds := false; alive := true;
                                                 eng := None; hbs := hbs x;
                                                 gh := {| mk := false; win := true |} |} |}, None)
          end
      | None => None
      end
  | IKill c =>
      match nth_error (cs s) c with
      | Some x =>
          match cur x with
          | Some _ => None
          | None => if alive x && holds x then
              Some ({| fs := fs s; ngen := ngen s; bad := bad s; ce := ce s; lob := lob s;
                       cs := set_nth (cs s) c {| ovr := ovr x; cur := None; holds := holds x; alive := false; eng := eng x; hbs := hbs x; gh := gh x |} |}, None)
              else None
          end
      | None => None
      end
  | IDeadline c =>
      match nth_error (cs s) c with
      | Some x =>
          match cur x with
          | Some (LockWT, p) =>
              (* the timeout branch of RunActionWithTimeoutAndCancelStore cancels the action's and the timeout's contexts
                 only — or, if the facts say so, the whole store of the lock object (heartbeat writers included) *)
              Some ({| fs := fs s; ngen := ngen s; bad := bad s; lob := lob s;
                       ce := (if lwt_timeout_cancels_store F then bump (ce s) (obj_of s c) else ce s);
                       cs := set_nth (cs s) c {| ovr := ovr x; cur := Some (LockWTX, p); holds := holds x; alive := alive x;
                                                 eng := eng x; hbs := hbs x; gh := gh x |} |}, None)
          | _ => None
          end
      | None => None
      end
  | IStep c None age fl =>
      match nth_error (cs s) c with
      | Some x =>
          match cur x with
          | Some (a, Do o k) =>
              let '(fs', r) := sem c (ngen s) age fl (fs s) o in
              let created := match o, r with OMkdir, ROk => true | _, _ => false end in
              let removed := match o, r with ORemove PDir, ROk => true | _, _ => false end in
              let bad' := bad s || (removed && live_owner (fs s) (cs s)) in
              let eng' := if created then Some (ngen s) else eng x in
              let gh' := upd (gh x) o r in
              let x1 := {| ovr := ovr x; cur := Some (a, nxt a (k r)); holds := holds x; alive := alive x; eng := eng'; hbs := hbs x; gh := gh' |} in
              let '(x2, ret) := match nxt a (k r) with Ret v => finish x1 a v (epoch s (obj_of s c)) | _ => (x1, None) end in
              Some ({| fs := fs'; ngen := if created then S (ngen s) else ngen s; bad := bad'; ce := ce s; lob := lob s; cs := set_nth (cs s) c x2 |},
                    Some {| o_op := opc_of o; o_res := resc_of r; o_ret := ret |})
          | _ => None
          end
      | None => None
      end
  | IStep c (Some k) age _ =>
      match nth_error (cs s) c with
      | Some x =>
          if negb (alive x) then None else
          match nth_error (hbs x) k with
          | Some h =>
              match pc h with
              | HbDone => None
              | HbOpen =>
                  let '(fs', r) := sem c (ngen s) age FNone (fs s) OOpenHb in
                  Some ({| fs := fs'; ngen := ngen s; bad := bad s; ce := ce s; lob := lob s;
                           cs := set_nth (cs s) c {| ovr := ovr x; cur := cur x; holds := holds x; alive := alive x; eng := eng x;
                                                     hbs := set_nth (hbs x) k {| pc := (match r with ROk => HbCht | _ => if hb_stops_on_write_error F then HbDone else HbCht end);
                                                                                 born := born h |}; gh := gh x |} |},
                        Some {| o_op := COpenFile; o_res := resc_of r; o_ret := None |})
              | HbCht =>
                  let '(fs', r) := sem c (ngen s) age FNone (fs s) (OChtimes PHb) in
                  Some ({| fs := fs'; ngen := ngen s; bad := bad s; ce := ce s; lob := lob s;
                           cs := set_nth (cs s) c {| ovr := ovr x; cur := cur x; holds := holds x; alive := alive x; eng := eng x;
                                                     hbs := set_nth (hbs x) k {| pc := if hb_cancelled s c h then HbDone else HbOpen; born := born h |};
                                                     gh := gh x |} |},
                        Some {| o_op := CChtimes PHb; o_res := resc_of r; o_ret := None |})
              end
          | None => None
          end
      | None => None
      end
  end.

Fixpoint run (s : state) (its : list item) : option (state * list (option obs)) :=
  match its with
  | [] => Some (s, [])
  | it :: r => match exec s it with
               | None => None
               | Some (s', o) => match run s' r with
                                 | None => None
                                 | Some (s'', os) => Some (s'', o :: os) end
               end
  end.

(* contenders that hold the lock and are alive *)
Definition live_holders (s : state) : nat := length (filter (fun x => holds x && alive x) (cs s)).

(* ---------- correspondence ---------- *)
Scheme Equality for path.
Scheme Equality for ares.

Definition opc_eqb (a b : opc) : bool :=
  match a, b with
  | CMkdir, CMkdir | COpenFile, COpenFile => true
  | CRemove p, CRemove q | CStat p, CStat q | CLstat p, CLstat q | COpen p, COpen q | CChtimes p, CChtimes q => path_beq p q
  | CReaddir x, CReaddir y | CReaddirF x, CReaddirF y => Bool.eqb x y
  | _, _ => false end.
Definition resc_eqb (a b : resc) : bool :=
  match a, b with
  | QOk, QOk | QExist, QExist | QNotExist, QNotExist | QNotEmpty, QNotEmpty | QOther, QOther | QIsDir, QIsDir | QIsFile, QIsFile => true
  | QNames n e, QNames m f => Nat.eqb n m && Bool.eqb e f
  | _, _ => false end.
Definition oares_eqb (a b : option ares) : bool :=
  match a, b with None, None => true | Some x, Some y => ares_beq x y | _, _ => false end.
Definition obs_eqb (a b : option obs) : bool :=
  match a, b with
  | None, None => true
  | Some x, Some y => opc_eqb (o_op x) (o_op y) && resc_eqb (o_res x) (o_res y) && oares_eqb (o_ret x) (o_ret y)
  | _, _ => false end.

Fixpoint obs_list_eqb (a b : list (option obs)) : bool :=
  match a, b with
  | [], [] => true
  | x :: a', y :: b' => obs_eqb x y && obs_list_eqb a' b'
  | _, _ => false end.

(* One case = one scheduled scenario replayed on the real RemoteLockFile: the override flags of the lock objects,
   the schedule, what every step was observed to do (operation, result class, return kind of the API call if it
   returned after this step), the number of live holders at the end and whether the harness's own ghost saw a
   live holder's directory removed. *)
Record case := {
  c_ovr : list bool;
  c_objs : list nat;        (* lock object of each contender ([] = one object each) *)
  c_items : list item;
  c_obs : list (option obs);
  c_holders : nat;
  c_bad : bool;
  c_zombies : nat;
  c_atomic : bool }.     (* the harness generated the schedule under the atomic-release restriction *)     (* heartbeat writers seen running after their lock object's cancel store was cancelled: the model has none *)

Definition ob (o : opc) (r : resc) (ret : option ares) : option obs := Some {| o_op := o; o_res := r; o_ret := ret |}.

Definition check_case0 (k : case) : bool :=
  match run (init (c_ovr k) (c_objs k)) (c_items k) with
  | None => false
  | Some (s, os) => obs_list_eqb os (c_obs k) && Nat.eqb (live_holders s) (c_holders k) && Bool.eqb (bad s) (c_bad k)
                    && Nat.eqb (c_zombies k) 0
  end.

(* ---------- compact encoding used by the harness's case files ---------- *)
Inductive entry :=
| C_ (c a : nat)                         (* call: a = 0 TryLock, 1 Lock, 2 LockWithTimeout, 3 Unlock *)
| K_ (c : nat)                           (* kill *)
| D_ (c : nat)                           (* the deadline of c's LockWithTimeout fires *)
| S_ (c hb st fl o r t : nat).           (* step: hb = 0 API thread, k+1 heartbeat writer k; st = logical age in ms (capped);
                                            fl = injected fault (0 none, 1 error, 2 "does not exist");
                                            o, r, t = observed operation, result class, return kind (0 = no return) *)

Definition api_of (n : nat) : api := match n with 0 => TryLock | 1 => Lock | 2 => LockWT | _ => Unlock end.
Definition opc_dec (n : nat) : opc :=
  match n with
  | 0 => CMkdir | 1 => CRemove PDir | 2 => CRemove PHb | 3 => CStat PDir | 4 => CStat PHb | 5 => COpen PDir
  | 6 => CReaddir true | 7 => CReaddir false | 8 => COpenFile | 9 => CChtimes PDir | 10 => CChtimes PHb
  | 11 => COpen PHb | 12 => CReaddirF true | 13 => CReaddirF false | 14 => CLstat PDir | 15 => CLstat PHb
  | _ => CUnknown end.                   (* anything else: an operation the model never issues *)
Definition resc_dec (n : nat) : resc :=
  match n with
  | 0 => QOk | 1 => QExist | 2 => QNotExist | 3 => QNotEmpty | 5 => QIsDir | 6 => QIsFile
  | 7 => QNames 0 true | 8 => QNames 0 false | 9 => QNames 1 false | 10 => QNames 1 true
  | _ => QOther end.
Definition ret_dec (n : nat) : option ares :=
  match n with 0 => None | 1 => Some AOk | 2 => Some ALocked | 3 => Some AStale | 4 => Some ACancelled | _ => Some AOther end.

Definition item_of (e : entry) : item :=
  match e with
  | C_ c a => ICall c (api_of a)
  | K_ c => IKill c
  | D_ c => IDeadline c
  | S_ c hb st fl _ _ _ => IStep c (match hb with 0 => None | S k => Some k end) st (match fl with 0 => FNone | 1 => FErr | _ => FGone end)
  end.
Definition obs_of (e : entry) : option obs :=
  match e with
  | S_ _ _ _ _ o r t => ob (opc_dec o) (resc_dec r) (ret_dec t)
  | _ => None
  end.

Definition mkCase (ovr : list bool) (objs : list nat) (es : list entry) (holders : nat) (b : bool) (z : nat) (atomic : bool) : case :=
  {| c_ovr := ovr; c_objs := objs; c_items := map item_of es; c_obs := map obs_of es; c_holders := holders; c_bad := b; c_zombies := z;
     c_atomic := atomic |}.

(* ---------- the staleness oracle's proviso, as a check on a schedule ----------
   "as long as the holder's heartbeat keeps running": a stale verdict is never given while the directory's creator is
   engaged with it (has acquired or is acquiring, has not begun to release) and alive. *)
Fixpoint respects_oracle (s : state) (its : list item) : bool :=
  match its with
  | [] => true
  | it :: r =>
      (match it with IStep _ None a _ => implb (canon a) (negb (live_owner (fs s) (cs s))) | _ => true end) &&
      match exec s it with Some (s', _) => respects_oracle s' r | None => false end
  end.

Definition final (ovrs : list bool) (its : list item) : option state :=
  match run (init ovrs []) its with Some (s, _) => Some s | None => None end.

(* ---------- the restricted relation of lock_mutex_under_atomic_release ----------
   Release window of a call: open from the start of an Unlock call, or from the moment the call reads a time stamp
   judged stale, until the call's next operation is its own Mkdir (its release is over) or it returns.
   Atomicity hypothesis (A1+A2 of the design, as one condition): while a contender's release window is open, no OTHER
   contender's Mkdir SUCCEEDS (a Mkdir that fails because the directory exists — a poller — is allowed).  Oracle hypothesis: a stale verdict is given only where the oracle [judge] says so. *)
Definition at_mkdir (x : cst) : bool := match cur x with Some (_, Do OMkdir _) => true | _ => false end.
Definition window_open (x : cst) : bool :=
  match cur x with Some _ => win (gh x) && negb (at_mkdir x) | None => false end.

Fixpoint others_closed (l : list cst) (c : nat) : bool :=
  match l with
  | [] => true
  | x :: t => match c with
              | 0 => forallb (fun y => negb (window_open y)) t
              | S c' => negb (window_open x) && others_closed t c'
              end
  end.

Definition allowedb (judge : state -> bool) (s : state) (it : item) : bool :=
  match it with
  | IStep c None age _ =>
      implb (canon age) (judge s) &&
      match nth_error (cs s) c with
      | Some x => implb (at_mkdir x && match fs s with None => true | Some _ => false end) (others_closed (cs s) c)
      | None => true
      end
  | _ => true
  end.

Fixpoint rrun (judge : state -> bool) (s : state) (its : list item) : option state :=
  match its with
  | [] => Some s
  | it :: r =>
      if allowedb judge s it then
        match exec s it with Some (s', _) => rrun judge s' r | None => None end
      else None
  end.

(* the most permissive sound oracle: everything that is not a live holder's directory may be judged stale *)
Definition judge_max (s : state) : bool := negb (live_owner (fs s) (cs s)).

(* The correspondence check: the model reproduces every observation; and a schedule the harness generated under the
   atomic-release restriction is a run of the restricted relation (so lock_mutex_under_atomic_release applies to it:
   no destroyed lock, at most one holder — which the observation comparison then transfers to the implementation). *)
Definition check_case (k : case) : bool :=
  check_case0 k &&
  implb (c_atomic k) (match rrun judge_max (init (c_ovr k) (c_objs k)) (c_items k) with Some s => negb (bad s) | None => false end).

End WithFacts.
