(* C01 — File lock: at most one holder at any instant.
   Model: coq/C01/Model.v (RemoteLockFile at backend-operation granularity), PARAMETERISED by the facts of
   utils/filesystem/lockfile.go (coq/C01/Facts.v); [facts] below is the record REGENERATED FROM THE SOURCE on every run
   (coq/C01/Gen.v, written by translator-c01/cmd/lock2coq).  Every theorem is stated for the model instantiated with the
   generated record: its first conjunct(s) are the conditions on the source facts that the model / the proof needs,
   discharged by computation on the generated record — an edit of lockfile.go that changes one of those facts breaks
   exactly the theorems that list it.  [run facts (init ovrs) its] executes ANY schedule [its] (calls, single backend
   operations of API threads and heartbeat writers with the logical age of the time stamp read, deaths, deadlines) for
   ANY number of API threads [ovrs] (the override flag of the lock object each uses) and ANY assignment [objs] of lock
   objects to them (several threads may share one object, i.e. one cancel store). *)
From Coq Require Import List Bool Arith.
Import ListNotations.
From GU Require Import C01.Facts C01.Model C01.Proofs C01.Proofs2 C01.Proofs3 C01.Witness C01.Gen.

(* cond_acquire: TryLock creates the lock with the EXCLUSIVE mkdir, only "exists" means held, every other mkdir error is
   returned, the heartbeat is started (and nil returned) only after both tests, the override branch retries TryLock,
   Lock retries on ErrLocked only / returns nil only on TryLock's nil, LockWithTimeout runs Lock.
   cond_release: LockWithTimeout issues no Unlock on timeout; the held branch asks IsStale (not negated) and the override
   flag (not negated); IsStale answers false on every error path and its comparisons imply "older than 100 ms". *)

(* For every schedule, every history, every number of contenders: as long as no Remove has destroyed a lock
   directory whose creator was engaged with it (acquired or acquiring, release not begun) and alive — ghost flag
   [bad] — at most one live contender holds.  So mkdir is exclusive, and two simultaneous holders can ONLY come from a
   removal of somebody's live lock. *)
Theorem lock_mkdir_exclusive :
  cond_acquire facts = true /\
  forall ovrs objs its s os, run facts (init ovrs objs) its = Some (s, os) -> bad s = false -> live_holders s <= 1.
Proof. split; [reflexivity|]. exact (mkdir_exclusive_l facts eq_refl). Qed.
Print Assumptions lock_mkdir_exclusive.

(* Every engaged live contender's directory is the one on disk (same statement, on the state). *)
Theorem lock_holder_owns_directory :
  cond_acquire facts = true /\
  forall ovrs objs its s os c x g,
  run facts (init ovrs objs) its = Some (s, os) -> bad s = false ->
  nth_error (cs s) c = Some x -> alive x = true -> eng x = Some g ->
  exists d, fs s = Some d /\ gen d = g /\ owner d = c.
Proof.
  split; [reflexivity|]. intros ovrs objs its s os c x g H Hb.
  destruct (Inv_run facts eq_refl ovrs objs its s os H) as (Hex & _). exact (Hex Hb c x g).
Qed.
Print Assumptions lock_holder_owns_directory.

(* Lock / LockWithTimeout / TryLock report success only through a successful Mkdir of the same call, and a holder is
   always engaged (covers the blocking acquires: they are polls of TryLock). *)
Theorem lock_blocking_acquire_polls :
  cond_acquire facts = true /\
  forall ovrs objs its s os c x,
  run facts (init ovrs objs) its = Some (s, os) -> nth_error (cs s) c = Some x -> holds x = true -> eng x <> None.
Proof.
  split; [reflexivity|]. intros ovrs objs its s os c x H.
  destruct (Inv_run facts eq_refl ovrs objs its s os H) as (_ & Hhe & _). exact (Hhe c x).
Qed.
Print Assumptions lock_blocking_acquire_polls.

(* FULL mutual exclusion, for all schedules, histories and contender counts, under two explicit hypotheses:
   (atomic release — built into [rrun]/[allowedb]) while ANOTHER contender's release window is open, no Mkdir succeeds.
   The release window of a call is open from the start of an Unlock call, or from the moment the call reads a time stamp
   older than 100 ms, until the call's next operation is its own Mkdir (its release is over) or the call returns.  Failing
   Mkdirs (pollers) are always allowed.  This is DESIGN's A1+A2 made one condition and STRENGTHENED: A1 as planned (window
   from the first removal step only) does not exclude K1b below, so the planned statement would have been false.
   (oracle — the property's proviso "as long as the holder's heartbeat keeps running", C17's live_never_stale) time
   stamps older than 100 ms are presented only where an oracle [judge] allows it, and it never does for a directory whose
   creator is engaged with it and alive.
   Conclusion, in every reachable state (hence at every instant of every history): at most one live holder; no Remove
   ever destroyed a live holder's directory (a release removes only the releaser's own or a non-live generation, so a
   stale generation is taken over by one contender; a timed-out LockWithTimeout removes nothing); every live engaged
   contender's directory is the one on disk. *)
Theorem lock_mutex_under_atomic_release :
  cond_acquire facts = true /\ cond_release facts = true /\
  forall (judge : state -> bool),
  (forall s, judge s = true -> live_owner (fs s) (cs s) = false) ->
  forall ovrs objs its s, rrun facts judge (init ovrs objs) its = Some s ->
  live_holders s <= 1 /\ bad s = false /\
  (forall c x g, nth_error (cs s) c = Some x -> alive x = true -> eng x = Some g ->
     exists d, fs s = Some d /\ gen d = g /\ owner d = c).
Proof. split; [reflexivity|]. split; [reflexivity|]. exact (mutex_under_atomic_release_l facts eq_refl). Qed.
Print Assumptions lock_mutex_under_atomic_release.

(* "As long as the holder's heartbeat keeps running" is not at the mercy of other users of the lock: in every
   reachable state without a destroyed lock, the last heartbeat writer of every live holder is still running and its
   context is not cancelled — whatever other API threads do, including threads that SHARE the holder's lock object (one
   cancel store): failed TryLocks, polling Locks, LockWithTimeout calls whose deadline fires (the timeout branch of
   RunActionWithTimeoutAndCancelStore cancels its own two contexts, not the store).  What ends a writer: an Unlock on
   its lock object, or the death of the process. *)
Theorem holder_heartbeat_keeps_running :
  cond_heartbeat facts = true /\
  forall ovrs objs its s os, run facts (init ovrs objs) its = Some (s, os) -> bad s = false ->
  forall c x, nth_error (cs s) c = Some x -> holds x = true -> alive x = true ->
  exists l h, hbs x = l ++ [h] /\ pc h <> HbDone /\ hb_cancelled s c h = false.
Proof. split; [reflexivity|]. exact (holder_heartbeat_l facts eq_refl eq_refl). Qed.
Print Assumptions holder_heartbeat_keeps_running.

(* Unlock's re-check after the removal: a Stat that FAILS (whatever the error — the schedules inject EACCES, EPERM, EIO
   and the lie "does not exist" on every read-side operation) counts as "absent", so an Unlock whose removal succeeded
   and whose check finds nothing — or cannot look — returns at once: no retry, no second removal. *)
Theorem unlock_stops_when_check_finds_nothing :
  cond_exists facts = true /\
  (forall r, r = ROther \/ r = RNotExist ->
     match exists_ PDir with Do (OStat PDir) k => k r = Ret false | _ => False end) /\
  forall m, unlock_attempts facts (S m) =
    (r <- rm_dir ;; match r with Err => unlock_attempts facts m
                    | Ok _ => e <- exists_ PDir ;; if e then unlock_attempts facts m else Ret AOk end).
Proof. split; [reflexivity|]. split; [intros r [-> | ->]; reflexivity|]. intros m. reflexivity. Qed.
Print Assumptions unlock_stops_when_check_finds_nothing.

(* A removal (Rm of the lock directory / of the heartbeat file) whose leading Lstat fails with anything but "does not
   exist" fails closed: no further operation, nothing removed (so an Unlock attempt hit by such a fault is retried). *)
Theorem rm_fails_closed_on_lstat_failure :
  rm_lstat_failure_fails facts = true /\
  forall clean p, match rm_with clean p with Do (OLstat q) k => q = p /\ k ROther = Ret Err | _ => False end.
Proof. split; [reflexivity|]. intros clean p. split; reflexivity. Qed.
Print Assumptions rm_fails_closed_on_lstat_failure.

(* The code's staleness verdict IS "the time stamp is older than 100 ms" (2 heartbeat periods of 50 ms, strict, in
   milliseconds on both sides), for the empty lock directory and for the heartbeat file alike — the canonical verdict
   the ghost windows, the oracle hypothesis and the harness use. *)
Theorem stale_threshold_is_two_periods :
  cond_threshold facts = true /\
  forall age, thr facts (is_empty_period facts) age = canon age /\ thr facts (is_files_period facts) age = canon age.
Proof. split; [reflexivity|]. intros age. split; reflexivity. Qed.
Print Assumptions stale_threshold_is_two_periods.

(* Everything else the hand-written parts assume about lockfile.go (heartbeat loop: context check first, write and
   chtimes errors ignored — the loop continues —, sleep of period - 1 ms, context derived from the caller's and
   registered in the cancel store, file named after the id; Unlock: cancel first, Rm of the lock path, errors retried,
   Exists re-check, 10 attempts, retry bound to the context; context checks first; error kinds returned; periods). *)
Theorem lock_source_facts_as_modelled : facts = expected_facts.
Proof. reflexivity. Qed.
Print Assumptions lock_source_facts_as_modelled.

(* the hypotheses are satisfiable: dead holder + override + poller, each of three contenders acquires once *)
Example judge_max_is_sound : forall s, judge_max s = true -> live_owner (fs s) (cs s) = false.
Proof. intros s H. now apply negb_true_iff in H. Qed.
Example restricted_relation_inhabited : exists s,
  rrun facts judge_max (init ex_ovr []) (map item_of ex_entries) = Some s /\
  map (fun x => length (hbs x)) (cs s) = [1; 1; 1] /\ map alive (cs s) = [false; true; true] /\ live_holders s = 1.
Proof. eexists. vm_compute. repeat split. Qed.
Example refutations_break_atomicity :
  rrun facts judge_max (init k1_ovr []) (map item_of k1_entries) = None /\
  rrun facts judge_max (init k1b_ovr []) (map item_of k1b_entries) = None /\
  rrun facts judge_max (init k2_ovr []) (map item_of k2_entries) = None.
Proof. vm_compute. repeat split. Qed.

(* The full mutual-exclusion statement is FALSE of the faithful model (instantiated with the generated facts).
   K1: no time stamp older than 100 ms is ever presented, nobody dies, the staleness oracle is respected — a releaser's
   retry destroys its successor's lock and two live contenders hold. *)
Theorem lock_mutex_refuted_K1 : exists ovrs its s,
  final facts ovrs its = Some s /\ respects_oracle facts (init ovrs []) its = true /\
  forallb (fun it => match it with IStep _ _ a fl => negb (canon a) && match fl with FNone => true | _ => false end | _ => true end) its = true /\
  forallb (fun it => match it with IKill _ => false | _ => true end) its = true /\
  2 <= live_holders s /\ bad s = true.
Proof. exists k1_ovr, (map item_of k1_entries). eexists. vm_compute. repeat split; auto. Qed.
Print Assumptions lock_mutex_refuted_K1.

(* K2: a dead holder, two overriding contenders; the oracle is respected (only the dead holder's lock is judged stale);
   the slower releaser destroys the faster one's fresh lock and both hold. *)
Theorem lock_mutex_refuted_K2 : exists ovrs its s,
  final facts ovrs its = Some s /\ respects_oracle facts (init ovrs []) its = true /\ 2 <= live_holders s /\ bad s = true.
Proof. exists k2_ovr, (map item_of k2_entries). eexists. vm_compute. repeat split; auto. Qed.
Print Assumptions lock_mutex_refuted_K2.

(* K1b: nobody dies; the holder has begun to release (heartbeat cancelled) when an overriding contender judges the lock
   stale and takes it over; the slow Unlock then destroys the taker's lock; a third contender acquires as well. *)
Theorem lock_mutex_refuted_K1b : exists ovrs its s,
  final facts ovrs its = Some s /\ respects_oracle facts (init ovrs []) its = true /\
  forallb (fun it => match it with IKill _ => false | _ => true end) its = true /\
  2 <= live_holders s /\ bad s = true.
Proof. exists k1b_ovr, (map item_of k1b_entries). eexists. vm_compute. repeat split; auto. Qed.
Print Assumptions lock_mutex_refuted_K1b.
