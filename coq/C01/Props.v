(* C01 — File lock: at most one holder at any instant.
   Model: coq/C01/Model.v (RemoteLockFile at backend-operation granularity).  [run (init ovrs) its] executes ANY
   schedule [its] (calls, single backend operations of API threads and heartbeat writers with their staleness
   verdicts, deaths) for ANY number of lock objects [ovrs] (their override flags). *)
From Coq Require Import List Bool Arith.
Import ListNotations.
From GU Require Import C01.Model C01.Proofs C01.Proofs2 C01.Witness.

(* For every schedule, every history, every number of contenders: as long as no Remove has destroyed a lock
   directory whose creator was engaged with it (acquired or acquiring, release not begun) and alive — ghost flag
   [bad] — at most one live contender holds.  So mkdir is exclusive, and two simultaneous holders can ONLY come from a
   removal of somebody's live lock. *)
Theorem lock_mkdir_exclusive : forall ovrs its s os,
  run (init ovrs) its = Some (s, os) -> bad s = false -> live_holders s <= 1.
Proof. exact mkdir_exclusive_l. Qed.
Print Assumptions lock_mkdir_exclusive.

(* Every engaged live contender's directory is the one on disk (same statement, on the state). *)
Theorem lock_holder_owns_directory : forall ovrs its s os c x g,
  run (init ovrs) its = Some (s, os) -> bad s = false ->
  nth_error (cs s) c = Some x -> alive x = true -> eng x = Some g ->
  exists d, fs s = Some d /\ gen d = g /\ owner d = c.
Proof. intros ovrs its s os c x g H Hb. destruct (Inv_run ovrs its s os H) as (Hex & _). exact (Hex Hb c x g). Qed.
Print Assumptions lock_holder_owns_directory.

(* Lock / LockWithTimeout / TryLock report success only through a successful Mkdir of the same call, and a holder is
   always engaged (covers the blocking acquires: they are polls of TryLock). *)
Theorem lock_blocking_acquire_polls : forall ovrs its s os c x,
  run (init ovrs) its = Some (s, os) -> nth_error (cs s) c = Some x -> holds x = true -> eng x <> None.
Proof. intros ovrs its s os c x H. destruct (Inv_run ovrs its s os H) as (_ & Hhe & _). exact (Hhe c x). Qed.
Print Assumptions lock_blocking_acquire_polls.

(* FULL mutual exclusion, for all schedules, histories and contender counts, under two explicit hypotheses:
   (atomic release — built into [rrun]/[allowedb]) while ANOTHER contender's release window is open, no Mkdir succeeds.
   The release window of a call is open from the start of an Unlock call, or from the moment the call reads a time stamp
   judged stale, until the call's next operation is its own Mkdir (its release is over) or the call returns.  Failing
   Mkdirs (pollers) are always allowed.  This is DESIGN's A1+A2 made one condition and STRENGTHENED: A1 as planned (window
   from the first removal step only) does not exclude K1b below, so the planned statement would have been false.
   (oracle — the property's proviso "as long as the holder's heartbeat keeps running", C17's live_never_stale) stale
   verdicts follow an oracle [judge] that never judges stale a directory whose creator is engaged with it and alive.
   Conclusion, in every reachable state (hence at every instant of every history): at most one live holder; no Remove
   ever destroyed a live holder's directory (a release removes only the releaser's own or a non-live generation, so a
   stale generation is taken over by one contender); every live engaged contender's directory is the one on disk. *)
Theorem lock_mutex_under_atomic_release : forall (judge : state -> bool),
  (forall s, judge s = true -> live_owner (fs s) (cs s) = false) ->
  forall ovrs its s, rrun judge (init ovrs) its = Some s ->
  live_holders s <= 1 /\ bad s = false /\
  (forall c x g, nth_error (cs s) c = Some x -> alive x = true -> eng x = Some g ->
     exists d, fs s = Some d /\ gen d = g /\ owner d = c).
Proof. exact mutex_under_atomic_release_l. Qed.
Print Assumptions lock_mutex_under_atomic_release.

(* the hypotheses are satisfiable: dead holder + override + poller, each of three contenders acquires once *)
Example restricted_relation_inhabited : exists s,
  rrun judge_max (init ex_ovr) (map item_of ex_entries) = Some s /\
  map (fun x => length (hbs x)) (cs s) = [1; 1; 1] /\ map alive (cs s) = [false; true; true] /\ live_holders s = 1.
Proof. exact restricted_example_l. Qed.
Example refutations_break_atomicity :
  rrun judge_max (init k1_ovr) (map item_of k1_entries) = None /\
  rrun judge_max (init k1b_ovr) (map item_of k1b_entries) = None /\
  rrun judge_max (init k2_ovr) (map item_of k2_entries) = None.
Proof. exact refutations_break_atomicity_l. Qed.
Example judge_max_is_sound : forall s, judge_max s = true -> live_owner (fs s) (cs s) = false.
Proof. exact judge_max_sound. Qed.

(* The full mutual-exclusion statement is FALSE of the faithful model.  K1: no stale verdict, nobody dies, the
   staleness oracle is respected — a releaser's retry destroys its successor's lock and two live contenders hold. *)
Theorem lock_mutex_refuted_K1 : exists ovrs its s,
  final ovrs its = Some s /\ respects_oracle (init ovrs) its = true /\
  forallb (fun it => match it with IStep _ _ true => false | _ => true end) its = true /\
  forallb (fun it => match it with IKill _ => false | _ => true end) its = true /\
  2 <= live_holders s /\ bad s = true.
Proof. exact refuted_K1_l. Qed.
Print Assumptions lock_mutex_refuted_K1.

(* K2: a dead holder, two overriding contenders; the oracle is respected (only the dead holder's lock is judged stale);
   the slower releaser destroys the faster one's fresh lock and both hold. *)
Theorem lock_mutex_refuted_K2 : exists ovrs its s,
  final ovrs its = Some s /\ respects_oracle (init ovrs) its = true /\ 2 <= live_holders s /\ bad s = true.
Proof. exact refuted_K2_l. Qed.
Print Assumptions lock_mutex_refuted_K2.

(* K1b: nobody dies; the holder has begun to release (heartbeat cancelled) when an overriding contender judges the lock
   stale and takes it over; the slow Unlock then destroys the taker's lock; a third contender acquires as well. *)
Theorem lock_mutex_refuted_K1b : exists ovrs its s,
  final ovrs its = Some s /\ respects_oracle (init ovrs) its = true /\
  forallb (fun it => match it with IKill _ => false | _ => true end) its = true /\
  2 <= live_holders s /\ bad s = true.
Proof. exact refuted_K1b_l. Qed.
Print Assumptions lock_mutex_refuted_K1b.
