(* C15 — the two derivations of environment-variable names agree (env_names_agree), and the variable bound by
   BindFlagToEnv is the one AutomaticEnv consults (bound_env_is_auto_env).  String-function lemmas over all trees. *)
From Coq Require Import List ZArith Bool Lia.
Import ListNotations.
From GU Require Import C15.Model.
Local Open Scope Z_scope.

(* ---------- induction over schemas (nested through lists) ---------- *)
Section SchemaInd.
Variable P : schema -> Prop.
Hypothesis HL : forall t d r, P (Leaf t d r).
Hypothesis HN : forall m fs, Forall (fun f => P (snd f)) fs -> P (Node m fs).
Fixpoint schema_ind' (s : schema) : P s :=
  match s with
  | Leaf t d r => HL t d r
  | Node m fs =>
      HN m fs ((fix go (l : list (str * str * schema)) : Forall (fun f => P (snd f)) l :=
                  match l with
                  | [] => Forall_nil _
                  | f :: r => Forall_cons f (schema_ind' (snd f)) (go r)
                  end) fs)
  end.
End SchemaInd.

(* the inner loops as ordinary functions *)
Definition leaves_fs (pre : str) (fs : list (str * str * schema)) : list (str * (ty * aval)) :=
  flat_map (fun f => match f with (_, tag, c) => leaves (sub pre tag) c end) fs.
Lemma leaves_node pre m fs : leaves pre (Node m fs) = leaves_fs pre fs.
Proof. simpl. induction fs as [|[[g tag] c] r IH]; simpl; auto. now rewrite IH. Qed.

Definition flat_field (f : facts) (x : str * str * schema) : list str :=
  match x with
  | (_, tag, Leaf _ _ _) => [upper tag]
  | (_, tag, c) => map (fun k => upper (tag ++ [USC] ++ k)) (flat f c)
  end.
(* with the expected facts of flattenDefaultsMap: upper case on both branches, "_" between the levels *)
Lemma flat_node f m fs : nf f = expected_nf -> flat f (Node m fs) = flat_map (flat_field f) fs.
Proof.
  intros HN. simpl. rewrite HN. simpl.
  induction fs as [|[[g tag] c] r IH]; simpl; auto. rewrite IH. destruct c; reflexivity.
Qed.

(* ---------- characters ---------- *)
Lemma up_idem c : up (up c) = up c.
Proof. unfold up. destruct ((97 <=? c) && (c <=? 122)) eqn:E; [|now rewrite E].
  apply andb_prop in E. destruct E as [A B]. apply Z.leb_le in A. apply Z.leb_le in B.
  destruct ((97 <=? c - 32) && (c - 32 <=? 122)) eqn:F; auto.
  apply andb_prop in F. destruct F as [F _]. apply Z.leb_le in F. lia. Qed.
Lemma up_low c : up (low c) = up c.
Proof. unfold up, low.
  destruct ((65 <=? c) && (c <=? 90)) eqn:E.
  - apply andb_prop in E. destruct E as [A B]. apply Z.leb_le in A. apply Z.leb_le in B.
    replace ((97 <=? c + 32) && (c + 32 <=? 122)) with true by (symmetry; apply andb_true_intro; split; apply Z.leb_le; lia).
    replace ((97 <=? c) && (c <=? 122)) with false by (symmetry; apply andb_false_intro1; apply Z.leb_gt; lia). lia.
  - reflexivity. Qed.
Lemma up_dot c : (up c =? DOT) = (c =? DOT).
Proof. unfold up, DOT. destruct ((97 <=? c) && (c <=? 122)) eqn:E; auto.
  apply andb_prop in E. destruct E as [A B]. apply Z.leb_le in A. apply Z.leb_le in B.
  destruct (c - 32 =? 46) eqn:F; [apply Z.eqb_eq in F; lia|]. symmetry. apply Z.eqb_neq. lia. Qed.

Lemma upper_app a b : upper (a ++ b) = upper a ++ upper b. Proof. apply map_app. Qed.
Lemma lower_app a b : lower (a ++ b) = lower a ++ lower b. Proof. apply map_app. Qed.
Lemma repl_app x y a b : repl x y (a ++ b) = repl x y a ++ repl x y b. Proof. apply map_app. Qed.
Lemma upper_idem s : upper (upper s) = upper s.
Proof. unfold upper. rewrite map_map. apply map_ext. apply up_idem. Qed.
Lemma upper_lower s : upper (lower s) = upper s.
Proof. unfold upper, lower. rewrite map_map. apply map_ext. apply up_low. Qed.

Definition nodot (s : str) : bool := forallb (fun c => negb (c =? DOT)) s.
Lemma nodot_upper s : nodot (upper s) = nodot s.
Proof. induction s as [|c s IH]; simpl; auto. now rewrite up_dot, IH. Qed.
Lemma nodot_repl s : nodot s = true -> repl DOT USC s = s.
Proof. induction s as [|c s IH]; simpl; auto. intros H. apply andb_prop in H. destruct H as [A B].
  apply negb_true_iff in A. rewrite A. f_equal. auto. Qed.
Lemma upper_repl_comm s : upper (repl DOT USC s) = repl DOT USC (upper s).
Proof. unfold upper, repl. rewrite !map_map. apply map_ext. intros c. rewrite up_dot.
  destruct (c =? DOT); reflexivity. Qed.
Lemma repl_repl s : repl DOT USC (repl USC DOT s) = repl DOT USC s.
Proof. unfold repl. rewrite map_map. apply map_ext. intros c.
  destruct (c =? USC) eqn:E.
  - apply Z.eqb_eq in E. subst. reflexivity.
  - destruct (c =? DOT); reflexivity. Qed.

(* ---------- the expected spelling facts give the functions their familiar form ---------- *)
Lemma autoenv_expected f prefix k : kf f = expected_kf -> autoenv f prefix k = repl DOT USC (merge_prefix prefix k).
Proof.
  intros HK. unfold autoenv, replace_pairs, repl. rewrite HK. apply map_ext. intros c.
  unfold apply_pairs. simpl. destruct (c =? DOT); reflexivity.
Qed.
Lemma flagkey_of_short_expected f sh : kf f = expected_kf ->
  flagkey_of_short f sh = expected_flagprefix ++ [DOT] ++ repl USC DOT sh.
Proof. intros HK. unfold flagkey_of_short, flagprefix, repl1. rewrite HK. reflexivity. Qed.
Lemma cleanse_expected f prefix sh : kf f = expected_kf ->
  cleanse f prefix sh = match prefix with [] => upper (repl DOT USC sh) | _ => upper (repl DOT USC (prefix ++ [USC] ++ sh)) end.
Proof. intros HK. unfold cleanse, repl1. rewrite HK. reflexivity. Qed.

(* ---------- BindFlagToEnv's variable = AutomaticEnv's variable ---------- *)
(* needs: the spelling facts (kf) as expected, and linkFlagKeysToStructureKeys NOT stripping the prefix from structure keys *)
Lemma bound_env_is_auto_env_l f w k ev :
  kf f = expected_kf -> l_link_strips_prefix (lf f) = false ->
  flagkey_of_short f (short_of f ev (w_prefix w)) = flagkey f (w_prefix w) k ->
  cleanse f (w_prefix w) (short_of f ev (w_prefix w)) = autoenv f (w_prefix w) k.
Proof.
  intros HK HS E. unfold flagkey in E. rewrite HS in E.
  rewrite !(flagkey_of_short_expected f _ HK) in E. apply app_inv_head in E. apply app_inv_head in E.
  assert (R : repl DOT USC (short_of f ev (w_prefix w)) = repl DOT USC k).
  { rewrite <- (repl_repl (short_of f ev (w_prefix w))), E. apply repl_repl. }
  rewrite (cleanse_expected f _ _ HK), (autoenv_expected f _ _ HK). unfold merge_prefix.
  destruct (w_prefix w) as [|c p] eqn:EP.
  - rewrite <- upper_repl_comm. f_equal. exact R.
  - rewrite <- upper_repl_comm. f_equal. rewrite !repl_app. f_equal. f_equal. exact R.
Qed.

(* ---------- reported names = honoured names ---------- *)
Definition is_nil (s : str) : bool := match s with [] => true | _ => false end.
Fixpoint tags_okb (s : schema) : bool :=
  match s with
  | Leaf _ _ _ => true
  | Node _ fs =>
      (fix go (l : list (str * str * schema)) : bool :=
         match l with
         | [] => true
         | (_, tag, c) :: r => negb (is_nil tag) && nodot tag && tags_okb c && go r
         end) fs
  end.
(* every tag is non-empty and contains no "." (the doc comment of Load: tags use [_1-9a-zA-Z] only) *)
Definition tags_ok (s : schema) : Prop := tags_okb s = true.

Lemma tags_okb_node m fs :
  tags_okb (Node m fs) = forallb (fun f => match f with (_, tag, c) => negb (is_nil tag) && nodot tag && tags_okb c end) fs.
Proof. simpl. induction fs as [|[[g tag] c] r IH]; simpl; auto. now rewrite IH. Qed.

Lemma flat_upper f s : nf f = expected_nf -> forall k, In k (flat f s) -> upper k = k.
Proof.
  intros HN. induction s as [t d r|m fs IH] using schema_ind'; intros k HI; [destruct HI|].
  rewrite (flat_node f _ _ HN) in HI. apply in_flat_map in HI. destruct HI as [[[g tag] c] [Hf Hk]].
  destruct c; simpl in Hk.
  - destruct Hk as [<-|[]]. apply upper_idem.
  - apply in_map_iff in Hk. destruct Hk as [k' [<- _]]. apply upper_idem.
Qed.

(* the name of a key without the prefix part *)
Definition G (k : str) : str := repl DOT USC (upper k).
Definition wrap (pre : str) (f : str) : str := match pre with [] => f | _ => G pre ++ [USC] ++ f end.

Lemma G_sub pre tag : tag <> [] -> nodot tag = true -> G (sub pre tag) = wrap pre (upper tag).
Proof.
  intros Ht Hd. unfold G, sub, wrap. destruct pre as [|c p].
  - rewrite upper_lower. apply nodot_repl. now rewrite nodot_upper.
  - rewrite !upper_app, !repl_app, upper_lower. f_equal. f_equal.
    apply nodot_repl. now rewrite nodot_upper.
Qed.

Lemma sub_nonnil pre tag : tag <> [] -> sub pre tag <> [].
Proof. unfold sub. destruct pre; [|discriminate]. destruct tag; [congruence|discriminate]. Qed.

Lemma names_agree_gen f s : nf f = expected_nf -> forall pre, tags_okb s = true ->
  match s with
  | Leaf _ _ _ => True
  | Node _ _ => map (fun l => G (fst l)) (leaves pre s) = map (wrap pre) (flat f s)
  end.
Proof.
  intros HN. induction s as [t d r|m fs IH] using schema_ind'; intros pre OK; [exact I|].
  rewrite leaves_node, (flat_node f _ _ HN). rewrite tags_okb_node in OK.
  induction fs as [|[[g tag] c] rest IHr]; [reflexivity|].
  simpl in OK. apply andb_prop in OK. destruct OK as [OK1 OK2].
  apply andb_prop in OK1. destruct OK1 as [OK1 OKc]. apply andb_prop in OK1. destruct OK1 as [Hnn Hnd].
  assert (Ht : tag <> []) by (destruct tag; [discriminate|discriminate]).
  inversion IH as [|? ? IHc IHrest]; subst.
  unfold leaves_fs. simpl. rewrite !map_app. f_equal.
  - simpl in IHc. destruct c as [t d r|m' fs'].
    + simpl. f_equal. now apply G_sub.
    + specialize (IHc (sub pre tag) OKc). rewrite IHc. unfold flat_field.
      rewrite map_map. apply map_ext_in. intros k Hk.
      pose proof (sub_nonnil pre tag Ht) as Hs.
      unfold wrap at 1. destruct (sub pre tag) as [|x y] eqn:ES; [congruence|]. rewrite <- ES.
      rewrite (G_sub pre tag Ht Hnd).
      replace (upper (tag ++ USC :: k)) with (upper tag ++ USC :: k).
      2:{ rewrite upper_app. change (upper (USC :: k)) with (USC :: upper k). now rewrite (flat_upper f _ HN k Hk). }
      unfold wrap. destruct pre; simpl; rewrite <- ?app_assoc; reflexivity.
  - apply IHr; auto.
Qed.

(* needs: flattenDefaultsMap / DetermineConfigurationEnvironmentVariables facts (nf) and the spelling facts (kf: the key
   replacer of setEnvOptions) as expected *)
Lemma env_names_agree_l f prefix m fs :
  kf f = expected_kf -> nf f = expected_nf ->
  nodot prefix = true -> tags_ok (Node m fs) ->
  reported f prefix (Node m fs) = honoured f prefix (Node m fs).
Proof.
  intros HK HN Hd OK. unfold reported, honoured.
  pose proof (names_agree_gen f (Node m fs) HN [] OK) as H. simpl wrap in H.
  assert (E : map (wrap []) (flat f (Node m fs)) = flat f (Node m fs)) by (unfold wrap; apply map_id).
  rewrite E in H. rewrite <- H. rewrite map_map. apply map_ext. intros l.
  rewrite (autoenv_expected f _ _ HK). rewrite HN. simpl n_det_empty_prefix_bare. simpl n_det_prefix_upper. simpl n_det_sep. cbv iota.
  unfold merge_prefix, G. destruct prefix as [|c p]; [reflexivity|].
  rewrite !upper_app, !repl_app. f_equal. symmetry. apply nodot_repl. now rewrite nodot_upper.
Qed.
