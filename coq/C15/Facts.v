(* C15 — the FACTS about utils/config/{service_configuration.go,validation.go,error.go} that the model of the glue is
   parameterised by.  The record value [Gen.gen_facts] is regenerated from the source on every run by
   translator-c15/cmd/cfgfacts2coq (go/ast, closed list of statement shapes, anything else = failure).
   Four groups, so that every property theorem depends on the facts of its own functions only. *)
From Coq Require Import List ZArith Bool.
Import ListNotations.

(* top-level steps of LoadFromEnvironment, in source order *)
Inductive step :=
| StDecodeDefaults      (* err = mapstructure.Decode(defaultConfiguration, &defaults); if err != nil { return } *)
| StMergeDefaults       (* err = viperSession.MergeConfigMap(defaults); if err != nil { return } — unconditional *)
| StDotEnv              (* _ = godotenv.Load(DotEnvFile) *)
| StEnvOptions          (* setEnvOptions(viperSession, envVarPrefix) *)
| StMergeFile           (* if configFile != "" { err = LoadFromConfigurationFile(…); if err != nil { return } } *)
| StLink                (* linkFlagKeysToStructureKeys(viperSession) *)
| StUnmarshal           (* err = viperSession.Unmarshal(configurationToSet); on error wrap as ErrMarshalling and return *)
| StValidate.           (* err = WrapValidationError(field.ToOptionalString(envVarPrefix), configurationToSet.Validate()); return *)

Definition step_eqb (a b : step) : bool :=
  match a, b with
  | StDecodeDefaults, StDecodeDefaults | StMergeDefaults, StMergeDefaults | StDotEnv, StDotEnv | StEnvOptions, StEnvOptions
  | StMergeFile, StMergeFile | StLink, StLink | StUnmarshal, StUnmarshal | StValidate, StValidate => true
  | _, _ => false
  end.

(* what a loop over the members of a flag set (BindFlagsToEnv) does at a nil member (a Lookup of an undefined flag) *)
Inductive nilk := NilSkip | NilStop.

(* LoadFromEnvironment, setEnvOptions (the viper options that decide what "set" means), linkFlagKeysToStructureKeys,
   multiFlags (several flags bound to one key) *)
Record lfacts := mkLF {
  l_steps : list step;
  l_allow_empty_env : bool;          (* the argument of viperSession.AllowEmptyEnv *)
  l_automatic_env : bool;            (* viperSession.AutomaticEnv() is called *)
  l_link_skips_flagkeys : bool;      (* the loop body is guarded by !isFlagKey(key) *)
  l_link_strips_prefix : bool;       (* flagKey from generateEnvVarConfigKeys(key, prefix) (true) or generateEnvVarConfigKey(key) *)
  l_set_when_isset : bool;           (* if IsSet(flagKey) { Set(key, Get(flagKey)) } *)
  l_guard_default_nonempty : bool;   (* else-branch guarded by !reflection.IsEmpty(value) *)
  l_guard_current_empty : bool;      (* the override of the else-branch guarded by reflection.IsEmpty(Get(key)) *)
  l_multi_changed_nil : nilk;        (* multiFlags.HasChanged: a nil member is skipped / ends the scan *)
  l_multi_value_nil : nilk;          (* multiFlags.ValueString: the same for the scan that collects the values *)
}.

(* spelling of keys and variable names: setEnvOptions' key replacer, generateEnvVarConfigKeys, generateEnvVarConfigKey,
   cleanseEnvVar, isFlagKey *)
Record kfacts := mkKF {
  k_env_replacer : list (Z * Z);     (* SetEnvKeyReplacer(strings.NewReplacer(old, new, …)), single bytes *)
  k_cmp_envvar_lowered : bool;       (* HasPrefix's first argument is strings.ToLower(envVar) *)
  k_cmp_prefix_lowered : bool;       (* HasPrefix's second argument is strings.ToLower(envVarPrefix) *)
  k_trim_envvar_lowered : bool;      (* the inner TrimPrefix works on the lowered envVar … *)
  k_trim_prefix_lowered : bool;      (* … and removes the lowered prefix *)
  k_trim_sep : option Z;             (* the outer TrimPrefix removes this separator (None: no outer TrimPrefix) *)
  k_else_lowered : bool;             (* without the prefix: short = strings.ToLower(envVar) *)
  k_flagprefix : list Z;             (* const flagKeyPrefix *)
  k_key_sep : Z;                     (* generateEnvVarConfigKey: flagKeyPrefix ++ sep ++ … *)
  k_key_repl : Z * Z;                (* … NewReplacer(old, new).Replace(short) *)
  k_cl_sep : Z;                      (* cleanseEnvVar: prefix ++ sep ++ short *)
  k_cl_repl : Z * Z;
  k_cl_upper : bool;
  k_cl_empty_prefix_bare : bool;     (* no separator when the prefix is empty *)
}.

(* flattenDefaultsMap, DetermineConfigurationEnvironmentVariables *)
Record nfacts := mkNF {
  n_flat_upper_leaf : bool;          (* output[strings.ToUpper(key)] *)
  n_flat_upper_nested : bool;        (* output[strings.ToUpper(Sprintf("%s<sep>%s", key, nextKey))] *)
  n_flat_sep : Z;
  n_det_prefix_upper : bool;         (* strings.ToUpper(appName), joined AS IS (no trimming) *)
  n_det_sep : Z;
  n_det_empty_prefix_bare : bool;    (* newKey := key unless appName != "" *)
}.

Inductive skipk := SkipContinue | SkipReturnNil.

(* ValidateEmbedded, wrapFieldValidationError, validationError.RecordField / GetMapStructurePath,
   newValidationErrorFromOzzoValidationErrors *)
Record vfacts := mkVF {
  v_struct_kind_only : bool;         (* only fields of Kind() == reflect.Struct are looked at, nothing else is skipped *)
  v_skip_no_validator : skipk;       (* what happens at a structure field without Validate *)
  v_first_error_returned : bool;     (* if err != nil { return err } inside the loop *)
  v_tree_prepend : bool;             (* RecordField: fieldName goes IN FRONT of v.tree *)
  v_ms_prepend : bool;               (* … and the map-structure name in front of v.mapStructureTree *)
  v_ms_upper : bool;
  v_ms_join : Z;                     (* GetMapStructurePath: strings.Join(tree, sep) *)
  v_ms_repl : Z * Z;                 (* … strings.ReplaceAll(old, new) *)
  v_ms_prefix_upper : bool;
  v_ozzo_sorted_first : bool;        (* slices.Sort(params); param := params[0] *)
}.

Record facts := mkFacts { lf : lfacts; kf : kfacts; nf : nfacts; vf : vfacts }.
