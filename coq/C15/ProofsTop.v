(* C15 — precedence with the binding side condition discharged: the variable BindFlagToEnv binds for a flag key IS the
   variable AutomaticEnv consults for the structure key with that flag key.  Every lemma names the facts it needs. *)
From Coq Require Import List ZArith Bool.
Import ListNotations.
From GU Require Import C15.Model C15.Proofs C15.ProofsNames.
Local Open Scope Z_scope.

(* facts behind "the bound variable is the automatic variable": spelling as expected, no prefix stripping on structure keys,
   AutomaticEnv() switched on *)
Definition bind_facts_ok (f : facts) : Prop :=
  kf f = expected_kf /\ l_link_strips_prefix (lf f) = false /\ l_automatic_env (lf f) = true.

Lemma ad_bound_holds f w k n : bind_facts_ok f ->
  lookup (flagkey f (w_prefix w) k) (bound_envs f w) = Some n -> getenv f w n = autoget f w k.
Proof.
  intros [HK [HS HA]]. unfold bound_envs. induction (w_flags w) as [|[[ev t] ms] l IH]; simpl; [intros; discriminate|].
  destruct (str_eqb _ _) eqn:E; auto.
  intros H. inversion H; subst. apply str_eqb_eq in E.
  unfold autoget. rewrite HA. f_equal. apply bound_env_is_auto_env_l; auto.
Qed.

(* nothing named like an enclosing path of the key (or of its private flag key) is set / bound *)
Record unshadowed (f : facts) (w : world) (k : str) : Prop := {
  us_k : env_shadow f w k = false;
  us_fk : env_shadow f w (flagkey f (w_prefix w) k) = false;
  us_bf : flat_shadow (flagkey f (w_prefix w) k) (map fst (bound_flags f w)) = false;
  us_be : flat_shadow (flagkey f (w_prefix w) k) (map fst (bound_envs f w)) = false;
  us_private : autoget f w (flagkey f (w_prefix w) k) = None;
}.

Lemma unshadowed_adequate f w k : bind_facts_ok f -> unshadowed f w k -> adequate f w k.
Proof. intros B [A1 A2 A3 A4 A5]. constructor; auto. intros n. now apply ad_bound_holds. Qed.

Lemma load_precedence_fixed_l f w sc k t d :
  link_facts_ok f = true -> bind_facts_ok f ->
  NoDup (map fst (leaves [] sc)) -> In (k, (t, d)) (leaves [] sc) ->
  is_flagkey f k = false -> unshadowed f w k ->
  final_val f w sc k = Some (spec_val f w k d).
Proof. intros. eapply load_precedence_l; eauto using unshadowed_adequate. Qed.

(* what "an explicitly set flag wins" needs of multiFlags: nil members are skipped by both scans *)
Definition multi_facts_ok (f : facts) : Prop :=
  l_multi_changed_nil (lf f) = NilSkip /\ l_multi_value_nil (lf f) = NilSkip.

Lemma set_member_wins_l f w sc k t d ty pre dm a post :
  link_facts_ok f = true -> bind_facts_ok f -> multi_facts_ok f ->
  NoDup (map fst (leaves [] sc)) -> In (k, (t, d)) (leaves [] sc) ->
  is_flagkey f k = false -> unshadowed f w k ->
  lookup (flagkey f (w_prefix w) k) (bound_members f w) = Some (ty, pre ++ MFlag dm (Some a) :: post) ->
  Forall quiet pre ->
  final_val f w sc k = Some (rep_flag ty a).
Proof.
  intros L B [M1 M2] ND HI NF US LK Q.
  rewrite (load_precedence_fixed_l f w sc k t d L B ND HI NF US). f_equal.
  destruct (mf_set_member_seen pre dm a post Q) as [C V].
  eapply spec_flag_wins. rewrite bound_flags_lookup, LK. unfold mf_entry. rewrite M1, M2, C, V. reflexivity.
Qed.

(* an empty variable counts as not set exactly when AllowEmptyEnv(false) *)
Lemma empty_env_unset_l f w name :
  l_allow_empty_env (lf f) = false -> lookup name (w_environ w) = Some (VStr []) -> getenv f w name = None.
Proof. intros H L. unfold getenv. now rewrite L, H. Qed.

(* a top-level key (no "." in it) has no enclosing path: the first side condition is vacuous for depth-1 fields *)
Lemma split_aux_nodot cur s : nodot s = true -> split_aux DOT cur s = [rev cur ++ s].
Proof.
  revert cur. induction s as [|c s IH]; intros cur H; simpl.
  - now rewrite app_nil_r.
  - simpl in H. apply andb_prop in H. destruct H as [A B]. apply negb_true_iff in A. rewrite A.
    rewrite IH; auto. simpl. now rewrite <- app_assoc.
Qed.
Lemma top_level_unshadowed f w k : nodot k = true -> env_shadow f w k = false.
Proof.
  intros H. unfold env_shadow, ancestors, split. rewrite split_aux_nodot; auto.
Qed.
