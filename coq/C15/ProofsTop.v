(* C15 — precedence for the repaired code with the binding side condition discharged: the variable BindFlagToEnv binds
   for a flag key IS the variable AutomaticEnv consults for the structure key with that flag key. *)
From Coq Require Import List ZArith Bool.
Import ListNotations.
From GU Require Import C15.Model C15.Proofs C15.ProofsNames.
Local Open Scope Z_scope.

Lemma ad_bound_holds w k n :
  lookup (flagkey fixed (w_prefix w) k) (bound_envs fixed w) = Some n -> n = autoenv (w_prefix w) k.
Proof.
  unfold bound_envs. induction (w_flags w) as [|[[[ev t] d] s] l IH]; simpl; [intros; discriminate|].
  destruct (str_eqb _ _) eqn:E; auto.
  intros H. inversion H; subst. apply str_eqb_eq in E. apply bound_env_is_auto_env_l.
  unfold flagkey. simpl v_strip. cbv iota. unfold flagkey_of_short. now rewrite E.
Qed.

(* nothing named like an enclosing path of the key (or of its private flag key) is set / bound *)
Record unshadowed (w : world) (k : str) : Prop := {
  us_k : env_shadow w k = false;
  us_fk : env_shadow w (flagkey fixed (w_prefix w) k) = false;
  us_bf : flat_shadow (flagkey fixed (w_prefix w) k) (map fst (bound_flags w)) = false;
  us_be : flat_shadow (flagkey fixed (w_prefix w) k) (map fst (bound_envs fixed w)) = false;
  us_private : getenv w (autoenv (w_prefix w) (flagkey fixed (w_prefix w) k)) = None;
}.

Lemma unshadowed_adequate w k : unshadowed w k -> adequate fixed w k.
Proof. intros [A B C D E]. constructor; auto. apply ad_bound_holds. Qed.

Lemma load_precedence_fixed_l w sc k t d :
  NoDup (map fst (leaves [] sc)) -> In (k, (t, d)) (leaves [] sc) ->
  is_flagkey k = false -> unshadowed w k ->
  final_val fixed w sc k = Some (spec_val fixed w k d).
Proof. intros. eapply load_precedence_l; eauto using unshadowed_adequate. Qed.

(* a top-level key (no "." in it) has no enclosing path: the first side condition is vacuous for depth-1 fields *)
Lemma split_aux_nodot cur s : nodot s = true -> split_aux DOT cur s = [rev cur ++ s].
Proof.
  revert cur. induction s as [|c s IH]; intros cur H; simpl.
  - now rewrite app_nil_r.
  - simpl in H. apply andb_prop in H. destruct H as [A B]. apply negb_true_iff in A. rewrite A.
    rewrite IH; auto. simpl. now rewrite <- app_assoc.
Qed.
Lemma top_level_unshadowed w k : nodot k = true -> env_shadow w k = false.
Proof.
  intros H. unfold env_shadow, ancestors, split. rewrite split_aux_nodot; auto.
Qed.
