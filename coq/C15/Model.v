(* C15 — executable model of configuration loading.
   Mirrors the repository's glue in utils/config/service_configuration.go (LoadFromEnvironment :61-99,
   BindFlagToEnv :132-142, generateEnvVarConfigKeys/generateEnvVarConfigKey/cleanseEnvVar :246-269, setEnvOptions :275-281,
   linkFlagKeysToStructureKeys :286-311, flattenDefaultsMap :313-327, DetermineConfigurationEnvironmentVariables :330-349),
   utils/config/validation.go (ValidateEmbedded :12-31, wrapFieldValidationError :33-41) and utils/config/error.go
   (RecordField :114-127, GetMapStructurePath :150-160, newValidationErrorFromOzzoValidationErrors :213-228)
   on top of a SPECIFICATION-LEVEL model of the third-party layers (viper v1.20.1 find(): override > changed flag > automatic
   env > bound env > config map > defaults > flag default, with its shadowing checks; pflag value representations;
   mapstructure weak decoding; ozzo Required).  Definitions only; proofs are in Proofs*.v.
   Strings are byte lists ([list Z]); only ASCII case mapping is modelled (tags and prefixes are ASCII). *)
From Coq Require Import List ZArith Bool String Ascii.
Import ListNotations.
Local Open Scope Z_scope.

Definition str := list Z.

Fixpoint str_of (s : string) : str :=
  match s with EmptyString => [] | String a r => Z.of_N (N_of_ascii a) :: str_of r end.

(* ---------- Go's strings package, ASCII ---------- *)
Definition up (c : Z) : Z := if (97 <=? c) && (c <=? 122) then c - 32 else c.
Definition low (c : Z) : Z := if (65 <=? c) && (c <=? 90) then c + 32 else c.
Definition upper (s : str) : str := map up s.          (* strings.ToUpper *)
Definition lower (s : str) : str := map low s.          (* strings.ToLower *)
Definition repl (a b : Z) (s : str) : str := map (fun c => if c =? a then b else c) s.  (* strings.NewReplacer(a,b) on single bytes *)
Definition USC : Z := 95.  (* "_"  EnvVarSeparator *)
Definition DOT : Z := 46.  (* "."  configKeySeparator / viper key delimiter *)
Definition DASH : Z := 45.

Fixpoint str_eqb (a b : str) : bool :=
  match a, b with
  | [], [] => true
  | x :: a', y :: b' => (x =? y) && str_eqb a' b'
  | _, _ => false
  end.

Fixpoint has_prefix (s p : str) : bool :=               (* strings.HasPrefix s p *)
  match p, s with
  | [], _ => true
  | y :: p', x :: s' => (x =? y) && has_prefix s' p'
  | _ :: _, [] => false
  end.

Definition trim_prefix (s p : str) : str :=              (* strings.TrimPrefix *)
  if has_prefix s p then skipn (List.length p) s else s.

Fixpoint split_aux (sep : Z) (cur : str) (s : str) : list str :=
  match s with
  | [] => [rev cur]
  | c :: r => if c =? sep then rev cur :: split_aux sep [] r else split_aux sep (c :: cur) r
  end.
Definition split (sep : Z) (s : str) : list str := split_aux sep [] s.   (* strings.Split *)

Fixpoint join (sep : str) (l : list str) : str :=          (* strings.Join *)
  match l with
  | [] => []
  | [x] => x
  | x :: r => x ++ sep ++ join sep r
  end.

Definition is_space (c : Z) : bool := (c =? 32) || ((9 <=? c) && (c <=? 13)).
Definition blank (s : str) : bool := forallb is_space s.   (* len(strings.TrimSpace(s)) == 0 *)

(* bytewise order of Go strings (slices.Sort on []string) *)
Fixpoint str_ltb (a b : str) : bool :=
  match a, b with
  | [], [] => false
  | [], _ :: _ => true
  | _ :: _, [] => false
  | x :: a', y :: b' => if x <? y then true else if y <? x then false else str_ltb a' b'
  end.

(* ---------- finite maps keyed by strings (first match wins) ---------- *)
Definition kmap (V : Type) := list (str * V).
Fixpoint lookup {V} (k : str) (m : kmap V) : option V :=
  match m with
  | [] => None
  | (k', v) :: r => if str_eqb k k' then Some v else lookup k r
  end.
Definition mem (k : str) (l : list str) : bool := existsb (str_eqb k) l.

(* ---------- values ---------- *)
Inductive ty := TStr | TInt | TBool | TFloat | TDur.

(* abstract value of a leaf: a string, or a number (int; bool as 0/1; float in eighths; duration in milliseconds) *)
Inductive aval := AStr (s : str) | ANum (z : Z).

(* value as a layer of viper holds it (what reflection.IsEmpty and the decoder get to see):
   VStr  a Go string supplied by the user
   VNum  a native Go number / bool / time.Duration / JSON number
   VText a Go string that is the textual rendering of a number ("9.5", "1m0s", "true"): never blank
   VBad  a non-blank Go string that does not parse as a number *)
Inductive val := VStr (s : str) | VNum (z : Z) | VText (z : Z) | VBad.

(* reflection.IsEmpty (utils/reflection/reflection.go:200-231) on those representations *)
Definition is_empty (v : val) : bool :=
  match v with VStr s => blank s | VNum z => z =? 0 | VText _ => false | VBad => false end.
Definition is_empty_o (o : option val) : bool := match o with None => true | Some v => is_empty v end.

(* mapstructure.Decode(defaultConfiguration): struct fields keep their native Go types *)
Definition rep_default (a : aval) : val := match a with AStr s => VStr s | ANum z => VNum z end.
(* viper.find on a bound pflag: int and bool flags are cast (cast.ToInt / cast.ToBool), every other flag type yields flag.ValueString() *)
Definition rep_flag (t : ty) (a : aval) : val :=
  match a with
  | AStr s => VStr s
  | ANum z => match t with TInt | TBool => VNum z | _ => VText z end
  end.

(* mapstructure weak decoding into a field of type t (viper.Unmarshal: WeaklyTypedInput + StringToTimeDurationHookFunc) *)
Definition decode (t : ty) (v : val) : option aval :=
  match t, v with
  | TStr, VStr s => Some (AStr s)
  | TStr, _ => None                (* not generated: numbers are never offered to string fields *)
  | _, VNum z => Some (ANum z)
  | _, VText z => Some (ANum z)
  | _, VStr s => if match s with [] => true | _ => false end then Some (ANum 0) else None
  | _, VBad => None
  end.

Definition zero_of (t : ty) : aval := match t with TStr => AStr [] | _ => ANum 0 end.
(* ozzo-validation Required: IsEmpty (len == 0 for strings, no trimming; zero for numbers, false for bool) *)
Definition is_zero (a : aval) : bool :=
  match a with AStr [] => true | AStr _ => false | ANum z => z =? 0 end.

(* ---------- the configuration structure ---------- *)
(* How the structure type at a node validates itself:
   VNone      the type has no Validate method (ValidateEmbedded skips it: validation.go:17-20)
   VOwnOnly   Validate checks its own fields only
   VEmbFirst  Validate calls ValidateEmbedded first, then its own fields (the pattern of the repository's tests)
   VOwnFirst  own fields first, then ValidateEmbedded *)
Inductive vmode := VNone | VOwnOnly | VEmbFirst | VOwnFirst.

(* field = (Go field name, mapstructure tag, sub-schema); a leaf carries its type, the SUPPLIED DEFAULT and whether the
   enclosing type's Validate marks it validation.Required *)
Inductive schema :=
| Leaf (t : ty) (d : aval) (req : bool)
| Node (m : vmode) (fs : list (str * str * schema)).

Definition sub (pre tag : str) : str :=
  match pre with [] => lower tag | _ => pre ++ [DOT] ++ lower tag end.

(* leaves in declaration order with their viper key (lower-cased tags joined by ".": insensitiviseMap + keyDelim) *)
Fixpoint leaves (pre : str) (s : schema) : list (str * (ty * aval)) :=
  match s with
  | Leaf t d _ => [(pre, (t, d))]
  | Node _ fs =>
      (fix go (fs : list (str * str * schema)) : list (str * (ty * aval)) :=
         match fs with
         | [] => []
         | (_, tag, c) :: r => leaves (sub pre tag) c ++ go r
         end) fs
  end.

(* ---------- variants of the code ---------- *)
(* The model follows the code AS REPAIRED ([fixed]); the three repairs can be switched off to state what was wrong before:
   v_after_file  linkFlagKeysToStructureKeys runs after the configuration file has been merged (before: on the defaults only)
   v_strip       linkFlagKeysToStructureKeys derives the flag key of a structure key with generateEnvVarConfigKeys, which strips
                 the environment prefix when the key starts with it (repaired: generateEnvVarConfigKey, separators only)
   v_empty_sep   with an empty prefix cleanseEnvVar / DetermineConfigurationEnvironmentVariables still emit the separator ("_PORT") *)
Record variant := mkV { v_after_file : bool; v_strip : bool; v_empty_sep : bool }.
Definition fixed : variant := mkV true false false.
Definition original : variant := mkV false true true.

(* ---------- key / environment-variable name derivation (service_configuration.go:246-281) ---------- *)
Definition flagprefix : str := Eval compute in str_of "uniqueprefixforprivateflagbindingkeys123".

(* generateEnvVarConfigKeys: the "short" name — prefix (and one separator) stripped when present *)
Definition short_of (envVar prefix : str) : str :=
  let l := lower envVar in
  let p := lower prefix in
  if has_prefix l p then trim_prefix (trim_prefix l p) [USC] else l.
(* generateEnvVarConfigKey *)
Definition flagkey_of_short (short : str) : str := flagprefix ++ [DOT] ++ repl USC DOT short.
(* cleanseEnvVar *)
Definition cleanse (vr : variant) (prefix short : str) : str :=
  match prefix with
  | [] => if v_empty_sep vr then upper (repl DOT USC ([USC] ++ short)) else upper (repl DOT USC short)
  | _ => upper (repl DOT USC (prefix ++ [USC] ++ short))
  end.
(* the private flag key linkFlagKeysToStructureKeys derives for a key of the structure (:296) *)
Definition flagkey (vr : variant) (prefix key : str) : str :=
  if v_strip vr then flagkey_of_short (short_of key prefix) else flagkey_of_short key.
Definition is_flagkey (k : str) : bool := has_prefix k flagprefix.

(* viper.mergeWithEnvPrefix followed by getEnv's key replacer ("." -> "_"): the variable AutomaticEnv consults for a key *)
Definition merge_prefix (prefix k : str) : str :=
  match prefix with [] => upper k | _ => upper (prefix ++ [USC] ++ k) end.
Definition autoenv (prefix k : str) : str := repl DOT USC (merge_prefix prefix k).

(* proper, non-empty ancestors of a dotted key: "a.b.c" -> ["a"; "a.b"] *)
Fixpoint prefixes_aux (acc : str) (segs : list str) : list str :=
  match segs with
  | [] => []
  | [_] => []
  | s :: r => let p := match acc with [] => s | _ => acc ++ [DOT] ++ s end in p :: prefixes_aux p r
  end.
Definition ancestors (k : str) : list str := prefixes_aux [] (split DOT k).

(* ---------- the world a load runs in ---------- *)
(* a flag bound with BindFlagToEnv: (envVar argument, flag type, flag default, Some v = the flag was set to v) *)
Definition flagspec := (str * ty * aval * option aval)%type.

Record world := mkW {
  w_prefix : str;
  w_environ : kmap val;       (* os environment: name -> VStr / VText / VBad *)
  w_flags : list flagspec;
  w_file : kmap val;          (* configuration file: dotted key as spelled in the file -> JSON value *)
}.

(* os.LookupEnv + AllowEmptyEnv(false) : viper.getEnv *)
Definition getenv (w : world) (name : str) : option val :=
  match lookup name (w_environ w) with
  | Some (VStr []) => None
  | o => o
  end.

(* BindFlagToEnv: viper.pflags[shortKey] = flag ; viper.env[shortKey] = [cleansedEnvVar] *)
Definition bound_flags (w : world) : kmap (ty * aval * option aval) :=
  map (fun f => match f with (ev, t, d, s) => (flagkey_of_short (short_of ev (w_prefix w)), (t, d, s)) end) (w_flags w).
Definition bound_envs (vr : variant) (w : world) : kmap str :=
  map (fun f => match f with (ev, _, _, _) =>
         let sh := short_of ev (w_prefix w) in (flagkey_of_short sh, cleanse vr (w_prefix w) sh) end) (w_flags w).

(* viper.isPathShadowedInAutoEnv / isPathShadowedInFlatMap *)
Definition env_shadow (w : world) (k : str) : bool :=
  existsb (fun p => match getenv w (autoenv (w_prefix w) p) with Some _ => true | None => false end) (ancestors k).
Definition flat_shadow (k : str) (keys : list str) : bool := existsb (fun p => mem p keys) (ancestors k).

(* the mutable part of the viper session that linkFlagKeysToStructureKeys writes *)
Record session := mkS { ov : kmap val; dfl : kmap val }.
Definition set_ov (k : str) (v : val) (s : session) : session := mkS ((k, v) :: ov s) (dfl s).
Definition set_dfl (k : str) (v : val) (s : session) : session := mkS (ov s) ((k, v) :: dfl s).

(* viper.find for one of the private flag keys (nothing but flags and bound variables live there).
   flagDefault=false is IsSet, true is Get. *)
Definition find_flag (w : world) (bf : kmap (ty * aval * option aval)) (be : kmap str) (fk : str) (flagDefault : bool) : option val :=
  let fl := lookup fk bf in
  match fl with
  | Some (t, _, Some a) => Some (rep_flag t a)                         (* flag.HasChanged() *)
  | _ =>
    if flat_shadow fk (map fst bf) then None else
    match getenv w (autoenv (w_prefix w) fk) with
    | Some v => Some v
    | None =>
      if env_shadow w fk then None else
      match (match lookup fk be with Some n => getenv w n | None => None end) with
      | Some v => Some v
      | None =>
        if flat_shadow fk (map fst be) then None else
        if flagDefault then match fl with Some (t, d, None) => Some (rep_flag t d) | _ => None end else None
      end
    end
  end.

(* viper.find for a key of the structure: override, automatic env, (shadowing), config map, defaults *)
Definition find_key (w : world) (cfg : kmap val) (s : session) (k : str) : option val :=
  match lookup k (ov s) with
  | Some v => Some v
  | None =>
    match getenv w (autoenv (w_prefix w) k) with
    | Some v => Some v
    | None =>
      if env_shadow w k then None else
      match lookup k cfg with
      | Some v => Some v
      | None => lookup k (dfl s)
      end
    end
  end.

(* one iteration of the loop of linkFlagKeysToStructureKeys (:290-310) for a non-flag key *)
Definition link_step (vr : variant) (w : world) (bf : kmap (ty * aval * option aval)) (be : kmap str) (cfg : kmap val) (s : session) (k : str) : session :=
  let fk := flagkey vr (w_prefix w) k in
  match find_flag w bf be fk false with
  | Some v => set_ov k v s
  | None =>
    match find_flag w bf be fk true with
    | Some v =>
        if is_empty v then s else
        let s1 := set_dfl k v s in
        if is_empty_o (find_key w cfg s1 k) then set_ov k v s1 else s1
    | None => s
    end
  end.

(* [bf], [be]: viper.pflags and viper.env as BindFlagToEnv left them (computed once) *)
Definition link (vr : variant) (w : world) (cfg : kmap val) (keys : list str) : session :=
  let bf := bound_flags w in
  let be := bound_envs vr w in
  fold_left (link_step vr w bf be cfg) keys (mkS [] []).

(* the config map: MergeConfigMap(defaults) then MergeInConfig(file) — file entries win *)
Definition defaults_cfg (sc : schema) : kmap val := map (fun l => (fst l, rep_default (snd (snd l)))) (leaves [] sc).
Definition file_cfg (w : world) : kmap val := map (fun e => (lower (fst e), snd e)) (w_file w).
Fixpoint dedup (seen : list str) (l : list str) : list str :=
  match l with
  | [] => []
  | k :: r => if mem k seen then dedup seen r else k :: dedup (k :: seen) r
  end.

(* LoadFromEnvironment up to Unmarshal: the final session and config map. *)
Definition prepared (vr : variant) (w : world) (sc : schema) : kmap val * session :=
  let dc := defaults_cfg sc in
  let full := file_cfg w ++ dc in
  let skeys := map fst (leaves [] sc) in
  if v_after_file vr
  then (full, link vr w full (filter (fun k => negb (is_flagkey k)) (dedup [] (skeys ++ map fst (file_cfg w)))))
  else (full, link vr w dc (filter (fun k => negb (is_flagkey k)) skeys)).

(* viper.Unmarshal: every leaf gets Get(key), weakly decoded; nil leaves the zero value *)
Definition final_val (vr : variant) (w : world) (sc : schema) (k : str) : option val :=
  let '(cfg, s) := prepared vr w sc in find_key w cfg s k.

Definition decode_leaf (t : ty) (o : option val) : option aval :=
  match o with None => Some (zero_of t) | Some v => decode t v end.

Fixpoint sequence {A} (l : list (option A)) : option (list A) :=
  match l with
  | [] => Some []
  | None :: _ => None
  | Some x :: r => match sequence r with Some xs => Some (x :: xs) | None => None end
  end.

Definition unmarshal (vr : variant) (w : world) (sc : schema) : option (list aval) :=
  let '(cfg, s) := prepared vr w sc in
  sequence (map (fun l => decode_leaf (fst (snd l)) (find_key w cfg s (fst l))) (leaves [] sc)).

(* ---------- validation (validation.go, error.go) ---------- *)
(* smallest tag (bytewise) among the failing required fields: newValidationErrorFromOzzoValidationErrors keeps params[0] *)
Fixpoint min_str (best : option str) (l : list str) : option str :=
  match l with
  | [] => best
  | x :: r => min_str (match best with None => Some x | Some b => if str_ltb x b then Some x else Some b end) r
  end.

Definition own_failures (vals : kmap aval) (pre : str) (fs : list (str * str * schema)) : list str :=
  flat_map (fun f => match f with
     | (_, tag, Leaf _ _ true) =>
         match lookup (sub pre tag) vals with Some a => if is_zero a then [tag] else [] | None => [] end
     | _ => [] end) fs.

(* result: (tree of names, mapstructure tree) of the validationError *)
Fixpoint validate (vals : kmap aval) (pre : str) (s : schema) : option (list str * list str) :=
  match s with
  | Leaf _ _ _ => None
  | Node m fs =>
      let emb :=
        (fix go (l : list (str * str * schema)) : option (list str * list str) :=
           match l with
           | [] => None
           | (g, tag, c) :: r =>
               match c with
               | Leaf _ _ _ => go r
               | Node VNone _ => go r
               | Node _ _ =>
                   match validate vals (sub pre tag) c with
                   | Some (tr, ms) => Some (g :: tr, upper tag :: ms)      (* RecordField(field.Name, &tag, nil) *)
                   | None => go r
                   end
               end
           end) fs in
      let own := match min_str None (own_failures vals pre fs) with Some t => Some ([t], []) | None => None end in
      match m with
      | VNone => None
      | VOwnOnly => own
      | VEmbFirst => match emb with Some e => Some e | None => own end
      | VOwnFirst => match own with Some e => Some e | None => emb end
      end
  end.

(* GetMapStructurePath with the prefix recorded by WrapValidationError(field.ToOptionalString(envVarPrefix), …) *)
Definition ms_path (prefix : str) (ms : list str) : str :=
  match ms with
  | [] => []
  | _ => let p := repl DASH USC (join [USC] ms) in
         if blank prefix then p else upper prefix ++ [USC] ++ p
  end.

Inductive outcome :=
| Loaded (vs : list aval)
| Invalid (vs : list aval) (tree : list str) (mspath : str)
| MarshalErr.

Definition load (vr : variant) (w : world) (sc : schema) : outcome :=
  match unmarshal vr w sc with
  | None => MarshalErr
  | Some vs =>
      let vals := combine (map fst (leaves [] sc)) vs in
      match validate vals [] sc with
      | None => Loaded vs
      | Some (tr, ms) => Invalid vs tr (ms_path (w_prefix w) ms)
      end
  end.

(* ---------- DetermineConfigurationEnvironmentVariables ---------- *)
Fixpoint flat (s : schema) : list str :=        (* keys of flattenDefaultsMap(decode(structure)) *)
  match s with
  | Leaf _ _ _ => []
  | Node _ fs =>
      (fix go (l : list (str * str * schema)) : list str :=
         match l with
         | [] => []
         | (_, tag, c) :: r =>
             (match c with
              | Leaf _ _ _ => [upper tag]
              | Node _ _ => map (fun k => upper (tag ++ [USC] ++ k)) (flat c)
              end) ++ go r
         end) fs
  end.
Definition reported (vr : variant) (prefix : str) (s : schema) : list str :=
  map (fun k => match prefix with
                | [] => if v_empty_sep vr then [USC] ++ k else k
                | _ => upper prefix ++ [USC] ++ k
                end) (flat s).
(* the names loading consults for the fields of the structure *)
Definition honoured (prefix : str) (s : schema) : list str :=
  map (fun l => autoenv prefix (fst l)) (leaves [] s).

(* ---------- correspondence ---------- *)
Definition aval_eqb (a b : aval) : bool :=
  match a, b with
  | AStr x, AStr y => str_eqb x y
  | ANum x, ANum y => x =? y
  | _, _ => false
  end.
Fixpoint list_eqb {A} (e : A -> A -> bool) (a b : list A) : bool :=
  match a, b with
  | [], [] => true
  | x :: a', y :: b' => e x y && list_eqb e a' b'
  | _, _ => false
  end.
Definition outcome_eqb (a b : outcome) : bool :=
  match a, b with
  | Loaded x, Loaded y => list_eqb aval_eqb x y
  | Invalid x t m, Invalid y t' m' => list_eqb aval_eqb x y && list_eqb str_eqb t t' && str_eqb m m'
  | MarshalErr, MarshalErr => true
  | _, _ => false
  end.
Definition same_set (a b : list str) : bool :=
  forallb (fun x => mem x b) a && forallb (fun x => mem x a) b && (Z.of_nat (List.length a) =? Z.of_nat (List.length b)).

Record case := mkCase {
  c_world : world;
  c_schema : schema;
  c_obs : outcome;             (* what LoadFromEnvironment did *)
  c_names : option (list str); (* keys returned by DetermineConfigurationEnvironmentVariables; None = same (shape, prefix) as an
                                  earlier case of the run, where they are recorded *)
}.

Definition check_case (c : case) : bool :=
  outcome_eqb (load fixed (c_world c) (c_schema c)) (c_obs c)
  && match c_names c with
     | Some ns => same_set (reported fixed (w_prefix (c_world c)) (c_schema c)) ns
     | None => true
     end.
