(* C15 — executable model of configuration loading.
   Mirrors the repository's glue in utils/config/service_configuration.go (LoadFromEnvironment :61-99,
   BindFlagToEnv :132-142, generateEnvVarConfigKeys/generateEnvVarConfigKey/cleanseEnvVar :246-269, setEnvOptions :275-281,
   linkFlagKeysToStructureKeys :286-311, flattenDefaultsMap :313-327, DetermineConfigurationEnvironmentVariables :330-349),
   utils/config/validation.go (ValidateEmbedded :12-31, wrapFieldValidationError :33-41) and utils/config/error.go
   (RecordField :114-127, GetMapStructurePath :150-160, newValidationErrorFromOzzoValidationErrors :213-228)
   on top of a SPECIFICATION-LEVEL model of the third-party layers (viper v1.20.1 find(): override > changed flag > automatic
   env > bound env > config map > defaults > flag default, with its shadowing checks; pflag value representations;
   mapstructure weak decoding; ozzo Required).  Definitions only; proofs are in Proofs*.v.
   Strings are byte lists ([list Z]); only ASCII case mapping is modelled (tags and prefixes are ASCII). *)
From Coq Require Import List ZArith Bool String Ascii.
Import ListNotations.
From GU Require Export C15.Facts.
From GU Require Import C15.Gen.
Local Open Scope Z_scope.

Definition str := list Z.

Fixpoint str_of (s : string) : str :=
  match s with EmptyString => [] | String a r => Z.of_N (N_of_ascii a) :: str_of r end.

(* ---------- Go's strings package, ASCII ---------- *)
Definition up (c : Z) : Z := if (97 <=? c) && (c <=? 122) then c - 32 else c.
Definition low (c : Z) : Z := if (65 <=? c) && (c <=? 90) then c + 32 else c.
Definition upper (s : str) : str := map up s.          (* strings.ToUpper *)
Definition lower (s : str) : str := map low s.          (* strings.ToLower *)
Definition repl (a b : Z) (s : str) : str := map (fun c => if c =? a then b else c) s.  (* strings.NewReplacer(a,b) on single bytes *)
Definition USC : Z := 95.  (* "_"  EnvVarSeparator *)
Definition DOT : Z := 46.  (* "."  configKeySeparator / viper key delimiter *)
Definition DASH : Z := 45.

Fixpoint str_eqb (a b : str) : bool :=
  match a, b with
  | [], [] => true
  | x :: a', y :: b' => (x =? y) && str_eqb a' b'
  | _, _ => false
  end.

Fixpoint has_prefix (s p : str) : bool :=               (* strings.HasPrefix s p *)
  match p, s with
  | [], _ => true
  | y :: p', x :: s' => (x =? y) && has_prefix s' p'
  | _ :: _, [] => false
  end.

Definition trim_prefix (s p : str) : str :=              (* strings.TrimPrefix *)
  if has_prefix s p then skipn (List.length p) s else s.

Fixpoint split_aux (sep : Z) (cur : str) (s : str) : list str :=
  match s with
  | [] => [rev cur]
  | c :: r => if c =? sep then rev cur :: split_aux sep [] r else split_aux sep (c :: cur) r
  end.
Definition split (sep : Z) (s : str) : list str := split_aux sep [] s.   (* strings.Split *)

Fixpoint join (sep : str) (l : list str) : str :=          (* strings.Join *)
  match l with
  | [] => []
  | [x] => x
  | x :: r => x ++ sep ++ join sep r
  end.

Definition is_space (c : Z) : bool := (c =? 32) || ((9 <=? c) && (c <=? 13)).
Definition blank (s : str) : bool := forallb is_space s.   (* len(strings.TrimSpace(s)) == 0 *)

(* bytewise order of Go strings (slices.Sort on []string) *)
Fixpoint str_ltb (a b : str) : bool :=
  match a, b with
  | [], [] => false
  | [], _ :: _ => true
  | _ :: _, [] => false
  | x :: a', y :: b' => if x <? y then true else if y <? x then false else str_ltb a' b'
  end.

(* ---------- finite maps keyed by strings (first match wins) ---------- *)
Definition kmap (V : Type) := list (str * V).
Fixpoint lookup {V} (k : str) (m : kmap V) : option V :=
  match m with
  | [] => None
  | (k', v) :: r => if str_eqb k k' then Some v else lookup k r
  end.
Definition mem (k : str) (l : list str) : bool := existsb (str_eqb k) l.

(* ---------- values ---------- *)
Inductive ty := TStr | TInt | TBool | TFloat | TDur.

(* abstract value of a leaf: a string, or a number (int; bool as 0/1; float in eighths; duration in milliseconds) *)
Inductive aval := AStr (s : str) | ANum (z : Z).

(* value as a layer of viper holds it (what reflection.IsEmpty and the decoder get to see):
   VStr  a Go string supplied by the user
   VNum  a native Go number / bool / time.Duration / JSON number
   VText a Go string that is the textual rendering of a number ("9.5", "1m0s", "true"): never blank
   VBad  a non-blank Go string that does not parse as a number *)
Inductive val := VStr (s : str) | VNum (z : Z) | VText (z : Z) | VBad.

(* reflection.IsEmpty (utils/reflection/reflection.go:200-231) on those representations *)
Definition is_empty (v : val) : bool :=
  match v with VStr s => blank s | VNum z => z =? 0 | VText _ => false | VBad => false end.
Definition is_empty_o (o : option val) : bool := match o with None => true | Some v => is_empty v end.

(* mapstructure.Decode(defaultConfiguration): struct fields keep their native Go types *)
Definition rep_default (a : aval) : val := match a with AStr s => VStr s | ANum z => VNum z end.
(* viper.find on a bound pflag: int and bool flags are cast (cast.ToInt / cast.ToBool), every other flag type yields flag.ValueString() *)
Definition rep_flag (t : ty) (a : aval) : val :=
  match a with
  | AStr s => VStr s
  | ANum z => match t with TInt | TBool => VNum z | _ => VText z end
  end.

(* mapstructure weak decoding into a field of type t (viper.Unmarshal: WeaklyTypedInput + StringToTimeDurationHookFunc) *)
Definition decode (t : ty) (v : val) : option aval :=
  match t, v with
  | TStr, VStr s => Some (AStr s)
  | TStr, _ => None                (* not generated: numbers are never offered to string fields *)
  | _, VNum z => Some (ANum z)
  | _, VText z => Some (ANum z)
  | _, VStr s => if match s with [] => true | _ => false end then Some (ANum 0) else None
  | _, VBad => None
  end.

Definition zero_of (t : ty) : aval := match t with TStr => AStr [] | _ => ANum 0 end.
(* ozzo-validation Required: IsEmpty (len == 0 for strings, no trimming; zero for numbers, false for bool) *)
Definition is_zero (a : aval) : bool :=
  match a with AStr [] => true | AStr _ => false | ANum z => z =? 0 end.

(* ---------- the configuration structure ---------- *)
(* How the structure type at a node validates itself:
   VNone      the type has no Validate method (ValidateEmbedded skips it: validation.go:17-20)
   VOwnOnly   Validate checks its own fields only
   VEmbFirst  Validate calls ValidateEmbedded first, then its own fields (the pattern of the repository's tests)
   VOwnFirst  own fields first, then ValidateEmbedded *)
Inductive vmode := VNone | VOwnOnly | VEmbFirst | VOwnFirst.

(* field = (Go field name, mapstructure tag, sub-schema); a leaf carries its type, the SUPPLIED DEFAULT and whether the
   enclosing type's Validate marks it validation.Required *)
Inductive schema :=
| Leaf (t : ty) (d : aval) (req : bool)
| Node (m : vmode) (fs : list (str * str * schema)).

Definition sub (pre tag : str) : str :=
  match pre with [] => lower tag | _ => pre ++ [DOT] ++ lower tag end.

(* leaves in declaration order with their viper key (lower-cased tags joined by ".": insensitiviseMap + keyDelim) *)
Fixpoint leaves (pre : str) (s : schema) : list (str * (ty * aval)) :=
  match s with
  | Leaf t d _ => [(pre, (t, d))]
  | Node _ fs =>
      (fix go (fs : list (str * str * schema)) : list (str * (ty * aval)) :=
         match fs with
         | [] => []
         | (_, tag, c) :: r => leaves (sub pre tag) c ++ go r
         end) fs
  end.

(* ---------- the facts the model is parameterised by ---------- *)
(* [expected]: the facts of the code AS REPAIRED, written by hand; [Gen.gen_facts] is what the translator reads off the
   source on every run.  Theorems are stated for gen_facts and proved for every record satisfying the conditions they need. *)
Definition expected_steps : list step :=
  [StDecodeDefaults; StMergeDefaults; StDotEnv; StEnvOptions; StMergeFile; StLink; StUnmarshal; StValidate].
Definition expected_lf : lfacts := mkLF expected_steps false true true false true true true NilSkip NilSkip.
Definition expected_flagprefix : str := Eval compute in str_of "uniqueprefixforprivateflagbindingkeys123".
Definition expected_kf : kfacts :=
  mkKF [(DOT, USC)] true true true true (Some USC) true expected_flagprefix DOT (USC, DOT) USC (DOT, USC) true true.
Definition expected_nf : nfacts := mkNF true true USC true USC true.
Definition expected_vf : vfacts := mkVF true SkipContinue true true true true USC (DASH, USC) true true.
Definition expected : facts := mkFacts expected_lf expected_kf expected_nf expected_vf.
Definition fixed : facts := expected.

Definition with_lf (f : facts) (l : lfacts) : facts := mkFacts l (kf f) (nf f) (vf f).
(* the code before the three repairs *)
Definition steps_link_before_file : list step :=
  [StDecodeDefaults; StMergeDefaults; StDotEnv; StEnvOptions; StLink; StMergeFile; StUnmarshal; StValidate].
Definition before_repair1 : facts := with_lf expected (mkLF steps_link_before_file false true true false true true true NilSkip NilSkip).
Definition before_repair2 : facts := with_lf expected (mkLF expected_steps false true true true true true true NilSkip NilSkip).
Definition before_repair3 : facts :=
  mkFacts expected_lf
          (mkKF [(DOT, USC)] true true true true (Some USC) true (k_flagprefix expected_kf) DOT (USC, DOT) USC (DOT, USC) true false)
          (mkNF true true USC true USC false) expected_vf.
Definition original : facts :=
  mkFacts (mkLF steps_link_before_file false true true true true true true NilSkip NilSkip) (kf before_repair3) (nf before_repair3) expected_vf.

(* position of a step in LoadFromEnvironment *)
Fixpoint step_index (x : step) (l : list step) : option nat :=
  match l with
  | [] => None
  | y :: r => if step_eqb x y then Some O else match step_index x r with Some n => Some (S n) | None => None end
  end.
Definition step_before (a b : step) (l : list step) : bool :=
  match step_index a l, step_index b l with
  | Some i, Some j => Nat.ltb i j
  | _, _ => false
  end.
(* linkFlagKeysToStructureKeys sees the file's values *)
Definition after_file (f : facts) : bool := step_before StMergeFile StLink (l_steps (lf f)).
(* MergeInConfig(file) comes after MergeConfigMap(defaults): the file's entries win in the config map *)
Definition defaults_first (f : facts) : bool := step_before StMergeDefaults StMergeFile (l_steps (lf f)).
(* everything else the order must guarantee: the options are set before anything is looked up, the structure is filled
   after the flags are linked and validated after it is filled *)
Definition steps_sane (f : facts) : bool :=
  let l := l_steps (lf f) in
  step_before StDecodeDefaults StMergeDefaults l && step_before StEnvOptions StLink l && step_before StMergeDefaults StLink l && step_before StLink StUnmarshal l
  && step_before StMergeFile StUnmarshal l && step_before StMergeDefaults StUnmarshal l && step_before StUnmarshal StValidate l.

(* ---------- key / environment-variable name derivation (service_configuration.go: generateEnvVarConfigKeys,
   generateEnvVarConfigKey, cleanseEnvVar, isFlagKey, setEnvOptions) — every choice comes from the facts ---------- *)
Definition lw (b : bool) (s : str) : str := if b then lower s else s.
Definition repl1 (p : Z * Z) (s : str) : str := repl (fst p) (snd p) s.
(* strings.NewReplacer(old1, new1, old2, new2, …) on single bytes: the first matching pair decides *)
Definition apply_pairs (ps : list (Z * Z)) (c : Z) : Z :=
  match find (fun p => c =? fst p) ps with Some p => snd p | None => c end.
Definition replace_pairs (ps : list (Z * Z)) (s : str) : str := map (apply_pairs ps) s.

Definition flagprefix (f : facts) : str := k_flagprefix (kf f).

(* generateEnvVarConfigKeys: the "short" name — prefix (and one separator) stripped when present *)
Definition short_of (f : facts) (envVar prefix : str) : str :=
  let k := kf f in
  if has_prefix (lw (k_cmp_envvar_lowered k) envVar) (lw (k_cmp_prefix_lowered k) prefix)
  then let t := trim_prefix (lw (k_trim_envvar_lowered k) envVar) (lw (k_trim_prefix_lowered k) prefix) in
       match k_trim_sep k with Some c => trim_prefix t [c] | None => t end
  else lw (k_else_lowered k) envVar.
(* generateEnvVarConfigKey *)
Definition flagkey_of_short (f : facts) (short : str) : str :=
  flagprefix f ++ [k_key_sep (kf f)] ++ repl1 (k_key_repl (kf f)) short.
(* cleanseEnvVar *)
Definition cleanse (f : facts) (prefix short : str) : str :=
  let k := kf f in
  let up := fun s => if k_cl_upper k then upper s else s in
  match prefix with
  | [] => if k_cl_empty_prefix_bare k then up (repl1 (k_cl_repl k) short)
          else up (repl1 (k_cl_repl k) ([k_cl_sep k] ++ short))
  | _ => up (repl1 (k_cl_repl k) (prefix ++ [k_cl_sep k] ++ short))
  end.
(* the private flag key linkFlagKeysToStructureKeys derives for a key of the structure *)
Definition flagkey (f : facts) (prefix key : str) : str :=
  if l_link_strips_prefix (lf f) then flagkey_of_short f (short_of f key prefix) else flagkey_of_short f key.
Definition is_flagkey (f : facts) (k : str) : bool := has_prefix k (flagprefix f).

(* viper.mergeWithEnvPrefix followed by getEnv's key replacer: the variable AutomaticEnv consults for a key *)
Definition merge_prefix (prefix k : str) : str :=
  match prefix with [] => upper k | _ => upper (prefix ++ [USC] ++ k) end.
Definition autoenv (f : facts) (prefix k : str) : str := replace_pairs (k_env_replacer (kf f)) (merge_prefix prefix k).

(* proper, non-empty ancestors of a dotted key: "a.b.c" -> ["a"; "a.b"] *)
Fixpoint prefixes_aux (acc : str) (segs : list str) : list str :=
  match segs with
  | [] => []
  | [_] => []
  | s :: r => let p := match acc with [] => s | _ => acc ++ [DOT] ++ s end in p :: prefixes_aux p r
  end.
Definition ancestors (k : str) : list str := prefixes_aux [] (split DOT k).

(* ---------- the world a load runs in ---------- *)
(* a member of a set of flags bound to one key with BindFlagsToEnv (BindFlagToEnv: a set of one):
   MNil = a nil *pflag.Flag (Lookup of an undefined name; newMultiFlags tolerates it),
   MFlag d s = a defined flag with default d; s = Some v when it was set to v on the command line *)
Inductive member := MNil | MFlag (d : aval) (s : option aval).
(* a binding: (envVar argument, type of the flags, members in the order given) *)
Definition flagspec := (str * ty * list member)%type.

(* multiFlags.HasChanged (service_configuration.go:201-209) *)
Fixpoint mf_changed (nk : nilk) (ms : list member) : bool :=
  match ms with
  | [] => false
  | MNil :: r => match nk with NilSkip => mf_changed nk r | NilStop => false end
  | MFlag _ (Some _) :: _ => true
  | MFlag _ None :: r => mf_changed nk r
  end.
(* multiFlags.ValueString (:215-233): the value of a changed member if there is one (the first one: the harness gives
   several changed members the same value, UniqueEntries goes through a set), else the current value of the LAST non-nil member *)
Fixpoint mf_first_set (nk : nilk) (ms : list member) : option aval :=
  match ms with
  | [] => None
  | MNil :: r => match nk with NilSkip => mf_first_set nk r | NilStop => None end
  | MFlag _ (Some a) :: _ => Some a
  | MFlag _ None :: r => mf_first_set nk r
  end.
Fixpoint mf_last_value (nk : nilk) (acc : option aval) (ms : list member) : option aval :=
  match ms with
  | [] => acc
  | MNil :: r => match nk with NilSkip => mf_last_value nk acc r | NilStop => acc end
  | MFlag d s :: r => mf_last_value nk (Some (match s with Some a => a | None => d end)) r
  end.
Definition mf_value (nk : nilk) (ms : list member) : option aval :=
  match mf_first_set nk ms with Some a => Some a | None => mf_last_value nk None ms end.

Record world := mkW {
  w_prefix : str;
  w_environ : kmap val;       (* os environment: name -> VStr / VText / VBad *)
  w_flags : list flagspec;
  w_file : kmap val;          (* configuration file: dotted key as spelled in the file -> JSON value *)
}.

(* os.LookupEnv + AllowEmptyEnv(<fact>) : viper.getEnv *)
Definition getenv (f : facts) (w : world) (name : str) : option val :=
  match lookup name (w_environ w) with
  | Some (VStr []) => if l_allow_empty_env (lf f) then Some (VStr []) else None
  | o => o
  end.
(* the lookup AutomaticEnv adds to viper.find for a key (nothing when AutomaticEnv() is not called) *)
Definition autoget (f : facts) (w : world) (k : str) : option val :=
  if l_automatic_env (lf f) then getenv f w (autoenv f (w_prefix w) k) else None.

(* BindFlagToEnv: viper.pflags[shortKey] = flag ; viper.env[shortKey] = [cleansedEnvVar] *)
(* what viper sees of a bound set: (type, ValueString() while nothing changed = the "flag default", Some value iff HasChanged()) *)
Definition mf_entry (f : facts) (e : ty * list member) : ty * aval * option aval :=
  let '(t, ms) := e in
  let v := mf_value (l_multi_value_nil (lf f)) ms in
  (t, match v with Some a => a | None => zero_of t end,
   if mf_changed (l_multi_changed_nil (lf f)) ms then v else None).
Definition bound_members (f : facts) (w : world) : kmap (ty * list member) :=
  map (fun fl => match fl with (ev, t, ms) => (flagkey_of_short f (short_of f ev (w_prefix w)), (t, ms)) end) (w_flags w).
Definition bound_flags (f : facts) (w : world) : kmap (ty * aval * option aval) :=
  map (fun e => (fst e, mf_entry f (snd e))) (bound_members f w).
Definition bound_envs (f : facts) (w : world) : kmap str :=
  map (fun fl => match fl with (ev, _, _) =>
         let sh := short_of f ev (w_prefix w) in (flagkey_of_short f sh, cleanse f (w_prefix w) sh) end) (w_flags w).

(* viper.isPathShadowedInAutoEnv / isPathShadowedInFlatMap *)
Definition env_shadow (f : facts) (w : world) (k : str) : bool :=
  existsb (fun p => match autoget f w p with Some _ => true | None => false end) (ancestors k).
Definition flat_shadow (k : str) (keys : list str) : bool := existsb (fun p => mem p keys) (ancestors k).

(* the mutable part of the viper session that linkFlagKeysToStructureKeys writes *)
Record session := mkS { ov : kmap val; dfl : kmap val }.
Definition set_ov (k : str) (v : val) (s : session) : session := mkS ((k, v) :: ov s) (dfl s).
Definition set_dfl (k : str) (v : val) (s : session) : session := mkS (ov s) ((k, v) :: dfl s).

(* viper.find for one of the private flag keys (nothing but flags and bound variables live there).
   flagDefault=false is IsSet, true is Get. *)
Definition find_flag (f : facts) (w : world) (bf : kmap (ty * aval * option aval)) (be : kmap str) (fk : str) (flagDefault : bool) : option val :=
  let fl := lookup fk bf in
  match fl with
  | Some (t, _, Some a) => Some (rep_flag t a)                         (* flag.HasChanged() *)
  | _ =>
    if flat_shadow fk (map fst bf) then None else
    match autoget f w fk with
    | Some v => Some v
    | None =>
      if env_shadow f w fk then None else
      match (match lookup fk be with Some n => getenv f w n | None => None end) with
      | Some v => Some v
      | None =>
        if flat_shadow fk (map fst be) then None else
        if flagDefault then match fl with Some (t, d, None) => Some (rep_flag t d) | _ => None end else None
      end
    end
  end.

(* viper.find for a key of the structure: override, automatic env, (shadowing), config map, defaults *)
Definition find_key (f : facts) (w : world) (cfg : kmap val) (s : session) (k : str) : option val :=
  match lookup k (ov s) with
  | Some v => Some v
  | None =>
    match autoget f w k with
    | Some v => Some v
    | None =>
      if env_shadow f w k then None else
      match lookup k cfg with
      | Some v => Some v
      | None => lookup k (dfl s)
      end
    end
  end.

(* one iteration of the loop of linkFlagKeysToStructureKeys (:290-310) for a non-flag key *)
Definition link_step (f : facts) (w : world) (bf : kmap (ty * aval * option aval)) (be : kmap str) (cfg : kmap val) (s : session) (k : str) : session :=
  let fk := flagkey f (w_prefix w) k in
  match find_flag f w bf be fk false with
  | Some v => set_ov k v s
  | None =>
    match find_flag f w bf be fk true with
    | Some v =>
        if l_guard_default_nonempty (lf f) && is_empty v then s else
        let s1 := set_dfl k v s in
        if (if l_guard_current_empty (lf f) then is_empty_o (find_key f w cfg s1 k) else true) then set_ov k v s1 else s1
    | None => s
    end
  end.

(* [bf], [be]: viper.pflags and viper.env as BindFlagToEnv left them (computed once) *)
Definition link (f : facts) (w : world) (cfg : kmap val) (keys : list str) : session :=
  let bf := bound_flags f w in
  let be := bound_envs f w in
  fold_left (link_step f w bf be cfg) keys (mkS [] []).

(* the config map: MergeConfigMap(defaults) then MergeInConfig(file) — file entries win *)
Definition defaults_cfg (sc : schema) : kmap val := map (fun l => (fst l, rep_default (snd (snd l)))) (leaves [] sc).
Definition file_cfg (w : world) : kmap val := map (fun e => (lower (fst e), snd e)) (w_file w).
Fixpoint dedup (seen : list str) (l : list str) : list str :=
  match l with
  | [] => []
  | k :: r => if mem k seen then dedup seen r else k :: dedup (k :: seen) r
  end.

(* LoadFromEnvironment up to Unmarshal: the final session and config map. *)
Definition link_keys (f : facts) (l : list str) : list str :=
  if l_link_skips_flagkeys (lf f) then filter (fun k => negb (is_flagkey f k)) l else l.
Definition prepared (f : facts) (w : world) (sc : schema) : kmap val * session :=
  let dc := defaults_cfg sc in
  let full := if defaults_first f then file_cfg w ++ dc else dc ++ file_cfg w in
  let skeys := map fst (leaves [] sc) in
  if after_file f
  then (full, link f w full (link_keys f (dedup [] (skeys ++ map fst (file_cfg w)))))
  else (full, link f w dc (link_keys f skeys)).

(* viper.Unmarshal: every leaf gets Get(key), weakly decoded; nil leaves the zero value *)
Definition final_val (f : facts) (w : world) (sc : schema) (k : str) : option val :=
  let '(cfg, s) := prepared f w sc in find_key f w cfg s k.

Definition decode_leaf (t : ty) (o : option val) : option aval :=
  match o with None => Some (zero_of t) | Some v => decode t v end.

Fixpoint sequence {A} (l : list (option A)) : option (list A) :=
  match l with
  | [] => Some []
  | None :: _ => None
  | Some x :: r => match sequence r with Some xs => Some (x :: xs) | None => None end
  end.

Definition unmarshal (f : facts) (w : world) (sc : schema) : option (list aval) :=
  let '(cfg, s) := prepared f w sc in
  sequence (map (fun l => decode_leaf (fst (snd l)) (find_key f w cfg s (fst l))) (leaves [] sc)).

(* ---------- validation (validation.go, error.go) ---------- *)
(* smallest tag (bytewise) among the failing required fields: newValidationErrorFromOzzoValidationErrors keeps params[0] *)
Fixpoint min_str (best : option str) (l : list str) : option str :=
  match l with
  | [] => best
  | x :: r => min_str (match best with None => Some x | Some b => if str_ltb x b then Some x else Some b end) r
  end.

Definition own_failures (vals : kmap aval) (pre : str) (fs : list (str * str * schema)) : list str :=
  flat_map (fun f => match f with
     | (_, tag, Leaf _ _ true) =>
         match lookup (sub pre tag) vals with Some a => if is_zero a then [tag] else [] | None => [] end
     | _ => [] end) fs.

Fixpoint max_str (best : option str) (l : list str) : option str :=
  match l with
  | [] => best
  | x :: r => max_str (match best with None => Some x | Some b => if str_ltb b x then Some x else Some b end) r
  end.

(* validationError.RecordField(field.Name, &tag, nil) on the error of an embedded structure *)
Definition rec_field (f : facts) (g tag : str) (e : list str * list str) : list str * list str :=
  let v := vf f in
  let name := if v_ms_upper v then upper tag else tag in
  ((if v_tree_prepend v then g :: fst e else fst e ++ [g]),
   (if v_ms_prepend v then name :: snd e else snd e ++ [name])).

(* result: (tree of names, mapstructure tree) of the validationError *)
Fixpoint validate (f : facts) (vals : kmap aval) (pre : str) (s : schema) : option (list str * list str) :=
  match s with
  | Leaf _ _ _ => None
  | Node m fs =>
      let emb :=
        (fix go (l : list (str * str * schema)) : option (list str * list str) :=
           match l with
           | [] => None
           | (g, tag, c) :: r =>
               match c with
               | Leaf _ _ _ => go r                                   (* f.Kind() != reflect.Struct *)
               | Node VNone _ =>                                      (* no Validate method: if !ok { <fact> } *)
                   match v_skip_no_validator (vf f) with SkipContinue => go r | SkipReturnNil => None end
               | Node _ _ =>
                   match validate f vals (sub pre tag) c with
                   | Some e => if v_first_error_returned (vf f) then Some (rec_field f g tag e) else go r
                   | None => go r
                   end
               end
           end) fs in
      let pick := if v_ozzo_sorted_first (vf f) then min_str else max_str in
      let own := match pick None (own_failures vals pre fs) with Some t => Some ([t], []) | None => None end in
      match m with
      | VNone => None
      | VOwnOnly => own
      | VEmbFirst => match emb with Some e => Some e | None => own end
      | VOwnFirst => match own with Some e => Some e | None => emb end
      end
  end.

(* GetMapStructurePath with the prefix recorded by WrapValidationError(field.ToOptionalString(envVarPrefix), …) *)
Definition ms_path (f : facts) (prefix : str) (ms : list str) : str :=
  let v := vf f in
  match ms with
  | [] => []
  | _ => let p := repl1 (v_ms_repl v) (join [v_ms_join v] ms) in
         if blank prefix then p else (if v_ms_prefix_upper v then upper prefix else prefix) ++ [USC] ++ p
  end.

Inductive outcome :=
| Loaded (vs : list aval)
| Invalid (vs : list aval) (tree : list str) (mspath : str)
| MarshalErr.

Definition load (f : facts) (w : world) (sc : schema) : outcome :=
  match unmarshal f w sc with
  | None => MarshalErr
  | Some vs =>
      let vals := combine (map fst (leaves [] sc)) vs in
      match validate f vals [] sc with
      | None => Loaded vs
      | Some (tr, ms) => Invalid vs tr (ms_path f (w_prefix w) ms)
      end
  end.

(* ---------- DetermineConfigurationEnvironmentVariables ---------- *)
Fixpoint flat (f : facts) (s : schema) : list str :=        (* keys of flattenDefaultsMap(decode(structure)) *)
  match s with
  | Leaf _ _ _ => []
  | Node _ fs =>
      (fix go (l : list (str * str * schema)) : list str :=
         match l with
         | [] => []
         | (_, tag, c) :: r =>
             (match c with
              | Leaf _ _ _ => [if n_flat_upper_leaf (nf f) then upper tag else tag]
              | Node _ _ => map (fun k => let j := tag ++ [n_flat_sep (nf f)] ++ k in
                                          if n_flat_upper_nested (nf f) then upper j else j) (flat f c)
              end) ++ go r
         end) fs
  end.
Definition reported (f : facts) (prefix : str) (s : schema) : list str :=
  let n := nf f in
  map (fun k => match prefix with
                | [] => if n_det_empty_prefix_bare n then k else [n_det_sep n] ++ k
                | _ => (if n_det_prefix_upper n then upper prefix else prefix) ++ [n_det_sep n] ++ k
                end) (flat f s).
(* the names loading consults for the fields of the structure *)
Definition honoured (f : facts) (prefix : str) (s : schema) : list str :=
  map (fun l => autoenv f prefix (fst l)) (leaves [] s).

(* ---------- correspondence ---------- *)
Definition aval_eqb (a b : aval) : bool :=
  match a, b with
  | AStr x, AStr y => str_eqb x y
  | ANum x, ANum y => x =? y
  | _, _ => false
  end.
Fixpoint list_eqb {A} (e : A -> A -> bool) (a b : list A) : bool :=
  match a, b with
  | [], [] => true
  | x :: a', y :: b' => e x y && list_eqb e a' b'
  | _, _ => false
  end.
Definition outcome_eqb (a b : outcome) : bool :=
  match a, b with
  | Loaded x, Loaded y => list_eqb aval_eqb x y
  | Invalid x t m, Invalid y t' m' => list_eqb aval_eqb x y && list_eqb str_eqb t t' && str_eqb m m'
  | MarshalErr, MarshalErr => true
  | _, _ => false
  end.
Definition same_set (a b : list str) : bool :=
  forallb (fun x => mem x b) a && forallb (fun x => mem x a) b && (Z.of_nat (List.length a) =? Z.of_nat (List.length b)).

Record case := mkCase {
  c_world : world;
  c_schema : schema;
  c_obs : outcome;             (* what LoadFromEnvironment did *)
  c_names : option (list str); (* keys returned by DetermineConfigurationEnvironmentVariables; None = same (shape, prefix) as an
                                  earlier case of the run, where they are recorded *)
}.

Definition check_case (c : case) : bool :=
  outcome_eqb (load gen_facts (c_world c) (c_schema c)) (c_obs c)
  && match c_names c with
     | Some ns => same_set (reported gen_facts (w_prefix (c_world c)) (c_schema c)) ns
     | None => true
     end.
