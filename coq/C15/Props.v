(* C15 — Configuration loading: precedence of sources, then validation.
   Property theorems only; each is closed by a lemma of Proofs*.v and followed by Print Assumptions.
   Model: GU.C15.Model (the repository's glue in utils/config over a specification-level model of viper / pflag /
   mapstructure / ozzo), tied to the code by the correspondence runs of harness/cmd/c15. *)
From Coq Require Import List ZArith Bool String.
Import ListNotations.
From GU Require Import C15.Gen C15.Model C15.Proofs C15.ProofsNames C15.ProofsTop C15.ProofsValid.
Local Open Scope Z_scope.

(* ---- the facts read off the source on this run satisfy what each theorem needs (by computation) ----
   [gen_facts] (coq/C15/Gen.v) is regenerated from utils/config/*.go by translator-c15 on every run; the lemmas of
   Proofs*.v hold for EVERY fact record satisfying the conditions named here, so an edit that changes a fact breaks
   exactly the theorems below that depend on it. *)
Lemma gen_link_facts : link_facts_ok gen_facts = true.              (* LoadFromEnvironment order, link guards *)
Proof. vm_compute. reflexivity. Qed.
Lemma gen_bind_facts : bind_facts_ok gen_facts.                     (* key / variable spelling, no prefix stripping, AutomaticEnv *)
Proof. repeat split; vm_compute; reflexivity. Qed.
Lemma gen_spelling_facts : kf gen_facts = expected_kf.
Proof. vm_compute. reflexivity. Qed.

(* ---- precedence ---- *)
(* For EVERY structure (any depth, any number of fields), every environment, file, set of bound flags and prefix
   (the empty prefix and prefixes that are a prefix of a key included): each leaf whose key is not shadowed (see
   [unshadowed]: no variable or flag named like an enclosing path) ends up holding [spec_val]: the explicitly set flag
   bound to it, else its environment variable, else the file's value, else the supplied default — derived from the layer
   mechanics (MergeConfigMap, MergeInConfig, the loop of linkFlagKeysToStructureKeys writing overrides / defaults over an
   arbitrary key list, viper.find, the spelling of flag keys and bound variables), not assumed. *)
Theorem load_precedence : forall w sc k t d,
  NoDup (map fst (leaves [] sc)) -> In (k, (t, d)) (leaves [] sc) ->
  is_flagkey gen_facts k = false -> unshadowed gen_facts w k ->
  final_val gen_facts w sc k = Some (spec_val gen_facts w k d).
Proof. intros. apply load_precedence_fixed_l with (t := t); auto using gen_link_facts, gen_bind_facts. Qed.
Print Assumptions load_precedence.

(* [spec_val] spelled out, clause by clause, in the order of the property *)
Theorem precedence_order : forall w k d,
  let fl := lookup (flagkey gen_facts (w_prefix w) k) (bound_flags gen_facts w) in
  (forall t fd a, fl = Some (t, fd, Some a) -> spec_val gen_facts w k d = rep_flag t a) /\
  (forall v, (forall t fd a, fl <> Some (t, fd, Some a)) ->
             autoget gen_facts w k = Some v -> spec_val gen_facts w k d = v) /\
  (forall v, fl = None -> autoget gen_facts w k = None ->
             lookup k (file_cfg w) = Some v -> spec_val gen_facts w k d = v) /\
  (fl = None -> autoget gen_facts w k = None ->
   lookup k (file_cfg w) = None -> spec_val gen_facts w k d = rep_default d) /\
  (forall t fd, fl = Some (t, fd, None) ->
     autoget gen_facts w k = None ->
     let cv := match lookup k (file_cfg w) with Some v => v | None => rep_default d end in
     is_empty cv = false -> spec_val gen_facts w k d = cv).
Proof.
  intros w k d fl. unfold fl. split; [|split; [|split; [|split]]].
  - intros; eapply spec_flag_wins; eauto.
  - intros; eapply spec_env_next; eauto.
  - intros; eapply spec_file_next; eauto.
  - intros; eapply spec_default_last; eauto.
  - intros t fd H1 H2. apply (spec_unset_flag_does_not_outrank gen_facts w k d t fd H1 H2).
Qed.
Print Assumptions precedence_order.

(* the variable BindFlagToEnv binds for a flag is the one AutomaticEnv consults for the structure key the flag is linked
   to — for every prefix (empty included) and every spelling of the envVar argument *)
Theorem bound_env_is_auto_env : forall w k ev,
  flagkey_of_short gen_facts (short_of gen_facts ev (w_prefix w)) = flagkey gen_facts (w_prefix w) k ->
  cleanse gen_facts (w_prefix w) (short_of gen_facts ev (w_prefix w)) = autoenv gen_facts (w_prefix w) k.
Proof. intros. apply bound_env_is_auto_env_l; auto; apply gen_bind_facts. Qed.
Print Assumptions bound_env_is_auto_env.

(* fields at the top level have no enclosing path: the shadowing side condition on the key is vacuous for them *)
Theorem top_level_never_shadowed : forall w k, nodot k = true -> env_shadow gen_facts w k = false.
Proof. intros. now apply top_level_unshadowed. Qed.
Print Assumptions top_level_never_shadowed.

Lemma gen_empty_env_fact : l_allow_empty_env (lf gen_facts) = false.
Proof. vm_compute. reflexivity. Qed.
(* an environment variable that is set to the empty string counts as not set (setEnvOptions: AllowEmptyEnv(false)) *)
Theorem empty_variable_is_unset : forall w name,
  lookup name (w_environ w) = Some (VStr []) -> getenv gen_facts w name = None.
Proof. intros. apply empty_env_unset_l; auto using gen_empty_env_fact. Qed.
Print Assumptions empty_variable_is_unset.

(* BindFlagsToEnv — several flags bound to one key: a member that was explicitly set wins over environment, file and
   defaults whatever stands in front of it in the set — nil members (Lookup of an undefined flag) and members that were not
   set, in any number and order.  Needs: both scans of multiFlags (HasChanged, ValueString) SKIP nil members. *)
Lemma gen_multi_facts : multi_facts_ok gen_facts.
Proof. split; vm_compute; reflexivity. Qed.
Theorem explicitly_set_member_wins : forall w sc k t d ty pre dm a post,
  NoDup (map fst (leaves [] sc)) -> In (k, (t, d)) (leaves [] sc) ->
  is_flagkey gen_facts k = false -> unshadowed gen_facts w k ->
  lookup (flagkey gen_facts (w_prefix w) k) (bound_members gen_facts w) = Some (ty, pre ++ MFlag dm (Some a) :: post) ->
  Forall quiet pre ->
  final_val gen_facts w sc k = Some (rep_flag ty a).
Proof. intros. eapply set_member_wins_l; eauto using gen_link_facts, gen_bind_facts, gen_multi_facts. Qed.
Print Assumptions explicitly_set_member_wins.

(* … and it is false of a HasChanged whose scan STOPS at a nil member: the variable wins over the set flag *)
Definition nilstop_facts : facts :=
  with_lf expected (mkLF expected_steps false true true false true true true NilStop NilSkip).
Definition nilstop_world : world :=
  mkW (str_of "app") [(str_of "APP_DB", VStr (str_of "db from env"))]
      [(str_of "APP_DB", TStr, [MNil; MFlag (AStr []) (Some (AStr (str_of "db from flag")))])] [].
Definition nilstop_schema : schema := Node VOwnOnly [(str_of "DB", str_of "db", Leaf TStr (AStr []) false)].
Theorem explicitly_set_member_nil_stop_refuted :
  final_val nilstop_facts nilstop_world nilstop_schema (str_of "db") = Some (VStr (str_of "db from env")) /\
  final_val expected nilstop_world nilstop_schema (str_of "db") = Some (VStr (str_of "db from flag")) /\
  unshadowed expected nilstop_world (str_of "db").
Proof. split; [|split]; [vm_compute; reflexivity | vm_compute; reflexivity | constructor; vm_compute; reflexivity]. Qed.
Print Assumptions explicitly_set_member_nil_stop_refuted.

(* D23 — the code BEFORE the first repair (flags linked before the file is merged) does not have the property:
   empty supplied default, value in the file, bound flag not set with a non-empty default: the flag default wins. *)
Definition d23_world : world :=
  mkW (str_of "app") [] [(str_of "NAME", TStr, [MFlag (AStr (str_of "flagdefault")) None])] [(str_of "name", VStr (str_of "fromfile"))].
Definition d23_schema : schema := Node VOwnOnly [(str_of "Name", str_of "name", Leaf TStr (AStr []) false)].

Theorem load_precedence_before_repair_refuted :
  exists w sc k t d,
    NoDup (map fst (leaves [] sc)) /\ In (k, (t, d)) (leaves [] sc) /\ is_flagkey expected k = false /\ unshadowed expected w k /\
    spec_val expected w k d = VStr (str_of "fromfile") /\
    final_val before_repair1 w sc k = Some (VStr (str_of "flagdefault")) /\
    final_val original w sc k = Some (VStr (str_of "flagdefault")) /\
    final_val expected w sc k = Some (VStr (str_of "fromfile")).
Proof.
  exists d23_world, d23_schema, (str_of "name"), TStr, (AStr []).
  split; [repeat constructor; simpl; tauto|]. split; [left; reflexivity|]. split; [reflexivity|].
  split; [constructor; vm_compute; reflexivity|].
  repeat split; vm_compute; reflexivity.
Qed.
Print Assumptions load_precedence_before_repair_refuted.

(* the code BEFORE the second repair (the prefix stripped from structure keys in linkFlagKeysToStructureKeys):
   under prefix "t" the key "title" was given the flag key of a field "itle"; its own, explicitly set flag was ignored. *)
Definition strip_world : world :=
  mkW (str_of "t") [] [(str_of "T_TITLE", TStr, [MFlag (AStr []) (Some (AStr (str_of "fromflag")))])] [].
Definition strip_schema : schema := Node VOwnOnly [(str_of "Title", str_of "title", Leaf TStr (AStr (str_of "dflt")) false)].

Theorem load_precedence_prefix_strip_refuted :
  exists w sc k t d,
    NoDup (map fst (leaves [] sc)) /\ In (k, (t, d)) (leaves [] sc) /\ is_flagkey expected k = false /\ unshadowed expected w k /\
    spec_val expected w k d = VStr (str_of "fromflag") /\
    final_val before_repair2 w sc k = Some (VStr (str_of "dflt")) /\
    final_val expected w sc k = Some (VStr (str_of "fromflag")).
Proof.
  exists strip_world, strip_schema, (str_of "title"), TStr, (AStr (str_of "dflt")).
  split; [repeat constructor; simpl; tauto|]. split; [left; reflexivity|]. split; [reflexivity|].
  split; [constructor; vm_compute; reflexivity|].
  repeat split; vm_compute; reflexivity.
Qed.
Print Assumptions load_precedence_prefix_strip_refuted.

(* FINDING (not repaired) — without the no-shadowing side condition the property is false of the model, and of the code:
   the environment variable of the field srv.cfg (APP_SRV_CFG) is also the name viper derives for the STRUCTURE srv_cfg;
   when it is set, every field of srv_cfg that has no variable of its own loses its file value and its default. *)
Definition shadow_world : world :=
  mkW (str_of "app") [(str_of "APP_SRV_CFG", VStr (str_of "x"))] [] [(str_of "srv_cfg.port", VNum 7)].
Definition shadow_schema : schema :=
  Node VEmbFirst [(str_of "Srv", str_of "srv", Node VOwnOnly [(str_of "Cfg", str_of "cfg", Leaf TStr (AStr []) false)]);
                  (str_of "SrvCfg", str_of "srv_cfg", Node VOwnOnly [(str_of "Port", str_of "port", Leaf TInt (ANum 5) false)])].

Theorem load_precedence_env_shadow_refuted :
  exists w sc k t d,
    NoDup (map fst (leaves [] sc)) /\ In (k, (t, d)) (leaves [] sc) /\ is_flagkey gen_facts k = false /\
    (* the only variable set is the variable of another field of the structure, and no two fields share a variable *)
    map fst (w_environ w) = [autoenv gen_facts (w_prefix w) (str_of "srv.cfg")] /\ In (str_of "srv.cfg") (map fst (leaves [] sc)) /\
    NoDup (honoured gen_facts (w_prefix w) sc) /\
    spec_val gen_facts w k d = VNum 7 /\                (* the file's value is what the property demands *)
    final_val gen_facts w sc k = None /\                 (* … but the field receives nothing, not even its default *)
    load gen_facts w sc = Loaded [AStr (str_of "x"); ANum 0].
Proof.
  exists shadow_world, shadow_schema, (str_of "srv_cfg.port"), TInt, (ANum 5).
  split; [vm_compute; repeat constructor; simpl; intuition discriminate|].
  split; [right; left; reflexivity|].
  split; [reflexivity|]. split; [reflexivity|]. split; [left; reflexivity|].
  split; [vm_compute; repeat constructor; simpl; intuition discriminate|].
  repeat split; vm_compute; reflexivity.
Qed.
Print Assumptions load_precedence_env_shadow_refuted.

(* ---- environment-variable names ---- *)
Lemma gen_names_facts : nf gen_facts = expected_nf.                 (* flattenDefaultsMap, Determine… *)
Proof. vm_compute. reflexivity. Qed.
(* For EVERY structure whose tags are non-empty and contain no "." and every prefix without "." (the empty one included):
   the names DetermineConfigurationEnvironmentVariables reports (flattenDefaultsMap + prefixing) are, field by field
   and in order, the names loading consults (mergeWithEnvPrefix + the "." -> "_" key replacer on the lower-cased key). *)
Theorem env_names_agree : forall prefix m fs,
  nodot prefix = true -> tags_ok (Node m fs) ->
  reported gen_facts prefix (Node m fs) = honoured gen_facts prefix (Node m fs).
Proof. intros. apply env_names_agree_l; auto using gen_spelling_facts, gen_names_facts. Qed.
Print Assumptions env_names_agree.

(* before the third repair the reported names carried a leading "_" when the prefix is empty *)
Theorem env_names_empty_prefix_refuted :
  exists sc, tags_ok sc /\
    reported before_repair3 [] sc = [str_of "_NAME"] /\ honoured before_repair3 [] sc = [str_of "NAME"] /\
    reported gen_facts [] sc = [str_of "NAME"].
Proof. exists d23_schema. repeat split; vm_compute; reflexivity. Qed.
Print Assumptions env_names_empty_prefix_refuted.

(* ---- validation ---- *)
Lemma gen_valid_facts : valid_facts_ok gen_facts.                   (* ValidateEmbedded, RecordField, ozzo conversion *)
Proof. repeat split; vm_compute; reflexivity. Qed.
(* Loading succeeds only if no required field of a validated level is empty … *)
Theorem load_validates : forall w sc vs,
  load gen_facts w sc = Loaded vs ->
  unmarshal gen_facts w sc = Some vs /\
  forall tr, ~ offender (combine (map fst (leaves [] sc)) vs) [] sc tr.
Proof. exact (load_validates_l gen_facts gen_valid_facts). Qed.
Print Assumptions load_validates.

(* … and otherwise returns the invalid error, whose tree path names an offending field: the Go field names of the
   enclosing structures followed by the tag of a required leaf that is empty. *)
Theorem load_invalid_names_offender : forall w sc vs tr ms,
  load gen_facts w sc = Invalid vs tr ms ->
  unmarshal gen_facts w sc = Some vs /\ offender (combine (map fst (leaves [] sc)) vs) [] sc tr.
Proof. exact (load_invalid_names_offender_l gen_facts gen_valid_facts). Qed.
Print Assumptions load_invalid_names_offender.

(* ---- non-vacuity ---- *)
Example c15_unshadowed_satisfiable : unshadowed gen_facts d23_world (str_of "name").
Proof. constructor; vm_compute; reflexivity. Qed.

Definition demo_world : world :=
  mkW (str_of "Test")
      [(str_of "TEST_DUMMY_CONFIG_DB", VStr (str_of "envdb")); (str_of "TEST_DUMMY_CONFIG_PORT", VText 9090)]
      [(str_of "TEST_DUMMY_CONFIG_DB", TStr, [MNil; MFlag (AStr (str_of "fd")) None; MFlag (AStr (str_of "fd")) (Some (AStr (str_of "flagdb")))]);
       (str_of "dummy_config_user", TStr, [MFlag (AStr (str_of "a user")) None])]
      [(str_of "Dummy_Config.Port", VNum 304); (str_of "dummy_config.HOST", VStr (str_of "host2"))].
Definition demo_schema : schema :=
  Node VEmbFirst [(str_of "TestString", str_of "dummy_string", Leaf TStr (AStr (str_of "s")) true);
                  (str_of "TestConfig2", str_of "dummy_config",
                   Node VOwnOnly [(str_of "Host", str_of "host", Leaf TStr (AStr []) true);
                                  (str_of "Port", str_of "port", Leaf TInt (ANum 5432) true);
                                  (str_of "DB", str_of "db", Leaf TStr (AStr []) true);
                                  (str_of "User", str_of "user", Leaf TStr (AStr []) true);
                                  (str_of "Password", str_of "password", Leaf TStr (AStr []) true)])].
Example c15_demo_load :
  load gen_facts demo_world demo_schema =
  Invalid [AStr (str_of "s"); AStr (str_of "host2"); ANum 9090; AStr (str_of "flagdb"); AStr (str_of "a user"); AStr []]
          [str_of "TestConfig2"; str_of "password"] (str_of "TEST_DUMMY_CONFIG").
Proof. vm_compute. reflexivity. Qed.
Example c15_demo_names :
  reported gen_facts (str_of "Test") demo_schema = honoured gen_facts (str_of "Test") demo_schema /\
  In (str_of "TEST_DUMMY_CONFIG_PASSWORD") (reported gen_facts (str_of "Test") demo_schema).
Proof. split; vm_compute; [reflexivity|tauto]. Qed.
