(* C15 — Configuration loading: precedence of sources, then validation.
   Property theorems only; each is closed by a lemma of Proofs*.v and followed by Print Assumptions.
   Model: GU.C15.Model (the repository's glue in utils/config over a specification-level model of viper / pflag /
   mapstructure / ozzo), tied to the code by the correspondence runs of harness/cmd/c15. *)
From Coq Require Import List ZArith Bool String.
Import ListNotations.
From GU Require Import C15.Model C15.Proofs C15.ProofsNames C15.ProofsTop C15.ProofsValid.
Local Open Scope Z_scope.

(* ---- precedence ---- *)
(* For EVERY structure (any depth, any number of fields), every environment, file, set of bound flags and prefix
   (the empty prefix and prefixes that are a prefix of a key included): each leaf whose key is not shadowed (see
   [unshadowed]: no variable or flag named like an enclosing path) ends up holding [spec_val]: the explicitly set flag
   bound to it, else its environment variable, else the file's value, else the supplied default — derived from the layer
   mechanics (MergeConfigMap, MergeInConfig, the loop of linkFlagKeysToStructureKeys writing overrides / defaults over an
   arbitrary key list, viper.find, the spelling of flag keys and bound variables), not assumed. *)
Theorem load_precedence : forall w sc k t d,
  NoDup (map fst (leaves [] sc)) -> In (k, (t, d)) (leaves [] sc) ->
  is_flagkey k = false -> unshadowed w k ->
  final_val fixed w sc k = Some (spec_val fixed w k d).
Proof. exact load_precedence_fixed_l. Qed.
Print Assumptions load_precedence.

(* [spec_val] spelled out, clause by clause, in the order of the property *)
Theorem precedence_order : forall w k d,
  let fl := lookup (flagkey fixed (w_prefix w) k) (bound_flags w) in
  (forall t fd a, fl = Some (t, fd, Some a) -> spec_val fixed w k d = rep_flag t a) /\
  (forall v, (forall t fd a, fl <> Some (t, fd, Some a)) ->
             getenv w (autoenv (w_prefix w) k) = Some v -> spec_val fixed w k d = v) /\
  (forall v, fl = None -> getenv w (autoenv (w_prefix w) k) = None ->
             lookup k (file_cfg w) = Some v -> spec_val fixed w k d = v) /\
  (fl = None -> getenv w (autoenv (w_prefix w) k) = None ->
   lookup k (file_cfg w) = None -> spec_val fixed w k d = rep_default d) /\
  (forall t fd, fl = Some (t, fd, None) ->
     getenv w (autoenv (w_prefix w) k) = None ->
     let cv := match lookup k (file_cfg w) with Some v => v | None => rep_default d end in
     is_empty cv = false -> spec_val fixed w k d = cv).
Proof.
  intros w k d fl. unfold fl. split; [|split; [|split; [|split]]].
  - intros; eapply spec_flag_wins; eauto.
  - intros; eapply spec_env_next; eauto.
  - intros; eapply spec_file_next; eauto.
  - intros; eapply spec_default_last; eauto.
  - intros t fd H1 H2. apply (spec_unset_flag_does_not_outrank fixed w k d t fd H1 H2).
Qed.
Print Assumptions precedence_order.

(* the variable BindFlagToEnv binds for a flag is the one AutomaticEnv consults for the structure key the flag is linked
   to — for every prefix (empty included) and every spelling of the envVar argument *)
Theorem bound_env_is_auto_env : forall w k ev,
  flagkey_of_short (short_of ev (w_prefix w)) = flagkey fixed (w_prefix w) k ->
  cleanse fixed (w_prefix w) (short_of ev (w_prefix w)) = autoenv (w_prefix w) k.
Proof. exact bound_env_is_auto_env_l. Qed.
Print Assumptions bound_env_is_auto_env.

(* fields at the top level have no enclosing path: the shadowing side condition on the key is vacuous for them *)
Theorem top_level_never_shadowed : forall w k, nodot k = true -> env_shadow w k = false.
Proof. exact top_level_unshadowed. Qed.
Print Assumptions top_level_never_shadowed.

(* D23 — the code BEFORE the first repair (flags linked before the file is merged) does not have the property:
   empty supplied default, value in the file, bound flag not set with a non-empty default: the flag default wins. *)
Definition d23_world : world :=
  mkW (str_of "app") [] [(str_of "NAME", TStr, AStr (str_of "flagdefault"), None)] [(str_of "name", VStr (str_of "fromfile"))].
Definition d23_schema : schema := Node VOwnOnly [(str_of "Name", str_of "name", Leaf TStr (AStr []) false)].

Theorem load_precedence_before_repair_refuted :
  exists w sc k t d,
    NoDup (map fst (leaves [] sc)) /\ In (k, (t, d)) (leaves [] sc) /\ is_flagkey k = false /\ unshadowed w k /\
    spec_val fixed w k d = VStr (str_of "fromfile") /\
    final_val (mkV false false false) w sc k = Some (VStr (str_of "flagdefault")) /\
    final_val original w sc k = Some (VStr (str_of "flagdefault")) /\
    final_val fixed w sc k = Some (VStr (str_of "fromfile")).
Proof.
  exists d23_world, d23_schema, (str_of "name"), TStr, (AStr []).
  split; [repeat constructor; simpl; tauto|]. split; [left; reflexivity|]. split; [reflexivity|].
  split; [constructor; vm_compute; reflexivity|].
  repeat split; vm_compute; reflexivity.
Qed.
Print Assumptions load_precedence_before_repair_refuted.

(* the code BEFORE the second repair (the prefix stripped from structure keys in linkFlagKeysToStructureKeys):
   under prefix "t" the key "title" was given the flag key of a field "itle"; its own, explicitly set flag was ignored. *)
Definition strip_world : world :=
  mkW (str_of "t") [] [(str_of "T_TITLE", TStr, AStr [], Some (AStr (str_of "fromflag")))] [].
Definition strip_schema : schema := Node VOwnOnly [(str_of "Title", str_of "title", Leaf TStr (AStr (str_of "dflt")) false)].

Theorem load_precedence_prefix_strip_refuted :
  exists w sc k t d,
    NoDup (map fst (leaves [] sc)) /\ In (k, (t, d)) (leaves [] sc) /\ is_flagkey k = false /\ unshadowed w k /\
    spec_val fixed w k d = VStr (str_of "fromflag") /\
    final_val (mkV true true false) w sc k = Some (VStr (str_of "dflt")) /\
    final_val fixed w sc k = Some (VStr (str_of "fromflag")).
Proof.
  exists strip_world, strip_schema, (str_of "title"), TStr, (AStr (str_of "dflt")).
  split; [repeat constructor; simpl; tauto|]. split; [left; reflexivity|]. split; [reflexivity|].
  split; [constructor; vm_compute; reflexivity|].
  repeat split; vm_compute; reflexivity.
Qed.
Print Assumptions load_precedence_prefix_strip_refuted.

(* FINDING (not repaired) — without the no-shadowing side condition the property is false of the model, and of the code:
   the environment variable of the field srv.cfg (APP_SRV_CFG) is also the name viper derives for the STRUCTURE srv_cfg;
   when it is set, every field of srv_cfg that has no variable of its own loses its file value and its default. *)
Definition shadow_world : world :=
  mkW (str_of "app") [(str_of "APP_SRV_CFG", VStr (str_of "x"))] [] [(str_of "srv_cfg.port", VNum 7)].
Definition shadow_schema : schema :=
  Node VEmbFirst [(str_of "Srv", str_of "srv", Node VOwnOnly [(str_of "Cfg", str_of "cfg", Leaf TStr (AStr []) false)]);
                  (str_of "SrvCfg", str_of "srv_cfg", Node VOwnOnly [(str_of "Port", str_of "port", Leaf TInt (ANum 5) false)])].

Theorem load_precedence_env_shadow_refuted :
  exists w sc k t d,
    NoDup (map fst (leaves [] sc)) /\ In (k, (t, d)) (leaves [] sc) /\ is_flagkey k = false /\
    (* the only variable set is the variable of another field of the structure, and no two fields share a variable *)
    map fst (w_environ w) = [autoenv (w_prefix w) (str_of "srv.cfg")] /\ In (str_of "srv.cfg") (map fst (leaves [] sc)) /\
    NoDup (honoured (w_prefix w) sc) /\
    spec_val fixed w k d = VNum 7 /\                (* the file's value is what the property demands *)
    final_val fixed w sc k = None /\                 (* … but the field receives nothing, not even its default *)
    load fixed w sc = Loaded [AStr (str_of "x"); ANum 0].
Proof.
  exists shadow_world, shadow_schema, (str_of "srv_cfg.port"), TInt, (ANum 5).
  split; [vm_compute; repeat constructor; simpl; intuition discriminate|].
  split; [right; left; reflexivity|].
  split; [reflexivity|]. split; [reflexivity|]. split; [left; reflexivity|].
  split; [vm_compute; repeat constructor; simpl; intuition discriminate|].
  repeat split; vm_compute; reflexivity.
Qed.
Print Assumptions load_precedence_env_shadow_refuted.

(* ---- environment-variable names ---- *)
(* For EVERY structure whose tags are non-empty and contain no "." and every prefix without "." (the empty one included):
   the names DetermineConfigurationEnvironmentVariables reports (flattenDefaultsMap + prefixing) are, field by field
   and in order, the names loading consults (mergeWithEnvPrefix + the "." -> "_" key replacer on the lower-cased key). *)
Theorem env_names_agree : forall prefix m fs,
  nodot prefix = true -> tags_ok (Node m fs) ->
  reported fixed prefix (Node m fs) = honoured prefix (Node m fs).
Proof. exact env_names_agree_l. Qed.
Print Assumptions env_names_agree.

(* before the third repair the reported names carried a leading "_" when the prefix is empty *)
Theorem env_names_empty_prefix_refuted :
  exists sc, tags_ok sc /\
    reported original [] sc = [str_of "_NAME"] /\ honoured [] sc = [str_of "NAME"] /\ reported fixed [] sc = [str_of "NAME"].
Proof. exists d23_schema. repeat split; vm_compute; reflexivity. Qed.
Print Assumptions env_names_empty_prefix_refuted.

(* ---- validation ---- *)
(* Loading succeeds only if no required field of a validated level is empty … *)
Theorem load_validates : forall w sc vs,
  load fixed w sc = Loaded vs ->
  unmarshal fixed w sc = Some vs /\
  forall tr, ~ offender (combine (map fst (leaves [] sc)) vs) [] sc tr.
Proof. exact load_validates_l. Qed.
Print Assumptions load_validates.

(* … and otherwise returns the invalid error, whose tree path names an offending field: the Go field names of the
   enclosing structures followed by the tag of a required leaf that is empty. *)
Theorem load_invalid_names_offender : forall w sc vs tr ms,
  load fixed w sc = Invalid vs tr ms ->
  unmarshal fixed w sc = Some vs /\ offender (combine (map fst (leaves [] sc)) vs) [] sc tr.
Proof. exact load_invalid_names_offender_l. Qed.
Print Assumptions load_invalid_names_offender.

(* ---- non-vacuity ---- *)
Example c15_unshadowed_satisfiable : unshadowed d23_world (str_of "name").
Proof. constructor; vm_compute; reflexivity. Qed.

Definition demo_world : world :=
  mkW (str_of "Test")
      [(str_of "TEST_DUMMY_CONFIG_DB", VStr (str_of "envdb")); (str_of "TEST_DUMMY_CONFIG_PORT", VText 9090)]
      [(str_of "TEST_DUMMY_CONFIG_DB", TStr, AStr (str_of "fd"), Some (AStr (str_of "flagdb")));
       (str_of "dummy_config_user", TStr, AStr (str_of "a user"), None)]
      [(str_of "Dummy_Config.Port", VNum 304); (str_of "dummy_config.HOST", VStr (str_of "host2"))].
Definition demo_schema : schema :=
  Node VEmbFirst [(str_of "TestString", str_of "dummy_string", Leaf TStr (AStr (str_of "s")) true);
                  (str_of "TestConfig2", str_of "dummy_config",
                   Node VOwnOnly [(str_of "Host", str_of "host", Leaf TStr (AStr []) true);
                                  (str_of "Port", str_of "port", Leaf TInt (ANum 5432) true);
                                  (str_of "DB", str_of "db", Leaf TStr (AStr []) true);
                                  (str_of "User", str_of "user", Leaf TStr (AStr []) true);
                                  (str_of "Password", str_of "password", Leaf TStr (AStr []) true)])].
Example c15_demo_load :
  load fixed demo_world demo_schema =
  Invalid [AStr (str_of "s"); AStr (str_of "host2"); ANum 9090; AStr (str_of "flagdb"); AStr (str_of "a user"); AStr []]
          [str_of "TestConfig2"; str_of "password"] (str_of "TEST_DUMMY_CONFIG").
Proof. vm_compute. reflexivity. Qed.
Example c15_demo_names :
  reported fixed (str_of "Test") demo_schema = honoured (str_of "Test") demo_schema /\
  In (str_of "TEST_DUMMY_CONFIG_PASSWORD") (reported fixed (str_of "Test") demo_schema).
Proof. split; vm_compute; [reflexivity|tauto]. Qed.
