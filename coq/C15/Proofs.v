(* C15 — lemmas about the layer mechanics: precedence of the sources (load_precedence) derived from the model of
   linkFlagKeysToStructureKeys + viper.find, not assumed. *)
From Coq Require Import List ZArith Bool Lia.
Import ListNotations.
From GU Require Import C15.Model.
Local Open Scope Z_scope.

(* ---------- strings and maps ---------- *)
Lemma str_eqb_refl a : str_eqb a a = true.
Proof. induction a; simpl; auto. rewrite Z.eqb_refl. auto. Qed.

Lemma str_eqb_eq a : forall b, str_eqb a b = true -> a = b.
Proof.
  induction a as [|x a IH]; destruct b as [|y b]; simpl; intros H; try discriminate; auto.
  apply andb_prop in H. destruct H as [H1 H2]. apply Z.eqb_eq in H1. f_equal; auto.
Qed.

Lemma str_eqb_neq a b : a <> b -> str_eqb a b = false.
Proof. intros H. destruct (str_eqb a b) eqn:E; auto. apply str_eqb_eq in E. contradiction. Qed.

Lemma lookup_app {V} k (a b : kmap V) :
  lookup k (a ++ b) = match lookup k a with Some v => Some v | None => lookup k b end.
Proof. induction a as [|[k' v] a IH]; simpl; auto. destruct (str_eqb k k'); auto. Qed.

Lemma lookup_in_nodup {V} k (v : V) (m : kmap V) :
  NoDup (map fst m) -> In (k, v) m -> lookup k m = Some v.
Proof.
  induction m as [|[k' v'] m IH]; simpl; intros ND HI; [contradiction|].
  inversion ND as [|? ? Hn ND']; subst. destruct HI as [E|HI].
  - inversion E; subst. now rewrite str_eqb_refl.
  - rewrite str_eqb_neq; auto. intros ->. apply Hn. apply in_map_iff. exists (k', v). auto.
Qed.

Lemma mem_true_in k l : mem k l = true -> In k l.
Proof.
  unfold mem. intros H. apply existsb_exists in H. destruct H as [x [Hx E]]. apply str_eqb_eq in E. now subst.
Qed.
Lemma mem_false_notin k l : mem k l = false -> ~ In k l.
Proof.
  unfold mem. intros H HI. assert (existsb (str_eqb k) l = true); [|congruence].
  apply existsb_exists. exists k. split; auto. apply str_eqb_refl.
Qed.

(* dedup: AllKeys() is a set *)
Lemma dedup_spec l : forall seen,
  NoDup (dedup seen l) /\ (forall k, In k (dedup seen l) <-> (In k l /\ ~ In k seen)).
Proof.
  induction l as [|x l IH]; intros seen; simpl.
  - split; [constructor|]. intros k; split; [contradiction|tauto].
  - destruct (mem x seen) eqn:M.
    + destruct (IH seen) as [ND HI]. split; auto. intros k. rewrite HI. apply mem_true_in in M.
      split; [tauto|]. intros [[->|H] Hn]; [contradiction|tauto].
    + destruct (IH (x :: seen)) as [ND HI]. apply mem_false_notin in M. split.
      * constructor; auto. rewrite HI. simpl. tauto.
      * intros k. simpl. rewrite HI. simpl. split.
        -- intros [->|[H1 H2]]; [tauto|]. split; [tauto|]. intros H3. apply H2. tauto.
        -- intros [[->|H1] H2]; [tauto|]. destruct (list_eq_dec Z.eq_dec x k) as [->|Hne]; [tauto|].
           right. split; auto. intros [E|H3]; [congruence|tauto].
Qed.

(* ---------- the link loop writes only at the key it handles ---------- *)
Section Link.
Variables (f : facts) (w : world) (bf : kmap (ty * aval * option aval)) (be : kmap str) (cfg : kmap val).

Lemma link_step_other s k k' : k <> k' ->
  lookup k (ov (link_step f w bf be cfg s k')) = lookup k (ov s) /\
  lookup k (dfl (link_step f w bf be cfg s k')) = lookup k (dfl s).
Proof.
  intros Hne. unfold link_step.
  destruct (find_flag f w bf be (flagkey f (w_prefix w) k') false); simpl.
  - rewrite str_eqb_neq; auto.
  - destruct (find_flag f w bf be (flagkey f (w_prefix w) k') true); simpl; auto.
    destruct (l_guard_default_nonempty (lf f) && is_empty v); auto.
    destruct (if l_guard_current_empty (lf f) then _ else true); simpl; rewrite ?str_eqb_neq; auto.
Qed.

Lemma link_fold_other keys : forall s k, ~ In k keys ->
  lookup k (ov (fold_left (link_step f w bf be cfg) keys s)) = lookup k (ov s) /\
  lookup k (dfl (fold_left (link_step f w bf be cfg) keys s)) = lookup k (dfl s).
Proof.
  induction keys as [|k' keys IH]; intros s k Hn; simpl; auto.
  destruct (IH (link_step f w bf be cfg s k') k) as [A B]; [simpl in Hn; tauto|].
  destruct (link_step_other s k k') as [C D]; [simpl in Hn; intros ->; tauto|].
  rewrite A, B, C, D. auto.
Qed.

Lemma find_key_ext s s' k :
  lookup k (ov s) = lookup k (ov s') -> lookup k (dfl s) = lookup k (dfl s') ->
  find_key f w cfg s k = find_key f w cfg s' k.
Proof. unfold find_key. intros -> ->. reflexivity. Qed.

(* the value Unmarshal finds for k after the whole loop is the one found right after k's own iteration,
   started from a session that has nothing recorded for k *)
Lemma link_at_key keys k : NoDup keys -> In k keys ->
  exists s1, lookup k (ov s1) = None /\ lookup k (dfl s1) = None /\
    find_key f w cfg (fold_left (link_step f w bf be cfg) keys (mkS [] [])) k =
    find_key f w cfg (link_step f w bf be cfg s1 k) k.
Proof.
  intros ND HI. destruct (in_split _ _ HI) as [l1 [l2 ->]].
  pose proof (NoDup_remove_2 _ _ _ ND) as Hn.
  assert (Hn1 : ~ In k l1) by (intros H; apply Hn; apply in_or_app; auto).
  assert (Hn2 : ~ In k l2) by (intros H; apply Hn; apply in_or_app; auto).
  rewrite fold_left_app. simpl.
  exists (fold_left (link_step f w bf be cfg) l1 (mkS [] [])).
  destruct (link_fold_other l1 (mkS [] []) k Hn1) as [A B]. simpl in A, B.
  split; auto. split; auto.
  apply find_key_ext; apply link_fold_other; auto.
Qed.
End Link.

(* ---------- bindings ---------- *)
Lemma bound_same_keys f w fk :
  match lookup fk (bound_flags f w) with
  | Some _ => exists n, lookup fk (bound_envs f w) = Some n
  | None => lookup fk (bound_envs f w) = None
  end.
Proof.
  unfold bound_flags, bound_members, bound_envs. induction (w_flags w) as [|[[ev t] ms] l IH]; simpl; auto.
  destruct (str_eqb fk _); eauto.
Qed.

(* viper's view of a bound set is [mf_entry] of its members *)
Lemma bound_flags_lookup f w fk :
  lookup fk (bound_flags f w) = match lookup fk (bound_members f w) with Some e => Some (mf_entry f e) | None => None end.
Proof.
  unfold bound_flags. induction (bound_members f w) as [|[k e] l IH]; simpl; auto.
  destruct (str_eqb fk k); auto.
Qed.

(* BindFlagsToEnv: members that are nil or not set, in any number and order, in front of a set member do not hide it —
   provided both scans of multiFlags SKIP nil members *)
Definition quiet (m : member) : Prop := m = MNil \/ exists d, m = MFlag d None.
Lemma mf_set_member_seen pre d a post :
  Forall quiet pre ->
  mf_changed NilSkip (pre ++ MFlag d (Some a) :: post) = true /\
  mf_value NilSkip (pre ++ MFlag d (Some a) :: post) = Some a.
Proof.
  intros H. unfold mf_value.
  assert (mf_changed NilSkip (pre ++ MFlag d (Some a) :: post) = true /\
          mf_first_set NilSkip (pre ++ MFlag d (Some a) :: post) = Some a) as [A B].
  { induction H as [|m pre [->|[d0 ->]] Hr IH]; simpl; auto. }
  rewrite B. auto.
Qed.
(* and nothing is seen as set when no member is *)
Lemma mf_no_set_member nk ms : Forall quiet ms -> mf_changed nk ms = false.
Proof. intros H. induction H as [|m r [->|[d0 ->]] Hr IH]; simpl; auto. destruct nk; auto. Qed.

(* ---------- what the property demands for one leaf ---------- *)
(* [spec_val]: explicitly set flag > environment variable > configuration file > supplied default;
   the default of a bound flag that was NOT set only fills in when none of the environment / file / default
   gives a non-empty value (the repository's documented refinement, LoadFromViper's doc comment). *)
Definition spec_val (f : facts) (w : world) (k : str) (d : aval) : val :=
  let fl := lookup (flagkey f (w_prefix w) k) (bound_flags f w) in
  match fl with
  | Some (t, _, Some a) => rep_flag t a
  | _ =>
    match autoget f w k with
    | Some v => v
    | None =>
      let cv := match lookup k (file_cfg w) with Some v => v | None => rep_default d end in
      match fl with
      | Some (t, fd, None) => if negb (is_empty (rep_flag t fd)) && is_empty cv then rep_flag t fd else cv
      | _ => cv
      end
    end
  end.

(* side conditions under which the layer model is an adequate account of viper for key k:
   no shadowing by a variable / flag named like an enclosing path, nothing set under the private flag-key name space,
   and the variable bound by BindFlagToEnv is the one AutomaticEnv consults (proved from the spelling in Proofs_names:
   bound_env_is_auto_env). *)
Record adequate (f : facts) (w : world) (k : str) : Prop := {
  ad_shadow_k : env_shadow f w k = false;
  ad_shadow_fk : env_shadow f w (flagkey f (w_prefix w) k) = false;
  ad_flat_bf : flat_shadow (flagkey f (w_prefix w) k) (map fst (bound_flags f w)) = false;
  ad_flat_be : flat_shadow (flagkey f (w_prefix w) k) (map fst (bound_envs f w)) = false;
  ad_private : autoget f w (flagkey f (w_prefix w) k) = None;
  ad_bound : forall n, lookup (flagkey f (w_prefix w) k) (bound_envs f w) = Some n -> getenv f w n = autoget f w k;
}.

Lemma step_at_key f w cfg s1 k cv :
  l_guard_default_nonempty (lf f) = true -> l_guard_current_empty (lf f) = true ->
  adequate f w k ->
  lookup k (ov s1) = None -> lookup k (dfl s1) = None ->
  lookup k cfg = Some cv ->
  find_key f w cfg (link_step f w (bound_flags f w) (bound_envs f w) cfg s1 k) k =
  Some (let fl := lookup (flagkey f (w_prefix w) k) (bound_flags f w) in
        match fl with
        | Some (t, _, Some a) => rep_flag t a
        | _ => match autoget f w k with
               | Some v => v
               | None => match fl with
                         | Some (t, fd, None) => if negb (is_empty (rep_flag t fd)) && is_empty cv then rep_flag t fd else cv
                         | _ => cv
                         end
               end
        end).
Proof.
  intros G1 G2 [A1 A2 A3 A4 A5 A6] Ho Hd Hc. cbv zeta.
  pose proof (bound_same_keys f w (flagkey f (w_prefix w) k)) as BK.
  unfold link_step, find_flag. rewrite A3, A5, A2, A4, G1, G2.
  destruct (lookup (flagkey f (w_prefix w) k) (bound_flags f w)) as [[[t fd] [a|]]|] eqn:FL.
  - (* flag explicitly set *)
    unfold find_key; simpl. now rewrite str_eqb_refl.
  - (* bound, not set *)
    destruct BK as [n Hn]. rewrite Hn. rewrite (A6 n Hn).
    destruct (autoget f w k) as [v|] eqn:EV.
    + unfold find_key; simpl. now rewrite str_eqb_refl.
    + destruct (is_empty (rep_flag t fd)) eqn:EF; simpl.
      * unfold find_key. now rewrite Ho, EV, A1, Hc.
      * assert (FK : find_key f w cfg (set_dfl k (rep_flag t fd) s1) k = Some cv).
        { unfold find_key; simpl. now rewrite Ho, EV, A1, Hc. }
        rewrite FK. simpl. destruct (is_empty cv) eqn:EC.
        -- unfold find_key; simpl. now rewrite str_eqb_refl.
        -- exact FK.
  - (* no flag bound to this key *)
    rewrite BK.
    destruct (autoget f w k) as [v|] eqn:EV; unfold find_key; now rewrite Ho, EV, ?A1, ?Hc.
Qed.

Lemma leaves_cfg_lookup sc k t d :
  NoDup (map fst (leaves [] sc)) -> In (k, (t, d)) (leaves [] sc) ->
  lookup k (defaults_cfg sc) = Some (rep_default d).
Proof.
  intros ND HI. unfold defaults_cfg. apply lookup_in_nodup.
  - rewrite map_map. simpl. exact ND.
  - apply in_map_iff. exists (k, (t, d)). auto.
Qed.

(* MAIN: for the repaired code (flags linked after the file is merged) every leaf receives the value [spec_val] names *)
(* what load_precedence needs of LoadFromEnvironment / linkFlagKeysToStructureKeys: the flags are linked after the file
   has been merged, the file is merged after the defaults, flag keys are skipped, and both emptiness guards are there *)
Definition link_facts_ok (f : facts) : bool :=
  after_file f && defaults_first f && steps_sane f && l_link_skips_flagkeys (lf f)
  && l_guard_default_nonempty (lf f) && l_guard_current_empty (lf f).

Lemma load_precedence_l f w sc k t d :
  link_facts_ok f = true ->
  NoDup (map fst (leaves [] sc)) -> In (k, (t, d)) (leaves [] sc) ->
  is_flagkey f k = false -> adequate f w k ->
  final_val f w sc k = Some (spec_val f w k d).
Proof.
  intros OK ND HI NF AD. unfold link_facts_ok in OK.
  repeat (apply andb_prop in OK; let H := fresh "C" in destruct OK as [OK H]).
  rename OK into AF.
  unfold final_val, prepared, link, link_keys. rewrite AF, C3, C1. cbv zeta.
  set (keys := filter _ _).
  assert (NDk : NoDup keys).
  { unfold keys. apply NoDup_filter. apply (dedup_spec _ []). }
  assert (Ik : In k keys).
  { unfold keys. apply filter_In. split; [|now rewrite NF].
    apply (dedup_spec _ []). split; [|tauto]. apply in_or_app. left.
    apply in_map_iff. exists (k, (t, d)). auto. }
  destruct (link_at_key f w (bound_flags f w) (bound_envs f w) (file_cfg w ++ defaults_cfg sc) keys k NDk Ik)
    as [s1 [Ho [Hd E]]].
  rewrite E.
  set (cv := match lookup k (file_cfg w) with Some v => v | None => rep_default d end).
  assert (Hc : lookup k (file_cfg w ++ defaults_cfg sc) = Some cv).
  { rewrite lookup_app. unfold cv. destruct (lookup k (file_cfg w)); auto. eapply leaves_cfg_lookup; eauto. }
  rewrite (step_at_key f w _ s1 k cv C0 C AD Ho Hd Hc). reflexivity.
Qed.

(* the four clauses of the property, read off [spec_val] *)
Lemma spec_flag_wins f w k d t fd a :
  lookup (flagkey f (w_prefix w) k) (bound_flags f w) = Some (t, fd, Some a) -> spec_val f w k d = rep_flag t a.
Proof. unfold spec_val. now intros ->. Qed.

Lemma spec_env_next f w k d v :
  (forall t fd a, lookup (flagkey f (w_prefix w) k) (bound_flags f w) <> Some (t, fd, Some a)) ->
  autoget f w k = Some v -> spec_val f w k d = v.
Proof.
  unfold spec_val. intros H ->. destruct (lookup _ (bound_flags f w)) as [[[t fd] [a|]]|] eqn:E; auto.
  exfalso. eapply H; eauto.
Qed.

Lemma spec_file_next f w k d v :
  lookup (flagkey f (w_prefix w) k) (bound_flags f w) = None ->
  autoget f w k = None ->
  lookup k (file_cfg w) = Some v -> spec_val f w k d = v.
Proof. unfold spec_val. now intros -> -> ->. Qed.

Lemma spec_default_last f w k d :
  lookup (flagkey f (w_prefix w) k) (bound_flags f w) = None ->
  autoget f w k = None ->
  lookup k (file_cfg w) = None -> spec_val f w k d = rep_default d.
Proof. unfold spec_val. now intros -> -> ->. Qed.

(* with a bound flag that is not set: same order, and the flag's default never outranks a non-empty value *)
Lemma spec_unset_flag_does_not_outrank f w k d t fd :
  lookup (flagkey f (w_prefix w) k) (bound_flags f w) = Some (t, fd, None) ->
  autoget f w k = None ->
  let cv := match lookup k (file_cfg w) with Some v => v | None => rep_default d end in
  is_empty cv = false -> spec_val f w k d = cv.
Proof. intros H1 H2. cbv zeta. intros H. unfold spec_val. rewrite H1, H2, H. now rewrite andb_false_r. Qed.
