(* C15 — validation: loading succeeds only if no validated level has an empty required field, and the invalid error's
   tree path names an offending field (model of ValidateEmbedded / wrapFieldValidationError / the ozzo error conversion). *)
From Coq Require Import List ZArith Bool Lia.
Import ListNotations.
From GU Require Import C15.Model C15.Proofs C15.ProofsNames.
Local Open Scope Z_scope.

(* [offender vals pre s tr]: tr is the path (Go field names of the enclosing structures, then the tag of the field) of a
   required leaf holding the zero value, reachable from s through levels whose Validate runs:
   the level itself has a Validate method, and every level above it calls ValidateEmbedded. *)
Inductive offender (vals : kmap aval) : str -> schema -> list str -> Prop :=
| Off_own : forall pre m fs g tag t d a,
    m <> VNone -> In (g, tag, Leaf t d true) fs ->
    lookup (sub pre tag) vals = Some a -> is_zero a = true ->
    offender vals pre (Node m fs) [tag]
| Off_emb : forall pre m fs g tag cm cfs tr,
    (m = VEmbFirst \/ m = VOwnFirst) -> In (g, tag, Node cm cfs) fs ->
    offender vals (sub pre tag) (Node cm cfs) tr ->
    offender vals pre (Node m fs) (g :: tr).

(* what the validation theorems need of ValidateEmbedded / RecordField / the ozzo conversion: a structure field without
   Validate is skipped with `continue`, the first failing field's error is returned, field names are PREPENDED to the
   tree, the reported own field is the first of the sorted failing ones *)
Definition valid_facts_ok (f : facts) : Prop :=
  v_struct_kind_only (vf f) = true /\ v_skip_no_validator (vf f) = SkipContinue /\ v_first_error_returned (vf f) = true /\
  v_tree_prepend (vf f) = true /\ v_ozzo_sorted_first (vf f) = true.

Section Valid.
Variable f : facts.
Hypothesis FOK : valid_facts_ok f.

(* the loop of ValidateEmbedded as an ordinary function *)
Fixpoint emb_list (vals : kmap aval) (pre : str) (l : list (str * str * schema)) : option (list str * list str) :=
  match l with
  | [] => None
  | (g, tag, c) :: r =>
      match c with
      | Leaf _ _ _ => emb_list vals pre r
      | Node VNone _ => emb_list vals pre r
      | Node _ _ =>
          match validate f vals (sub pre tag) c with
          | Some e => Some (rec_field f g tag e)
          | None => emb_list vals pre r
          end
      end
  end.

Definition own_of (vals : kmap aval) (pre : str) (fs : list (str * str * schema)) : option (list str * list str) :=
  match min_str None (own_failures vals pre fs) with Some t => Some ([t], []) | None => None end.

Lemma rec_field_tree g tag e : fst (rec_field f g tag e) = g :: fst e.
Proof. destruct FOK as [_ [_ [_ [H _]]]]. unfold rec_field. now rewrite H. Qed.

Lemma validate_node vals pre m fs :
  validate f vals pre (Node m fs) =
  match m with
  | VNone => None
  | VOwnOnly => own_of vals pre fs
  | VEmbFirst => match emb_list vals pre fs with Some e => Some e | None => own_of vals pre fs end
  | VOwnFirst => match own_of vals pre fs with Some e => Some e | None => emb_list vals pre fs end
  end.
Proof.
  destruct FOK as [_ [H1 [H2 [_ H4]]]].
  simpl. rewrite H1, H2, H4.
  assert (E : forall l,
    (fix go (l : list (str * str * schema)) : option (list str * list str) :=
       match l with
       | [] => None
       | (g, tag, c) :: r =>
           match c with
           | Leaf _ _ _ => go r
           | Node VNone _ => go r
           | Node _ _ =>
               match validate f vals (sub pre tag) c with
               | Some e => Some (rec_field f g tag e)
               | None => go r
               end
           end
       end) l = emb_list vals pre l).
  { induction l as [|[[g tag] c] r IH]; simpl; auto. rewrite IH. reflexivity. }
  rewrite E. reflexivity.
Qed.

(* ---------- min_str ---------- *)
Lemma min_str_in l : forall best x, min_str best l = Some x -> best = Some x \/ In x l.
Proof.
  induction l as [|y l IH]; simpl; intros best x H; auto.
  apply IH in H. destruct H as [H|H]; auto.
  destruct best as [b|]; [destruct (str_ltb y b)|]; inversion H; subst; auto.
Qed.
Lemma min_str_none l : forall best, min_str best l = None -> best = None /\ l = [].
Proof.
  induction l as [|y l IH]; simpl; intros best H; auto.
  apply IH in H. destruct H as [H _]. destruct best as [b|]; [destruct (str_ltb y b)|]; discriminate.
Qed.

Lemma own_failures_in vals pre fs tag :
  In tag (own_failures vals pre fs) <->
  exists g t d a, In (g, tag, Leaf t d true) fs /\ lookup (sub pre tag) vals = Some a /\ is_zero a = true.
Proof.
  unfold own_failures. rewrite in_flat_map. split.
  - intros [[[g tg] c] [Hf Hi]]. destruct c as [t d [|]|]; try contradiction.
    destruct (lookup (sub pre tg) vals) as [a|] eqn:L; [|contradiction].
    destruct (is_zero a) eqn:Z; [|contradiction]. destruct Hi as [<-|[]].
    exists g, t, d, a. auto.
  - intros [g [t [d [a [Hf [L Z]]]]]]. exists (g, tag, Leaf t d true). split; auto.
    rewrite L, Z. left; reflexivity.
Qed.

(* ---------- soundness: a reported path is an offender ---------- *)
Lemma validate_sound vals s : forall pre tr ms,
  validate f vals pre s = Some (tr, ms) -> offender vals pre s tr.
Proof.
  induction s as [t d r|m fs IH] using schema_ind'; intros pre tr ms H; [discriminate|].
  rewrite validate_node in H.
  assert (OWN : forall tr ms, m <> VNone -> own_of vals pre fs = Some (tr, ms) -> offender vals pre (Node m fs) tr).
  { intros tr' ms' Hm Ho. unfold own_of in Ho.
    destruct (min_str None (own_failures vals pre fs)) as [t|] eqn:M; [|discriminate].
    inversion Ho; subst. apply min_str_in in M. destruct M as [M|M]; [discriminate|].
    apply own_failures_in in M. destruct M as [g [t' [d [a [Hf [L Z]]]]]].
    eapply Off_own; eauto. }
  assert (EMB : forall tr ms, (m = VEmbFirst \/ m = VOwnFirst) -> emb_list vals pre fs = Some (tr, ms) ->
                offender vals pre (Node m fs) tr).
  { intros tr' ms' Hm He. clear H OWN.
    assert (HP : v_tree_prepend (vf f) = true) by (destruct FOK as [_ [_ [_ [HP _]]]]; exact HP).
    assert (G : exists g tag cm cfs tr0, tr' = g :: tr0 /\ In (g, tag, Node cm cfs) fs /\
                offender vals (sub pre tag) (Node cm cfs) tr0).
    { revert He. induction fs as [|[[g tag] c] r IHr]; simpl; [discriminate|].
      inversion IH as [|? ? IHc IHrest]; subst. simpl in IHc.
      intros He.
      assert (REST : emb_list vals pre r = Some (tr', ms') ->
                     exists g0 tag0 cm cfs tr0, tr' = g0 :: tr0 /\ In (g0, tag0, Node cm cfs) ((g, tag, c) :: r) /\
                       offender vals (sub pre tag0) (Node cm cfs) tr0).
      { intros Hr. destruct (IHr IHrest Hr) as [g0 [tag0 [cm [cfs [tr0 [E1 [E2 E3]]]]]]].
        exists g0, tag0, cm, cfs, tr0. simpl. auto. }
      destruct c as [t d rq|cm cfs]; [auto|].
      destruct cm; auto;
        (destruct (validate f vals (sub pre tag) (Node _ cfs)) as [[tr0 ms0]|] eqn:V; [|auto];
         unfold rec_field in He; simpl in He; rewrite HP in He;
         inversion He; subst; eexists g, tag, _, cfs, tr0; split; [reflexivity|]; split; [left; reflexivity|];
         eapply IHc; eauto). }
    destruct G as [g [tag [cm [cfs [tr0 [-> [Hf Ho]]]]]]]. eapply Off_emb; eauto. }
  destruct m; try discriminate.
  - eapply OWN; eauto. discriminate.
  - destruct (emb_list vals pre fs) as [e|] eqn:E.
    + inversion H; subst. eapply EMB; eauto.
    + eapply OWN; eauto. discriminate.
  - destruct (own_of vals pre fs) as [e|] eqn:E.
    + inversion H; subst. eapply OWN; eauto. discriminate.
    + eapply EMB; eauto.
Qed.

(* ---------- completeness: no error only if there is no offender ---------- *)
Lemma own_none vals pre fs : own_of vals pre fs = None -> own_failures vals pre fs = [].
Proof.
  unfold own_of. destruct (min_str None _) eqn:M; [discriminate|]. intros _.
  apply min_str_none in M. tauto.
Qed.

Lemma validate_complete vals s : forall pre,
  validate f vals pre s = None -> forall tr, ~ offender vals pre s tr.
Proof.
  induction s as [t d r|m fs IH] using schema_ind'; intros pre H tr Ho; [inversion Ho|].
  rewrite validate_node in H.
  inversion Ho as [? ? ? g tag t d a Hm Hf L Z|? ? ? g tag cm cfs tr0 Hm Hf Hc]; subst.
  - (* own field *)
    assert (O : own_of vals pre fs = None).
    { destruct m; try congruence; auto.
      - destruct (emb_list vals pre fs); [discriminate|auto].
      - destruct (own_of vals pre fs); [discriminate|auto]. }
    apply own_none in O.
    assert (I : In tag (own_failures vals pre fs)) by (apply own_failures_in; eauto 8).
    rewrite O in I. destruct I.
  - (* embedded *)
    assert (E : emb_list vals pre fs = None).
    { destruct Hm as [-> | ->].
      - destruct (emb_list vals pre fs); [discriminate|auto].
      - destruct (own_of vals pre fs); [discriminate|auto]. }
    assert (cm <> VNone) by (inversion Hc; auto; subst; match goal with H : _ \/ _ |- _ => destruct H; congruence end).
    clear H Ho. revert E. induction fs as [|[[g0 tag0] c] r IHr]; [destruct Hf|].
    inversion IH as [|? ? IHc IHrest]; subst. simpl in IHc. simpl.
    destruct Hf as [Ef|Hf].
    + inversion Ef; subst. destruct cm; try congruence;
        (destruct (validate f vals (sub pre tag) (Node _ cfs)) as [[? ?]|] eqn:V; [discriminate|];
         intros _; eapply IHc; eauto).
    + intros E. apply IHr; auto.
      destruct c as [? ? ?|cm0 cfs0]; auto. destruct cm0; auto;
        (destruct (validate f vals (sub pre tag0) (Node _ cfs0)) as [[? ?]|]; [discriminate|auto]).
Qed.

(* ---------- the load function ---------- *)
Lemma load_validates_l w sc vs :
  load f w sc = Loaded vs ->
  unmarshal f w sc = Some vs /\
  forall tr, ~ offender (combine (map fst (leaves [] sc)) vs) [] sc tr.
Proof.
  unfold load. destruct (unmarshal f w sc) as [vs'|]; [|discriminate].
  destruct (validate f _ [] sc) as [[tr ms]|] eqn:V; [discriminate|].
  intros H. inversion H; subst. split; auto. apply validate_complete. exact V.
Qed.

Lemma load_invalid_names_offender_l w sc vs tr ms :
  load f w sc = Invalid vs tr ms ->
  unmarshal f w sc = Some vs /\ offender (combine (map fst (leaves [] sc)) vs) [] sc tr.
Proof.
  unfold load. destruct (unmarshal f w sc) as [vs'|]; [|discriminate].
  destruct (validate f _ [] sc) as [[tr' ms']|] eqn:V; [|discriminate].
  intros H. inversion H; subst. split; auto. eapply validate_sound; eauto.
Qed.
End Valid.
