(* C03 — executable model of unzipping under resource limits.
   Mirrors utils/filesystem/zip.go (as repaired by fixes/C03-unzip-require-eof.patch):
     newZipReader :211-250, VFS.unzip :252-381, unzipNestedZipFiles :383-395, unzipZippedFile :413-478,
   utils/filesystem/limits.go (Limits, Apply() = true) and utils/safeio/copy.go (CopyNWithContext = io.CopyN).
   Definitions only; proofs are in Proofs.v.

   An archive is the list of its central-directory entries.  What the code can see of an entry:
     d          number of separators in the cleaned entry name (FileTreeDepth of the entry below the destination);
     zipname    filepath.Ext(name) is one of ZipFileExtensions (isZipWithContext on a name that does not exist);
     declared   UncompressedSize64 of the header, an UNSIGNED 64-bit number; the code reads it through
                FileInfo().Size() : int64, so values >= 2^63 wrap negative ([i64]);
     actual     number of bytes the entry's stream really decodes to;
     crc_ok     archive/zip accepts the checksum at the end of the stream (it matches, or the header's CRC is 0);
     openable   zip.File.Open succeeds (the compression method is supported);
     b          what the extracted content looks like to the recursive mode: [Plain] = http.DetectContentType does not
                say zip; [BadZip] = sniffed as zip but zip.NewReader fails; [GoodZip] = an archive, whose entries are
     nested     (only meaningful for [GoodZip]).
   Nesting is unbounded: [entry] is a nested inductive type. *)
From Coq Require Import List ZArith Bool.
Import ListNotations.
Local Open Scope Z_scope.

(* limits.go: Limits{MaxFileSize int64, MaxTotalSize uint64, MaxFileCount int64, MaxDepth int64, Recursive} *)
Record limits := mkLim { max_file : Z; max_total : Z; max_count : Z; max_depth : Z; recursive : bool }.

(* projection of a returned error: commonerrors.ErrTooLarge / anything else; a result kind is [option ek], None = nil *)
Inductive ek := TooLarge | Other.

Inductive body := Plain | BadZip | GoodZip.

Inductive entry :=
| EDir (d : Z)
| EFile (d : Z) (zipname : bool) (declared actual : Z) (crc_ok openable : bool) (b : body) (nested : list entry).

(* what is on disk below the top-level destination: depth = separators in the path relative to it *)
Inductive node := NDir (depth : Z) | NFile (depth size : Z).

(* one record per file created with O_TRUNC: the size its header declares (unsigned) and the high-water mark of the
   bytes written to it (writes are sequential, so this is the size the file reached) *)
Record wr := mkWr { w_declared : Z; w_written : Z }.

Definition i64 (u : Z) : Z := if u <? 2 ^ 63 then u else u - 2 ^ 64.   (* int64(uint64) *)
Definition to_u64 (i : Z) : Z := if i <? 0 then 0 else i.              (* safecast.ToUint64(int64) *)

Definition is_plain (b : body) : bool := match b with Plain => true | _ => false end.
Definition is_good (b : body) : bool := match b with GoodZip => true | _ => false end.

(* The effect of handling ONE entry of the loop zip.go:283-372, up to (not including) the checks :366-371. *)
Record eff := mkEff {
  f_stop : option ek;     (* the entry ends the extraction with this error (`return ..., subErr`) *)
  f_cnt : Z;              (* what it adds to fileCounter (= to len(fileList)) *)
  f_tot : Z;              (* what it adds to totalSizeOnDisk *)
  f_check : bool;         (* the checks :366-371 run after it (directories `continue` at :330 before them) *)
  f_nodes : list node;    (* what it leaves on disk *)
  f_writes : list wr      (* the files it created and how far each was written *)
}.

Record res := mkRes { r_kind : option ek; r_cnt : Z; r_tot : Z; r_nodes : list node; r_writes : list wr }.

(* the loop zip.go:283-372 over the effects of the entries, threading fileCounter / totalSizeOnDisk *)
Fixpoint run (lim : limits) (effs : list eff) (cnt tot : Z) (nodes : list node) (writes : list wr) : res :=
  match effs with
  | [] => mkRes None cnt tot nodes writes                                   (* :380 *)
  | f :: fs =>
      let cnt' := cnt + f_cnt f in
      let tot' := tot + f_tot f in
      let nodes' := nodes ++ f_nodes f in
      let writes' := writes ++ f_writes f in
      match f_stop f with
      | Some k => mkRes (Some k) cnt' tot' nodes' writes'
      | None =>
          if f_check f && (tot' >? max_total lim) then mkRes (Some TooLarge) cnt' tot' nodes' writes'        (* :366 *)
          else if f_check f && (cnt' >? max_count lim) then mkRes (Some TooLarge) cnt' tot' nodes' writes'   (* :369 *)
          else run lim fs cnt' tot' nodes' writes'
      end
  end.

(* newZipReader :211-250 followed by MkDir(destination) :276 and the loop, with FRESH counters (:259-262).
   [cur] = currentDepth, [asize] = size of the archive file, [readable] = zip.NewReader succeeds,
   [destdir] = the destination directory when it lies below the top-level destination. *)
Definition open_archive (lim : limits) (cur asize : Z) (readable : bool) (destdir : list node) (effs : list eff) : res :=
  if (0 <=? max_depth lim) && (cur >? max_depth lim) then mkRes (Some TooLarge) 0 0 [] []   (* :220 *)
  else if asize >? max_file lim then mkRes (Some TooLarge) 0 0 [] []                         (* :241 *)
  else if negb readable then mkRes (Some Other) 0 0 [] []                                    (* :246 *)
  else run lim effs 0 0 destdir [].

(* One iteration of the loop.  [cur] is the code's currentDepth (it degenerates when the depth limit is disabled, as
   in the code: fileDepth stays 0); [base] is the true depth of the destination below the top-level destination. *)

(* fileDepth :302-305: only computed when the depth limit is enabled *)
Definition entry_depth (lim : limits) (cur d : Z) : Z := if 0 <=? max_depth lim then d + cur else 0.
Definition too_deep (lim : limits) (fd : Z) : bool := (0 <=? max_depth lim) && (fd >? max_depth lim).   (* :303,:309 *)
(* :316-319: the entry is recorded now unless it is a zip (by name) that the recursive mode will unzip later *)
Definition count0 (lim : limits) (zn : bool) : Z := if recursive lim && zn then 0 else 1.
(* :356-359: a zip-named entry that turned out not to be a zip is recorded after all *)
Definition count1 (lim : limits) (zn : bool) : Z := if recursive lim && zn then 1 else 0.
(* :334-335 MkDir(filepath.Dir(filePath)) *)
Definition parent_dir (base d : Z) : list node := if 0 <? d then [NDir (base + d - 1)] else [].
(* :454 io.CopyN(dst, src, sz): min(sz, stream) bytes reach the file; a negative sz copies nothing *)
Definition copied (sz act : Z) : Z := if sz <? 0 then 0 else Z.min sz act.

(* a directory entry: :302-331 *)
Definition dir_eff (lim : limits) (cur base d : Z) : eff :=
  if too_deep lim (entry_depth lim cur d) then mkEff (Some TooLarge) 0 0 false [] []  (* :309 *)
  else mkEff None 1 0 false [NDir (base + d)] [].                                      (* :316-330; Ext("x.zip/") = "" *)

(* a file entry: :302-364 with unzipZippedFile and unzipNestedZipFiles inlined.  [sub c b'] are the effects of the
   entries of the nested archive when it is unzipped with currentDepth c into a destination at true depth b'. *)
Definition file_eff (lim : limits) (cur base d : Z) (zn : bool) (decl act : Z) (crc op : bool) (b : body)
                    (sub : Z -> Z -> list eff) : eff :=
  let fd := entry_depth lim cur d in
  let c0 := count0 lim zn in
  let pdir := parent_dir base d in
  let here := base + d in
  let sz := i64 decl in                                                            (* :446 FileInfo().Size() *)
  let written := copied sz act in
  let w := [mkWr decl written] in
  let fnode := NFile here written in
  if too_deep lim fd then mkEff (Some TooLarge) 0 0 false [] []                   (* :309 *)
  (* unzipZippedFile *)
  else if (0 <? max_depth lim) && (fd >? max_depth lim) then mkEff (Some TooLarge) c0 0 false pdir []   (* :419, unreachable *)
  else if negb op then mkEff (Some Other) c0 0 false (pdir ++ [NFile here 0]) [mkWr decl 0]            (* :429 creates, :437 fails *)
  else if sz >? max_file lim then mkEff (Some TooLarge) c0 0 false (pdir ++ [NFile here 0]) [mkWr decl 0]  (* :448 *)
  (* :454 CopyN fails when the stream is shorter; the repaired code then requires the stream to END at sz,
     which is also where archive/zip verifies size and checksum *)
  else if negb ((sz =? act) && crc) then mkEff (Some Other) c0 0 false (pdir ++ [fnode]) w
  else if recursive lim && zn && negb (is_plain b) then                            (* :346-347 isZip(filePath): extension and content *)
    (* unzipNestedZipFiles: unzip(nested, dir/stem, limits, fileDepth+1), then Rm(nested) *)
    let r := open_archive lim (fd + 1) written (is_good b) [NDir here] (sub (fd + 1) (here + 1)) in
    match r_kind r with
    | None => mkEff None (c0 + r_cnt r) (r_tot r) true (pdir ++ r_nodes r) (w ++ r_writes r)              (* :352-354 *)
    | Some k => mkEff (Some k) c0 0 false (pdir ++ fnode :: r_nodes r) (w ++ r_writes r)                      (* :349-351 *)
    end
  else mkEff None (c0 + count1 lim zn) (to_u64 sz) true (pdir ++ [fnode]) w.                             (* :355-364 *)

Fixpoint entry_eff (lim : limits) (cur base : Z) (e : entry) {struct e} : eff :=
  match e with
  | EDir d => dir_eff lim cur base d
  | EFile d zn decl act crc op b nested =>
      file_eff lim cur base d zn decl act crc op b (fun c b' => map (entry_eff lim c b') nested)
  end.

(* VFS.UnzipWithContextAndLimits: unzip(ctx, source, destination, limits, 0) *)
Definition unzip_top (lim : limits) (asize : Z) (readable : bool) (es : list entry) : res :=
  open_archive lim 0 asize readable [] (map (entry_eff lim 0 0) es).

(* ---- observables ---- *)
Definition files_total (ns : list node) : Z :=
  fold_right (fun n acc => match n with NFile _ s => s + acc | NDir _ => acc end) 0 ns.
Definition nfiles (ns : list node) : Z :=
  fold_right (fun n acc => match n with NFile _ _ => 1 + acc | NDir _ => acc end) 0 ns.
Definition node_depth (n : node) : Z := match n with NDir d => d | NFile d _ => d end.

(* well-formed entries: sizes as the zip format can express them *)
Fixpoint wfb (e : entry) : bool :=
  match e with
  | EDir d => 0 <=? d
  | EFile d _ decl act _ _ _ nested =>
      (0 <=? d) && (0 <=? decl) && (decl <? 2 ^ 64) && (0 <=? act) && forallb wfb nested
  end.

(* ---- correspondence cases: what the harness observed on the real implementation ---- *)
Fixpoint insert (x : Z) (l : list Z) : list Z :=
  match l with
  | [] => [x]
  | y :: ys => if x <=? y then x :: l else y :: insert x ys
  end.
Definition sort (l : list Z) : list Z := fold_right insert [] l.

Definition file_keys (ns : list node) : list Z :=
  flat_map (fun n => match n with NFile d s => [d * 2 ^ 32 + s] | NDir _ => [] end) ns.
Definition max_dir_depth (ns : list node) : Z :=
  fold_right (fun n acc => match n with NDir d => Z.max d acc | NFile _ _ => acc end) (-1) ns.
Definition write_keys (ws : list wr) : list Z := map (fun w => w_written w * 2 ^ 64 + w_declared w) ws.

Fixpoint zlist_eqb (a b : list Z) : bool :=
  match a, b with
  | [], [] => true
  | x :: xs, y :: ys => (x =? y) && zlist_eqb xs ys
  | _, _ => false
  end.

Definition rk_eqb (a b : option ek) : bool :=
  match a, b with None, None | Some TooLarge, Some TooLarge | Some Other, Some Other => true | _, _ => false end.

Record case := mkCase {
  c_lim : limits;
  c_asize : Z;               (* size of the top-level archive file *)
  c_readable : bool;
  c_entries : list entry;
  c_kind : option ek;               (* kind of the returned error *)
  c_listed : Z;              (* length of the returned list *)
  c_files : list Z;          (* sorted keys depth*2^32+size of every regular file found below the destination *)
  c_maxdir : Z;              (* deepest directory below the destination, -1 if none *)
  c_writes : list Z          (* sorted keys written*2^64+declared, one per file created *)
}.

Definition check_case (c : case) : bool :=
  let r := unzip_top (c_lim c) (c_asize c) (c_readable c) (c_entries c) in
  rk_eqb (r_kind r) (c_kind c)
  && (r_cnt r =? c_listed c)
  && zlist_eqb (sort (file_keys (r_nodes r))) (c_files c)
  && (max_dir_depth (r_nodes r) =? c_maxdir c)
  && zlist_eqb (sort (write_keys (r_writes r))) (c_writes c).
