(* C03 — executable model of unzipping under resource limits.
   Mirrors utils/filesystem/zip.go (line numbers of the tree at bc1ce85a + the C03 repair):
     newZipReader :211-250, VFS.unzip :252-381, unzipNestedZipFiles :383-395, unzipZippedFile :413-478,
   utils/filesystem/limits.go (Limits) and utils/safeio/copy.go (CopyNWithContext).
   Definitions only.

   The model is PARAMETERISED by a record of [facts] that the translator translator-c03/cmd/zipfacts2coq extracts from
   the Go source on every run (coq/C03/Gen.v, [generated]): comparison operator and operands of every limit check, the
   switches on the depth limit, what is added to which counter and where, whether directory entries skip the checks,
   whether the copy is bounded by the declared size and followed by the end-of-stream probe, the depth handed to nested
   extractions, which field each getter of Limits returns, plus a canonical trace of the limit-relevant statements of
   each function in source order.  [expected] is the instance the theorems are proved for (Concrete.v is the model
   specialised to it, Bridge.v proves the specialisation, Props.v discharges [generated = expected]).

   An archive is the list of its central-directory entries.  What the code can see of an entry:
     d          number of separators in the cleaned entry name (FileTreeDepth of the entry below the destination);
     zipname    filepath.Ext(name) is one of ZipFileExtensions (isZipWithContext on a name that does not exist);
     declared   UncompressedSize64 of the header, an UNSIGNED 64-bit number; the code reads it through
                FileInfo().Size() : int64, so values >= 2^63 wrap negative ([i64]);
     actual     number of bytes the entry's stream really decodes to;
     crc_ok     archive/zip accepts the checksum at the end of the stream (it matches, or the header's CRC is 0);
     openable   zip.File.Open succeeds (the compression method is supported);
     b          what the extracted content looks like to the recursive mode: [Plain] = http.DetectContentType does not
                say zip; [BadZip] = sniffed as zip but zip.NewReader fails; [GoodZip] = an archive, whose entries are
     nested     (only meaningful for [GoodZip]);
     rm_ok      environment, not archive: removing the nested archive after it has been unzipped (fs.Rm, zip.go:390)
                succeeds; false = the back end refuses the removal (fault injection in the harness).
   Nesting is unbounded: [entry] is a nested inductive type. *)
From Coq Require Import List ZArith Bool String.
Import ListNotations.
Local Open Scope Z_scope.

(* limits.go: Limits{MaxFileSize int64, MaxTotalSize uint64, MaxFileCount int64, MaxDepth int64, Recursive} *)
Record limits := mkLim { max_file : Z; max_total : Z; max_count : Z; max_depth : Z; recursive : bool }.

(* projection of a returned error: commonerrors.ErrTooLarge / anything else; a result kind is [option ek], None = nil *)
Inductive ek := TooLarge | Other.

Inductive body := Plain | BadZip | GoodZip.

Inductive entry :=
| EDir (d : Z)
| EFile (d : Z) (zipname : bool) (declared actual : Z) (crc_ok openable : bool) (b : body) (rm_ok : bool) (nested : list entry).

(* what is on disk below the top-level destination: depth = separators in the path relative to it *)
Inductive node := NDir (depth : Z) | NFile (depth size : Z).

(* one record per file created with O_TRUNC: the size its header declares (unsigned) and the high-water mark of the
   bytes written to it (writes are sequential, so this is the size the file reached) *)
Record wr := mkWr { w_declared : Z; w_written : Z }.

Definition i64 (u : Z) : Z := if u <? 2 ^ 63 then u else u - 2 ^ 64.   (* int64(uint64) *)
Definition to_u64 (i : Z) : Z := if i <? 0 then 0 else i.              (* safecast.ToUint64(int64) *)

Definition is_plain (b : body) : bool := match b with Plain => true | _ => false end.
Definition is_good (b : body) : bool := match b with GoodZip => true | _ => false end.

(* The effect of handling ONE entry of the loop zip.go:283-372, up to (not including) the checks :366-371. *)
Record eff := mkEff {
  f_stop : option ek;     (* the entry ends the extraction with this error (`return ..., subErr`) *)
  f_cnt : Z;              (* what it adds to fileCounter (= to len(fileList)) *)
  f_tot : Z;              (* what it adds to totalSizeOnDisk *)
  f_check : bool;         (* the checks :366-371 run after it (directories `continue` at :330 before them) *)
  f_nodes : list node;    (* what it leaves on disk *)
  f_writes : list wr      (* the files it created and how far each was written *)
}.

Record res := mkRes { r_kind : option ek; r_cnt : Z; r_tot : Z; r_nodes : list node; r_writes : list wr }.


(* ======================================================================================================== *)
(* Facts extracted from the source                                                                           *)
(* ======================================================================================================== *)

Inductive cmp := CGt | CGe | CLt | CLe | CEq | CNe.
Definition cmpb (c : cmp) (a b : Z) : bool :=
  match c with
  | CGt => a >? b | CGe => b <=? a | CLt => a <? b | CLe => a <=? b | CEq => a =? b | CNe => negb (a =? b)
  end.

Inductive lfield := FMaxFileSize | FMaxTotalSize | FMaxFileCount | FMaxDepth.     (* fields of Limits *)
Inductive getter := GMaxFileSize | GMaxTotalSize | GMaxFileCount | GMaxDepth.     (* getters of ILimits *)
(* what a limit is compared with: the currentDepth parameter, fileDepth, the archive's size, the declared size of the
   entry (fileSizeOnDisk), totalSizeOnDisk.Load(), fileCounter.Load() *)
Inductive var := VCurrentDepth | VFileDepth | VArchiveSize | VFileSize | VTotal | VCount.
Record check := mkCheck { ck_lhs : var; ck_op : cmp; ck_rhs : getter }.             (* lhs OP limits.getter() *)

Record facts := mkFacts {
  (* limits.go: the field each getter returns; Apply() is the constant true; ApplyRecursively() is the Recursive field *)
  g_file : lfield; g_total : lfield; g_count : lfield; g_depth : lfield; g_apply : bool; g_recursive : bool;
  (* safeio/copy.go: CopyNWithContext is io.CopyN(dst, src, n) with n untouched *)
  cp_copyn : bool;
  (* newZipReader *)
  nz_depth_switch : cmp;                 (* limits.GetMaxDepth() OP 0 *)
  nz_depth : check; nz_size : check;
  nz_checks_before_reader : bool;        (* both checks come before zip.NewReader *)
  (* the loop of unzip *)
  lp_depth_switch : cmp;                 (* limits.GetMaxDepth() OP 0 around the depth block *)
  lp_depth_adds_current : bool;          (* fileDepth = depth + currentDepth *)
  lp_depth : check;
  lp_dir_skips_checks : bool;            (* directory entries `continue` before the total / count checks *)
  lp_nested_total_added : bool;          (* totalSizeOnDisk.Add(filesSizeOnDisk) after a nested extraction *)
  lp_nested_count_added : bool;          (* fileCounter.Add(filesOnDiskCount) after a nested extraction *)
  lp_size_added_rec : bool;              (* totalSizeOnDisk.Add(ToUint64(fileSizeOnDisk)), recursive mode, not a zip *)
  lp_size_added_flat : bool;             (* the same, non-recursive mode *)
  lp_zipname_counted : bool;             (* a zip-named entry that is no zip is counted after all *)
  lp_total : check; lp_count : check;
  lp_checks_after_additions : bool;      (* both checks come after every addition of the iteration *)
  (* unzipZippedFile *)
  zf_depth_switch : cmp; zf_depth : check;
  zf_size : check;
  zf_size_before_copy : bool;            (* the declared size is checked before anything is copied *)
  zf_bounded_copy : bool;                (* CopyNWithContext(ctx, sourceFile, destinationFile, fileSizeOnDisk), fileSizeOnDisk = info.Size() *)
  zf_eos_probe : bool;                   (* followed by the end-of-stream probe (the C03 repair) *)
  (* unzipNestedZipFiles: unzip(..., limits, currentDepth + ns_depth_inc); the error of fs.Rm(nestedZipFile) is returned *)
  ns_depth_inc : Z;
  ns_rm_error_returned : bool;
  (* every exported function / method of utils/filesystem from which unzip or newZipReader can be reached; for every
     function on such a path the calls that lead on (what is handed down as limits is part of the text); and for every
     package-level wrapper of a VFS method whether it is exactly `return globalFileSystem.<SameName>(<all parameters in order>)` *)
  ep_entry_points : list string; ep_edges : list (string * string); ep_wrappers : list (string * bool);
  (* canonical traces: the limit-relevant statements of each function in source order *)
  tr_newzipreader : list string; tr_unzip : list string; tr_nested : list string; tr_zippedfile : list string
}.

Local Open Scope string_scope.
Definition expected : facts := {|
  g_file := FMaxFileSize; g_total := FMaxTotalSize; g_count := FMaxFileCount; g_depth := FMaxDepth;
  g_apply := true; g_recursive := true;
  cp_copyn := true;
  nz_depth_switch := CGe;
  nz_depth := mkCheck VCurrentDepth CGt GMaxDepth;
  nz_size := mkCheck VArchiveSize CGt GMaxFileSize;
  nz_checks_before_reader := true;
  lp_depth_switch := CGe;
  lp_depth_adds_current := true;
  lp_depth := mkCheck VFileDepth CGt GMaxDepth;
  lp_dir_skips_checks := true;
  lp_nested_total_added := true;
  lp_nested_count_added := true;
  lp_size_added_rec := true;
  lp_size_added_flat := true;
  lp_zipname_counted := true;
  lp_total := mkCheck VTotal CGt GMaxTotalSize;
  lp_count := mkCheck VCount CGt GMaxFileCount;
  lp_checks_after_additions := true;
  zf_depth_switch := CGt;
  zf_depth := mkCheck VCurrentDepth CGt GMaxDepth;
  zf_size := mkCheck VFileSize CGt GMaxFileSize;
  zf_size_before_copy := true;
  zf_bounded_copy := true;
  zf_eos_probe := true;
  ns_depth_inc := 1%Z;
  ns_rm_error_returned := true;
  ep_entry_points := [
    "func NewZipFileSystem(FS,string,ILimits)";
    "func NewZipFileSystemFromStandardFileSystem(string,ILimits)";
    "func Unzip(string,string)";
    "func UnzipWithContextAndLimits(context.Context,string,string,ILimits)";
    "method VFS.Unzip(string,string)";
    "method VFS.UnzipWithContext(context.Context,string,string)";
    "method VFS.UnzipWithContextAndLimits(context.Context,string,string,ILimits)"
  ];
  ep_edges := [
    ("NewZipFileSystem", "newZipFSAdapterFromFilePath(fs,source,limits)");
    ("NewZipFileSystemFromStandardFileSystem", "NewZipFileSystem(NewStandardFileSystem(),source,limits)");
    ("Unzip", "globalFileSystem.Unzip(source,destination)");
    ("UnzipWithContextAndLimits", "globalFileSystem.UnzipWithContextAndLimits(ctx,source,destination,limits)");
    ("VFS.Unzip", "fs.UnzipWithContext(context.Background(),source,destination)");
    ("VFS.UnzipWithContext", "fs.unzip(ctx,source,destination,NoLimits(),0)");
    ("VFS.UnzipWithContextAndLimits", "fs.unzip(ctx,source,destination,limits,0)");
    ("VFS.unzip", "fs.unzipNestedZipFiles(ctx,filePath,limits,fileDepth)");
    ("VFS.unzip", "newZipReader(fs,source,limits,currentDepth)");
    ("VFS.unzipNestedZipFiles", "fs.unzip(ctx,nestedZipFile,destination,limits,currentDepth+1)");
    ("newZipFSAdapterFromFilePath", "newZipReader(fs,zipFilePath,limits,0)")
  ];
  ep_wrappers := [
    ("Unzip", true);
    ("UnzipWithContextAndLimits", true)
  ];
  tr_newzipreader := [
    "if apply && GMaxDepth CGe 0 && VCurrentDepth CGt GMaxDepth {";
    "refuse(TooLarge)";
    "}";
    "zipFileSize = info.Size()";
    "if apply && VArchiveSize CGt GMaxFileSize {";
    "refuse(TooLarge)";
    "}";
    "zip.NewReader(file,zipFileSize)"
  ];
  tr_unzip := [
    "fileCounter := 0";
    "totalSizeOnDisk := 0";
    "newZipReader(source,limits,currentDepth)";
    "mkdir(destination)";
    "for each entry {";
    "if apply && GMaxDepth CGe 0 {";
    "depth,subErr := FileTreeDepth(destination,filePath)";
    "fileDepth = depth+currentDepth";
    "if VFileDepth CGt GMaxDepth {";
    "refuse(TooLarge)";
    "}";
    "}";
    "if not(recursive&&zipname) {";
    "count++";
    "list += filePath";
    "}";
    "if isdir {";
    "mkdir(filePath)";
    "directoryInfo[filePath] = zippedFile.FileInfo()";
    "continue";
    "}";
    "mkdir(directoryPath)";
    "fileSizeOnDisk,subErr := unzipZippedFile(destination,filePath,zippedFile,limits,fileDepth)";
    "if recursive {";
    "if iszip(extracted) {";
    "nestedUnzippedFiles,filesOnDiskCount,filesSizeOnDisk,subErr := unzipNestedZipFiles(filePath,limits,fileDepth)";
    "total += filesSizeOnDisk";
    "count += filesOnDiskCount";
    "list += nestedUnzippedFiles";
    "} else {";
    "if zipname {";
    "count++";
    "list += filePath";
    "}";
    "total += safecast.ToUint64(fileSizeOnDisk)";
    "}";
    "} else {";
    "total += safecast.ToUint64(fileSizeOnDisk)";
    "}";
    "if apply && VTotal CGt GMaxTotalSize {";
    "refuse(TooLarge)";
    "}";
    "if apply && count-fits-int64 && VCount CGt GMaxFileCount {";
    "refuse(TooLarge)";
    "}";
    "}"
  ];
  tr_nested := [
    "nestedUnzippedFiles,fileOnDiskCount,filesSizeOnDisk,subErr := unzip(nestedZipFile,destination,limits,currentDepth+1)";
    "subErr = rm(nestedZipFile)";
    "if subErr != nil { err = wrap(subErr) }"
  ];
  tr_zippedfile := [
    "if apply && GMaxDepth CGt 0 && VCurrentDepth CGt GMaxDepth {";
    "refuse(TooLarge)";
    "}";
    "openfile(os.O_WRONLY|os.O_CREATE|os.O_TRUNC)";
    "open-zipped-stream";
    "info = zippedFile.FileInfo()";
    "fileSizeOnDisk = info.Size()";
    "if apply {";
    "if VFileSize CGt GMaxFileSize {";
    "refuse(TooLarge)";
    "}";
    "}";
    "_,err := safeio.CopyNWithContext(ctx,sourceFile,destinationFile,fileSizeOnDisk)";
    "extra,err := io.CopyN(io.Discard,sourceFile,1)";
    "if extra>0 {";
    "refuse(error)";
    "}";
    "if not-eof {";
    "refuse(error)";
    "}"
  ]
|}.
Local Close Scope string_scope.

(* ---- reading the facts ---- *)
Definition field_val (lim : limits) (f : lfield) : Z :=
  match f with FMaxFileSize => max_file lim | FMaxTotalSize => max_total lim | FMaxFileCount => max_count lim | FMaxDepth => max_depth lim end.
Definition limit_of (F : facts) (lim : limits) (g : getter) : Z :=
  field_val lim (match g with GMaxFileSize => g_file F | GMaxTotalSize => g_total F | GMaxFileCount => g_count F | GMaxDepth => g_depth F end).
Definition rec_of (F : facts) (lim : limits) : bool := g_recursive F && recursive lim.

Record env := mkEnv { v_cur : Z; v_fd : Z; v_asize : Z; v_fsize : Z; v_tot : Z; v_cnt : Z }.
Definition var_val (e : env) (v : var) : Z :=
  match v with VCurrentDepth => v_cur e | VFileDepth => v_fd e | VArchiveSize => v_asize e | VFileSize => v_fsize e
             | VTotal => v_tot e | VCount => v_cnt e end.
Definition eval_check (F : facts) (lim : limits) (c : check) (e : env) : bool :=
  cmpb (ck_op c) (var_val e (ck_lhs c)) (limit_of F lim (ck_rhs c)).
Definition switch_on (F : facts) (lim : limits) (s : cmp) : bool := cmpb s (limit_of F lim GMaxDepth) 0.

(* ======================================================================================================== *)
(* The model, parameterised by the facts                                                                     *)
(* ======================================================================================================== *)

(* the loop zip.go:283-372 over the effects of the entries, threading fileCounter / totalSizeOnDisk *)
Fixpoint runF (F : facts) (lim : limits) (effs : list eff) (cnt tot : Z) (nodes : list node) (writes : list wr) : res :=
  match effs with
  | [] => mkRes None cnt tot nodes writes                                  (* :380 *)
  | f :: fs =>
      let cnt' := cnt + f_cnt f in
      let tot' := tot + f_tot f in
      let nodes' := nodes ++ f_nodes f in
      let writes' := writes ++ f_writes f in
      match f_stop f with
      | Some k => mkRes (Some k) cnt' tot' nodes' writes'
      | None =>
          let e := if lp_checks_after_additions F then mkEnv 0 0 0 0 tot' cnt' else mkEnv 0 0 0 0 tot cnt in
          if f_check f && (g_apply F && eval_check F lim (lp_total F) e) then mkRes (Some TooLarge) cnt' tot' nodes' writes'        (* :366 *)
          else if f_check f && (g_apply F && eval_check F lim (lp_count F) e) then mkRes (Some TooLarge) cnt' tot' nodes' writes'   (* :369 *)
          else runF F lim fs cnt' tot' nodes' writes'
      end
  end.

(* newZipReader :211-250 followed by MkDir(destination) :276 and the loop, with FRESH counters (:259-262) *)
Definition open_archiveF (F : facts) (lim : limits) (cur asize : Z) (readable : bool) (destdir : list node) (effs : list eff) : res :=
  let e := mkEnv cur 0 asize 0 0 0 in
  if negb (nz_checks_before_reader F) && negb readable then mkRes (Some Other) 0 0 [] []
  else if g_apply F && (switch_on F lim (nz_depth_switch F) && eval_check F lim (nz_depth F) e) then mkRes (Some TooLarge) 0 0 [] []   (* :220 *)
  else if g_apply F && eval_check F lim (nz_size F) e then mkRes (Some TooLarge) 0 0 [] []                                             (* :241 *)
  else if negb readable then mkRes (Some Other) 0 0 [] []                                                                              (* :246 *)
  else runF F lim effs 0 0 destdir [].

(* fileDepth :302-305 *)
Definition depth_on (F : facts) (lim : limits) : bool := g_apply F && switch_on F lim (lp_depth_switch F).
Definition entry_depthF (F : facts) (lim : limits) (cur d : Z) : Z :=
  if depth_on F lim then (if lp_depth_adds_current F then d + cur else d) else 0.
Definition too_deepF (F : facts) (lim : limits) (cur fd : Z) : bool :=
  depth_on F lim && eval_check F lim (lp_depth F) (mkEnv cur fd 0 0 0 0).                          (* :303,:309 *)
Definition count0F (F : facts) (lim : limits) (zn : bool) : Z := if rec_of F lim && zn then 0 else 1.      (* :316-319 *)
Definition count1F (F : facts) (lim : limits) (zn : bool) : Z := if rec_of F lim && zn then 1 else 0.      (* :356-359 *)
Definition parent_dir (base d : Z) : list node := if 0 <? d then [NDir (base + d - 1)] else [].          (* :334-335 *)
(* :454 io.CopyN(dst, src, sz): min(sz, stream) bytes reach the file; a negative sz copies nothing *)
Definition copied (sz act : Z) : Z := if sz <? 0 then 0 else Z.min sz act.

(* a directory entry: :302-331 *)
Definition dir_effF (F : facts) (lim : limits) (cur base d : Z) : eff :=
  if too_deepF F lim cur (entry_depthF F lim cur d) then mkEff (Some TooLarge) 0 0 false [] []    (* :309 *)
  else mkEff None 1 0 (negb (lp_dir_skips_checks F)) [NDir (base + d)] [].                        (* :316-330; Ext("x.zip/") = "" *)

(* a file entry: :302-364 with unzipZippedFile and unzipNestedZipFiles inlined.  [sub c b'] are the effects of the
   entries of the nested archive when it is unzipped with currentDepth c into a destination at true depth b'. *)
Definition file_effF (F : facts) (lim : limits) (cur base d : Z) (zn : bool) (decl act : Z) (crc op : bool) (b : body)
                     (rmok : bool) (sub : Z -> Z -> list eff) : eff :=
  let fd := entry_depthF F lim cur d in
  let c0 := count0F F lim zn in
  let pdir := parent_dir base d in
  let here := base + d in
  let sz := i64 decl in                                                            (* :446 FileInfo().Size() *)
  (* what reaches the file: the bounded copy, or everything the stream holds *)
  let written := if zf_bounded_copy F && cp_copyn F then copied sz act else act in
  let w := [mkWr decl written] in
  let fnode := NFile here written in
  let ze := mkEnv fd 0 0 sz 0 0 in                                                 (* inside unzipZippedFile currentDepth = fileDepth *)
  let size_refused := g_apply F && eval_check F lim (zf_size F) ze in
  (* the copy itself fails when the stream is shorter than asked for; reading to the end makes archive/zip verify size and checksum *)
  let copy_fails := if zf_bounded_copy F && cp_copyn F then (0 <=? sz) && (act <? sz) else negb ((sz =? act) && crc) in
  if too_deepF F lim cur fd then mkEff (Some TooLarge) 0 0 false [] []             (* :309 *)
  (* unzipZippedFile *)
  else if g_apply F && (switch_on F lim (zf_depth_switch F) && eval_check F lim (zf_depth F) ze)
       then mkEff (Some TooLarge) c0 0 false pdir []                               (* :419, unreachable *)
  else if negb op then mkEff (Some Other) c0 0 false (pdir ++ [NFile here 0]) [mkWr decl 0]              (* :429 creates, :437 fails *)
  else if zf_size_before_copy F && size_refused then mkEff (Some TooLarge) c0 0 false (pdir ++ [NFile here 0]) [mkWr decl 0]  (* :448 *)
  else if negb (zf_size_before_copy F) && size_refused then mkEff (Some TooLarge) c0 0 false (pdir ++ [fnode]) w
  (* :454 CopyN fails when the stream is shorter; the repaired code then requires the stream to END at sz *)
  else if (if zf_eos_probe F then negb ((sz =? act) && crc) else copy_fails) then mkEff (Some Other) c0 0 false (pdir ++ [fnode]) w
  else if rec_of F lim && zn && negb (is_plain b) then                             (* :346-347 isZip(filePath): extension and content *)
    (* unzipNestedZipFiles: unzip(nested, dir/stem, limits, fileDepth+1), then Rm(nested) *)
    let r := open_archiveF F lim (fd + ns_depth_inc F) written (is_good b) [NDir here] (sub (fd + ns_depth_inc F) (here + 1)) in
    match r_kind r with
    | None =>
        let c := c0 + (if lp_nested_count_added F then r_cnt r else 0) in
        let t := if lp_nested_total_added F then r_tot r else 0 in
        if rmok then mkEff None c t true (pdir ++ r_nodes r) (w ++ r_writes r)                                         (* :352-354 *)
        (* fs.Rm(nestedZipFile) fails: the archive stays on disk; the error is returned (:390-393) — or dropped *)
        else if ns_rm_error_returned F then mkEff (Some Other) c0 0 false (pdir ++ fnode :: r_nodes r) (w ++ r_writes r)
        else mkEff None c t true (pdir ++ fnode :: r_nodes r) (w ++ r_writes r)
    | Some k => mkEff (Some k) c0 0 false (pdir ++ fnode :: r_nodes r) (w ++ r_writes r)                               (* :349-351 *)
    end
  else mkEff None (c0 + (if lp_zipname_counted F then count1F F lim zn else 0))
                  (if rec_of F lim then (if lp_size_added_rec F then to_u64 sz else 0)
                                   else (if lp_size_added_flat F then to_u64 sz else 0))
                  true (pdir ++ [fnode]) w.                                                                            (* :355-364 *)

Fixpoint entry_effF (F : facts) (lim : limits) (cur base : Z) (e : entry) {struct e} : eff :=
  match e with
  | EDir d => dir_effF F lim cur base d
  | EFile d zn decl act crc op b rmok nested =>
      file_effF F lim cur base d zn decl act crc op b rmok (fun c b' => map (entry_effF F lim c b') nested)
  end.

(* VFS.UnzipWithContextAndLimits: unzip(ctx, source, destination, limits, 0) *)
Definition unzip_topF (F : facts) (lim : limits) (asize : Z) (readable : bool) (es : list entry) : res :=
  open_archiveF F lim 0 asize readable [] (map (entry_effF F lim 0 0) es).

(* ---- observables ---- *)
Definition files_total (ns : list node) : Z :=
  fold_right (fun n acc => match n with NFile _ s => s + acc | NDir _ => acc end) 0 ns.
Definition nfiles (ns : list node) : Z :=
  fold_right (fun n acc => match n with NFile _ _ => 1 + acc | NDir _ => acc end) 0 ns.
Definition node_depth (n : node) : Z := match n with NDir d => d | NFile d _ => d end.

(* well-formed entries: sizes as the zip format can express them *)
Fixpoint wfb (e : entry) : bool :=
  match e with
  | EDir d => 0 <=? d
  | EFile d _ decl act _ _ _ _ nested =>
      (0 <=? d) && (0 <=? decl) && (decl <? 2 ^ 64) && (0 <=? act) && forallb wfb nested
  end.

(* ---- correspondence cases: what the harness observed on the real implementation ---- *)
Fixpoint insert (x : Z) (l : list Z) : list Z :=
  match l with
  | [] => [x]
  | y :: ys => if x <=? y then x :: l else y :: insert x ys
  end.
Definition sort (l : list Z) : list Z := fold_right insert [] l.

Definition file_keys (ns : list node) : list Z :=
  flat_map (fun n => match n with NFile d s => [d * 2 ^ 32 + s] | NDir _ => [] end) ns.
Definition max_dir_depth (ns : list node) : Z :=
  fold_right (fun n acc => match n with NDir d => Z.max d acc | NFile _ _ => acc end) (-1) ns.
Definition write_keys (ws : list wr) : list Z := map (fun w => w_written w * 2 ^ 64 + w_declared w) ws.

Fixpoint zlist_eqb (a b : list Z) : bool :=
  match a, b with
  | [], [] => true
  | x :: xs, y :: ys => (x =? y) && zlist_eqb xs ys
  | _, _ => false
  end.

Definition rk_eqb (a b : option ek) : bool :=
  match a, b with None, None | Some TooLarge, Some TooLarge | Some Other, Some Other => true | _, _ => false end.

Record case := mkCase {
  c_lim : limits;
  c_asize : Z;               (* size of the top-level archive file *)
  c_readable : bool;
  c_entries : list entry;
  c_kind : option ek;               (* kind of the returned error *)
  c_listed : Z;              (* length of the returned list *)
  c_files : list Z;          (* sorted keys depth*2^32+size of every regular file found below the destination *)
  c_maxdir : Z;              (* deepest directory below the destination, -1 if none *)
  c_writes : list Z          (* sorted keys written*2^64+declared, one per file created *)
}.

(* the harness instantiates F with [generated] (coq/C03/Gen.v) *)
Definition check_caseF (F : facts) (c : case) : bool :=
  let r := unzip_topF F (c_lim c) (c_asize c) (c_readable c) (c_entries c) in
  rk_eqb (r_kind r) (c_kind c)
  && (r_cnt r =? c_listed c)
  && zlist_eqb (sort (file_keys (r_nodes r))) (c_files c)
  && (max_dir_depth (r_nodes r) =? c_maxdir c)
  && zlist_eqb (sort (write_keys (r_writes r))) (c_writes c).
