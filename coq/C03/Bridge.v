(* C03 — the parameterised model of Model.v, instantiated with the [expected] facts, IS the specialised model of
   Concrete.v (about which Proofs.v speaks).  The non-recursive pieces agree by computation; the loop and the nesting by
   induction. *)
From Coq Require Import List ZArith Bool Lia.
Import ListNotations.
From GU Require Import C03.Model C03.Concrete C03.Proofs.
Local Open Scope Z_scope.

Lemma runF_expected lim effs : forall cnt tot ns ws,
  runF expected lim effs cnt tot ns ws = run lim effs cnt tot ns ws.
Proof.
  induction effs as [|f fs IH]; intros cnt tot ns ws; [reflexivity|].
  cbn [runF run]. rewrite IH. reflexivity.
Qed.

Lemma open_archiveF_expected lim cur asize rd dd effs :
  open_archiveF expected lim cur asize rd dd effs = open_archive lim cur asize rd dd effs.
Proof. unfold open_archiveF, open_archive. rewrite runF_expected. reflexivity. Qed.

Lemma dir_effF_expected lim cur base d : dir_effF expected lim cur base d = dir_eff lim cur base d.
Proof. reflexivity. Qed.

Lemma file_effF_expected lim cur base d zn decl act crc op b rmok sub :
  file_effF expected lim cur base d zn decl act crc op b rmok sub = file_eff lim cur base d zn decl act crc op b rmok sub.
Proof.
  unfold file_effF, file_eff. cbv zeta. rewrite open_archiveF_expected. reflexivity.
Qed.

Lemma file_eff_ext lim cur base d zn decl act crc op b rmok sub1 sub2 :
  (forall c b', sub1 c b' = sub2 c b') ->
  file_eff lim cur base d zn decl act crc op b rmok sub1 = file_eff lim cur base d zn decl act crc op b rmok sub2.
Proof. intros H. unfold file_eff. rewrite H. reflexivity. Qed.

Lemma map_ext_Forall {A B} (f g : A -> B) l : Forall (fun x => f x = g x) l -> map f l = map g l.
Proof. induction 1; simpl; congruence. Qed.

Lemma entry_effF_expected lim e : forall cur base, entry_effF expected lim cur base e = entry_eff lim cur base e.
Proof.
  induction e as [d|d zn decl act crc op b rmok nested IH] using entry_ind'; intros cur base; simpl.
  - apply dir_effF_expected.
  - rewrite file_effF_expected. apply file_eff_ext. intros c b'. apply map_ext_Forall.
    eapply Forall_impl; [|exact IH]. intros e He. apply He.
Qed.

Theorem unzip_topF_expected lim asize rd es : unzip_topF expected lim asize rd es = unzip_top lim asize rd es.
Proof.
  unfold unzip_topF, unzip_top. rewrite open_archiveF_expected. f_equal.
  apply map_ext_Forall. apply Forall_forall. intros e _. apply entry_effF_expected.
Qed.
