(* C03 — the model of Model.v SPECIALISED to the [expected] facts: what the parameterised definitions reduce to when
   every extracted fact has its expected value.  Definitions only.  Bridge.v proves [unzip_topF expected = unzip_top];
   Proofs.v proves the properties of these definitions. *)
From Coq Require Import List ZArith Bool.
Import ListNotations.
From GU Require Import C03.Model.
Local Open Scope Z_scope.

(* the loop zip.go:283-372 over the effects of the entries, threading fileCounter / totalSizeOnDisk *)
Fixpoint run (lim : limits) (effs : list eff) (cnt tot : Z) (nodes : list node) (writes : list wr) : res :=
  match effs with
  | [] => mkRes None cnt tot nodes writes                                   (* :380 *)
  | f :: fs =>
      let cnt' := cnt + f_cnt f in
      let tot' := tot + f_tot f in
      let nodes' := nodes ++ f_nodes f in
      let writes' := writes ++ f_writes f in
      match f_stop f with
      | Some k => mkRes (Some k) cnt' tot' nodes' writes'
      | None =>
          if f_check f && (tot' >? max_total lim) then mkRes (Some TooLarge) cnt' tot' nodes' writes'        (* :366 *)
          else if f_check f && (cnt' >? max_count lim) then mkRes (Some TooLarge) cnt' tot' nodes' writes'   (* :369 *)
          else run lim fs cnt' tot' nodes' writes'
      end
  end.

(* newZipReader :211-250 followed by MkDir(destination) :276 and the loop, with FRESH counters (:259-262).
   [cur] = currentDepth, [asize] = size of the archive file, [readable] = zip.NewReader succeeds,
   [destdir] = the destination directory when it lies below the top-level destination. *)
Definition open_archive (lim : limits) (cur asize : Z) (readable : bool) (destdir : list node) (effs : list eff) : res :=
  if (0 <=? max_depth lim) && (cur >? max_depth lim) then mkRes (Some TooLarge) 0 0 [] []   (* :220 *)
  else if asize >? max_file lim then mkRes (Some TooLarge) 0 0 [] []                         (* :241 *)
  else if negb readable then mkRes (Some Other) 0 0 [] []                                    (* :246 *)
  else run lim effs 0 0 destdir [].

(* One iteration of the loop.  [cur] is the code's currentDepth (it degenerates when the depth limit is disabled, as
   in the code: fileDepth stays 0); [base] is the true depth of the destination below the top-level destination. *)

(* fileDepth :302-305: only computed when the depth limit is enabled *)
Definition entry_depth (lim : limits) (cur d : Z) : Z := if 0 <=? max_depth lim then d + cur else 0.
Definition too_deep (lim : limits) (fd : Z) : bool := (0 <=? max_depth lim) && (fd >? max_depth lim).   (* :303,:309 *)
(* :316-319: the entry is recorded now unless it is a zip (by name) that the recursive mode will unzip later *)
Definition count0 (lim : limits) (zn : bool) : Z := if recursive lim && zn then 0 else 1.
(* :356-359: a zip-named entry that turned out not to be a zip is recorded after all *)
Definition count1 (lim : limits) (zn : bool) : Z := if recursive lim && zn then 1 else 0.

(* a directory entry: :302-331 *)
Definition dir_eff (lim : limits) (cur base d : Z) : eff :=
  if too_deep lim (entry_depth lim cur d) then mkEff (Some TooLarge) 0 0 false [] []  (* :309 *)
  else mkEff None 1 0 false [NDir (base + d)] [].                                      (* :316-330; Ext("x.zip/") = "" *)

(* a file entry: :302-364 with unzipZippedFile and unzipNestedZipFiles inlined.  [sub c b'] are the effects of the
   entries of the nested archive when it is unzipped with currentDepth c into a destination at true depth b'. *)
Definition file_eff (lim : limits) (cur base d : Z) (zn : bool) (decl act : Z) (crc op : bool) (b : body)
                    (rmok : bool) (sub : Z -> Z -> list eff) : eff :=
  let fd := entry_depth lim cur d in
  let c0 := count0 lim zn in
  let pdir := parent_dir base d in
  let here := base + d in
  let sz := i64 decl in                                                            (* :446 FileInfo().Size() *)
  let written := copied sz act in
  let w := [mkWr decl written] in
  let fnode := NFile here written in
  if too_deep lim fd then mkEff (Some TooLarge) 0 0 false [] []                   (* :309 *)
  (* unzipZippedFile *)
  else if (max_depth lim >? 0) && (fd >? max_depth lim) then mkEff (Some TooLarge) c0 0 false pdir []   (* :419, unreachable *)
  else if negb op then mkEff (Some Other) c0 0 false (pdir ++ [NFile here 0]) [mkWr decl 0]            (* :429 creates, :437 fails *)
  else if sz >? max_file lim then mkEff (Some TooLarge) c0 0 false (pdir ++ [NFile here 0]) [mkWr decl 0]  (* :448 *)
  (* :454 CopyN fails when the stream is shorter; the repaired code then requires the stream to END at sz,
     which is also where archive/zip verifies size and checksum *)
  else if negb ((sz =? act) && crc) then mkEff (Some Other) c0 0 false (pdir ++ [fnode]) w
  else if recursive lim && zn && negb (is_plain b) then                            (* :346-347 isZip(filePath): extension and content *)
    (* unzipNestedZipFiles: unzip(nested, dir/stem, limits, fileDepth+1), then Rm(nested) *)
    let r := open_archive lim (fd + 1) written (is_good b) [NDir here] (sub (fd + 1) (here + 1)) in
    match r_kind r with
    | None =>
        if rmok then mkEff None (c0 + r_cnt r) (r_tot r) true (pdir ++ r_nodes r) (w ++ r_writes r)       (* :352-354 *)
        else mkEff (Some Other) c0 0 false (pdir ++ fnode :: r_nodes r) (w ++ r_writes r)                 (* :390-393 Rm fails *)
    | Some k => mkEff (Some k) c0 0 false (pdir ++ fnode :: r_nodes r) (w ++ r_writes r)                      (* :349-351 *)
    end
  else mkEff None (c0 + count1 lim zn) (if recursive lim then to_u64 sz else to_u64 sz) true (pdir ++ [fnode]) w.                             (* :355-364 *)

Fixpoint entry_eff (lim : limits) (cur base : Z) (e : entry) {struct e} : eff :=
  match e with
  | EDir d => dir_eff lim cur base d
  | EFile d zn decl act crc op b rmok nested =>
      file_eff lim cur base d zn decl act crc op b rmok (fun c b' => map (entry_eff lim c b') nested)
  end.

(* VFS.UnzipWithContextAndLimits: unzip(ctx, source, destination, limits, 0) *)
Definition unzip_top (lim : limits) (asize : Z) (readable : bool) (es : list entry) : res :=
  open_archive lim 0 asize readable [] (map (entry_eff lim 0 0) es).

